#!/usr/bin/env python3
"""C06 — values and metadata read back exactly as written, wherever they are stored.
spec : specs/kv/Threshold.tla  DecisionConsistent, DecisionByCache, CacheStable (the value-log
       decision of valueLog.write equals the one of writeToLSM although the dynamic threshold changes
       asynchronously: Entry.valThreshold caches it); specs/kv/BadgerKV.tla read results carry value,
       user meta, expiry, version, discard flag
MC   : Threshold exhaustive (all interleavings of threshold updates with the three decision sites,
       entries with and without the Estimate step); with the cache removed (Cached = FALSE) TLC must
       find the inconsistency (non-vacuity of the model)
bind : (R) TLC-generated histories shaped for many writes, value sizes straddling the static
       threshold (31/32/33 bytes around 32) and the bucket bounds of the dynamic VLogPercentile
       threshold, every value read back through Get + Item.Value + Item.ValueCopy and through
       iteration with prefetch off / PrefetchSize 1, before and after flush, compaction, GC, re-open;
       (T) the recorded decision events (hooks threshold.update, vlog.decide, mem.put + the stored
       form of each entry observed after the commit) are validated by TLC against ThresholdTrace."""
import os, sys, glob
sys.path.insert(0, os.path.dirname(os.path.abspath(__file__)))
import lib_kv as K
import vlib


def threshold_mc(c, q):
    d = vlib.stage_specs(["kv"])
    consts = dict(Entries="{1, 2}" if q else "{1, 2, 3}", Sizes="{1, 3, 5}", Thresholds="{2, 4, 6}", T0="4", Cached="TRUE")
    K.write_model(d, "ThrMC", "Threshold", consts, "Spec", ["TypeOK", "DecisionConsistent", "DecisionByCache"], ["CacheStable"])
    res = vlib.run_tlc(d, "ThrMC", "ThrMC.cfg", timeout=2400, workers=8, coverage=True)
    c.add_tlc("threshold-cached", res)
    vlib.require_tlc_ok(res, "Threshold")
    if res.coverage_zero:
        raise vlib.Inconclusive("Threshold: actions never taken: %s" % res.coverage_zero)
    # the same model without the per-entry cache must violate DecisionConsistent
    K.write_model(d, "ThrNC", "Threshold", dict(consts, Entries="{1}", Cached="FALSE"), "Spec", ["DecisionConsistent"])
    r2 = vlib.run_tlc(d, "ThrNC", "ThrNC.cfg", timeout=1200, workers=4)
    c.cov["tlc_runs"].append({"config": "threshold-without-cache (expected counterexample)", "violation": r2.violation,
                              "distinct_states": r2.distinct, "wall_s": round(r2.wall, 1)})
    if r2.violation != "DecisionConsistent":
        raise vlib.Inconclusive("Threshold model is vacuous: removing the cache does not break DecisionConsistent (%s)" % r2.violation)


def body(c):
    q = c.quick
    threshold_mc(c, q)
    tab = K.key_table(c.seed)
    sim = K.hist_consts(tab, UMs="{0, 7}", Exps="{0, 3}", Discs="{FALSE, TRUE}", MaxNow="3", HistLen="40", MaxOps="6",
                        MaxActive="2", WriteWeight="4", WriteKeys="1..5", SeekKeys="1..6",
                        IterOptList=K.tla_seq([K.tla_opts(), K.tla_opts(rev=True), K.tla_opts(all=True)]),
                        ScanVias='{"iter"}', EnvSteps=K.tla_set(["flush", "compactL0", "compactDown", "gc", "reopen"]))
    n = 400 if q else 3000
    sims = K.generate(c, "sim-many-writes", sim, n, 40, c.seed, workers=8 if q else 12, timeout=1800)
    hist = K.op_histogram(sims)
    c.cov["generated_op_histogram"] = hist
    nset = hist.get("set", 0)
    if nset < 4 * len(sims):
        raise vlib.Inconclusive("generator shaping lost: %d sets in %d histories" % (nset, len(sims)))
    attrs = {"um": 0, "exp": 0, "disc": 0}
    for h in sims:
        for s in h:
            if s["op"] == "set":
                attrs["um"] += s["um"] != 0
                attrs["exp"] += s["exp"] != 0
                attrs["disc"] += bool(s["disc"])
    c.cov["sets_with_attributes"] = attrs
    d = vlib.scratch("thrtrace-")
    # thrup = thr, but the first re-open raises ValueThreshold from 32 to 512 (values written to the
    # value log before must survive GC and read back although they are now below the threshold)
    runs = [("thrup", ["-prefetch", "off"]), ("vlogpct", ["-prefetch", "on", "-psize", "1"])]
    if not q:
        runs += [("thr", ["-prefetch", "on", "-psize", "100"]), ("thrup+zstd", ["-prefetch", "on", "-psize", "2"]), ("vlogpct", ["-prefetch", "off"]), ("thr+enc", []),
                 ("vlogpct+zstd", ["-prefetch", "on", "-psize", "2"]), ("default", []), ("inmem", [])]
    stats = {}
    total_lines = 0
    for i, (conf, fl) in enumerate(runs):
        tr = os.path.join(d, "t%d" % i)
        K.replay(c, sims, conf, c.seed, "sim-many-writes", keys=tab, flags=fl + ["-trace", tr], collect=stats)
        if conf == "inmem":
            continue
        nl, segs, puts, rej = K.validate_threshold_trace(c, sorted(glob.glob(tr + ".*")), conf)
        total_lines += nl
        if rej is not None:
            # a real trace the specification rejects: a decision inconsistent with its logged inputs
            c.violation("kv:threshold.traceRejected config=%s" % conf, {"line": rej[0], "event": rej[1]},
                        {"config": conf, "seed": c.seed, "note": "re-run the check; trace files are scratch"})
    c.cov["observations_compared"] = {k: v for k, v in stats.items() if k in ("get", "iter", "scan:iter", "commit:ok")}
    c.cov["decision_trace_lines_validated"] = total_lines
    c.cov["vlog_decide_events_validated"] = sum(r.get("vlog_decide_events", 0) for r in c.cov["tlc_runs"])
    thr_updates = [r for r in c.cov["tlc_runs"] if r.get("mode") == "trace-validation"]
    c.add_cases(len(sims) * len(runs), set(K.hist_key(h) for h in sims if K.nontrivial(h, ["commit:ok"])),
                traces=len(sims) * len(runs))
    c.cov["rule"] = ("histories are behaviours of BadgerKVGen (TLC -simulate, length 40, shaped for writes: %d Sets in %d "
                     "histories); value size = f(value id) from the size class tables of kvreplay (thr: 8/31/32/33/200 "
                     "bytes around ValueThreshold 32; vlogpct: 14 sizes on both sides of the histogram bucket bounds); "
                     "non-trivial = at least one successful commit; each history is replayed per configuration and its "
                     "decision trace validated against ThresholdTrace" % (nset, len(sims)))
    c.cov["exhaustive"] = False
    for h in sims[:2]:
        c.sample(K.short(h, 25))
    c.assumptions += ["the decision taken inside valueLog.write is logged by the hook vlog.decide (fixes/hook_kv.diff, applied): "
                      "every mem.put is checked against the decide of the same entry (same cached threshold, same decision); "
                      "on a tree without that hook the trace check falls back to comparing the writeToLSM decision with "
                      "the stored form of the entry",
                      "threshold.update events are asynchronous: a put may cache a value whose update event is logged "
                      "later, so the trace specification accepts any threshold value of the same case segment"]


vlib.main("C06", "model_checking", body)
