#!/usr/bin/env python3
"""C19 — bloom filters never hide a key that is present.
spec : specs/ds/Bloom.tla: build and query use the same probe positions pos(h, j, nBits);
       NoFalseNegative, BitsInRange, Shape (k and nBits survive the encoding), BitsNecessary
MC   : TLC proves NoFalseNegative exhaustively for the reduced word size (6-bit hashes, every
       multiset of up to 2-3 hashes, bits-per-key settings covering the k = 1 and k = 30 clamps;
       minimum filter size reduced to 8 bits so that the modulo wraps)
bind : (R) the same module evaluated at the real word size (32 bit, as two 16-bit halves) predicts,
       for boundary hash classes, multisets, long hash lists and bits-per-key classes, the whole
       filter: length, k, every bit, and MayContain for members and for non-member probes; the
       harness builds the real filter (y.NewFilter) and compares bit for bit, and checks that
       clearing any set bit makes the real MayContain deny a member.  Table level: every table of
       a TableOpsGen run is built with a bloom filter (fp 0.01 / 0.5 / 0.999 / 1e-9) and
       Table.DoesNotHave must be false for every key added.
level: exploration.  The universal claim over all 2^32 hashes is not decided by TLC; it rests on
       the sampled equivalence  code == pos  at 32 bits."""
import os, sys
sys.path.insert(0, os.path.dirname(os.path.abspath(__file__)))
import lib_ds as D
import vlib


def body(c):
    if D.handle_replay(c):
        return
    q = c.quick
    D.model_check(c, "Bloom-6bit", "Bloom_MC",
                  D.cfg_text("Spec", {"B": 8, "MinBits": 8, "MaxKeys": 2, "BPKs": {0, 5, 44} if q else {0, 1, 5, 10, 22, 44, 100}},
                             ["NFN", "InRange", "Shape"] + ([] if q else ["Necessary"])), timeout=900)
    if not q:
        D.model_check(c, "Bloom-6bit-3keys", "Bloom_MC",
                      D.cfg_text("Spec", {"B": 8, "MinBits": 8, "MaxKeys": 3, "BPKs": {10}}, ["NFN", "InRange", "Shape"]), timeout=1100)
        D.model_check(c, "Bloom-closed-form", "Bloom_MC",
                      D.cfg_text("Spec", {"B": 8, "MinBits": 8, "MaxKeys": 1, "BPKs": {1}}, ["AddMulIsLoop"]), timeout=600)
    gen = {"B": 65536, "MinBits": 64, "MaxN": 2 if q else 3, "BPKs": {0, 1, 3, 10, 43, 44, 100} if q else {0, 1, 2, 3, 10, 22, 43, 44, 45, 100},
           "LongNs": {10, 100} if q else {10, 100, 1000}}
    cases = D.generate(c, "bloom-32bit", "BloomGen", D.cfg_text("Spec", gen, ["AllMembers", "Emit"]), timeout=900, count_states=False)
    _, st, ev = D.replay(c, "bloom", cases, "bloom-32bit", c.seed, timeout=600)
    # table level: DoesNotHave for every key of every table
    big = dict(NKeys=5, NVers=3, MaxEntries=12, MaxTables=4, OpLen=3, Dirs={False}, Shaped=True, Incremental=True)
    sim = D.generate(c, "tables-5x3", "TableOpsGen", D.cfg_text("GenSpec", big, ["Emit"]), simulate=300 if q else 4000,
                     depth=30, seed=c.seed, timeout=600)
    groups = D.group_by(sim, ["tabs", "meta"], lambda x: {"rev": x["rev"], "ops": x["ops"]})
    _, st2, ev2 = D.replay(c, "table", groups, "tables-with-bloom", c.seed, variants=2 if q else 4, extra=["-bloom"], timeout=900)
    nontrivial = [x for x in cases if len(x["hs"]) >= 2 or x["bpk"] >= 10]
    keys = set(D.json.dumps([x["hs"][:50], len(x["hs"]), x["bpk"]]) for x in nontrivial)
    keys |= set("T" + D.json.dumps(g["tabs"]) for g in groups if sum(len(t) for t in g["tabs"]) >= 2)
    c.add_cases(ev + ev2, keys)
    c.cov["filters"] = {"filters_compared_bit_for_bit": len(cases), "bits_set_total": st.get("bits_set", 0),
                        "predicted_false_positives_confirmed": st.get("predicted_false_positive", 0),
                        "k_values": sorted(set(x["k"] for x in cases)), "filter_bytes": sorted(set(x["nbytes"] for x in cases)),
                        "tables_with_bloom": st2.get("tables_with_bloom", 0), "present_keys_checked_DoesNotHave": st2.get("doesnothave_checked", 0)}
    c.cov["rule"] = ("filter cases are the states of BloomGen (TLC, exhaustive): multisets of up to %d of 11 boundary 32-bit hashes, generated "
                     "lists of %s hashes, bits-per-key in %s (and -1); for each the specification predicts length, k, every bit and "
                     "MayContain of 5 probes. Table cases: levels from a seeded TableOpsGen simulation built with bloom filters. evaluations = "
                     "comparisons with the prediction. A filter case is non-trivial with >= 2 hashes or bits-per-key >= 10, a table case with "
                     ">= 2 entries; distinct = distinct (hashes, bits-per-key) / levels." % (gen["MaxN"], sorted(gen["LongNs"]), sorted(gen["BPKs"])))
    c.cov["exhaustive"] = False
    for x in [x for x in cases if len(x["hs"]) == 2 and x["bpk"] == 10][:2]:
        c.sample({"hashes_hi_lo": x["hs"], "bits_per_key": x["bpk"], "spec_k": x["k"], "spec_filter_bytes": x["nbytes"], "spec_bits_set": x["bits"],
                  "spec_probes": x["probes"]})
    c.assumptions += [
        "NoFalseNegative for all 2^32 hashes is not decided by TLC: TLC proves it for 6-bit hashes and the replay shows, on boundary "
        "classes, that the real code computes the specified positions at 32 bits",
        "k = floor(bitsPerKey * 0.69) is modelled as (bitsPerKey * 69) div 100 (equal for every bitsPerKey that does not hit the k <= 30 clamp)",
        "Bloom-based table skipping inside DB.Get / key iterators (level_handler.go, iterator.go) calls Table.DoesNotHave; the DB-level "
        "effect is covered by the kv-family replays, not here",
    ]


vlib.main("C19", "exploration", body)
