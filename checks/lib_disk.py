"""Disk family (C08, C09, C10, C17, C29; sub-checks for C11, C14): specs/disk/*.tla,
harness/cmd/crashfs (E-CRASH), cmd/disktorn (C09), cmd/diskmanifest (C17).

The TLA+ side predicts (DiskGen attaches to every operation of a generated workload the
visible state DiskDefs computes; for a drop the set DropStates of states allowed while it is
unfinished); the Go side only observes re-opened crash images; this module compares."""
import json, os, re, subprocess, sys, time, random, concurrent.futures as cf
sys.path.insert(0, os.path.join(os.path.dirname(os.path.abspath(__file__)), "..", "tools"))
import vlib
from vlib import Inconclusive, log

# ------------------------------------------------------------------------------- TLC helpers
MC_BASE = dict(Keys="{1, 2}", MaxCommits=2, SyncWrites="FALSE", BigVals="{FALSE, TRUE}", Dels="{FALSE}",
               MaxRotate=1, MaxCompact=1, MaxGC=0, MaxDropAll=0, MaxDropPrefix=0, MaxClose=0, MaxCrash=1,
               CrashKinds='{"kill"}', VlogMaxEntries=1, RewriteDel=10, RewriteRatio=10,
               ContinueAfterCrash="FALSE", DirSyncOnCreate="TRUE", DropFlushFirst="TRUE", ZeroLenLogOK="TRUE",
               GCSafe="TRUE")
INV_ALL = ["TypeOK", "OpensWithoutError", "PrefixRecovered", "NoPartialTxn", "DropAtomicity",
           "ManifestMatchesDisk", "NextTsAboveAll", "KillSafeManifest"]
POWER_KINDS = '{"power", "power-empty", "power-content", "power-wal", "power-vlog"}'


def write_cfg(path, spec, consts, invariants=(), subst=(), constraint=None, extra=""):
    with open(path, "w") as f:
        f.write("SPECIFICATION %s\nCONSTANTS\n" % spec)
        for k, v in subst:
            f.write("  %s <- %s\n" % (k, v))
        for k, v in consts.items():
            f.write("  %s = %s\n" % (k, v))
        if invariants:
            f.write("INVARIANTS %s\n" % " ".join(invariants))
        if constraint:
            f.write("CONSTRAINT %s\n" % constraint)
        f.write(extra)


def disk_mc(c, name, invariants=INV_ALL, keysets="MCKeySets1", timeout=900, workers=None, expect_violation=None,
            coverage=False, **over):
    """Exhaustive TLC on Disk. With expect_violation=<invariant> the configuration models the code
    as it is (a switch off) and TLC must produce the counterexample (design-level evidence that the
    spec distinguishes intended and actual protocol); nothing about the code is concluded from it."""
    consts = dict(MC_BASE)
    consts.update(over)
    if expect_violation:
        invariants = [expect_violation]      # several may fail; which one TLC reports first is not deterministic
    d = vlib.stage_specs(["disk"])
    write_cfg(os.path.join(d, "mc.cfg"), "Spec", consts, invariants,
              subst=[("GroupOf", "MCGroupOf"), ("Groups", "MCGroups"), ("KeySets", keysets)])
    res = vlib.run_tlc(d, "Disk_MC", "mc.cfg", timeout=timeout, workers=workers, coverage=coverage)
    if expect_violation:
        c.cov["tlc_runs"].append({"config": name, "expected_counterexample": expect_violation,
                                  "found": res.violation, "distinct_states": res.distinct,
                                  "states_generated": res.generated, "wall_s": round(res.wall, 1)})
        if res.violation != expect_violation:
            raise Inconclusive("Disk/%s: expected TLC to violate %s for the code-as-is switch, got %s\n%s" % (
                name, expect_violation, res.violation or ("ok" if res.ok else "error"), res.error_trace[:1500]))
        return res
    c.add_tlc(name, res)
    vlib.require_tlc_ok(res, "Disk/" + name)
    return res


GEN_BASE = dict(NKeys=4, HistLen=12, SyncModes="{FALSE, TRUE}",
                KeySets="{{1}, {2}, {3}, {1, 3}, {1, 2}, {2, 3, 4}}", Styles="{1, 2, 3, 4}",
                EnvOps='{"rotate", "flush", "compactL0", "gc", "reopen"}', Drops='{"dropAll", "dropPrefix"}',
                DropAt=0, Races="{}", MultiAt=0, MultiN=0, MaxEnv=6, MaxRow=2, VlogMaxEntries=2)


def generate(c, name, n, seed, workers=4, timeout=300, exhaustive=False, invariants=("Emit",), **over):
    consts = dict(GEN_BASE)
    consts.update(over)
    d = vlib.stage_specs(["disk"])
    write_cfg(os.path.join(d, "gen.cfg"), "GenSpec", consts, list(invariants))
    hl = int(consts["HistLen"])
    if exhaustive:
        res = vlib.run_tlc(d, "DiskGen", "gen.cfg", timeout=timeout, workers=workers)
    else:
        res = vlib.run_tlc(d, "DiskGen", "gen.cfg", timeout=timeout, workers=workers,
                           simulate=max(1, (n + workers - 1) // workers), depth=hl + 1, seed=seed)
    if res.violation or not res.ok:
        raise Inconclusive("DiskGen %s failed: %s %s" % (name, res.violation, res.error_trace[:2000]))
    cases = res.cases
    # deterministic order and de-duplication
    seen, out = set(), []
    for h in cases:
        k = json.dumps(h, sort_keys=True)
        if k not in seen:
            seen.add(k)
            out.append(h)
    out.sort(key=lambda h: json.dumps(h, sort_keys=True))
    if not exhaustive:
        random.Random(seed).shuffle(out)
        out = out[:n]
    c.cov["tlc_runs"].append({"config": "gen:" + name, "mode": "exhaustive" if exhaustive else "simulate",
                              "cases": len(out), "states_generated": res.generated,
                              "distinct_states": res.distinct, "wall_s": round(res.wall, 1)})
    if exhaustive:
        c.cov["states"] += res.distinct
        c.cov["transitions"] += res.generated
    if not out and "Emit" in invariants:
        raise Inconclusive("DiskGen %s produced no workloads" % name)
    return out


def features(case):
    fs = set()
    for o in case["ops"]:
        fs.add(o["op"])
        for w in list(o.get("w", [])) + [x for t in o.get("txs", []) for x in t]:
            fs.add("write:" + ("del" if w["del"] else "big" if w["big"] else "small"))
    return fs


def select_covering(cases, n, needs, seed):
    """Pick n workloads from a larger generated pool such that every needed operation kind occurs
    (greedy cover first, then the pool order, which is already seeded-random)."""
    pool = list(cases)
    pick, missing = [], set(needs)
    while missing and pool and len(pick) < n:
        best = max(pool, key=lambda cs: len(features(cs) & missing))
        if not features(best) & missing:
            break
        pick.append(best)
        pool.remove(best)
        missing -= features(best)
    for cs in pool:
        if len(pick) >= n:
            break
        pick.append(cs)
    return pick


def heavy_workloads(c, n, seed):
    """Workloads whose transactions are large relative to MemTableSize (3 x 3000-byte inline values
    per transaction, 64 KiB memtable): the production code rotates memtable and WAL by itself
    (ensureRoomForWrite) in the middle of the workload while the flusher is parked, so every later
    kill point has an un-flushed immutable memtable; a flush near the end adds the kill points
    inside the flush of a naturally rotated memtable."""
    pool = generate(c, "heavy-workloads", 40, seed, workers=2, SyncModes="{FALSE}", Drops="{}", Styles="{2}",
                    KeySets="{{1, 2, 3}, {2, 3, 4}, {1, 3, 4}, {1, 2, 4}}", EnvOps='{"flush"}', MaxEnv=1,
                    MaxRow=12, HistLen=12)
    good = [h for h in pool if all(o["op"] in ("commit", "batch") for o in h["ops"][:10])]
    good.sort(key=lambda h: -sum(1 for o in h["ops"] if o["op"] == "flush"))
    out = good[:n]
    if not out:
        raise Inconclusive("no heavy workload with 10 leading commits generated")
    for h in out:
        h["heavy"] = True
    return out


def multi_workloads(c, n, seed):
    """SyncWrites workloads in which five concurrent committers are written by the writer as ONE
    batch (operation "multi") exactly where the 64 KiB memtable fills up (3000-byte inline values),
    so that ensureRoomForWrite rotates memtable and WAL between two requests of a batch; the
    flusher stays parked, so the following power-loss points have the rotated memtable un-flushed."""
    out = generate(c, "multi-workloads", n, seed, workers=2, SyncModes="{TRUE}", Drops="{}", Styles="{2}", NKeys=6,
                   KeySets="{{1, 2, 3}, {4, 5, 6}, {2, 4, 6}}", EnvOps="{}", MaxEnv=0, MaxRow=12, HistLen=9,
                   MultiAt=7, MultiN=5)
    for h in out:
        h["heavy"] = True
    return out


def op_histogram(cases):
    h = {}
    for cs in cases:
        for o in cs["ops"]:
            h[o["op"]] = h.get(o["op"], 0) + 1
            for w in o.get("w", []):
                k = "write:" + ("del" if w["del"] else "big" if w["big"] else "small")
                h[k] = h.get(k, 0) + 1
    return h


# ------------------------------------------------------------------------------- crash engine
PL_STRICT = ("pl-zero", "pl-empty", "pl-content")
PL_LENIENT = {"pl-zero": "pl-zero-L", "pl-content": "pl-content-L", "pl-empty": "pl-empty-L"}


def _run(cmd, timeout, env=None, cwd=None):
    return vlib.run(cmd, timeout=timeout, env=env, cwd=cwd)


def err_class(msg):
    if not msg:
        return ""
    if "Create a new file" in msg:
        return "newfile-" + ("vlog" if "vlog" in msg else "mem")
    if "file does not exist for table" in msg:
        return "missing-table"
    if "checksum mismatch" in msg.lower():
        return "checksum"
    m = re.sub(r"/[^ \"']+", "PATH", msg)
    m = re.sub(r"\d+", "N", m)
    return m[:70]


def allowed_states(case, im):
    """The set of visible states (tuples) the specification allows for this crash image."""
    ops = case["ops"]
    nk = len(ops[0]["vis"]) if ops else 0
    vis = [tuple([0] * nk)] + [tuple(o["vis"]) for o in ops]
    done = im["done"]
    if not im["inop"] or im["op"] < 0:
        return {vis[done]}, "done"
    o = ops[im["op"]]
    if o["op"] in ("dropAll", "dropPrefix"):
        return set(tuple(m) for m in o["mid"]), "drop"
    if o["op"] == "multi":      # concurrent committers: any prefix of the enqueued transactions
        return {vis[done]} | set(tuple(p) for p in o["pre"]), "inflight"
    return {vis[done], vis[done + 1]}, "inflight"


def judge(case, meta, im, obs, kind):
    """Compare one observation with the specification. Returns list of (what, detail)."""
    out = []
    ops = case["ops"]
    nk = len(ops[0]["vis"])
    if obs.get("panic"):
        return [("open-panic", obs["panic"][-400:])]
    if obs["openErr"]:
        return [("open-error " + err_class(obs["openErr"]), obs["openErr"][:300])]
    # commit id -> real version, and what each commit wrote
    ts_of, writes = {}, {}

    def txs_of(o):
        if o["op"] in ("commit", "batch"):
            return [o["w"]]
        if o["op"] == "multi":
            return o["txs"]
        return []
    for i, o in enumerate(ops):
        tx = txs_of(o)
        for j, w in enumerate(tx):
            u = w[0]["v"]
            writes[u] = {x["k"]: x for x in w}
            if i < len(meta["commitTs"]) and meta["commitTs"][i]:
                ts_of[u] = meta["commitTs"][i] - (len(tx) - 1 - j)     # consecutive commit timestamps
    issued = im["done"] + (1 if im["inop"] else 0)
    real2u = {}
    for i, o in enumerate(ops[:issued]):
        for w in txs_of(o):
            u = w[0]["v"]
            if u in ts_of:
                real2u[ts_of[u]] = u
    # the in-flight commit has no recorded version yet: it is the next one
    rv = [0] * nk
    seen = set()
    dump = [v for v in (obs["dump"] or []) if v["key"] != "zz-probe"]
    inflight = []
    if im["inop"] and im["op"] >= 0:
        inflight = [w[0]["v"] for w in txs_of(ops[im["op"]])]
    done_ts = [ts_of[w[0]["v"]] for o in ops[:im["done"]] for w in txs_of(o) if w[0]["v"] in ts_of]
    base_ts = max([0] + done_ts)
    for v in dump:
        k = v["k"]
        if k < 1 or k > nk:
            out.append(("foreign-key", "%r@%d" % (v["key"], v["ts"])))
            continue
        u = real2u.get(v["ts"])
        if u is None and inflight and 0 < v["ts"] - base_ts <= len(inflight):
            u = inflight[v["ts"] - base_ts - 1]      # the in-flight commits get the next versions
        w = writes.get(u, {}).get(k) if u is not None else None
        if w is None:
            out.append(("foreign-version", "key %d version %d is not a write of the history" % (k, v["ts"])))
            continue
        if v["err"]:
            if k not in seen:
                seen.add(k)
                rv[k - 1] = -1
                out.append(("value-unreadable", "key %d@%d: %s" % (k, v["ts"], v["err"][:120])))
            continue
        if bool(w["del"]) != bool(v["del"]) or (not v["del"] and v["v"] != u):
            out.append(("wrong-value", "key %d@%d: del=%s value id %s, written: del=%s value %d" % (
                k, v["ts"], v["del"], v.get("v"), w["del"], u)))
        if k not in seen:
            seen.add(k)
            rv[k - 1] = 0 if v["del"] else u
    rv = tuple(rv)
    allowed, mode = allowed_states(case, im)
    if rv not in allowed and -1 not in rv:
        if mode == "drop":
            what = "drop-atomicity"
        else:
            vis = [tuple([0] * nk)] + [tuple(o["vis"]) for o in ops]
            what = "acked-lost" if rv in vis[:im["done"]] else "not-a-prefix"
        out.append((what, "recovered %s, allowed %s (done=%d inop=%s op=%s)" % (
            list(rv), sorted(allowed), im["done"], im["inop"],
            ops[im["op"]]["op"] if im["op"] >= 0 else "open")))
    for g in obs.get("getDiff") or []:
        out.append(("get-vs-iterator", g))
    # C14 (on-disk half): directory listing == MANIFEST, level validation
    if (obs.get("manifest") or []) != (obs.get("ssts") or []):
        out.append(("c14-manifest-vs-dir", "MANIFEST tables %s, .sst files %s" % (obs.get("manifest"), obs.get("ssts"))))
    if obs.get("validate"):
        out.append(("c14-validate", obs["validate"][:200]))
    # C11: one more commit gets a version above everything stored
    if obs.get("probeErr"):
        out.append(("c11-probe-error", obs["probeErr"][:200]))
    elif obs.get("probeTs", 0) <= obs.get("maxTs", 0):
        out.append(("c11-version-not-above", "new commit got version %d, stored maximum %d" % (obs["probeTs"], obs["maxTs"])))
    if obs.get("closeErr"):
        out.append(("close-error", obs["closeErr"][:200]))
    if obs.get("reopen2Err"):
        out.append(("reopen2-error", obs["reopen2Err"][:200]))
    return out


def check_images(binp, images_path, idxs, tmp, reopen2=False, timeout=600):
    """Run `crashfs check` on the listed images; survives a worker that dies inside Open."""
    results = {}
    todo = list(idxs)
    env = vlib.goenv()
    env["TMPDIR"] = tmp
    t0 = time.time()
    while todo:
        cmd = [binp, "check", "-images", images_path, "-list", ",".join(map(str, todo))]
        if reopen2:
            cmd.append("-reopen2")
        rc, out, err, _ = _run(cmd, timeout=max(5, timeout - (time.time() - t0)), env=env)
        begun = None
        for line in out.splitlines():
            try:
                o = json.loads(line)
            except ValueError:
                continue
            if "begin" in o:
                begun = o["begin"]
            elif "img" in o:
                results[o["img"]] = o
                begun = None
        if rc == 0:
            break
        if rc == -9:
            raise Inconclusive("crashfs check timed out")
        if begun is None:
            raise Inconclusive("crashfs check failed rc=%s: %s" % (rc, err[-1500:]))
        # the process died while opening image `begun` (assert / panic inside badger)
        results[begun] = {"img": begun, "panic": "process exited rc=%s: %s" % (rc, err[-1500:]), "openErr": ""}
        todo = todo[todo.index(begun) + 1:]
    return results


def crash_case(args):
    """Worker: run one workload with the recorder, re-open its crash images, judge them."""
    (binp, case, ci, kinds, enc, tmpbase, reopen2, want_trace) = args
    d = os.path.join(tmpbase, "case%d" % ci)
    import shutil
    shutil.rmtree(d, ignore_errors=True)
    os.makedirs(d, exist_ok=True)
    cp = os.path.join(d, "case.json")
    with open(cp, "w") as f:
        json.dump(case, f)
    env = vlib.goenv()
    env["TMPDIR"] = d
    cmd = [binp, "run", "-case", cp, "-out", d] + (["-enc"] if enc else [])
    rc, out, err, wall = _run(cmd, timeout=900, env=env)
    if rc != 0:
        return {"ci": ci, "error": "crashfs run rc=%s: %s" % (rc, err[-1500:])}
    meta = json.load(open(os.path.join(d, "run.json")))
    imgs = meta["images"]
    sel = [i for i, im in enumerate(imgs) if any(k in kinds for k in im["kinds"])]
    try:
        res = check_images(binp, os.path.join(d, "images.gob"), sel, d, reopen2=reopen2)
    except Inconclusive as e:
        return {"ci": ci, "error": str(e)}
    findings = []      # (kind, what, detail, image index, event, point)
    nchecks = 0
    classes = set()
    # the state of the RUNNING database after every operation (no crash involved): a deviation
    # here is not a crash-recovery matter; it is reported once, and crash points behind it are
    # not judged against the prefix rule (they would only repeat it)
    nk = len(case["ops"][0]["vis"]) if case["ops"] else 0
    live_dev = None
    for i, (o, lv) in enumerate(zip(case["ops"], meta.get("live") or [])):
        if list(lv[:nk]) != list(o["vis"]) and o["op"] not in ("raceAll", "racePrefix"):
            live_dev = i
            ks = [k for k in range(nk) if lv[k] != o["vis"][k]]
            k = ks[0]
            cls = "deleted-key-resurrected" if o["vis"][k] == 0 else "key-lost" if lv[k] == 0 else "wrong-value"
            gc_before = any(p["op"] == "gc" for p in case["ops"][:i + 1])
            findings.append({"kind": "live", "what": "%s after=%s gc-before=%s" % (cls, o["op"], "yes" if gc_before else "no"),
                             "detail": "running DB after operation %d (%s): visible %s, specification %s" % (i, o["op"], list(lv[:nk]), o["vis"]),
                             "img": -1, "ev": -1, "point": "op.done", "op": o["op"], "files": [], "note": "", "manApp": 0})
            break
    for i in sel:
        im = imgs[i]
        obs = res.get(i)
        if obs is None:
            return {"ci": ci, "error": "no observation for image %d" % i}
        ks = sorted(set(k for k in im["kinds"] if k in kinds))
        nchecks += sum(1 for k in im["kinds"] if k in kinds)
        opname = case["ops"][im["op"]]["op"] if im["op"] >= 0 else "open"
        for k in ks:
            classes.add("%s|%s|%s" % (k, opname, im["points"][im["kinds"].index(k)]))
        bad = judge(case, meta, im, obs, ks)
        if live_dev is not None and (im["done"] > live_dev or (im["inop"] and im["op"] >= live_dev)):
            bad = [(w, dt) for w, dt in bad if w not in ("not-a-prefix", "acked-lost", "drop-atomicity")]
        for what, detail in bad:
            for k in ks:
                j = im["kinds"].index(k)
                findings.append({"kind": k, "what": what, "detail": detail, "img": i, "ev": im["evs"][j],
                                 "point": im["points"][j], "op": opname, "files": im["files"], "note": im["note"],
                                 "manApp": im.get("manApp", 0)})
    # classification of power-loss findings: does the same crash point pass when directory
    # entries of newly created files are durable at creation (intended DirSyncOnCreate)?
    lenient = {}
    need = sorted(set((f["ev"], PL_LENIENT[f["kind"]]) for f in findings if f["kind"] in PL_LENIENT))
    if need:
        by = {}
        for i, im in enumerate(imgs):
            for ev, k in zip(im["evs"], im["kinds"]):
                by[(ev, k)] = i
        idx = sorted(set(by[n] for n in need if n in by))
        try:
            lres = check_images(binp, os.path.join(d, "images.gob"), idx, d)
        except Inconclusive as e:
            return {"ci": ci, "error": str(e)}
        for n in need:
            if n in by:
                i = by[n]
                lenient[n] = [w for w, _ in judge(case, meta, imgs[i], lres[i], [n[1]])]
                nchecks += 1
    for f in findings:
        if f["kind"] in PL_LENIENT:
            lb = lenient.get((f["ev"], PL_LENIENT[f["kind"]]))
            f["lenient_ok"] = None if lb is None else True if lb == [] else \
                "zerolen" if all(w.startswith("open-error newfile-") for w in lb) else False
            # which newly created files lack a durable directory entry at this point
            files_now = set(x.split(":")[0] for x in f["files"])
            li = by.get((f["ev"], PL_LENIENT[f["kind"]])) if need else None
            lfiles = set(x.split(":")[0] for x in imgs[li]["files"]) if li is not None else set()
            miss = sorted(set(kind_of(n) for n in lfiles - files_now if kind_of(n) in ("mem", "vlog", "sst")))
            f["missing_dirent"] = miss
    out = {"ci": ci, "events": meta["events"], "images": len(imgs), "checked": len(sel), "nchecks": nchecks,
           "findings": findings, "classes": sorted(classes), "run_ms": meta["wall_ms"], "kinds": meta["kinds"],
           "dir": d}
    return out


def kind_of(name):
    if name.endswith(".mem"):
        return "mem"
    if name.endswith(".vlog"):
        return "vlog"
    if name.endswith(".sst"):
        return "sst"
    return "other"


def signature(f):
    """Stable signature of a finding: crash kind, what was observed, and the narrowest cause
    class the machinery can establish (power loss: would durable directory entries of newly
    created files -- the intended DirSyncOnCreate protocol -- have avoided it, and for which
    file kinds; zero-length log files; stage of a drop)."""
    kind, what = f["kind"], f["what"]
    if kind == "live":
        return "disk:live %s" % what
    if what.startswith("open-error newfile-"):
        # a zero-length .mem / .vlog in the directory (z.NewFile returned as an error)
        return "disk:%s %s" % (kind, what)
    sig = "disk:%s %s" % (kind, what)
    if kind.startswith("pl-"):
        if f.get("lenient_ok") is True:
            return sig + " cause=no-dirsync-after-create(%s)" % ",".join(f.get("missing_dirent") or ["?"])
        if f.get("lenient_ok") == "zerolen":
            return sig + " cause=no-dirsync-after-create(%s)+zero-length-log" % ",".join(f.get("missing_dirent") or ["?"])
        return sig + " cause=other op=%s point=%s" % (f["op"], f["point"])
    if f["op"] in ("dropAll", "dropPrefix") and f["point"] not in ("op.start", "op.done"):
        return sig + " op=%s stage=%s" % (f["op"], "before-manifest-deletes" if f.get("manApp", 0) == 0 else "after-manifest-deletes")
    return sig + " op=%s point=%s" % (f["op"], f["point"])


def crash_campaign(c, cases, kinds, label, enc=False, nproc=None, reopen2=False, timeout=3600, full_confirm=3):
    """Run every workload with the recorder, check all crash images of the given kinds."""
    binp = vlib.go_build("cmd/crashfs")
    tmp = vlib.scratch("crash-")
    nproc = nproc or min(vlib.NCPU, len(cases))
    t0 = time.time()
    results = []
    with cf.ProcessPoolExecutor(max_workers=nproc) as ex:
        futs = [ex.submit(crash_case, (binp, cs, i, kinds, enc, tmp, reopen2, False)) for i, cs in enumerate(cases)]
        for fu in futs:
            try:
                results.append(fu.result(timeout=max(10, timeout - (time.time() - t0))))
            except cf.TimeoutError:
                raise Inconclusive("crash campaign %s timed out" % label)
    errs = [r for r in results if "error" in r]
    if errs:
        raise Inconclusive("crash campaign %s: %s" % (label, errs[0]["error"][:1500]))
    nchecks = sum(r["nchecks"] for r in results)
    classes = set()
    for r in results:
        classes.update(r["classes"])
    per_kind = {}
    for r in results:
        for k, v in r["kinds"].items():
            if k in kinds:
                per_kind[k] = per_kind.get(k, 0) + v
    c.cov["engines"].append({"campaign": label, "workloads": len(cases), "hook_events": sum(r["events"] for r in results),
                             "distinct_images_opened": sum(r["checked"] for r in results),
                             "crash_points_judged": nchecks, "per_kind": per_kind, "encrypted": enc,
                             "findings": sum(len(r["findings"]) for r in results),
                             "wall_s": round(time.time() - t0, 1)})
    # report: group by signature, confirm each signature once more from a clean run
    by_sig = {}
    for r in results:
        for f in r["findings"]:
            f["ci"] = r["ci"]
            by_sig.setdefault(signature(f), []).append(f)
    full = 0
    for sig, fs in sorted(by_sig.items()):
        f = fs[0]
        case = cases[f["ci"]]
        # every signature: the same image materialised and opened once more; the first few
        # signatures additionally by running the whole workload again from an empty directory
        r = results[f["ci"]]
        ok = recheck_image(binp, case, r, f, tmp)
        if ok and (full < full_confirm or f["kind"] == "live"):
            full += 1
            ok = confirm(binp, case, f, kinds, enc, tmp)
        if not ok:
            log("finding did not reproduce on a clean re-run, ignored:", sig)
            c.cov["unreproduced"] = c.cov.get("unreproduced", 0) + 1
            continue
        c.violation(sig, {"count": len(fs), "first": {k: f[k] for k in ("kind", "what", "detail", "ev", "point", "op", "files")}},
                    {"case": case, "event": f["ev"], "point": f["point"], "image_kind": f["kind"], "encrypted": enc,
                     "how": "crashfs run -case <case> -out D; crashfs check -images D/images.gob -list <image of event>"})
    return results, nchecks, classes


def recheck_image(binp, case, r, f, tmp):
    if f["kind"] == "live":
        return True
    meta = json.load(open(os.path.join(r["dir"], "run.json")))
    try:
        res = check_images(binp, os.path.join(r["dir"], "images.gob"), [f["img"]], r["dir"])
    except Inconclusive:
        return False
    bad = judge(case, meta, meta["images"][f["img"]], res[f["img"]], [f["kind"]])
    return any(w == f["what"] for w, _ in bad)


def confirm(binp, case, f, kinds, enc, tmp):
    """Re-run the workload from scratch and re-judge the same crash point."""
    r = crash_case((binp, case, 900000 + random.randrange(100000), [f["kind"]], enc, tmp, False, False))
    if "error" in r:
        return False
    for g in r["findings"]:
        if g["ev"] == f["ev"] and g["kind"] == f["kind"] and g["what"] == f["what"]:
            return True
    if f["kind"] == "live":
        return False
    # event numbering can shift by background activity: accept the same point/operation/what
    for g in r["findings"]:
        if g["point"] == f["point"] and g["op"] == f["op"] and g["kind"] == f["kind"] and g["what"] == f["what"]:
            return True
    return False


# ------------------------------------------------------------------------------- trace validation
def validate_traces(c, trace_files, label, timeout=600, locate=True):
    """Concatenate fs-event traces (TraceReset between them) and validate them with DiskTrace.
    Returns (rejection, strict) where rejection is None when the trace is accepted, else
    (line_index, event, failed_condition); strict = list of (condition, line, event, op) at which
    a condition of the intended directory-sync protocol (P2 / A2) does not hold."""
    d = vlib.stage_specs(["disk"])
    lines = []
    for tf in trace_files:
        lines.append(json.dumps({"i": 0, "ev": "TraceReset", "op": -1, "opname": "", "inop": False, "done": 0,
                                 "file": "", "kind": "", "id": 0, "to": "", "ids": [], "ids2": [], "sync": False,
                                 "cs": [], "lens": []}))
        with open(tf) as f:
            lines += [ln.strip() for ln in f if ln.strip()]
    with open(os.path.join(d, "trace.ndjson"), "w") as f:
        f.write("\n".join(lines) + "\n")

    def run(skipset):
        write_cfg(os.path.join(d, "tr.cfg"), "TraceSpec",
                  {"Strict": "TRUE", "Skip": "{" + ", ".join('"%s"' % s for s in skipset) + "}"},
                  extra="CONSTRAINT HighWater\nPOSTCONDITION Accepted\n")
        return vlib.run_tlc(d, "DiskTrace", "tr.cfg", workers=1, timeout=timeout, dfs_queue=True)
    res = run(())
    strict = []
    for m in re.finditer(r'<<"STRICT", "(\w+)", (\d+), "([^"]*)", "([^"]*)">>', res.out):
        strict.append((m.group(1), int(m.group(2)), m.group(3), m.group(4)))
    c.cov["tlc_runs"].append({"config": "trace:" + label, "events": len(lines),
                              "traces": len(trace_files), "distinct_states": res.distinct,
                              "accepted": bool(res.ok), "strict_dirsync_failures": len(strict),
                              "wall_s": round(res.wall, 1)})
    if res.ok:
        return None, strict
    if res.timeout:
        raise Inconclusive("DiskTrace timed out (%s)" % label)
    if res.violation != "postcondition" and "Accepted" not in res.out:
        raise Inconclusive("DiskTrace failed (%s): %s" % (label, (res.error_trace or res.out[-1500:])[:1500]))
    # locate: the number of distinct states = lines consumed + 1
    at = res.distinct
    ev = json.loads(lines[at - 1]) if 0 < at <= len(lines) else {}
    cond = "?"
    for cnd in (("K1", "P1", "W1", "A1") if locate else ()):
        r2 = run((cnd,))
        if r2.ok or r2.distinct > at:
            cond = cnd
            break
    return (at, ev, cond), strict


def trace_selftest(c, trace_file, locate=False):
    """Negative self-test of DiskTrace: in a real trace, move the MANIFEST fsync of a compaction
    behind the removal of the first input table; the mutated trace must be rejected (P1)."""
    lines = [json.loads(ln) for ln in open(trace_file) if ln.strip()]
    for i, e in enumerate(lines):
        if e["ev"] == "fs.append" and e["kind"] == "manifest" and any(x["op"] == "delete" for x in e["cs"]) \
                and e["opname"] in ("compactL0", "compactDown"):
            j = i + 1
            while j < len(lines) and not (lines[j]["ev"] == "fs.sync" and lines[j]["kind"] == "manifest"):
                j += 1
            k = j + 1
            while k < len(lines) and not (lines[k]["ev"] == "fs.remove" and lines[k]["kind"] == "sst"):
                k += 1
            if k >= len(lines):
                continue
            mut = lines[:j] + lines[j + 1:k + 1] + [lines[j]] + lines[k + 1:]
            d = vlib.scratch("trself-")
            p = os.path.join(d, "mut.ndjson")
            with open(p, "w") as f:
                for e2 in mut:
                    f.write(json.dumps(e2) + "\n")
            rej, _ = validate_traces(c, [p], "selftest(manifest fsync after input removal)", locate=locate)
            c.cov.setdefault("selftests", []).append(
                {"mutation": "MANIFEST fsync moved behind removal of a compaction input", "rejected": rej is not None,
                 "condition": rej[2] if rej else None})
            if rej is None:
                raise Inconclusive("DiskTrace self-test: a trace with inputs removed before the MANIFEST fsync was accepted")
            return True
    return False


def real_kill_confirm(c, binp, case, result, events, enc=False):
    """Really kill a child process (os.Exit inside the hook of event N) and compare the re-opened
    directory with the re-opened image of the same event: image copying must be faithful."""
    meta = json.load(open(os.path.join(result["dir"], "run.json")))
    by_ev = {}
    for i, im in enumerate(meta["images"]):
        for ev, k, p in zip(im["evs"], im["kinds"], im["points"]):
            if k == "kill" and p != "flush.start":   # emitted by the flusher goroutine, asynchronous to the driver
                by_ev[ev] = (i, p)
    occ_index, cnt, cur = {}, {}, None
    for ln in open(os.path.join(result["dir"], "trace.ndjson")):
        e = json.loads(ln)
        if e["op"] != cur or e["ev"] == "op.start":
            cur, cnt = e["op"], {}
        cnt[e["ev"]] = cnt.get(e["ev"], 0) + 1
        occ_index.setdefault((e["ev"], e["op"], cnt[e["ev"]]), []).append(e["i"])
    out = []
    for n in events:
        if n not in by_ev:
            continue
        d = vlib.scratch("realkill-")
        cp = os.path.join(d, "case.json")
        json.dump(case, open(cp, "w"))
        env = vlib.goenv()
        env["TMPDIR"] = d
        cmd = [binp, "killrun", "-case", cp, "-dbdir", os.path.join(d, "db"), "-acklog", os.path.join(d, "ack"),
               "-killat", str(n)] + (["-enc"] if enc else [])
        rc, so, se, _ = _run(cmd, timeout=900, env=env)
        if rc != 137:
            raise Inconclusive("killrun did not die at event %d (rc=%s): %s" % (n, rc, se[-500:]))
        last = open(os.path.join(d, "ack")).read().strip().splitlines()[-1].split()
        if last[0] != "kill":
            raise Inconclusive("acknowledgement log has no kill record: %r" % last)
        point, op, inop, done, occ = last[2], int(last[3]), last[4] == "true", int(last[5]), int(last[6])
        commit_ts = [0] * len(case["ops"])
        for ln in open(os.path.join(d, "ack")):
            t = ln.split()
            if t[0] == "done":
                commit_ts[int(t[1])] = int(t[2])
        rc, so, se, _ = _run([binp, "checkdir", "-dir", os.path.join(d, "db")] + (["-enc"] if enc else []) +
                             (["-heavy"] if case.get("heavy") else []),
                             timeout=900, env=env)
        if rc != 0 or not so.strip():
            obs = {"panic": "checkdir rc=%s %s" % (rc, se[-800:]), "openErr": ""}
        else:
            obs = json.loads(so.strip().splitlines()[-1])
        im = {"op": op, "inop": inop, "done": done}
        bad = judge(case, {"commitTs": commit_ts}, im, obs, ["realkill"])
        # the flusher's flush.start hook races with the driver's hooks during a rotation, so the
        # numbering can differ by one between two runs: compare with the image of the same hook
        # point among the neighbouring events
        # identify the event by (hook point, operation, k-th occurrence inside the operation)
        cands = [by_ev[m] for m in occ_index.get((point, op, occ), []) if m in by_ev]
        if not cands:
            continue
        key = lambda o: ([(v["key"], v["ts"], v["del"], v.get("v")) for v in (o.get("dump") or []) if v["key"] != "zz-probe"],
                         o.get("openErr", ""))
        same, img_obs = False, None
        for i, _ in cands:
            img_obs = check_images(binp, os.path.join(result["dir"], "images.gob"), [i], d)[i]
            if key(obs) == key(img_obs):
                same = True
                break
        out.append({"event": n, "point": point, "same_as_image": same, "findings": [w for w, _ in bad]})
        if not same:
            raise Inconclusive("real kill at event %d (%s) and its image disagree: kill=%s image=%s" % (
                n, point, json.dumps(obs)[:400], json.dumps(img_obs)[:400]))
        for what, detail in bad:
            opname = case["ops"][op]["op"] if op >= 0 else "open"
            f = {"kind": "realkill", "what": what, "detail": detail, "point": point, "op": opname, "manApp": 0}
            c.violation(signature(f), {"detail": detail, "event": n}, {"case": case, "killat": n})
    return out


# ------------------------------------------------------------------------------- drop vs concurrent writer
def _race_one(args):
    binp, path, sid, tmp = args
    env = vlib.goenv()
    env["TMPDIR"] = tmp
    rc, so, se, _ = _run([binp, "dropwriters", "-cases", path, "-only", sid], timeout=900, env=env)
    if rc != 0 or not so.strip():
        return {"error": "dropwriters %s rc=%s: %s" % (sid, rc, se[-800:])}
    return json.loads(so.strip().splitlines()[-1])


def drop_writers(c, cases, label, nproc=None):
    """Replay DiskGen race cases (a drop racing with one transaction released at every step of the
    drop). Allowed final states are the two serialisations the spec attaches (vis / alt)."""
    binp = vlib.go_build("cmd/crashfs")
    tmp = vlib.scratch("race-")
    path = os.path.join(tmp, "races.ndjson")
    with open(path, "w") as f:
        for cs in cases:
            f.write(json.dumps(cs) + "\n")
    rc, so, se, _ = _run([binp, "dropwriters", "-cases", path, "-list"], timeout=60)
    if rc != 0:
        raise Inconclusive("dropwriters -list failed: %s" % se[-500:])
    sids = so.split()
    t0 = time.time()
    with cf.ThreadPoolExecutor(max_workers=nproc or min(vlib.NCPU, 8)) as ex:
        outs = list(ex.map(_race_one, [(binp, path, s, tmp) for s in sids]))
    errs = [o for o in outs if "error" in o]
    if errs:
        raise Inconclusive(errs[0]["error"])
    bad = {}
    for o in outs:
        last = cases[o["case"]]["ops"][-1]
        allowed = [last["vis"], last["alt"]]
        what = None
        if o.get("bad"):
            what = o["bad"]
        elif o.get("dropErr") or o.get("commitErr"):
            what = "error(%s)" % ("drop" if o.get("dropErr") else "commit")
        elif o.get("rv") not in allowed:
            what = "not-before-or-after"
        elif o.get("postWriteErr"):
            what = "no-writes-after-drop"
        elif o.get("closeErr") or o.get("reopenErr"):
            what = "close-or-reopen-error"
        elif o.get("reopenRv") != o.get("rv"):
            what = "not-durable"
        if what:
            sig = "disk:dropwriters %s drop=%s release=%s" % (what, o["drop"], o["release"])
            bad.setdefault(sig, []).append(o)
    for sig, os_ in sorted(bad.items()):
        o = os_[0]
        again = _race_one((binp, path, "%d:%s" % (o["case"], o["release"]), tmp))   # once more from a clean DB
        if again.get("bad") != o.get("bad") or again.get("rv") != o.get("rv"):
            log("drop/writer schedule did not reproduce, ignored:", sig)
            c.cov["unreproduced"] = c.cov.get("unreproduced", 0) + 1
            continue
        last = cases[o["case"]]["ops"][-1]
        c.violation(sig, {"count": len(os_), "observed": o, "allowed": [last["vis"], last["alt"]]},
                    {"case": cases[o["case"]], "release": o["release"], "how": "crashfs dropwriters -cases <ndjson> -only <case>:<release>"})
    c.cov["engines"].append({"replay": label, "race_cases": len(cases), "schedules": len(outs),
                             "deviating_schedules": sum(len(v) for v in bad.values()),
                             "wall_s": round(time.time() - t0, 1)})
    return outs


# ------------------------------------------------------------------------------- MANIFEST (C17, C09)
MAN_BASE = dict(Ids="{1, 2, 3}", Levels="{0, 1}", Threshold=1, Ratio=10, MaxSets=6, AtomicApply="TRUE")


def manifest_mc(c, name, timeout=900, workers=None, expect_violation=None, **over):
    consts = dict(MAN_BASE)
    consts.update(over)
    d = vlib.stage_specs(["disk"])
    write_cfg(os.path.join(d, "m.cfg"), "MCSpec", consts,
              ["ReplayEqualsLive", "CountersEqualUntilReopen", "PrefixesReplay"],
              subst=[("ChangeSets", "MenuSets")], extra="VIEW MCView\n")
    res = vlib.run_tlc(d, "ManifestGen", "m.cfg", timeout=timeout, workers=workers)
    if expect_violation:
        c.cov["tlc_runs"].append({"config": name, "expected_counterexample": expect_violation, "found": res.violation,
                                  "distinct_states": res.distinct, "wall_s": round(res.wall, 1)})
        if res.violation != expect_violation:
            raise Inconclusive("Manifest/%s: expected %s violated, got %s" % (name, expect_violation, res.violation))
        return res
    c.add_tlc(name, res)
    vlib.require_tlc_ok(res, "Manifest/" + name)
    return res


def manifest_cases(c, name, n, seed, exhaustive=False, workers=4, timeout=600, **over):
    consts = dict(MAN_BASE)
    consts.update(over)
    d = vlib.stage_specs(["disk"])
    write_cfg(os.path.join(d, "g.cfg"), "GenSpec", consts, ["Emit"], subst=[("ChangeSets", "MenuSets")])
    if exhaustive:
        res = vlib.run_tlc(d, "ManifestGen", "g.cfg", timeout=timeout, workers=workers)
    else:
        res = vlib.run_tlc(d, "ManifestGen", "g.cfg", timeout=timeout, workers=workers,
                           simulate=max(1, (n + workers - 1) // workers), depth=int(consts["MaxSets"]) + 1, seed=seed)
    if res.violation or not res.ok:
        raise Inconclusive("ManifestGen %s failed: %s %s" % (name, res.violation, res.error_trace[:1500]))
    seen, out = set(), []
    for h in res.cases:
        k = json.dumps(h, sort_keys=True)
        if k not in seen:
            seen.add(k)
            out.append(h)
    out.sort(key=lambda h: json.dumps(h, sort_keys=True))
    if not exhaustive:
        random.Random(seed).shuffle(out)
        out = out[:n]
    c.cov["tlc_runs"].append({"config": "gen:" + name, "mode": "exhaustive" if exhaustive else "simulate",
                              "cases": len(out), "states_generated": res.generated, "distinct_states": res.distinct,
                              "wall_s": round(res.wall, 1)})
    if exhaustive:
        c.cov["states"] += res.distinct
        c.cov["transitions"] += res.generated
    if not out:
        raise Inconclusive("ManifestGen %s produced no cases" % name)
    return out


def _man_eq(a, b, counters=True):
    return a["lvl"] == b["lvl"] and (not counters or (a["cre"] == b["cre"] and a["del"] == b["del"]))


def manifest_replay(c, cases, label, everybyte=1, nproc=None, timeout=1200):
    """Feed the change-set sequences to the real manifestFile; compare every step, the re-open and
    every truncation with the specification. Returns (results, deviations) where deviations is a
    list of (sig, detail, case index)."""
    binp = vlib.go_build("cmd/diskmanifest")
    d = vlib.scratch("man-")
    inp = os.path.join(d, "cases.ndjson")
    with open(inp, "w") as f:
        for h in cases:
            f.write(json.dumps(h) + "\n")
    nproc = nproc or min(vlib.NCPU, max(1, len(cases) // 10))
    env = vlib.goenv()
    env["TMPDIR"] = d
    procs = []
    for s in range(nproc):
        out = open(os.path.join(d, "res%d.ndjson" % s), "w")
        procs.append((subprocess.Popen([binp, "-cases", inp, "-shard", str(s), "-nshards", str(nproc),
                                        "-everybyte", str(everybyte)], stdout=out, stderr=subprocess.PIPE, env=env), out))
    t0 = time.time()
    results = {}
    for s, (p, out) in enumerate(procs):
        try:
            _, err = p.communicate(timeout=max(1, timeout - (time.time() - t0)))
        except subprocess.TimeoutExpired:
            for q, _ in procs:
                q.kill()
            raise Inconclusive("diskmanifest timed out (%s)" % label)
        out.close()
        if p.returncode != 0:
            raise Inconclusive("diskmanifest failed rc=%s (%s): %s" % (p.returncode, label, err.decode("utf-8", "replace")[-1500:]))
        for line in open(os.path.join(d, "res%d.ndjson" % s)):
            r = json.loads(line)
            results[r["case"]] = r
    if len(results) != len(cases):
        raise Inconclusive("diskmanifest returned %d results for %d cases" % (len(results), len(cases)))
    dev = []
    ntrunc = nzero = nsteps = 0
    for i, h in enumerate(cases):
        r = results[i]
        for j, (sp, ob) in enumerate(zip(h["steps"], r["steps"])):
            nsteps += 1
            if bool(ob["err"]) != bool(sp["err"]):
                dev.append(("manifest:error-flag", "step %d %s: spec err=%s, code err=%r" % (j, sp["cs"], sp["err"], ob["err"]), i))
                break
            if ob["liveBad"] or ob["replayBad"]:
                dev.append(("manifest:inconsistent-projection", ob["liveBad"] + ob["replayBad"], i))
                break
            if ob["replayErr"]:
                dev.append(("manifest:replay-error", "step %d: %s" % (j, ob["replayErr"]), i))
                break
            if not _man_eq(ob["live"], sp["live"]):
                what = "manifest:rejected-set-partially-applied" if sp["err"] else "manifest:live-differs"
                dev.append((what, "step %d %s: spec live %s, code live %s" % (j, sp["cs"], sp["live"], ob["live"]), i))
                break
            if not sp["err"] and not _man_eq(ob["replay"], sp["live"]):
                dev.append(("manifest:replay-differs-from-live", "step %d %s: replay %s, live %s" % (j, sp["cs"], ob["replay"], sp["live"]), i))
                break
            if not sp["err"] and bool(ob["rewritten"]) != bool(sp["rewritten"]):
                dev.append(("manifest:rewrite-decision", "step %d: spec rewritten=%s code=%s (live %s)" % (j, sp["rewritten"], ob["rewritten"], sp["live"]), i))
                break
        else:
            if r["reopenBad"] or not _man_eq(r["reopen"], h["reopen"], counters=False):
                # counters of the re-opened manifestFile are those of Manifest.clone()
                if not r["reopenBad"].startswith("manifestFile copy") or not _man_eq(r["reopen"], h["reopen"], counters=False):
                    dev.append(("manifest:reopen-differs", "spec %s code %s %s" % (h["reopen"], r["reopen"], r["reopenBad"]), i))
            bounds = r["bounds"]
            if len(bounds) != len(h["prefixes"]):
                dev.append(("manifest:record-count", "file has %d records, spec %d" % (len(bounds) - 1, len(h["prefixes"]) - 1), i))
                continue
            for t in r["truncs"]:
                k = max(n for n, b in enumerate(bounds) if b <= t["x"])
                want = h["prefixes"][k]
                if t["fill"] == "trunc":
                    ntrunc += 1
                    if t["err"] or not _man_eq(t["man"], want) or t["trunc"] != bounds[k]:
                        cls = "length-exceeds-file-size" if "Buffer length" in t["err"] else "error" if t["err"] else "state"
                        dev.append(("manifest:truncated-replay %s" % cls, "cut at byte %d (record %d): want %s trunc %d, got %s trunc %s err %r" % (
                            t["x"], k, want, bounds[k], t["man"], t["trunc"], t["err"]), i))
                        break
                    if t.get("afterRun") and "prefixesThenDelete" in h:
                        want2 = h["prefixesThenDelete"][k]
                        if t["afterErr"] or not _man_eq(t["after"], want2):
                            dev.append(("manifest:append-after-torn-tail", "cut at byte %d (record %d, %d bytes into the next), re-opened, "
                                        "delete(1) added, replayed: want %s, got %s err %r" % (
                                            t["x"], k, t["x"] - bounds[k], want2, t["after"], t["afterErr"]), i))
                            break
                else:
                    nzero += 1
                    if t["err"] or not _man_eq(t["man"], want):
                        cls = "checksum" if "checksum" in t["err"] else ("error" if t["err"] else "state")
                        rel = t["x"] - bounds[k]
                        dev.append(("torn-manifest:zero-filled %s" % cls, "cut at byte %d (record %d, %d bytes into it), zero-filled: want %s, got %s err %r" % (
                            t["x"], k, rel, want, t["man"], t["err"]), i))
    c.cov["engines"].append({"replay": label, "cases": len(cases), "addChanges_calls": nsteps,
                             "truncation_offsets": ntrunc, "zero_filled_offsets": nzero,
                             "wall_s": round(time.time() - t0, 1)})
    return results, dev, (nsteps, ntrunc, nzero)


# ------------------------------------------------------------------------------- torn logs (C09)
def logiterate_cases(c, name, n, seed, maxlen=5, k=3, timeout=300):
    """LogIterateGen: model-checks the LogIterate properties over ALL record-class sequences up to
    maxlen (each with every single record damaged) and emits the predictions for length maxlen."""
    d = vlib.stage_specs(["disk"])
    write_cfg(os.path.join(d, "li.cfg"), "Spec", {"MaxLen": maxlen, "K": k},
              ["AllProps", "DamageIsLocal", "Emit"], subst=[("Classes", "AllClasses")])
    res = vlib.run_tlc(d, "LogIterateGen", "li.cfg", timeout=timeout, workers=4)
    c.add_tlc("LogIterate:%s" % name, res)
    vlib.require_tlc_ok(res, "LogIterateGen")
    cases = sorted(res.cases, key=lambda h: json.dumps(h, sort_keys=True))
    # Selection only (never the verdict): make sure the sample discriminates the classes the
    # state machine distinguishes. For each sequence compute what three careless readers would
    # replay from the undamaged file; a sequence on which the specification disagrees with such a
    # reader exercises that rule (end-marker timestamp compared, entries wait for their marker,
    # plain entry inside a transaction stops the replay).
    def careless(h, mode):
        out, pend, lc = [], [], 0
        for i, r in enumerate(h["recs"], 1):
            if r["t"] == "ent":
                if mode == "no-marker":
                    out.append(i)
                    continue
                if lc not in (0, r["c"]) and mode != "ts-change-ok":
                    break
                lc = r["c"]
                pend.append(i)
            elif r["t"] == "fin":
                if mode == "no-marker":
                    continue
                if lc != r["c"] and not (mode == "fin-ts-ignored" and lc != 0):
                    break
                out += pend
                pend, lc = [], 0
            else:
                if lc != 0 and mode != "plain-in-txn-ok":
                    break
                out.append(i)
        return out

    def interesting(h):
        outs = set(json.dumps(cu["applied"]) for cu in h["cuts"])
        return len(outs) > 1
    rnd = random.Random(seed)
    pick, used = [], set()
    modes = ("fin-ts-ignored", "no-marker", "plain-in-txn-ok", "ts-change-ok")
    per_mode = max(1, n // 8)
    discr = {}
    for m in modes:
        cand = [i for i, h in enumerate(cases) if careless(h, m) != h["cuts"][0]["applied"]]
        discr[m] = len(cand)
        rnd.shuffle(cand)
        for i in cand[:per_mode]:
            if i not in used:
                used.add(i)
                pick.append(cases[i])
    good = [i for i, h in enumerate(cases) if interesting(h) and i not in used]
    rnd.shuffle(good)
    for i in good:
        if len(pick) >= n:
            break
        used.add(i)
        pick.append(cases[i])
    c.cov["logiterate_discriminating_sequences"] = discr
    good = [h for h in cases if interesting(h)]
    c.cov["logiterate_sequences_total"] = len(cases)
    c.cov["logiterate_sequences_where_damage_matters"] = len(good)
    return pick[:n]


def torn_wal(c, cases, enc, label, nproc=None, timeout=1500):
    binp = vlib.go_build("cmd/disktorn")
    d = vlib.scratch("torn-")
    inp = os.path.join(d, "cases.ndjson")
    with open(inp, "w") as f:
        for h in cases:
            f.write(json.dumps(h) + "\n")
    nproc = nproc or min(vlib.NCPU, len(cases))
    env = vlib.goenv()
    env["TMPDIR"] = d
    procs = []
    for s in range(nproc):
        out = open(os.path.join(d, "res%d.ndjson" % s), "w")
        cmd = [binp, "wal", "-cases", inp, "-shard", str(s), "-nshards", str(nproc)] + (["-enc"] if enc else [])
        procs.append((subprocess.Popen(cmd, stdout=out, stderr=subprocess.PIPE, env=env), out))
    t0 = time.time()
    results = {}
    for s, (p, out) in enumerate(procs):
        try:
            _, err = p.communicate(timeout=max(1, timeout - (time.time() - t0)))
        except subprocess.TimeoutExpired:
            for q, _ in procs:
                q.kill()
            raise Inconclusive("disktorn wal timed out (%s)" % label)
        out.close()
        if p.returncode != 0:
            raise Inconclusive("disktorn wal failed rc=%s (%s): %s" % (p.returncode, label, err.decode("utf-8", "replace")[-1500:]))
        for line in open(os.path.join(d, "res%d.ndjson" % s)):
            r = json.loads(line)
            results[r["case"]] = r
    if len(results) != len(cases):
        raise Inconclusive("disktorn wal returned %d results for %d cases" % (len(results), len(cases)))
    dev, nvar, classes = [], 0, set()
    for i, h in enumerate(cases):
        r = results[i]
        nvar += r["variants"]
        pred = {cu["j"]: cu for cu in h["cuts"]}
        for o in r["outcomes"]:
            want = pred[o["j"]]["applied"]
            got = o["applied"] or []
            cls = "%s|%s|%s" % ("".join(x["t"][0] + str(x["c"]) for x in h["recs"]), o["j"], o["fill"])
            classes.add(("enc|" if enc else "") + cls)
            rec = h["recs"][o["j"] - 1]["t"] if o["j"] <= len(h["recs"]) else "none"
            if o["openErr"]:
                dev.append(("torn-wal:open-error fill=%s record=%s" % (o["fill"], rec), "%s: cut in record %d at byte %d (+%d): %s" % (
                    cls, o["j"], o["x0"], o["rel0"], o["openErr"][:200]), i))
            elif got != want or o["extra"]:
                dev.append(("torn-wal:replayed-records fill=%s record=%s" % (o["fill"], rec),
                            "%s: cut in record %d at byte %d (+%d, %d offsets): spec replays records %s, Open recovered %s %s" % (
                                cls, o["j"], o["x0"], o["rel0"], o["n"], want, got, o["extra"]), i))
    c.cov["engines"].append({"torn": label, "files": len(cases), "variants_opened": nvar, "encrypted": enc,
                             "deviating_outcomes": len(dev), "wall_s": round(time.time() - t0, 1)})
    return dev, nvar, classes


def torn_vlog(c, n, enc, multi, label, timeout=900, nproc=6):
    binp = vlib.go_build("cmd/disktorn")
    d = vlib.scratch("tornv-")
    env = vlib.goenv()
    env["TMPDIR"] = d
    t0 = time.time()

    def one(s):
        cmd = [binp, "vlog", "-n", str(n), "-shard", str(s), "-nshards", str(nproc)] + (["-enc"] if enc else []) + (["-multi"] if multi else [])
        return _run(cmd, timeout=timeout, env=env)
    with cf.ThreadPoolExecutor(max_workers=nproc) as ex:
        outs = list(ex.map(one, range(nproc)))
    r = None
    for rc, so, se, _ in outs:
        if rc != 0 or not so.strip():
            raise Inconclusive("disktorn vlog failed rc=%s: %s" % (rc, se[-1500:]))
        x = json.loads(so.strip().splitlines()[-1])
        if r is None:
            r = x
        else:
            if x["offsets"] != r["offsets"]:
                raise Inconclusive("disktorn vlog shards built different files")
            r["outcomes"] += x["outcomes"]
            r["variants"] += x["variants"]
    wall = time.time() - t0
    offs = r["offsets"]
    dev, classes, obs = [], set(), {}
    for o in r["outcomes"]:
        j = o["j"]
        classes.add("%s|%s|%s|%s" % (label, j, o["fill"], o["truncOff"]))
        want_trunc = offs[j - 1][0] if j <= n else offs[-1][1]     # LogIterate: valid = j - 1 plain records
        if o["openErr"]:
            dev.append(("torn-vlog:open-error fill=%s" % o["fill"], "cut in record %d at byte %d: %s" % (j, o["x0"], o["openErr"][:200])))
            continue
        if o["truncOff"] != want_trunc:
            dev.append(("torn-vlog:truncation-offset fill=%s" % o["fill"],
                        "cut in record %d at byte %d (+%d): value log truncated at %d, spec: %d" % (j, o["x0"], o["rel0"], o["truncOff"], want_trunc)))
        for i, rd in enumerate(o["reads"], 1):
            if i < j and rd != "ok":
                dev.append(("torn-vlog:intact-record-unreadable fill=%s" % o["fill"], "record %d (before the damaged record %d) reads %s" % (i, j, rd)))
            if i >= j and rd in ("ok", "garbage") and j <= n:
                if rd == "garbage":
                    dev.append(("torn-vlog:damaged-content-returned fill=%s" % o["fill"], "record %d reads %s after a cut in record %d" % (i, rd, j)))
            if i >= j and j <= n:
                obs[rd] = obs.get(rd, 0) + o["n"]
    c.cov["engines"].append({"torn": label, "records": n, "variants_opened": r["variants"], "encrypted": enc,
                             "reads_of_keys_whose_value_was_cut": obs, "wall_s": round(wall, 1)})
    return dev, r["variants"], classes


def torn_manifest_images(c, cases, label, enc=False, per_case=3, nproc=None, timeout=1500):
    """MANIFEST torn tails on real directories: kill images taken at fs.append of the MANIFEST,
    the appended record cut at every byte (rest missing / zero-filled), re-opened and judged."""
    binp = vlib.go_build("cmd/crashfs")
    tmp = vlib.scratch("tornm-")
    t0 = time.time()

    def one(ci):
        case = cases[ci]
        r = crash_case((binp, case, ci, (), enc, tmp, False, False))
        if "error" in r:
            return {"error": r["error"]}
        meta = json.load(open(os.path.join(r["dir"], "run.json")))
        idx = [i for i, im in enumerate(meta["images"]) if im.get("torn")]
        idx = idx[-per_case:]
        if not idx:
            return {"dev": [], "n": 0, "classes": set()}
        env = vlib.goenv()
        env["TMPDIR"] = r["dir"]
        rc, so, se, _ = _run([binp, "torn", "-images", os.path.join(r["dir"], "images.gob"), "-list",
                              ",".join(map(str, idx))], timeout=600, env=env)
        if rc != 0:
            return {"error": "crashfs torn rc=%s: %s" % (rc, se[-800:])}
        dev, n, classes = [], 0, set()
        for line in so.splitlines():
            o = json.loads(line)
            n += 1
            im = meta["images"][o["obs"]["img"]]
            bad = judge(case, meta, im, o["obs"], ["kill"])
            hdr = "header" if o["rel"] < 8 else "payload"
            classes.add("manifest|%s|%s|%s" % (o["fill"], hdr, case["ops"][im["op"]]["op"] if im["op"] >= 0 else "open"))
            for what, detail in bad:
                part = "len" if o["rel"] < 4 else "crc" if o["rel"] < 8 else "payload"
                dev.append(("torn-manifest:%s fill=%s cut-in=%s" % (what, o["fill"], part),
                            "record of %d bytes cut %d bytes into it (%s): %s" % (o["len"], o["rel"], o["fill"], detail[:200]), ci))
        return {"dev": dev, "n": n, "classes": classes}
    with cf.ThreadPoolExecutor(max_workers=nproc or min(vlib.NCPU, len(cases))) as ex:
        outs = list(ex.map(one, range(len(cases))))
    errs = [o for o in outs if "error" in o]
    if errs:
        raise Inconclusive("torn manifest (%s): %s" % (label, errs[0]["error"]))
    dev = [d for o in outs for d in o["dev"]]
    n = sum(o["n"] for o in outs)
    classes = set()
    for o in outs:
        classes |= o["classes"]
    c.cov["engines"].append({"torn": label, "workloads": len(cases), "variants_opened": n, "encrypted": enc,
                             "deviating_variants": len(dev), "wall_s": round(time.time() - t0, 1)})
    return dev, n, classes


def report(c, prefix, dev, cases=None, limit=2000):
    """Group deviations by signature and report them (known findings are matched on the signature)."""
    by = {}
    for d in dev:
        by.setdefault(d[0], []).append(d)
    for sig, ds in sorted(by.items()):
        d = ds[0]
        replay = {"detail": d[1]}
        if cases is not None and len(d) > 2:
            replay["case"] = cases[d[2]]
            if isinstance(cases[d[2]], dict) and "ops" in cases[d[2]]:
                replay = {"detail": d[1], "case": cases[d[2]], "image_kind": "kill", "note": "torn MANIFEST variants: crashfs torn"}
        c.violation("%s:%s" % (prefix, sig), {"count": len(ds), "first": d[1][:limit]}, replay)


# ------------------------------------------------------------------------------- --replay
def replay_recorded(c):
    """bin/check Cxx --replay <evidence/replays/Cxx/....json>: run the recorded failing case again
    against the current tree. Returns True when a replay was requested (and handled)."""
    if not c.replay:
        return False
    rec = json.load(open(c.replay))
    obj = rec.get("case") or {}
    sig = rec.get("signature", "disk:replay")
    c.level = "fault_enumeration"     # a replay evaluates recorded cases only
    if "image_kind" in obj:          # a crash point of a workload
        binp = vlib.go_build("cmd/crashfs")
        tmp = vlib.scratch("replay-")
        kind = obj["image_kind"]
        kinds = [kind] + ([PL_LENIENT[kind]] if kind in PL_LENIENT else [])
        r = crash_case((binp, obj["case"], 0, [kind], obj.get("encrypted", False), tmp, False, False))
        if "error" in r:
            raise Inconclusive(r["error"])
        sigs = {}
        for f in r["findings"]:
            sigs.setdefault(signature(f), f)
        c.add_cases(r["nchecks"], r["classes"])
        c.sample({"replayed": c.replay, "findings_now": sorted(sigs)[:10]})
        c.cov["rule"] = "replay of one recorded workload: every crash point of the recorded image kind is re-judged"
        for s2, f in sigs.items():
            c.violation(s2, {"detail": f["detail"], "event": f["ev"], "point": f["point"]}, None)
        return True
    if "release" in obj:             # a drop / transaction race
        outs = drop_writers(c, [obj["case"]], "replay")
        c.add_cases(len(outs), set(o["release"] for o in outs))
        c.sample({"replayed": c.replay, "schedules": len(outs)})
        c.cov["rule"] = "replay of one recorded race case: every release point"
        return True
    if isinstance(obj.get("case"), dict) and "steps" in obj["case"]:   # a change-set sequence
        res, dev, (ns, nt, nz) = manifest_replay(c, [obj["case"]], "replay", nproc=1)
        report(c, "disk", [d for d in dev if not d[0].startswith("torn-manifest")] if c.prop == "C17" else dev, [obj["case"]])
        c.add_cases(ns + nt + nz, set(d[0] for d in dev) | {"a", "b"})
        c.sample({"replayed": c.replay, "deviations_now": sorted(set(d[0] for d in dev))})
        c.cov["rule"] = "replay of one recorded change-set sequence"
        return True
    if isinstance(obj.get("case"), dict) and "recs" in obj["case"]:    # a WAL record sequence
        dev, nv, cl = torn_wal(c, [obj["case"]], "enc" in sig, "replay", nproc=1)
        report(c, "disk", dev, [obj["case"]])
        c.add_cases(nv, cl | {"a", "b"})
        c.sample({"replayed": c.replay, "deviations_now": sorted(set(d[0] for d in dev))})
        c.cov["rule"] = "replay of one recorded WAL record sequence"
        return True
    raise Inconclusive("replay file %s carries no replayable case (signature %s)" % (c.replay, sig))
