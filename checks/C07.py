#!/usr/bin/env python3
"""C07 — close and re-open preserves all content; read-only opens change nothing.
spec : specs/kv/BadgerKV.tla  Restart (Close + Open: empties the volatile oracle state only),
       RestartInvisible, NextTsAboveAll; environment steps reopen / reopenRO / reopenCompact of
       BadgerKVGen are stuttering steps of the contract
MC   : exhaustive TLC over all interleavings of 2 transactions with Restart and Compact steps
bind : TLC-generated histories shaped for many re-opens (BadgerKVGen -simulate), replayed on disk:
       reopen        Close + Open: the AllVersions dump (every retained version, delete markers,
                     metadata, values) must be identical before and after
       reopenRO      Close, Open(ReadOnly), dump + Get of every key, Close: dump identical; names,
                     sizes and content hashes of every file of the directory identical before and
                     after; the hook recorder (harness/vh Recorder) saw no mutating fs.* event; then
                     a read-write Open sees the same dump again
       reopenCompact Close, Open with 2 background compactors + NumLevelZeroTables=1 +
                     CompactL0OnClose, Close, Open with the standard settings: the visible content
                     (newest version of every key) identical at every point
       and all later reads of the history are compared with the contract's predictions.
       Managed mode is covered with its own generator run."""
import os, sys
sys.path.insert(0, os.path.dirname(os.path.abspath(__file__)))
import lib_kv as K
import vlib

REOPENS = ["reopen", "reopenRO", "reopenCompact"]


def nreopen(h):
    return sum(1 for s in h if s["op"] == "env" and s["what"] in REOPENS)


def body(c):
    q = c.quick
    mc = dict(K.MC_DEFAULT, Feat='{"iter", "restart", "compact"}')
    K.model_check(c, "restart-2txn-2key", mc, ["TypeOK", "NextTsAboveAll", "SnapshotRead", "UniqueTs"],
                  ["RestartInvisible", "ReadStableAboveDiscard", "TsMonotone"], bound="nval <= 2" if q else "nval <= 3",
                  timeout=3000)
    tab = K.key_table(c.seed)
    env = ["flush", "compactL0", "gc"] + REOPENS
    sim = K.hist_consts(tab, Exps="{0, 3}", MaxNow="3", HistLen="34", MaxOps="3", MaxActive="2", WriteWeight="3",
                        EnvSteps=K.tla_set(env), EnvWeight="3", Discs="{FALSE, TRUE}",
                        IterOptList=K.tla_seq([K.tla_opts(), K.tla_opts(all=True), K.tla_opts(rev=True)]), Dumps="TRUE")
    n = 400 if q else 3000
    sims = K.generate(c, "sim-reopens", sim, n, 34, c.seed, workers=8 if q else 12, timeout=1800)
    hist = K.op_histogram(sims)
    c.cov["generated_op_histogram"] = hist
    ro = [nreopen(h) for h in sims]
    c.cov["reopens_per_history_avg"] = round(sum(ro) / max(1, len(ro)), 2)
    if sum(ro) < 2 * len(sims):
        raise vlib.Inconclusive("generator shaping lost: %d re-opens in %d histories" % (sum(ro), len(sims)))
    stats = {}
    confs = ["vlog", "default+zstd"] if q else ["default", "vlog", "thr+l3", "zstd+vlog", "vlogpct", "sync+vlog"]
    for conf in confs:
        K.replay(c, sims, conf, c.seed, "sim-reopens", keys=tab, collect=stats)
    # encrypted configuration: a read-only open of an encrypted DB is part of the quantifier
    K.replay(c, sims[:150 if q else 600], "enc+vlog", c.seed, "sim-reopens-encrypted", keys=tab, collect=stats)
    # managed mode
    msim = K.hist_consts(tab, Managed="TRUE", MaxTs="6", Txns="1..6", HistLen="30", MaxOps="3", MaxActive="2",
                         WriteWeight="3", EnvSteps=K.tla_set(env), EnvWeight="3", Feat='{"discard"}',
                         IterOptList=K.tla_seq([K.tla_opts(), K.tla_opts(all=True)]))
    msims = K.generate(c, "sim-reopens-managed", msim, 200 if q else 1200, 30, c.seed, workers=8, timeout=1800)
    K.replay(c, msims, "managed+vlog", c.seed, "sim-reopens-managed", keys=tab, collect=stats)
    c.cov["reopen_steps_executed"] = {k: stats.get(k, 0) for k in REOPENS}
    c.cov["readonly_opens"] = {"files_hashed": stats.get("ro.files", 0), "fs_events_seen_during_readonly": stats.get("ro.fsEventsSeen", 0)}
    for k in REOPENS:
        if stats.get(k, 0) == 0:
            raise vlib.Inconclusive("no %s step was executed" % k)
    good = [h for h, r in zip(sims, ro) if r >= 2 and K.nontrivial(h, ["commit:ok"])]
    c.add_cases(len(sims) * len(confs) + len(msims) + min(len(sims), 150 if q else 600),
                set(K.hist_key(h) for h in good), traces=len(sims) * len(confs) + len(msims))
    c.cov["rule"] = ("histories are behaviours of BadgerKVGen (TLC -simulate, length 34, environment steps weighted 3x); "
                     "non-trivial = at least one successful commit and at least two re-opens; distinct = distinct step "
                     "sequences")
    c.cov["exhaustive"] = False
    for h in good[:2]:
        c.sample(K.short(h))
    c.assumptions += ["drops and batches before a re-open belong to other families' generators (they call the same "
                      "re-open checks); here: transactions, flushes, compactions, GC",
                      "file hashes cover Dir = ValueDir (one directory)",
                      "mutating persistence events = fs.create/remove/append/rename/truncate and a close that truncates; "
                      "directory and file fsyncs are not counted as modifications"]


vlib.main("C07", "model_checking", body)
