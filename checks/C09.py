#!/usr/bin/env python3
"""C09 -- a torn tail of the newest WAL (.mem), value log (.vlog) or MANIFEST (cut at any byte,
rest missing or zero-filled) is recovered, not surfaced.
spec : specs/disk/LogIterate.tla (state machine of logFile.iterate: NothingAfterDamage,
       AppliedHaveMarker, PrefixIsApplied, DamageIsLocal), Manifest.tla (PrefixesReplay)
MC   : TLC over ALL record-class sequences (ent/fin with matching or mismatching timestamps, plain)
       of length <= 5, each with every single record damaged
bind : real files built with the production writers (logFile.writeEntry via
       /repo/verif_api_disk.go, valueLog.write via ordinary commits, manifestFile.addChanges via real
       flushes/compactions), damaged at EVERY byte offset inside the last 3 records, both fill modes,
       encrypted and not; the real Open must succeed and recover exactly what the spec predicts for a
       damaged record j (WAL: the set of replayed records; vlog: the truncation offset reported by
       valueLog.open and no damaged content in any read; MANIFEST: the state before the torn change
       set, judged on the complete directory as it is at that append)."""
import os, sys
sys.path.insert(0, os.path.dirname(os.path.abspath(__file__)))
import lib_disk as D
import vlib


def body(c):
    if D.replay_recorded(c):
        return
    q = c.quick
    import concurrent.futures as cf
    n = 8 if q else 60
    seqs = D.logiterate_cases(c, "len5", n, c.seed)
    ne = 3 if q else 20
    wl = D.generate(c, "workloads-for-manifest", 30 if q else 100, c.seed, workers=2, SyncModes="{FALSE}", Drops="{}",
                    EnvOps='{"flush", "compactL0", "rotate"}', MaxRow=1, HistLen=10)
    wl = D.select_covering(wl, 3 if q else 16, ("flush", "compactL0"), c.seed)
    for b in ("cmd/disktorn", "cmd/crashfs"):
        vlib.go_build(b)
    jobs = [("wal", lambda: D.torn_wal(c, seqs, False, "wal", nproc=8 if q else None)),
            ("wal-enc", lambda: D.torn_wal(c, seqs[:ne], True, "wal(encrypted)", nproc=3 if q else None))]
    for (nrec, enc, multi) in ([(4, False, False), (4, True, True)] if q else
                               [(5, False, False), (5, True, False), (6, False, True), (6, True, True)]):
        jobs.append(("vlog", lambda nrec=nrec, enc=enc, multi=multi: D.torn_vlog(
            c, nrec, enc, multi, "vlog%s%s" % ("(encrypted)" if enc else "", "(2 entries/txn)" if multi else ""),
            nproc=3 if q else 6)))
    # MANIFEST: real directories at the moment of each append
    jobs.append(("manifest", lambda: D.torn_manifest_images(c, wl, "manifest", nproc=3 if q else None)))
    jobs.append(("manifest-enc", lambda: D.torn_manifest_images(c, wl[: (1 if q else 6)], "manifest(encrypted)", enc=True)))
    with cf.ThreadPoolExecutor(max_workers=len(jobs) if q else 3) as ex:
        futs = [(name, ex.submit(fn)) for name, fn in jobs]
        outs = [(name, f.result()) for name, f in futs]
    total, classes = 0, set()
    for name, (dev, nv, cl) in outs:
        D.report(c, "disk", dev, wl if name.startswith("manifest") else seqs if name.startswith("wal") else None)
        total += nv
        classes |= set((name + "|" + x) for x in cl)
    c.add_cases(total, classes, traces=0)
    c.cov["rule"] = ("one evaluation = one damaged file variant (byte offset x fill mode) opened with the real Open; every "
                     "byte offset inside the last 3 records of each generated file is used (exhaustive over offsets); "
                     "distinct = (record-class sequence or file kind, damaged record, fill mode[, outcome]) classes")
    c.cov["exhaustive"] = True
    for h in seqs[:3]:
        c.sample({"wal_records": [(r["t"], r["c"]) for r in h["recs"]],
                  "predicted_replayed_records_per_damaged_record": {str(cu["j"]): cu["applied"] for cu in h["cuts"]}})
    c.assumptions += ["a WAL / vlog record is damaged by cutting the file inside it (rest missing, or zero-filled up to the "
                      "end of the written data); records behind the cut do not survive (torn TAIL)",
                      "reads of keys whose value-log record was cut (WAL intact) are only required not to return damaged "
                      "content; what they return is recorded in the evidence"]


vlib.main("C09", "fault_enumeration", body)
