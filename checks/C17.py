#!/usr/bin/env python3
"""C17 -- MANIFEST replay reconstructs the table map exactly (addChanges, rewrite threshold,
ReplayManifestFile, change sets all-or-nothing, checksum mismatch => error).
spec : specs/disk/Manifest.tla (ReplayEqualsLive, CountersEqualUntilReopen, PrefixesReplay;
       AddChanges with the rewrite rule, Reopen with Manifest.clone counters)
MC   : exhaustive TLC over all sequences of <= 6 change sets from a menu of singletons, compaction
       shaped pairs, double creates (invalid), double deletes / deletes of unknown tables over 3
       table ids x 2 levels, rewrite threshold 1 (VIEW on the replay of the file)
bind : every TLC-generated sequence (exhaustive up to 3 sets, seeded simulation for 6) is fed to the
       real manifestFile.addChanges through the production constructor with the lowered threshold
       (/repo/verif_api_disk.go); after every call: error flag, in-memory copy (table -> level, key
       id, compression, Levels consistency, counters), rewrite decision and ReplayManifestFile of
       the file are compared with the spec; then close/re-open; then the file truncated at EVERY
       byte must replay to the spec's state after the last whole record with that truncation
       offset; a flipped payload byte must give the checksum error."""
import os, sys
sys.path.insert(0, os.path.dirname(os.path.abspath(__file__)))
import lib_disk as D
import vlib


def body(c):
    if D.replay_recorded(c):
        return
    q = c.quick
    D.manifest_mc(c, "6sets-3ids-threshold1", timeout=600 if q else 1500)
    if not q:
        D.manifest_mc(c, "6sets-3ids-threshold2", Threshold=2, timeout=1500)
    D.manifest_mc(c, "code-as-is:rejected-set-partially-applied", expect_violation="ReplayEqualsLive",
                  AtomicApply="FALSE", timeout=300)
    cases = D.manifest_cases(c, "exhaustive-2sets", 0, c.seed, exhaustive=True, MaxSets=2, timeout=600)
    if q:
        import random
        random.Random(c.seed).shuffle(cases)
        cases = cases[:400]
    sims = D.manifest_cases(c, "sim-6sets", 300 if q else 4000, c.seed)
    sims2 = D.manifest_cases(c, "sim-6sets-threshold2", 100 if q else 1500, c.seed + 1, Threshold=2)
    allc = cases + sims + sims2
    res, dev, (nsteps, ntrunc, nzero) = D.manifest_replay(c, allc, "addChanges+replay+truncate", everybyte=1 if not q else 2)
    # C17 is about truncation; zero-filled tails belong to C09
    dev17 = [d for d in dev if not d[0].startswith("torn-manifest")]
    D.report(c, "disk", dev17, allc)
    nrew = sum(1 for h in allc for s in h["steps"] if s["rewritten"])
    nerr = sum(1 for h in allc for s in h["steps"] if s["err"])
    nunk = sum(1 for h in allc for s in h["steps"] for ch in s["cs"] if ch["op"] == "delete")
    c.cov["sequences"] = {"total": len(allc), "addChanges_calls": nsteps, "calls_that_rewrite": nrew,
                          "calls_rejected": nerr, "delete_changes": nunk, "truncation_offsets": ntrunc}
    if not nrew or not nerr:
        raise vlib.Inconclusive("generated sequences contain no rewrite / no rejected change set")
    keys = set(str([s["cs"] for s in h["steps"]]) for h in allc)
    c.add_cases(nsteps + ntrunc, keys, traces=len(allc))
    c.cov["rule"] = ("cases are behaviours of ManifestGen (TLC exhaustive for 2 change sets over the menu, TLC -simulate "
                     "for 6); evaluations = addChanges calls compared + truncation offsets replayed; distinct = distinct "
                     "change-set sequences")
    c.cov["exhaustive"] = not q
    for h in sims[:2]:
        c.sample({"change_sets": [[(ch["op"], ch["id"], ch["lvl"]) for ch in s["cs"]] for s in h["steps"]],
                  "predicted": [("err" if s["err"] else "rewrite" if s["rewritten"] else "append") for s in h["steps"]],
                  "final": h["reopen"]})
    c.assumptions += ["key id 7 and compression 1 are attached to every create and must come back from the replay",
                      "the MANIFEST is driven through manifestFile directly (in-package constructor with threshold 1/2); "
                      "its use by flush/compaction/drop is covered by C08/C10/C29"]


vlib.main("C17", "model_checking", body)
