#!/usr/bin/env python3
"""C35 - directory locking excludes a second writer.
spec : specs/sm1/DirLock.tla (flock LOCK_EX/LOCK_SH per directory, Dir then ValueDir, all or nothing,
       Close releases, BypassLockGuard; invariants Exclusion, LocksMatchInstances, OpenOutcome)
MC   : exhaustive TLC, 3 instances x {rw, ro, ro+bypass} x (Dir,ValueDir) in {(1,1),(1,2),(2,2)}
bind : DirLockGen open/close orders replayed with helper processes (cmd/sm1lock -lockproc) that
       open/close real DBs; instances in separate processes and two instances in one process."""
import os, sys, random, json
sys.path.insert(0, os.path.dirname(os.path.abspath(__file__)))
import lib_sm1 as L
import vlib

INV = ["Exclusion", "LocksMatchInstances", "OpenOutcome"]


def short(h):
    return " ".join(("open%d(%s%s,%d/%d)=%s" % (s["p"], s["mode"], "+bypass" if s["bypass"] else "", s["dir"], s["vdir"], s["res"]))
                    if s["op"] == "open" else "close%d" % s["p"] for s in h)


def body(c):
    q = c.quick
    rnd = random.Random(c.seed)
    base = dict(Openers=[1, 2, 3], Dirs=[1, 2], Configs=[11, 12, 22], BypassRO=True)
    L.mc(c, "DirLock", "3inst", L.K(**base), INV, timeout=600, allow_zero=("Next",))
    if not q:
        L.mc(c, "DirLock", "4inst-allconfigs", L.K(**dict(base, Openers=[1, 2, 3, 4], Configs=[11, 12, 21, 22])), INV,
             timeout=900, allow_zero=("Next",))
    hl = 4
    cases = L.gen(c, "DirLockGen", "len%d" % hl, L.K(**dict(base, HistLen=hl)), timeout=900)
    c.cov["generated"] = {"len%d" % hl: len(cases)}
    run = cases if not q else rnd.sample(cases, min(len(cases), 500))
    more = []
    if not q:
        more = L.gen(c, "DirLockGen", "sim-len8", L.K(**dict(base, HistLen=8)), simulate=1500, depth=9, seed=c.seed, timeout=600)
        more = list({json.dumps(h): h for h in more}.values())
        c.cov["generated"]["sim-len8"] = len(more)
    total = 0
    for layout in ("procs", "mixed"):
        sub = run if layout == "procs" else rnd.sample(run, min(len(run), 200 if q else 2000))
        L.replay(c, "cmd/sm1lock", sub + more, ["-layout", layout], "lock-" + layout, timeout=1500, nproc=min(L.NP, 8))
        total += len(sub) + len(more)
    allc = run + more
    c.cov["cases_with_refused_open"] = sum(1 for h in allc if any(s["res"] == "locked" for s in h))
    c.cov["cases_with_separate_value_dir"] = sum(1 for h in allc if any(s["op"] == "open" and s["dir"] != s["vdir"] for s in h))
    c.cov["cases_with_readonly_coexistence"] = sum(
        1 for h in allc if sum(1 for s in h if s["op"] == "open" and s["mode"] == "ro" and s["res"] == "ok" and not s["bypass"]) >= 2)
    keys = set(short(h) for h in allc if sum(1 for s in h if s["op"] == "open") >= 2)
    c.add_cases(total, keys, traces=total)
    for h in [h for h in allc if any(s["res"] == "locked" for s in h) and any(s["op"] == "close" for s in h)][:2]:
        c.sample(short(h))
    c.cov["rule"] = ("a case = open/close order of DirLockGen of length %d (all of them; quick: seeded sample) plus, thorough, simulated orders "
                     "of length 8; 3 instances, modes rw / ro / ro+BypassLockGuard, (Dir,ValueDir) in {(1,1),(1,2),(2,2)}; replayed with one "
                     "process per instance and with two instances in one process; non-trivial = at least two opens" % hl)
    c.cov["exhaustive"] = not q
    c.assumptions += ["the databases are empty (only Open/Close are exercised), so a directory can serve as Dir of one configuration and as "
                      "ValueDir of another",
                      "BypassLockGuard is explored for read-only opens only (a bypassing writer next to another writer is outside the contract)"]


vlib.main("C35", "model_checking", body)
