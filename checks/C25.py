#!/usr/bin/env python3
"""C25 — a Stream run emits one consistent snapshot, each key exactly once; Send is serial.
spec : specs/sm2/Stream.tla (OneSnapshot, SnapshotAtStart, EachKeyOnce, SendSerial, SameReadTs)
MC   : exhaustive TLC over all interleavings of commits, producer starts, range hand-outs,
       range iterations and sends (intended behaviour: one read timestamp per run); the model of
       the code as it is (one read timestamp per producer) is checked too and must show the
       counterexample the replay then looks for
bind : StreamGen schedules (commit / Orchestrate / producer start / range iteration / return)
       forced in the real Stream with the gate stream.producer, the events stream.txn and
       orc.doneRead and the ChooseKey callback; the output of every run must be one of the
       single-snapshot outputs the specification allows."""
import os, random, sys
sys.path.insert(0, os.path.dirname(os.path.abspath(__file__)))
import lib_sm2 as S
import vlib

# (layout, NumGo, Prefix, NumVersionsToKeep class, kinds, SinceTs choices, drop one key from ChooseKey?)
CONFIGS = [
    ("l0x3", 2, "k", 2, ("set", "del"), (0,), False),
    ("l0x3", 3, "", 2, ("set", "del"), (0,), True),
    ("lmax", 2, "", 1, ("set", "del"), (0,), False),
    ("lmax", 3, "k", 2, ("set", "disc"), (0, 3), False),
    ("l0x2", 2, "k", 2, ("set", "del"), (0, 2), True),
    ("l0x2", 3, "", 1, ("set", "del", "disc"), (0,), False),
    ("mem", 2, "", 2, ("set", "del"), (0, 1), False),
]


def body(c):
    if c.replay:
        return S.replay_file(c)
    q = c.quick
    rnd = random.Random(c.seed)
    # 1. design level
    small = S.stream_consts(4, [1, 1, 2, 2], [1, 1, 1, 1], 2, 2, 2, [{1, 3}, {2}, {4}], ("set", "del"), 1,
                            "tolist", 2, (0, 1), False, chosen={1, 2, 3})
    if q:
        S.mc_stream(c, "2prod-2range-2commit", small, timeout=200, workers=8)
    else:
        big = S.stream_consts(5, [1, 1, 2, 2, 3], [1, 1, 1, 1, 1], 2, 3, 2, [{1, 3}, {2, 5}, {4}], ("set", "del", "disc"), 1,
                              "tolist", 2, (0, 1), False, chosen={1, 2, 3, 5})
        S.mc_stream(c, "3prod-3range-2commit", big, timeout=900)
        two = S.stream_consts(4, [1, 1, 2, 2], [1, 1, 1, 1], 2, 2, 2, [{1, 3}, {2}], ("set", "del"), 2,
                              "tolist", 1, (0, 1), False)
        S.mc_stream(c, "2runs-nvk1", two, timeout=600)
    asis = dict(small, SharedSnapshot=False)
    r = S.mc_stream(c, "as-is-2prod", asis, invariants=["OneSnapshot"], timeout=200, workers=4, expect_violation=True)
    c.cov["as_is_model_violates"] = r.violation or "nothing"
    # 2. schedules forced in the real code
    confs = rnd.sample(CONFIGS, 2) if q else CONFIGS
    keys, total, feats = set(), 0, {}
    mixed_hits = 0
    for (layout, numgo, prefix, nvk, kinds, sinces, drop) in confs:
        pr = S.probe_stream(c, layout, numgo, prefix)
        if pr is None:
            continue
        nk = len(pr["rangeOf"])
        wsets = S.pick_wsets(pr, rnd, 3 if numgo == 2 else 2)
        chosen = None
        if drop:
            chosen = set(range(1, nk + 1)) - {rnd.randint(1, nk)}
        consts = S.stream_consts(nk, pr["rangeOf"], pr["initTs"], pr["firstTs"], numgo, 2, wsets, kinds, 1,
                                 "tolist", nvk, sinces, False, chosen=chosen)
        label = "%s-go%d-%s-nvk%d" % (layout, numgo, prefix or "noprefix", nvk)
        big_space = numgo >= 3 or len(sinces) > 1 or len(kinds) > 2
        if q:
            cases = S.gen_stream(c, label, consts, 1, num=1200, seed=c.seed, workers=4, timeout=120)
            cases = rnd.sample(cases, min(len(cases), 350))
        elif big_space:
            cases = S.gen_stream(c, label, consts, 1, num=4000, seed=c.seed, workers=8, timeout=600)
        else:
            cases = S.gen_stream(c, label, consts, 1, num=None, workers=8, timeout=900)
        if not q and len(cases) > 1400:
            cases = rnd.sample(cases, 1400)      # thorough budget: 7 configurations x <= 1400 schedules
        res = S.replay_stream(c, cases, pr, layout, numgo, prefix, "tolist", nvk, chosen, label)
        total += len(cases)
        for h, rr in zip(cases, res):
            fs = S.schedule_features(h)
            for f in fs:
                feats[f] = feats.get(f, 0) + 1
            if "commit_between_producer_starts" in fs or "commit_before_first_producer" in fs or "commit_after_last_start" in fs:
                keys.add(label + ":" + S.short_schedule(h))
            if rr.get("sig", "").startswith("sm2:stream mixed-snapshot"):
                mixed_hits += 1
                c.sample({"config": label, "schedule": S.short_schedule(h), "real_read_timestamps": rr["readTs"],
                          "verdict": "output mixes two snapshots"}, limit=2)
        for h in cases[:1]:
            c.sample({"config": label, "schedule": S.short_schedule(h), "verdict": "replayed"}, limit=4)
    c.add_cases(total, keys, traces=total)
    c.cov["schedule_features"] = feats
    c.cov["schedules_with_mixed_snapshot_output"] = mixed_hits
    if not feats.get("commit_between_producer_starts"):
        raise vlib.Inconclusive("generator produced no schedule with a commit between two producer starts")
    c.cov["rule"] = ("schedules are behaviours of StreamGen (TLC exhaustive or -simulate) for the ranges the real "
                     "database produces (probed with sm2stream -probe); non-trivial = at least one commit while the "
                     "run is in progress; distinct = distinct (configuration, step sequence)")
    c.cov["exhaustive"] = False
    c.assumptions += [
        "snapshot isolation of a single transaction (C01) - a producer's iteration is taken as atomic at its read timestamp",
        "a run whose output equals one snapshot taken between Orchestrate entry and the last producer start is accepted "
        "(the entry of Orchestrate is not an observable instant); the intended model takes it at entry",
        "the harness has no gate between a producer's transaction creation and its receive from rangeCh; schedules in "
        "which an idle producer lets another one take the next range first are covered by TLC only (same outcomes)",
        "hand-out order and bounds of the ranges are read from Stream's Infof log lines in a quiescent dry run",
    ]


vlib.main("C25", "model_checking", body)
