#!/usr/bin/env python3
"""C32 - subscribers get every matching committed write exactly once, in commit order.
spec : specs/sm1/Publisher.tla (contract Match over user keys; mechanism: trie with wildcard nodes,
       AddMatch/Get/DeleteMatch, publishUpdates; invariants TrieMatchesContract, ExactlyOnceInOrder,
       NoSpuriousDelivery, NoStaleIds)
MC   : exhaustive TLC over all patterns (prefix <= 2 bytes, every ignore set) x all user keys, 2
       subscribers, subscribe/unsubscribe/commit interleavings
bind : PublisherGen cases (seeded TLC simulation, 3 subscribers x 2 patterns, keys over
       {a, b, 0xff} up to 3 bytes) replayed against DB.Subscribe; deliveries compared per subscriber."""
import os, sys, random, json
sys.path.insert(0, os.path.dirname(os.path.abspath(__file__)))
import lib_sm1 as L
import vlib

INV = ["TrieMatchesContract", "ExactlyOnceInOrder", "NoSpuriousDelivery", "NoStaleIds"]


def B(xs):
    return "".join({1: "a", 2: "b", 255: "\\xff"}[x] for x in xs)


def short(h):
    out = []
    for s in h:
        if s["op"] == "subscribe":
            out.append("sub%d{%s}" % (s["s"], ";".join("%s/ig%s" % (B(p["prefix"]), p["ig"]) for p in s["pats"])))
        elif s["op"] == "unsubscribe":
            out.append("unsub%d" % s["s"])
        elif s["op"] == "commit":
            out.append("commit@%d[%s]" % (s["ver"], ",".join(B(k) for k in s["keys"])))
        elif s["op"] == "end":
            out.append("=> " + " | ".join("s%d:%s" % (i + 1, ",".join("@%d[%s]" % (d["ver"], ",".join(B(k) for k in d["keys"])) for d in e))
                                          for i, e in enumerate(s["expected"])))
    return " ".join(out)


def body(c):
    q = c.quick
    base = dict(Bytes=[1, 255], MaxKeyLen=2, MaxP=2, Subs=[1, 2], MaxPats=1, MaxCommits=1, MaxWrites=2, LookupKey="user")
    L.mc(c, "Publisher", "2subs-1pat", L.K(**base), INV, timeout=900)
    L.mc(c, "Publisher", "1sub-2pats-2commits", L.K(**dict(base, Subs=[1], MaxPats=2, MaxCommits=1 if q else 2)), INV, timeout=900)
    if not q:
        L.mc(c, "Publisher", "3bytes", L.K(**dict(base, Bytes=[1, 2, 255], MaxCommits=1)), INV, timeout=1500)
    cx = L.expect_counterexample(c, "Publisher", "internal-key", L.K(**dict(base, LookupKey="internal")), "TrieMatchesContract")
    c.cov["internal_key_lookup_counterexample_found"] = bool(cx.violation)
    if not cx.violation:
        raise vlib.Inconclusive("lookup on the internal key no longer violates TrieMatchesContract in the model")
    gen = dict(Bytes=[1, 2, 255], MaxKeyLen=3, MaxP=3, Subs=[1, 2, 3], MaxPats=2, MaxCommits=4 if q else 6, MaxWrites=2,
               LookupKey="user", HistLen=9 if q else 12, UnsubWeight=100)
    cases = L.gen(c, "PublisherGen", "sim", L.K(**gen), invariants=("Emit", "ExactlyOnceInOrder", "NoSpuriousDelivery"),
                  simulate=1600 if q else 12000, depth=30, seed=c.seed, timeout=240 if q else 900, workers=4)
    cases = list({json.dumps(h, sort_keys=True): h for h in cases}.values())
    if q and len(cases) > 3000:
        cases = random.Random(c.seed).sample(cases, 3000)
    L.replay(c, "cmd/sm1pub", cases, [], "publisher-sim", timeout=1500)
    nd = sum(1 for h in cases if any(e for e in h[-1]["expected"]))
    c.cov["cases_with_at_least_one_expected_delivery"] = nd
    c.cov["cases_with_unsubscribe"] = sum(1 for h in cases if any(s["op"] == "unsubscribe" for s in h))
    c.cov["cases_with_ignore_positions"] = sum(1 for h in cases if any(p["ig"] for s in h if s["op"] == "subscribe" for p in s["pats"]))
    c.cov["cases_with_prefix_longer_than_some_committed_key"] = sum(
        1 for h in cases if any(len(p["prefix"]) > len(k) for s in h if s["op"] == "subscribe" for p in s["pats"]
                                for t in h if t["op"] == "commit" for k in t["keys"]))
    keys = set(short(h) for h in cases if any(e for e in h[-1]["expected"]))
    c.add_cases(len(cases), keys, traces=len(cases))
    for h in [h for h in cases if sum(len(e) for e in h[-1]["expected"]) >= 3][:2]:
        c.sample(short(h))
    c.cov["rule"] = ("a case = behaviour of PublisherGen (seeded TLC simulation): 3 subscriptions of 1-2 patterns (prefix of 0-3 bytes over "
                     "{a,b,0xff}, any ignore set), then commits of 1-2 user keys (1-3 bytes) and unsubscribes; non-trivial = at least one "
                     "delivery expected; distinct = distinct step sequences")
    c.cov["exhaustive"] = False
    c.assumptions += ["deliveries of keys with the reserved !badger! prefix (the transaction end marker reaches subscribers whose pattern "
                      "matches it, e.g. the empty prefix) are counted but not judged: the property speaks about user keys",
                      "commits are issued sequentially (commit order = call order); order inside one transaction is not specified",
                      "a subscriber is cancelled only after everything committed before has reached it"]


vlib.main("C32", "model_checking", body)
