#!/usr/bin/env python3
"""C37 — in-memory mode behaves like the on-disk database and touches no files.
spec : the same BadgerKV contract is the oracle for both modes (no action of the contract depends on
       the storage mode)
MC   : the contract itself (exhaustive, 2 transactions, compaction and expiry enabled)
bind : every TLC-generated history valid in both modes (no re-open, values within the in-memory
       limit; flush / compaction steps included) is replayed with InMemory = true and on disk; both
       must match the contract on every observation, and the per-history digests of all observations
       (found, value, user meta, expiry, version) of the two modes must be equal.  The in-memory
       replayer processes run with an empty scratch working directory and an empty scratch $TMPDIR:
       both are listed and hashed before and after (nothing may appear), and the hook recorder
       (harness/vh Recorder) must not see a single fs.* event."""
import os, sys
sys.path.insert(0, os.path.dirname(os.path.abspath(__file__)))
import lib_kv as K
import vlib


def body(c):
    q = c.quick
    mc = dict(K.MC_DEFAULT, Feat='{"iter", "compact"}', Exps="{0, 2}", MaxNow="2")
    K.model_check(c, "contract-2txn-2key", mc, ["TypeOK", "SnapshotRead", "AtomicVisibility", "UniqueTs"],
                  ["SnapshotStable", "ReadStableAboveDiscard"], bound="nval <= 2" if q else "nval <= 3", timeout=3000)
    tab = K.key_table(c.seed, internal=True)
    sim = K.hist_consts(tab, Exps="{0, 3}", MaxNow="3", HistLen="32", MaxOps="3", MaxActive="3", WriteWeight="2",
                        Discs="{FALSE, TRUE}", EnvSteps=K.tla_set(["flush", "compactL0", "compactL0L0", "compactDown"]),
                        IterOptList=K.iter_templates(tab), SplitIter="TRUE", ScanVias='{"iter", "stream"}', Dumps="TRUE",
                        BigSets="FALSE")
    n = 500 if q else 5000
    sims = K.generate(c, "sim-both-modes", sim, n, 32, c.seed, workers=8 if q else 12, timeout=1800)
    c.cov["generated_op_histogram"] = K.op_histogram(sims)
    # in-memory run in an empty world
    cwd = vlib.scratch("inmem-cwd-")
    tmp = vlib.scratch("inmem-tmp-")
    before = (K.tree_hash(cwd), K.tree_hash(tmp))
    mstats, dstats = {}, {}
    mem = K.replay(c, sims, "inmem", c.seed, "sim-both-modes", keys=tab, flags=["-fsaudit"], cwd=cwd, tmpdir=tmp, collect=mstats)
    after = (K.tree_hash(cwd), K.tree_hash(tmp))
    if before != after:
        created = sorted(set(after[0]) - set(before[0])) + sorted(set(after[1]) - set(before[1]))
        c.violation("kv:inmem.filesTouched", {"created_or_changed": created[:20]}, {"config": "inmem", "seed": c.seed})
    if mstats.get("fsEvents", 0) != 0:
        c.violation("kv:inmem.fsEvents", {"fs_events": mstats.get("fsEvents")}, {"config": "inmem", "seed": c.seed})
    disk = K.replay(c, sims, "default", c.seed, "sim-both-modes", keys=tab, flags=["-fsaudit"], collect=dstats)
    if dstats.get("fsEvents", 0) == 0:
        raise vlib.Inconclusive("the recorder saw no fs.* event in the on-disk run: the in-memory audit would be vacuous")
    dd = {r["case"]: r["digest"] for r in disk if r["ok"]}
    ndiff = 0
    for r in mem:
        if r["ok"] and r["case"] in dd and dd[r["case"]] != r["digest"]:
            ndiff += 1
            if ndiff <= 3:
                c.violation("kv:inmem.observationsDiffer", {"case": r["case"], "disk": dd[r["case"]], "inmem": r["digest"]},
                            {"seed": c.seed, "case": sims[r["case"]], "keys": [k.decode("latin-1") for k in tab]})
    # values of exactly the in-memory limit (ValueThreshold as configured, inclusive) and one byte below it: valid in
    # both modes, stored inline in memory and in the value log on disk
    lmem = K.replay(c, sims, "inmem+lim", c.seed, "sim-both-modes", keys=tab, flags=["-fsaudit"], cwd=cwd, tmpdir=tmp)
    ldisk = K.replay(c, sims, "lim", c.seed, "sim-both-modes", keys=tab)
    ld = {r["case"]: r["digest"] for r in ldisk if r["ok"]}
    nl = 0
    for r in lmem:
        if r["ok"] and r["case"] in ld and ld[r["case"]] != r["digest"]:
            nl += 1
            if nl <= 3:
                c.violation("kv:inmem.observationsDiffer", {"case": r["case"], "disk": ld[r["case"]], "inmem": r["digest"], "values": "limit-sized"},
                            {"seed": c.seed, "case": sims[r["case"]], "keys": [k.decode("latin-1") for k in tab]})
    c.cov["limit_sized_values"] = {"sizes": "8, T-1, T (T = ValueThreshold = in-memory value limit)", "digests_compared": len(ld), "digests_different": nl}
    if K.tree_hash(cwd) != before[0] or K.tree_hash(tmp) != before[1]:
        c.violation("kv:inmem.filesTouched", {"stage": "limit-sized values"}, {"config": "inmem+lim", "seed": c.seed})
    if not q:
        K.replay(c, sims, "inmem+zstd", c.seed, "sim-both-modes", keys=tab, flags=["-fsaudit"], cwd=cwd, tmpdir=tmp)
        K.replay(c, sims, "vlog+l3", c.seed, "sim-both-modes", keys=tab)
    c.cov["inmem_world"] = {"cwd_entries_before_after": [len(before[0]), len(after[0])], "tmpdir_entries_before_after": [len(before[1]), len(after[1])],
                            "fs_events_inmem": mstats.get("fsEvents", 0), "fs_events_on_disk_same_histories": dstats.get("fsEvents", 0),
                            "digests_compared": len(dd), "digests_different": ndiff}
    c.cov["env_steps_executed_inmem"] = {k: mstats.get(k, 0) for k in ("flush", "compactL0", "compactL0L0", "compactDown")}
    good = [h for h in sims if K.nontrivial(h, ["commit:ok"])]
    c.add_cases(len(sims) * 2, set(K.hist_key(h) for h in good), traces=len(sims) * 2)
    c.cov["rule"] = ("histories are behaviours of BadgerKVGen (TLC -simulate, length 32) without re-open steps and with 8-byte "
                     "values (valid in both modes); non-trivial = at least one successful commit; each history is replayed "
                     "in-memory and on disk and the observation digests are compared")
    c.cov["exhaustive"] = False
    for h in good[:2]:
        c.sample(K.short(h))
    c.assumptions += ["batches and drops are other families' generators; here transactions, iterators, Stream, "
                      "flushes and compactions",
                      "the replayer writes its result lines to stdout (a pipe owned by the check), its input file lives "
                      "outside the audited directories"]


vlib.main("C37", "model_checking", body)
