#!/usr/bin/env python3
"""C10 -- with SyncWrites, acknowledged commits survive loss of un-synced data (power loss: only
file contents and directory entries badger explicitly synced survive).
spec : specs/disk/Disk.tla + DiskFS.tla (two-layer file system, Survives(fs, kind)) with
       CrashRecover("power" | "power-empty" | "power-content" | "power-wal" | "power-vlog"); same
       invariants as C08 + PowerSafeManifest
MC   : exhaustive TLC for the intended protocol (DirSyncOnCreate); the code-as-is switch
       (no directory fsync after creating .mem/.vlog/flush .sst) must give the counterexample
bind : (E-CRASH) SyncWrites workloads from DiskGen; at every hook event the power-loss images
       (strict with zero-filled / zero-length never-synced files; un-synced content surviving)
       are built from the recorded fs.sync / fs.syncdir events, re-opened with the real Open and
       judged; a failing point is classified by re-judging the image in which directory entries
       of newly created files are durable (the intended protocol);
       (E-TRACE) DiskTrace conditions A1/P1 (hard) and A2/P2 (intended directory protocol)."""
import os, sys, json
sys.path.insert(0, os.path.dirname(os.path.abspath(__file__)))
import lib_disk as D
import vlib


def body(c):
    if D.replay_recorded(c):
        return
    q = c.quick
    inv = D.INV_ALL + ["PowerSafeManifest"]
    if q:
        D.disk_mc(c, "power:2commits+rotate+compact", invariants=inv, SyncWrites="TRUE", CrashKinds=D.POWER_KINDS,
                  MaxCommits=2, timeout=400)
    else:
        D.disk_mc(c, "power:2commits+rotate+compact+gc+close", invariants=inv, SyncWrites="TRUE", CrashKinds=D.POWER_KINDS,
                  MaxCommits=2, MaxGC=1, MaxClose=1, keysets="MCKeySets2", timeout=1800)
        D.disk_mc(c, "power:2commits+2crashes", invariants=inv, SyncWrites="TRUE",
                  CrashKinds='{"power", "power-content"}', MaxCommits=2, MaxCrash=2, timeout=1800)
    D.disk_mc(c, "code-as-is:no-dirsync-after-create", invariants=inv, expect_violation="PrefixRecovered",
              SyncWrites="TRUE", CrashKinds='{"power"}', DirSyncOnCreate="FALSE", MaxCompact=0, timeout=300)
    n = 6 if q else 40
    needs = ("flush", "compactL0", "rotate", "gc", "reopen", "write:big", "write:small", "write:del")
    pool = D.generate(c, "sync-workloads", max(6 * n, 60), c.seed, workers=4, SyncModes="{TRUE}", Drops="{}")
    cases = D.select_covering(pool, n, needs, c.seed)
    hist = D.op_histogram(cases)
    c.cov["workload_histogram"] = hist
    for need in needs:
        if not hist.get(need):
            raise vlib.Inconclusive("generated workloads contain no %s" % need)
    results, nchecks, classes = D.crash_campaign(c, cases, D.PL_STRICT, "power-loss", full_confirm=1 if q else 3)
    # concurrent committers written as one batch across a memtable rotation (acknowledged requests in
    # the WAL that was rotated away must be durable too)
    mw = D.multi_workloads(c, 1 if q else 4, c.seed)
    rm, nm, clm = D.crash_campaign(c, mw, D.PL_STRICT, "power-loss(batch of concurrent committers across a rotation)",
                                   full_confirm=0 if q else 1)
    for r in rm:
        m = json.load(open(os.path.join(r["dir"], "run.json")))
        if not any(f.startswith("00002.mem") for im in m["images"] for f in (im["files"] or [])):
            raise vlib.Inconclusive("multi workload did not rotate the memtable")
    results = results + rm
    nchecks += nm
    classes = classes | set("multi|" + x for x in clm)
    traces = [os.path.join(r["dir"], "trace.ndjson") for r in results]
    rej, strict = D.validate_traces(c, traces, "sync-workloads")
    if rej:
        at, ev, cond = rej
        c.violation("disk:trace rejected cond=%s ev=%s op=%s" % (cond, ev.get("ev"), ev.get("opname")),
                    {"line": at, "event": ev, "condition": cond}, {"event": ev, "condition": cond})
    for cond in sorted(set(s[0] for s in strict)):
        ex = [s for s in strict if s[0] == cond]
        c.violation("disk:trace strict-dirsync %s" % cond,
                    {"count": len(ex), "first": {"line": ex[0][1], "event": ex[0][2], "op": ex[0][3]}},
                    {"condition": cond, "line": ex[0][1], "case": cases[0]})
    c.add_cases(nchecks, classes, traces=len(traces))
    c.cov["rule"] = ("one evaluation = one power-loss point (hook event x image flavour: zero-filled / zero-length / "
                     "content-surviving) re-opened with the real Open and judged against DiskDefs.PrefixAllowed with "
                     "lo = number of acknowledged operations; distinct = (flavour, operation, hook point) classes; "
                     "every hook event of every workload is a power-loss point")
    c.cov["exhaustive"] = True
    c.cov["sub_checks"] = {"C14_manifest_equals_directory_and_validate": nchecks,
                           "C11_next_commit_above_all_versions": nchecks}
    for r in results[:2]:
        c.sample({"workload": " ; ".join(o["op"] for o in cases[r["ci"]]["ops"]), "hook_events": r["events"],
                  "power_loss_points": r["nchecks"], "findings": len(r["findings"]),
                  "example": (r["findings"][0]["what"] + ": " + r["findings"][0]["detail"][:160]) if r["findings"] else ""})
    c.assumptions += [
        "durable content of a file = its bytes at its last fs.sync / fs.close hook (msync / fsync); durable directory = "
        "the entries present at the last fs.syncdir hook; KEYREGISTRY (written with O_DSYNC), LOCK and DISCARD keep "
        "their current content",
        "one goroutine active at a time during a recorded run (see C08)"]


vlib.main("C10", "fault_enumeration", body)
