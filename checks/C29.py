#!/usr/bin/env python3
"""C29 -- DropAll / DropPrefix remove exactly the requested data, durably; concurrent writes land
entirely before or after; a crash during a drop leaves every key with its pre-drop value or
absent.
spec : DiskDefs (ApplyOp for drops, DropAllowed / DropStates), Disk.tla (B_D* / B_P* programs,
       DropAtomicity, blocked writers)
MC   : exhaustive TLC: crash after every step of DropAll and DropPrefix with commits, flush and
       compaction around them (intended order DropFlushFirst); code-as-is order must give TLC's
       DropAtomicity counterexample; DropStates = {rv : DropAllowed} checked on the generator
bind : (E-CRASH) workloads whose n-th operation is a drop (data spread over memtable / L0 / L1 /
       value log by the preceding operations): every hook event of the run -- in particular every
       step inside the drop -- is a kill point, re-opened and judged against the set DropStates
       the spec attaches to the drop (other points: PrefixAllowed); after the drop returns the
       state must be the dropped one at every later point (durably: also after reopen);
       (R) concurrent writers parked at the gate send.beforeChan and released at each step of the
       drop: every transaction lands entirely before or after; the DB accepts writes afterwards."""
import os, sys, json
sys.path.insert(0, os.path.dirname(os.path.abspath(__file__)))
import lib_disk as D
import vlib

KINDS = ("kill", "kill-trunc0")


def body(c):
    if D.replay_recorded(c):
        return
    q = c.quick
    # 1. design level: both drop programs, crash after every step
    D.disk_mc(c, "drops:2commits+rotate+compact+dropAll+dropPrefix", MaxCommits=2, MaxDropAll=1, MaxDropPrefix=1,
              timeout=600)
    if not q:
        D.disk_mc(c, "dropAll+gc:2commits+rotate+compact", MaxCommits=2, MaxDropAll=1, MaxGC=1, timeout=900)
    if not q:
        D.disk_mc(c, "drops:2commits+dels+dropAll+dropPrefix+2crashes", MaxCommits=2, MaxDropAll=1, MaxDropPrefix=1,
                  Dels="{FALSE, TRUE}", MaxCrash=2, timeout=1500)
    D.disk_mc(c, "code-as-is:dropAll-memtables-first", expect_violation="DropAtomicity", DropFlushFirst="FALSE",
              MaxDropAll=1, timeout=300)
    # the constructive DropStates the generator emits equals the C29 predicate (exhaustive, short)
    D.generate(c, "dropstates-check", 0, c.seed, workers=4, exhaustive=True, invariants=("DropStatesChecked",),
               NKeys=3, HistLen=4, SyncModes="{FALSE}", KeySets="{{1}, {2, 3}}", Styles="{1, 4}", EnvOps='{"flush"}',
               MaxEnv=1)
    # 2. workloads with a drop at a fixed position
    cases = []
    per = 2 if q else 10
    for pos in ((5, 8) if q else (3, 5, 7, 9)):
        for drops in ('{"dropAll"}', '{"dropPrefix"}'):
            cases += D.generate(c, "drop@%d:%s" % (pos, drops), per, c.seed + pos, workers=2, Drops=drops, DropAt=pos,
                                HistLen=pos + 3, EnvOps='{"rotate", "flush", "compactL0", "gc", "reopen"}')
    hist = D.op_histogram(cases)
    c.cov["workload_histogram"] = hist
    if not hist.get("dropAll") or not hist.get("dropPrefix"):
        raise vlib.Inconclusive("generated workloads lack a drop: %s" % hist)
    results, nchecks, classes = D.crash_campaign(c, cases, KINDS, "kill-in-drop", full_confirm=1 if q else 3)
    indrop = sum(1 for r in results for cl in r["classes"] if "|drop" in cl)
    c.cov["crash_point_classes_inside_drops"] = indrop
    # 3. concurrent writers vs drops (gates): race cases from the generator, every release point
    races = D.generate(c, "races", 4 if q else 24, c.seed, workers=2, Races='{"raceAll", "racePrefix"}', Drops="{}",
                       HistLen=7, EnvOps='{"rotate", "flush", "compactL0"}')
    outs = D.drop_writers(c, races, "drop-vs-writer")
    nsched = len(outs)
    c.add_cases(nchecks + nsched, classes | set("sched|%d" % i for i in range(nsched)), traces=nsched)
    c.cov["rule"] = ("one evaluation = one kill point of a workload containing a drop, re-opened and judged against "
                     "DropStates (inside the drop) / PrefixAllowed (elsewhere), or one writer-release schedule of the "
                     "concurrent-writer replay; distinct = (image kind, operation, hook point) classes + schedules")
    c.cov["exhaustive"] = True
    c.cov["sub_checks"] = {"C14_manifest_equals_directory_and_validate": nchecks,
                           "C11_next_commit_above_all_versions": nchecks}
    for r in results[:3]:
        c.sample({"workload": " ; ".join(o["op"] for o in cases[r["ci"]]["ops"]), "hook_events": r["events"],
                  "kill_points": r["nchecks"], "findings": len(r["findings"]),
                  "example": (r["findings"][0]["what"] + ": " + r["findings"][0]["detail"][:200]) if r["findings"] else ""})
    c.assumptions += ["one goroutine active at a time during a recorded run (see C08)",
                      "reads are not issued while a drop runs (documented precondition of DropAll)"]


vlib.main("C29", "model_checking", body)
