"""ds family (data structures): TLA+ modules under specs/ds -> TLC model checking and case
generation -> replay against the real code with harness/cmd/dsreplay -> (C22) traces of real
concurrent goroutines validated by TLC against SkiplistTrace."""
import json, os, subprocess, sys, time, random, collections
sys.path.insert(0, os.path.join(os.path.dirname(os.path.abspath(__file__)), "..", "tools"))
import vlib
from vlib import Inconclusive, log

FAMILY = "ds"


def cfg_text(spec, consts=None, invariants=(), properties=(), constraint=None, postcondition=None):
    out = ["SPECIFICATION %s" % spec]
    if consts:
        out.append("CONSTANTS")
        for k, v in consts.items():
            out.append("  %s = %s" % (k, tla(v)))
    if invariants:
        out.append("INVARIANTS " + " ".join(invariants))
    if properties:
        out.append("PROPERTIES " + " ".join(properties))
    if constraint:
        out.append("CONSTRAINT " + constraint)
    if postcondition:
        out.append("POSTCONDITION " + postcondition)
    return "\n".join(out) + "\n"


def tla(v):
    if isinstance(v, bool):
        return "TRUE" if v else "FALSE"
    if isinstance(v, (set, frozenset, list, tuple)):
        return "{" + ", ".join(tla(x) for x in sorted(v, key=str)) + "}"
    if isinstance(v, str):
        return '"%s"' % v
    return str(v)


def fast_scratch(prefix):
    """Scratch directory for the harness's files (tables, log files are created and msync-ed by the
    real code): a tmpfs when there is one, registered with vlib for removal."""
    import tempfile
    base = os.environ.get("VERIF_TMP")
    if not base and os.path.isdir("/dev/shm") and os.access("/dev/shm", os.W_OK):
        base = "/dev/shm"
    if not base:
        return vlib.scratch(prefix)
    d = tempfile.mkdtemp(prefix=prefix, dir=base)
    vlib._scratch.append(d)
    return d


def workers(c, n=None):
    """TLC workers: all cores when run by bin/check, fewer when VERIF_WORKERS is set (development)."""
    w = int(os.environ.get("VERIF_WORKERS", "0")) or vlib.NCPU
    return min(w, n) if n else w


def model_check(c, name, module, cfg, timeout=900, nworkers=None, coverage=False):
    """Exhaustive TLC run of a design module; a failure is never a verdict about the code."""
    d = vlib.stage_specs([FAMILY])
    with open(os.path.join(d, "mc.cfg"), "w") as f:
        f.write(cfg)
    res = vlib.run_tlc(d, module, "mc.cfg", timeout=timeout, workers=nworkers or workers(c), coverage=coverage)
    c.add_tlc(name, res)
    vlib.require_tlc_ok(res, "%s/%s" % (module, name))
    if coverage and res.coverage_zero:
        c.cov.setdefault("vacuity_warnings", []).append({"config": name, "zero_count": res.coverage_zero[:10]})
    return res


def generate(c, name, module, cfg, simulate=None, depth=None, seed=None, timeout=900, nworkers=None, count_states=True):
    """Run a generator module; returns the distinct cases (parsed JSON)."""
    d = vlib.stage_specs([FAMILY])
    with open(os.path.join(d, "gen.cfg"), "w") as f:
        f.write(cfg)
    w = nworkers or workers(c)
    if simulate:
        w = min(w, 4)
        res = vlib.run_tlc(d, module, "gen.cfg", timeout=timeout, workers=w, simulate=max(1, simulate // w),
                           depth=depth, seed=seed)
    else:
        res = vlib.run_tlc(d, module, "gen.cfg", timeout=timeout, workers=w)
    if res.violation or not res.ok:
        raise Inconclusive("generator %s/%s failed: %s %s" % (module, name, res.violation, (res.error_trace or res.out[-1500:])[:2000]))
    seen, cases = set(), []
    for x in res.cases:
        k = json.dumps(x, sort_keys=True)
        if k not in seen:
            seen.add(k)
            cases.append(x)
    c.cov["tlc_runs"].append({"config": "gen:" + name, "mode": "simulate" if simulate else "exhaustive",
                              "cases": len(cases), "states_generated": res.generated,
                              "distinct_states": res.distinct, "wall_s": round(res.wall, 1)})
    if not simulate and count_states:
        c.cov["states"] += res.distinct
        c.cov["transitions"] += res.generated
    if not cases:
        raise Inconclusive("generator %s/%s produced no cases" % (module, name))
    return cases


def group_by(cases, content_key, seq_of):
    """Group generated cases by content (tables / inputs) so that the harness builds each
    content once: returns a list of dicts content + {"seqs": [...]}."""
    groups = collections.OrderedDict()
    for x in cases:
        k = json.dumps([x[f] for f in content_key], sort_keys=True)
        g = groups.get(k)
        if g is None:
            g = {f: x[f] for f in content_key}
            g["seqs"] = []
            groups[k] = g
        g["seqs"].append(seq_of(x))
    return list(groups.values())


def _run_shards(binp, mode, inp, d, nproc, seed, variants, thorough, timeout, extra=()):
    procs = []
    env = vlib.goenv()
    env["TMPDIR"] = d
    for s in range(nproc):
        out = open(os.path.join(d, "res-%s-%d.ndjson" % (mode, s)), "w")
        cmd = [binp, "-mode", mode, "-in", inp, "-seed", str(seed), "-shard", str(s), "-nshards", str(nproc),
               "-variants", str(variants)] + (["-thorough"] if thorough else []) + list(extra)
        p = subprocess.Popen(cmd, stdout=out, stderr=subprocess.PIPE, env=env)
        procs.append((p, out))
    t0 = time.time()
    results = []
    for s, (p, out) in enumerate(procs):
        try:
            _, err = p.communicate(timeout=max(1, timeout - (time.time() - t0)))
        except subprocess.TimeoutExpired:
            for q, _ in procs:
                q.kill()
            raise Inconclusive("dsreplay -mode %s timed out after %ds" % (mode, timeout))
        out.close()
        if p.returncode != 0:
            for q, _ in procs:
                q.kill()
            raise Inconclusive("dsreplay -mode %s failed rc=%s: %s" % (mode, p.returncode, err.decode("utf-8", "replace")[-2000:]))
        for line in open(os.path.join(d, "res-%s-%d.ndjson" % (mode, s))):
            results.append(json.loads(line))
    return results


def replay(c, mode, cases, label, seed, variants=1, thorough=False, nproc=None, timeout=900, extra=()):
    """Replay cases with dsreplay; every mismatch is re-run alone from a clean process and only
    then reported as a violation. Returns (results, stats)."""
    if not cases:
        raise Inconclusive("no cases for " + label)
    binp = vlib.go_build("cmd/dsreplay")
    d = fast_scratch("dscases-")
    inp = os.path.join(d, "cases-%s.ndjson" % mode)
    with open(inp, "w") as f:
        for x in cases:
            f.write(json.dumps(x) + "\n")
    nproc = nproc or max(1, min(workers(c), len(cases) // 4 or 1))
    t0 = time.time()
    results = _run_shards(binp, mode, inp, d, nproc, seed, variants, thorough, timeout, extra)
    if len(results) != len(cases):
        raise Inconclusive("dsreplay returned %d results for %d cases (%s)" % (len(results), len(cases), label))
    stats = collections.Counter()
    evals = 0
    for r in results:
        evals += r.get("evals", 0)
        for k, v in (r.get("stats") or {}).items():
            stats[k] += v
    bad = [r for r in results if not r["ok"]]
    c.cov["engines"].append({"replay": label, "mode": mode, "cases": len(results), "comparisons": evals,
                             "mismatches": len(bad), "stats": dict(stats), "wall_s": round(time.time() - t0, 1)})
    per_sig = collections.Counter()
    for r in bad:
        per_sig[r["sig"]] += 1
        if per_sig[r["sig"]] > 2:
            continue
        if r["sig"].startswith("harness:"):
            raise Inconclusive("harness problem in %s: %s %s" % (label, r["sig"], str(r.get("detail"))[:500]))
        case = cases[r["case"]]
        one = os.path.join(d, "one.ndjson")
        with open(one, "w") as f:
            f.write(json.dumps(case) + "\n")
        # same concretisation: the harness derives it from (seed, case index); re-run with the index preserved
        again = rerun_one(binp, mode, case, r["case"], d, seed, variants, thorough, extra)
        if again is None or again.get("ok"):
            log("mismatch did not reproduce on re-run, ignoring:", r.get("sig"))
            c.cov["unreproduced"] = c.cov.get("unreproduced", 0) + 1
            continue
        c.violation(r["sig"], {"label": label, "detail": r.get("detail")},
                    {"mode": mode, "seed": seed, "variants": variants, "thorough": thorough, "case_index": r["case"],
                     "case": case, "replay_cmd": "dsreplay -mode %s" % mode})
    return results, stats, evals


def rerun_one(binp, mode, case, index, d, seed, variants, thorough, extra=()):
    """Re-run one case in a fresh process at the same case index (blank lines before it keep the
    index, from which the concretisation is derived)."""
    inp = os.path.join(d, "rerun.ndjson")
    with open(inp, "w") as f:
        for _ in range(index):
            f.write("null\n")
        f.write(json.dumps(case) + "\n")
    env = vlib.goenv()
    env["TMPDIR"] = d
    cmd = [binp, "-mode", mode, "-in", inp, "-seed", str(seed), "-shard", str(index), "-nshards", str(index + 1),
           "-variants", str(variants)] + (["-thorough"] if thorough else []) + list(extra)
    rc, out, err, _ = vlib.run(cmd, timeout=300, env=env)
    if rc != 0 or not out.strip():
        return None
    return json.loads(out.strip().splitlines()[-1])


def sample(cases, n, seed):
    if len(cases) <= n:
        return list(cases)
    return random.Random(seed).sample(cases, n)


def show_ops(ops):
    out = []
    for o in ops:
        a = o["op"] if o["op"] != "seek" else "seek(%d@%d)" % (o["tk"], o["tv"])
        b = o["obs"]
        out.append("%s->%s" % (a, ("%d@%d" % (b["k"], b["v"])) if b["valid"] else "invalid"))
    return " ".join(out)


def show_tab(t):
    return "[" + " ".join("%d@%d" % (e["ik"][0], e["ik"][1]) for e in t) + "]"


def handle_replay(c):
    """bin/check Cxx --replay <path>: re-run the recorded failing case only. Returns True when a replay was requested."""
    if not c.replay:
        return False
    rec = json.load(open(c.replay))
    case = rec.get("case") or {}
    # a single-case re-run must not replace the evidence of the last full run
    evp = os.path.join(vlib.EVID, c.prop + ".json")
    if os.path.exists(evp):
        import atexit
        saved = open(evp, "rb").read()
        atexit.register(lambda: open(evp, "wb").write(saved))
    mode = case.get("mode")
    d = fast_scratch("dsreplay1-")
    if mode == "sklconc-history":
        import shutil
        dd = vlib.stage_specs([FAMILY])
        with open(os.path.join(dd, "trace.ndjson"), "w") as f:
            for e in case["events"]:
                f.write(json.dumps(e) + "\n")
        res = vlib.run_tlc(dd, "SkiplistTrace", "SkiplistTrace.cfg", workers=1, timeout=300, dfs_queue=True)
        c.add_tlc("replay-trace", res)
        c.add_cases(1, ["replayed-history", "x"], traces=1)
        c.sample({"replayed": c.replay, "accepted": bool(res.ok)})
        if not res.ok and res.violation == "postcondition":
            c.violation(rec.get("signature", "ds:replay"), {"replayed": c.replay, "detail": "the recorded history is still rejected by SkiplistTrace"}, None)
        elif not res.ok:
            raise Inconclusive("replay: TLC failed: %s" % (res.error_trace or res.out[-800:])[:800])
        return True
    if mode == "sklconc":
        raise Inconclusive("replay of a recorder failure: run dsreplay -mode sklconc -seed %s -n %s" % (case.get("seed"), case.get("n")))
    binp = vlib.go_build("cmd/dsreplay")
    extra = ["-bloom"] if "bloom" in str(rec.get("detail", {}).get("label", "")) else []
    again = rerun_one(binp, mode, case["case"], case["case_index"], d, case["seed"], case.get("variants", 1), case.get("thorough", False), extra)
    if again is None:
        raise Inconclusive("replay: harness failed")
    c.add_cases(max(1, again.get("evals", 1)), ["replayed-case", "x"])
    c.cov["rule"] = "single recorded case re-run (--replay)"
    c.sample({"replayed": c.replay, "ok": again.get("ok"), "sig": again.get("sig"), "detail": str(again.get("detail"))[:1500]})
    if not again.get("ok"):
        c.violation(again.get("sig", "ds:replay"), {"replayed": c.replay, "detail": again.get("detail")}, None)
    return True
