#!/usr/bin/env python3
"""C34 — the oracle and watermarks never expose unfinished commits or strand readers.
spec : specs/oracle/WaterMark.tla (transcription of y/watermark.go), Oracle.tla (commit pipeline)
MC   : WaterMark exhaustively incl. liveness NoLostWakeup under WF(Process), both usage modes;
       Oracle for three transaction programs (NoReaderBeforeApply, ConflictLogSufficient, ...)
bind : (R) every interleaving TLC generates for WaterMarkGen is forced on the real y.WaterMark
       (process goroutine stepped through the verif gate) and DoneUntil/LastIndex/released
       waiters compared after each step; (T) traces of free-running concurrent workloads on
       the real DB validated by TLC against OracleTrace and WaterMarkTrace."""
import os, sys, random
sys.path.insert(0, os.path.dirname(os.path.abspath(__file__)))
import lib_oracle as O
import vlib


def body(c):
    q = c.quick
    O.mc_watermark(c, q)
    O.mc_oracle(c, q)
    rnd = random.Random(c.seed)
    keys = set()
    total = 0
    for uniq in ("TRUE", "FALSE"):
        if q:
            cases = O.gen_wm(c, 7, uniq, c.seed) if uniq == "TRUE" else O.gen_wm(c, 10, uniq, c.seed, num=6000)
            cases = rnd.sample(cases, min(len(cases), 6000))
        else:
            cases = O.gen_wm(c, 8, uniq, c.seed) if uniq == "TRUE" else \
                O.gen_wm(c, 7, uniq, c.seed) + O.gen_wm(c, 12, uniq, c.seed, num=40000)
        O.replay_wm(c, "C34", cases, "WaterMarkGen Unique=%s" % uniq)
        total += len(cases)
        for h in cases:
            if any(s["act"] == "process" and s["released"] for s in h):
                keys.add(uniq + "|" + "".join("%s%d%d" % (s["act"][0:2], s["idx"], s["w"]) for s in h))
        if cases:
            c.sample({"watermark_interleaving": [(s["act"], s["idx"], "->doneUntil=%d" % s["doneUntil"]) for s in cases[0]]})
    c.add_cases(total, keys)
    O.gated_stage(c, "C34", 400 if q else 8000, c.seed)
    seeds = [c.seed] if q else [c.seed + i for i in range(4)]
    ot, wt, nruns = O.trace_stage(c, "C34", q, seeds)
    O.selftest_binding(c, ot)
    with open(ot) as f:
        c.sample({"trace_excerpt": [next(f).strip() for _ in range(6)]})
    c.cov["rule"] = ("interleavings = behaviours of WaterMarkGen (caller and process steps) over 3 indices and 2 waiters; "
                     "non-trivial = some process step releases a waiter; traces = free-running concurrent workloads "
                     "(2-16 goroutines, background compaction, optional value-log GC) recorded at the hooks")
    c.cov["exhaustive"] = not q
    c.assumptions += ["hook events are emitted under the protecting lock / after the state change (DESIGN Appendix C)",
                      "Begin indices are enqueued in non-decreasing order (true for oracle: issued under oracle.Lock)"]


vlib.main("C34", "model_checking", body)
