#!/usr/bin/env python3
"""C23 — encryption at rest is transparent and keeps plaintext off disk.
spec : specs/kv/KeyRegistry.tla  IVUnique, OldKeysStayReadable, WrongKeyRejected,
       WrongKeyChangesNothing, RotationHonoured, DataKeysGrow; transparency = the BadgerKV contract
       predicts the same observations whatever the configuration
MC   : KeyRegistry exhaustive (master keys, data-key rotation by clock, logs with baseIV||offset
       IVs, tables with fresh block IVs, file removal, master-key rotation while closed, wrong-key
       opens); with the defect switch ReuseOffsets TLC must find an IV re-use (non-vacuity)
bind : the same TLC-generated histories (flush / compaction / GC / re-open steps) are replayed
       without encryption and with 16-, 24- and 32-byte master keys and a 1 ns data-key rotation
       interval (every new file gets a new data key); every observation is compared with the
       contract and the per-history observation digests of the plain and the encrypted runs must be
       equal.  At every re-open of an encrypted run: (a) an Open with a different master key must
       fail with ErrEncryptionKeyMismatch and leave names, sizes and hashes of all files unchanged;
       (b) the production `badger rotate` command (badger/cmd/rotate.go, built from the tree under
       test) re-encrypts the registry under a new master key: the old key must be refused, all data
       must still read back; (c) the (data key id, IV) pair of every encrypted table block, table
       index and log record (value log, memtable WAL) is collected through a read-only projection
       (verif_api_kv.go, no hook): no pair may occur twice, every file must name a data key the
       registry has, no file may be plain.  After every history all files are scanned for the
       >= 8-byte markers of user keys ("ukey-marker-NN") and values ("vNNNNNN."): none may be found in
       an encrypted run, and they must be found in the plain run (the scan is not vacuous)."""
import os, sys
sys.path.insert(0, os.path.dirname(os.path.abspath(__file__)))
import lib_kv as K
import vlib

KR_INV = ["TypeOK", "IVUnique", "OldKeysStayReadable", "WrongKeyRejected", "RotationHonoured"]
KR_PROPS = ["WrongKeyChangesNothing", "DataKeysGrow"]


def registry_mc(c, q):
    d = vlib.stage_specs(["kv"])
    consts = dict(MasterKeys='{"m1", "m2"}', MaxDataKeys="3", MaxFiles="2", MaxOff="2", MaxClock="2", Rotation="1",
                  ReuseOffsets="FALSE")
    K.write_model(d, "KRMC", "KeyRegistry", consts, "Spec", KR_INV, KR_PROPS, constraint="nonce <= %d" % (6 if q else 8))
    res = vlib.run_tlc(d, "KRMC", "KRMC.cfg", timeout=2400, workers=8, coverage=True)
    c.add_tlc("keyregistry", res)
    vlib.require_tlc_ok(res, "KeyRegistry")
    zero = [a for a in res.coverage_zero if a != "ReopenLogBelowEnd"]
    if zero:
        raise vlib.Inconclusive("KeyRegistry: actions never taken: %s" % zero)
    K.write_model(d, "KRBAD", "KeyRegistry", dict(consts, ReuseOffsets="TRUE"), "Spec", ["IVUnique"], constraint="nonce <= 5")
    r2 = vlib.run_tlc(d, "KRBAD", "KRBAD.cfg", timeout=1200, workers=4)
    c.cov["tlc_runs"].append({"config": "keyregistry-reuse-offsets (expected counterexample)", "violation": r2.violation,
                              "distinct_states": r2.distinct, "wall_s": round(r2.wall, 1)})
    if r2.violation != "IVUnique":
        raise vlib.Inconclusive("KeyRegistry model is vacuous: appending below the valid end does not break IVUnique")


def body(c):
    q = c.quick
    registry_mc(c, q)
    tab = sorted(K.MARKER_KEYS)
    env = ["flush", "compactL0", "compactDown", "gc", "reopen"]
    sim = K.hist_consts(tab, Exps="{0, 3}", MaxNow="3", HistLen="32", MaxOps="3", MaxActive="2", WriteWeight="3",
                        EnvSteps=K.tla_set(env), EnvWeight="2", WriteKeys="1..4", SeekKeys="1..6",
                        IterOptList=K.tla_seq([K.tla_opts(), K.tla_opts(all=True), K.tla_opts(rev=True), K.tla_opts(pfx=1, pmode="opt")]),
                        ScanVias='{"iter", "stream"}')
    n = 120 if q else 600
    sims = K.generate(c, "sim-enc", sim, n, 32, c.seed, workers=8 if q else 12, timeout=1800)
    c.cov["generated_op_histogram"] = K.op_histogram(sims)
    cli = K.build_badger_cli()
    plain_stats, enc_stats = {}, {}
    plain = K.replay(c, sims, "vlog", c.seed, "sim-enc-plain", keys=tab, flags=["-scan"], collect=plain_stats)
    if plain_stats.get("scanHits", 0) == 0:
        raise vlib.Inconclusive("plaintext scan is vacuous: no marker found in the files of the unencrypted run")
    digest = {r["case"]: r["digest"] for r in plain if r["ok"]}
    encs = ["enc16+vlog", "enc24+vlog", "enc32+vlog"]
    if not q:
        encs += ["enc16+zstd", "enc24+vlog+l3"]
    ndiff = 0
    for i, conf in enumerate(encs):
        flags = ["-scan", "-ivs", "-wrongkey"]
        if i % 3 != 2 or not q:
            flags += ["-rotate", cli]
        res = K.replay(c, sims, conf, c.seed, "sim-enc", keys=tab, flags=flags, collect=enc_stats)
        if "vlog" in conf and "l3" not in conf:
            for r in res:
                if r["ok"] and r["case"] in digest and r["digest"] != digest[r["case"]]:
                    ndiff += 1
                    if ndiff <= 3:
                        c.violation("kv:enc.observationsDiffer config=%s" % conf,
                                    {"case": r["case"], "plain": digest[r["case"]], "encrypted": r["digest"]},
                                    {"config": conf, "seed": c.seed, "case": sims[r["case"]], "keys": [k.decode() for k in tab]})
    # a small run with read-only opens of the encrypted DB (part of "re-opens" in the quantifier)
    rosim = dict(sim, EnvSteps=K.tla_set(["flush", "reopenRO", "reopen"]), HistLen="24")
    ros = K.generate(c, "sim-enc-readonly", rosim, 40 if q else 400, 24, c.seed, workers=4, timeout=1800)
    K.replay(c, ros, "enc+vlog", c.seed, "sim-enc-readonly", keys=tab, collect=enc_stats)
    c.cov["plain_run"] = {"files_scanned": plain_stats.get("scanFiles", 0), "bytes_scanned": plain_stats.get("scanBytes", 0),
                          "files_with_markers": plain_stats.get("scanHits", 0)}
    c.cov["encrypted_runs"] = {"files_scanned": enc_stats.get("scanFiles", 0), "bytes_scanned": enc_stats.get("scanBytes", 0),
                               "files_with_markers": enc_stats.get("scanHits", 0),
                               "encrypted_units_checked_for_iv_uniqueness": enc_stats.get("enc.units", 0),
                               "wrong_key_opens_rejected": enc_stats.get("enc.wrongKeyRejected", 0),
                               "master_key_rotations": enc_stats.get("enc.rotations", 0),
                               "reopens": enc_stats.get("reopen", 0), "gc_rewrites": enc_stats.get("gc", 0)}
    for k in ("enc.units", "enc.wrongKeyRejected", "enc.rotations", "scanFiles"):
        if enc_stats.get(k, 0) == 0:
            raise vlib.Inconclusive("encrypted runs never exercised %s" % k)
    good = [h for h in sims if K.nontrivial(h, ["commit:ok"]) and any(s["op"] == "env" and s["what"] == "reopen" for s in h)]
    c.add_cases(len(sims) * (len(encs) + 1) + len(ros), set(K.hist_key(h) for h in good), traces=len(sims) * (len(encs) + 1))
    c.cov["rule"] = ("histories are behaviours of BadgerKVGen (TLC -simulate, length 32) over 7 marker keys; non-trivial = a "
                     "successful commit and at least one re-open (where the wrong-key attempt, the master-key rotation and "
                     "the IV collection happen); each history is replayed once unencrypted and once per key length")
    c.cov["exhaustive"] = False
    c.cov["level_note"] = ("model_checking for the key-registry state machine (KeyRegistry.tla) and for transparency "
                           "(contract predictions compared in encrypted configurations); the plaintext scan of the files is an "
                           "observation the specification only names and is claimed at exploration strength (sampled "
                           "histories, fixed markers)")
    for h in good[:2]:
        c.sample(K.short(h))
    c.assumptions += ["random IV generation (crypto/rand) is not judged; the check is that no (data key, IV) pair is used by "
                      "two encrypted units, within and across the re-opens of a history",
                      "markers: keys 'ukey-marker-NN' (14 bytes) and value prefixes 'vNNNNNN.' (8 bytes)",
                      "rotation interval 1 ns: every new file gets a new data key; longer intervals share data keys between "
                      "files, which the uniqueness check covers through the (key id, IV) pairs"]


vlib.main("C23", "model_checking", body)
