#!/usr/bin/env python3
"""C05 — iterators return the visible keys exactly once, in order, honoring options.
spec : specs/kv/KVDefs.tla  IterSeq(S, opts, readTs, now) and its theorems IterSeqProps (strict order,
       exactly once, nothing skipped between the seek position and the prefix boundary, agreement
       with Get)
MC   : KVIterGen: TLC enumerates every version history in the bound and checks the theorems for
       every option record (invariants Theorems, IterGetAgree)
bind : every enumerated (store, option record) is replayed against the real iterator: the store is
       *placed* according to TLC-generated placements (active memtable / immutable memtable held by a
       gate / two L0 tables / L1 / L2 tables built with the production table builder through
       db.VerifInjectTable; uniform and mixed variants), in managed mode at readTs = 2 of versions
       1..3; options: forward/reverse x AllVersions x SinceTs x {Rewind, Seek(each of the 8 keys of the
       table)} x {none, opt.Prefix, ValidForPrefix} + NewKeyIterator + InternalAccess; prefetch off
       and PrefetchSize 1 / 2 / 100 rotate over the queries.  Plus simulated API histories with
       iterator options under flush / compaction steps in ordinary (non-managed) mode."""
import os, sys, json
sys.path.insert(0, os.path.dirname(os.path.abspath(__file__)))
import lib_kv as K
import vlib


def body(c):
    q = c.quick
    # always a table with keys that are byte-prefixes of one another and contain 0x00 / 0xFF
    tab = K.key_table(c.seed, internal=True, table=K.KEY_TABLES[[0, 2, 3][c.seed % 3]])
    kc = K.key_consts(tab)
    n = len(tab)
    internal = [i + 1 for i, k in enumerate(tab) if k.startswith(b"!badger!")][0]
    user = [i for i in range(1, n + 1) if i != internal]
    # store keys: the reserved key plus user keys chosen so that one is a byte-prefix of another
    # when the table has such keys (tables 0, 2, 3)
    sk = sorted([internal] + user[:3])
    if q:
        seeks = [0] + sk + [user[3], user[-1]]
    else:
        seeks = list(range(0, n + 1))
    queries = K.query_set(seeks=seeks, sinces=[0, 1, 2], prefixes=[user[0], user[1]], keyiters=user[:2] + [user[3]],
                          internal=True)
    plans = [("stores-4keys", sk, "2", "2" if q else "6",
              ["managed+inmem"] if q else ["managed+inmem", "managed+vlog", "managed+enc+zstd"])]
    if not q:   # deeper version histories over fewer keys
        plans.append(("stores-3keys-3versions", sorted([internal] + user[:2]), "3", "2", ["managed+inmem"]))
    stats = {}
    groups, nq, npl, confs, total_runs = [], 0, 0, [], 0
    for name, keys_, maxv, nmixed, pconfs in plans:
        cons = dict(kc, StoreKeys=K.tla_set(keys_), TsSet="1..3", Kinds='{"val", "del", "exp"}', MaxVersions=maxv,
                    Contiguous="FALSE", ReadTs="2", Now="5", NSrc="6", NMixed=nmixed, Queries=queries)
        g, ncases = K.gen_store(c, name, cons, workers=12 if q else 14, timeout=4000)
        q_here = sum(len(r["q"]) for x in g for r in x["runs"])
        c.cov.setdefault("store_cases", []).append(
            {"plan": name, "stores": len(g), "placements_per_store": len(g[0]["pl"]), "queries_per_store": len(g[0]["runs"][0]["q"]),
             "predicted_sequences": q_here, "max_versions": int(maxv), "configurations": pconfs,
             "store_keys": [tab[i - 1].decode("latin-1") for i in keys_], "key_table": [k.decode("latin-1") for k in tab]})
        for conf in pconfs:
            K.replay(c, g, conf, c.seed, name, keys=tab, mode="store", nproc=vlib.NCPU, collect=stats, timeout=6000)
        # the empty store is built once (its placements are all the same)
        total_runs += sum(len(r["q"]) * (len(x["pl"]) if x["store"] else 1) for x in g for r in x["runs"]) * len(pconfs)
        if not groups:
            groups, nq, npl, confs = g, q_here, len(g[0]["pl"]), pconfs
        else:
            groups = groups + g
    # pending writes of the reading transaction x reverse / forward Seek to exactly each key
    # (the pendingWritesIterator is one more merge source)
    pq = K.query_set(seeks=[0] + user[:4], sinces=[0], prefixes=[user[0]], keyiters=user[:2])
    pcons = dict(kc, StoreKeys=K.tla_set(user[:3]), TsSet="1..2", Kinds='{"val", "del"}', MaxVersions="1",
                 Contiguous="FALSE", ReadTs="2", Now="5", NSrc="6", NMixed="0", PendKeys=K.tla_set(user[:3]),
                 PendKinds='{"val", "del"}', MaxPend="1" if q else "2", Queries=pq)
    pgroups, pn = K.gen_store(c, "pending-x-seek", pcons, workers=8, timeout=3000)
    pstats = {}
    K.replay(c, pgroups, "managed+inmem", c.seed, "pending-x-seek", keys=tab, mode="store", nproc=min(vlib.NCPU, len(pgroups)),
             collect=pstats, timeout=3000)
    c.cov["pending_seek_cases"] = {"stores": len(pgroups), "store_x_pending": pn, "queries_run": pstats.get("query", 0)}
    c.cov["store_replay"] = stats
    for src in ("place.mt", "place.imm", "place.l0a", "place.l0b", "place.l1", "place.l2"):
        if stats.get(src, 0) == 0:
            raise vlib.Inconclusive("no version was ever placed in %s" % src)
    if stats.get("query", 0) < total_runs:
        raise vlib.Inconclusive("store replay executed %s iterator checks, expected at least %d" % (stats.get("query"), total_runs))
    # histories with iterator options in ordinary mode (prefetch setting derives from the seed)
    sim = K.hist_consts(tab, Exps="{0, 3}", MaxNow="3", HistLen="30", MaxOps="4", IterOptList=K.iter_templates(tab),
                        SplitIter="TRUE", EnvSteps=K.tla_set(K.ENV_ALL), WriteWeight="2")
    ns = 300 if q else 3000
    sims = K.generate(c, "sim-iter-options", sim, ns, 30, c.seed, workers=8 if q else 12, timeout=1800)
    c.cov["generated_op_histogram"] = K.op_histogram(sims)
    modes = {}
    for h in sims:
        for s in h:
            if s["op"] in ("iter", "iterOpen"):
                o = s["o"]
                key = "%s%s%s%s" % ("rev," if o["rev"] else "fwd,", "all," if o["all"] else "", "since," if o["since"] else "",
                                    o["pmode"]) + (",internal" if o["internal"] else "")
                modes[key] = modes.get(key, 0) + 1
    c.cov["generated_iterator_modes"] = dict(sorted(modes.items()))
    hconfs = ["vlog"] if q else ["default", "vlog", "l3+zstd"]
    for conf in hconfs:
        for pf in (["-prefetch", "on", "-psize", "1"], ["-prefetch", "off"]) if not q else ([],):
            K.replay(c, sims, conf, c.seed, "sim-iter-options", keys=tab, flags=pf)
    keys = set(json.dumps([g["store"], i]) for g in groups for i in range(npl) if g["store"])
    c.add_cases(total_runs + len(sims) * len(hconfs), keys, traces=len(groups) * npl * len(confs) + len(sims) * len(hconfs))
    c.cov["rule"] = ("a case = (version history over %d store keys with <= %s versions of kinds value/tombstone/expired, "
                     "placement variant); non-trivial = non-empty store; evaluations = predicted iterator sequences x "
                     "placements x configurations + simulated histories; exhaustive over stores and option records in "
                     "the bound, placements are the %d uniform + %s mixed variants KVIterGen!Placements defines"
                     % (len(sk), "2 (and <= 3 over 3 keys in the thorough tier)", 6, "2" if q else "6"))
    c.cov["exhaustive"] = True
    g = groups[len(groups) // 3]
    c.sample({"store": g["store"], "placement(1=mt,2=imm,3=l0a,4=l0b,5=l1,6=l2)": g["pl"][-1],
              "query": g["runs"][0]["q"][5]["o"], "predicted(k*1000+ts)": g["runs"][0]["q"][5]["r"]})
    for h in sims[:1]:
        c.sample(K.short(h))
    c.assumptions += ["'all key sets' is covered through the concretisation tables only (3 tables of 7 keys + the reserved "
                      "key, chosen by VERIF_SEED, all with keys that are byte-prefixes of one another and with 0x00 / 0xFF bytes)",
                      "reverse AllVersions yields the versions of a key oldest first (exact reverse of the forward "
                      "sequence): modelled as the code does it, the property text speaks of the forward order",
                      "a Seek key outside opt.Prefix is not generated (KVDefs!WellFormed)",
                      "reserved-prefix keys are placed through db.batchSet / the table builder because Txn.SetEntry refuses them"]


vlib.main("C05", "model_checking", body)
