#!/usr/bin/env python3
"""C30 - sequence numbers are unique and increasing across restarts (crash part: Disk family).
spec : specs/sm1/Sequence.tla (lease protocol over SSI transactions; Unique,
       StrictlyIncreasingPerObject, DurableLease, LeaseWithinStored)
MC   : exhaustive TLC, 2 (thorough: 3) Sequence objects on one key, bandwidth 2 and 1,
       Next/Release/GetSequence interleaved at transaction granularity incl. commit conflicts, restart
bind : SequenceGen behaviours replayed: lease transactions are parked at the commit.start gate and
       let through in the order of the behaviour; every returned number / error is compared."""
import os, sys, random, json
sys.path.insert(0, os.path.dirname(os.path.abspath(__file__)))
import lib_sm1 as L
import vlib

INV = ["TypeOK", "Unique", "StrictlyIncreasingPerObject", "DurableLease", "LeaseWithinStored"]


def short(h):
    out = []
    for s in h:
        r = s["res"] if s["res"] != "value" else str(s["v"])
        out.append("%s(%d)%s" % (s["op"], s["o"], "" if r == "parked" else "=" + r) if s["op"] != "restart" else "RESTART")
    return " ".join(out)


def body(c):
    q = c.quick
    rnd = random.Random(c.seed)
    # 1. design level
    L.mc(c, "Sequence", "2obj-bw2", L.K(Objs=[1, 2], BW=2, MaxStored=8, MaxVer=6 if q else 8, MaxRestarts=1, MaxQueued=1, AssignEarly=False),
         INV, constraint="Bound", timeout=900)
    L.mc(c, "Sequence", "2obj-bw1", L.K(Objs=[1, 2], BW=1, MaxStored=5, MaxVer=6 if q else 8, MaxRestarts=2, MaxQueued=0 if q else 1, AssignEarly=False),
         INV, constraint="Bound", timeout=900, allow_zero=("NextQueued", "Resume") if q else ())
    if not q:
        L.mc(c, "Sequence", "3obj-bw2", L.K(Objs=[1, 2, 3], BW=2, MaxStored=8, MaxVer=6, MaxRestarts=1, MaxQueued=0, AssignEarly=False),
             INV, constraint="Bound", timeout=1200, allow_zero=("NextQueued", "Resume"))
    cx = L.expect_counterexample(c, "Sequence", "asis", L.K(Objs=[1, 2], BW=2, MaxStored=8, MaxVer=6, MaxRestarts=1, MaxQueued=0, AssignEarly=True), "Unique")
    c.cov["assign_early_counterexample_found"] = bool(cx.violation)
    if not cx.violation:
        raise vlib.Inconclusive("AssignEarly=TRUE no longer violates Unique in the model")
    # 2. generated behaviours, replayed with gates
    total, keys, nconf, nrest = 0, set(), 0, 0
    plans = [("bw2", 2, 10 if q else 12, 1200 if q else 12000), ("bw1", 1, 9 if q else 11, 1200 if q else 12000)]
    for name, bw, hl, cap in plans:
        cases = L.gen(c, "SequenceGen", "%s-len%d" % (name, hl),
                      L.K(Objs=[1, 2], BW=bw, MaxStored=1000, MaxVer=1000, MaxRestarts=1, MaxQueued=0, AssignEarly=False, HistLen=hl, MinConflicts=0, MinQueued=0),
                      invariants=("Emit", "Unique"), timeout=1200)
        c.cov.setdefault("generated", {})[name] = len(cases)
        if len(cases) > cap:
            withc = [h for h in cases if any(s["res"] == "conflict" for s in h)]
            other = [h for h in cases if not any(s["res"] == "conflict" for s in h)]
            n1 = min(len(withc), cap * 3 // 4)
            cases = rnd.sample(withc, n1) + rnd.sample(other, min(len(other), cap - n1))
        L.replay(c, "cmd/sm1seq", cases, ["-bw", str(bw)], "seq-%s" % name, timeout=1500)
        total += len(cases)
        nconf += sum(1 for h in cases if any(s["res"] == "conflict" for s in h))
        nrest += sum(1 for h in cases if any(s["op"] == "restart" for s in h))
        keys |= set(short(h) for h in cases if any(s["res"] == "value" for s in h))
        for h in [h for h in cases if any(s["op"] == "nextCommit" and s["res"] == "conflict" for s in h)][:2]:
            c.sample(short(h))
    # a second goroutine calls Next on an object whose Release / renewal is inside its transaction
    # (Sequence.lock must make it wait); all behaviours of length 9 (thorough 10) with such a call
    cases = L.gen(c, "SequenceGen", "queued-next",
                  L.K(Objs=[1, 2], BW=2, MaxStored=1000, MaxVer=1000, MaxRestarts=1, MaxQueued=1, AssignEarly=False,
                      HistLen=9 if q else 10, MinConflicts=0, MinQueued=1), invariants=("Emit", "Unique"), timeout=1200)
    c.cov["generated"]["queued-next"] = len(cases)
    cap = 400 if q else 4000
    if len(cases) > cap:
        cases = rnd.sample(cases, cap)
    L.replay(c, "cmd/sm1seq", cases, ["-bw", "2"], "seq-queued-next", timeout=1500)
    total += len(cases)
    c.cov["behaviours_with_next_concurrent_to_a_call_of_the_same_object"] = len(cases)
    keys |= set(short(h) for h in cases)
    for h in [h for h in cases if any(s["op"] == "resume" and s["res"] == "value" for s in h)][:1]:
        c.sample(short(h), limit=6)
    if not q:
        # longer behaviours by seeded simulation
        cases = L.gen(c, "SequenceGen", "sim-len18",
                      L.K(Objs=[1, 2], BW=2, MaxStored=1000, MaxVer=1000, MaxRestarts=2, MaxQueued=1, AssignEarly=False, HistLen=18, MinConflicts=1, MinQueued=0),
                      invariants=("Emit", "Unique"), simulate=8000, depth=19, seed=c.seed, timeout=900)
        cases = list({json.dumps(h): h for h in cases}.values())
        L.replay(c, "cmd/sm1seq", cases, ["-bw", "2"], "seq-sim18", timeout=1500)
        total += len(cases)
        nconf += len(cases)
        keys |= set(short(h) for h in cases)
    c.cov["behaviours_with_commit_conflict"] = nconf
    c.cov["behaviours_with_restart"] = nrest
    c.add_cases(total, keys, traces=total)
    c.cov["rule"] = ("a case = behaviour of SequenceGen of fixed length (all behaviours up to the bound, sampled above the cap with 3/4 of the "
                     "sample containing a commit conflict); non-trivial = at least one number handed out; distinct = distinct step sequences")
    c.cov["exhaustive"] = False   # sequences are enumerated by TLC, replays above the caps are seeded samples
    c.assumptions += ["the Sequence objects belong to one process/DB instance; the crash part of C30 is covered by the Disk family",
                      "a GetSequence that fails with ErrConflict yields no usable object",
                      "that a concurrent Next waits is observed as 'has not returned after 40 ms' (a correct tree can never return; a broken one is "
                      "missed only if the goroutine is not scheduled for 40 ms)"]


vlib.main("C30", "model_checking", body)
