#!/usr/bin/env python3
"""C24 — Backup and Load round-trip the database, including incremental chains.
spec : specs/sm2/Backup.tla on top of Stream.tla (RestoreEqualsSource, ChainComplete, plus the
       Stream invariants in backup mode)
MC   : exhaustive TLC: commits before, between and DURING two chained backups, every interleaving
       of producer starts / range hand-outs (intended behaviour: one read timestamp per backup);
       the model of the code as it is must show the counterexample
bind : StreamGen schedules in backup mode forced in the real Stream.Backup (gated producers); the
       backups are loaded in order with DB.Load into a fresh database whose full dump
       (AllVersions: versions, delete / discard markers, user meta, expiry, values) and visible
       state are compared with what the specification allows."""
import os, random, sys
sys.path.insert(0, os.path.dirname(os.path.abspath(__file__)))
import lib_sm2 as S
import vlib

# (layout, NumGo, Prefix, kinds, runs)
CONFIGS = [
    ("l0x3", 2, "k", ("set", "del"), 2),
    ("l0x2", 2, "", ("set", "del", "disc"), 2),
    ("lmax", 3, "k", ("set", "del"), 2),
    ("l0x2", 3, "k", ("set", "disc"), 2),
    ("mem", 2, "", ("set", "del"), 2),
    ("lmax", 2, "", ("set", "del", "disc"), 3),
]


def body(c):
    if c.replay:
        return S.replay_file(c)
    q = c.quick
    rnd = random.Random(c.seed)
    # 1. design level: chain of two backups, commits anywhere
    small = S.stream_consts(4, [1, 1, 2, 2], [1, 1, 1, 1], 2, 2, 2, [{1, 3}, {2}], ("set", "del"), 2,
                            "backup", 2, (0,), True)
    if q:
        S.mc_stream(c, "chain2-2prod-2commit", small, module="Backup", invariants=S.BACKUP_INV, timeout=300, workers=8,
                    coverage=False)  # action coverage is measured in the thorough tier
    else:
        big = S.stream_consts(4, [1, 1, 2, 2], [1, 1, 1, 1], 2, 2, 3, [{1, 3}, {2}], ("set", "del", "disc"), 2,
                              "backup", 2, (0,), True)
        S.mc_stream(c, "chain2-2prod-3commit-disc", big, module="Backup", invariants=S.BACKUP_INV, timeout=1500)
        three = S.stream_consts(5, [1, 1, 2, 3, 3], [1, 1, 1, 1, 1], 2, 3, 2, [{1, 3}, {2, 5}], ("set", "del"), 2,
                                "backup", 2, (0,), True, chosen={1, 2, 3, 5})
        S.mc_stream(c, "chain2-3prod-3range", three, module="Backup", invariants=S.BACKUP_INV, timeout=1500, coverage=False)
    asis = dict(small, SharedSnapshot=False)
    r = S.mc_stream(c, "as-is-chain2", asis, module="Backup", invariants=["ChainComplete"], timeout=300, workers=4,
                    expect_violation=True)
    c.cov["as_is_model_violates"] = r.violation or "nothing"
    # 2. schedules forced in the real code
    confs = rnd.sample(CONFIGS, 2) if q else CONFIGS
    keys, total, feats, mixed_hits = set(), 0, {}, 0
    for (layout, numgo, prefix, kinds, runs) in confs:
        pr = S.probe_stream(c, layout, numgo, prefix)
        if pr is None:
            continue
        nk = len(pr["rangeOf"])
        wsets = S.pick_wsets(pr, rnd, 2)
        consts = S.stream_consts(nk, pr["rangeOf"], pr["initTs"], pr["firstTs"], numgo, 3 if runs == 2 else 4, wsets,
                                 kinds, runs, "backup", 2, (0,), True)
        label = "%s-go%d-%s-%druns" % (layout, numgo, prefix or "noprefix", runs)
        if q:
            cases = S.gen_stream(c, label, consts, 1, num=800, seed=c.seed, workers=4, timeout=120, depth=120)
            cases = rnd.sample(cases, min(len(cases), 200))
        else:
            cases = S.gen_stream(c, label, consts, 1, num=3000, seed=c.seed, workers=8, timeout=600, depth=120)
            cases = rnd.sample(cases, min(len(cases), 900))
        res = S.replay_stream(c, cases, pr, layout, numgo, prefix, "backup", 2, None, label)
        total += len(cases)
        for h, rr in zip(cases, res):
            fs = S.schedule_features(h)
            for f in fs:
                feats[f] = feats.get(f, 0) + 1
            if fs & {"commit_between_producer_starts", "commit_before_first_producer", "commit_after_last_start"}:
                keys.add(label + ":" + S.short_schedule(h))
            if rr.get("sig", "").startswith("sm2:backup mixed-snapshot"):
                mixed_hits += 1
                c.sample({"config": label, "schedule": S.short_schedule(h), "real_read_timestamps": rr["readTs"],
                          "verdict": "backup chain mixes snapshots / loses a committed version"}, limit=2)
        for h in cases[:1]:
            c.sample({"config": label, "schedule": S.short_schedule(h), "verdict": "replayed"}, limit=4)
    c.add_cases(total, keys, traces=total)
    c.cov["schedule_features"] = feats
    c.cov["schedules_with_mixed_snapshot_backup"] = mixed_hits
    multi = sum(e.get("cases_whose_load_needed_3_or_more_loader_batches", 0) for e in c.cov["engines"])
    c.cov["loads_spanning_3_or_more_loader_batches"] = multi
    if multi * 2 < total:
        raise vlib.Inconclusive("only %d of %d chains were loaded in >= 3 KVLoader batches" % (multi, total))
    if not feats.get("commit_between_producer_starts"):
        raise vlib.Inconclusive("generator produced no schedule with a commit between two producer starts")
    c.cov["rule"] = ("schedules are behaviours of StreamGen in backup mode (TLC -simulate, chains of 2-3 backups, "
                     "SinceTs = version returned by the previous backup) for the ranges the real database produces; "
                     "non-trivial = a commit while a backup is in progress; distinct = distinct (configuration, steps)")
    c.cov["exhaustive"] = False
    c.assumptions += [
        "snapshot isolation of a single transaction (C01)",
        "a backup whose content equals one snapshot taken between its entry and its last producer start is accepted",
        "expiry is covered as an attribute that must survive the round trip (far-future ExpiresAt); entries that "
        "expire during the run are not generated",
        "the restored database is opened with NumVersionsToKeep=100 and no compaction runs before it is dumped",
    ]


vlib.main("C24", "model_checking", body)
