#!/usr/bin/env python3
"""C08 -- a crash (process kill) at any point recovers a commit prefix holding every
acknowledged commit; Open succeeds; no partial transaction.
spec : specs/disk/Disk.tla (OpensWithoutError, PrefixRecovered, NoPartialTxn, ManifestMatchesDisk,
       NextTsAboveAll, KillSafeManifest under CrashRecover("kill")), DiskDefs (PrefixAllowed)
MC   : exhaustive TLC: crash after every step of every interleaving of writer / flusher /
       compaction / GC / Close (intended protocol); the code-as-is switch ZeroLenLogOK=FALSE must
       give TLC's counterexample
bind : (E-CRASH) DiskGen workloads (plus "heavy" ones: 3 x 3000-byte inline values per transaction
       against a 64 KiB memtable, so that ensureRoomForWrite rotates memtable and WAL by itself and
       later kill points have un-flushed immutable memtables) run on the real DB with the fs
       recorder; at EVERY hook event
       the kill image (+ the synthetic state between ftruncate(0) and unlink inside
       MmapFile.Delete) is re-opened with the real Open and compared with the states the spec
       allows; C14 (directory == MANIFEST, level validation) and C11 (next commit above all
       versions) are asserted on every re-opened image; a sample of points is confirmed by really
       killing a child process; (E-TRACE) the recorded fs-event order is validated by DiskTrace."""
import os, sys, random, json
sys.path.insert(0, os.path.dirname(os.path.abspath(__file__)))
import lib_disk as D
import vlib

KINDS = ("kill", "kill-trunc0")


def body(c):
    if D.replay_recorded(c):
        return
    q = c.quick
    rnd = random.Random(c.seed)
    # 1. design level
    if q:
        D.disk_mc(c, "kill:2commits+rotate+compact+gc", MaxCommits=2, MaxGC=1, timeout=400)
    else:
        D.disk_mc(c, "kill:3commits+rotate+compact+gc", MaxCommits=3, MaxGC=1, Dels="{FALSE, TRUE}", timeout=1500)
        D.disk_mc(c, "kill:2commits+gc+close", MaxCommits=2, MaxGC=1, MaxClose=1, timeout=1500)
        D.disk_mc(c, "kill:2commits+2crashes", MaxCommits=2, MaxCrash=2, keysets="MCKeySets2", timeout=1500)
    D.disk_mc(c, "code-as-is:zero-length-log", expect_violation="OpensWithoutError", ZeroLenLogOK="FALSE",
              MaxCompact=0, timeout=300)
    # 2. workloads from the generator module (no drops here: C29)
    n = 8 if q else 60
    needs = ("flush", "compactL0", "gc", "rotate", "reopen", "write:big", "write:small", "write:del", "batch")
    pool = D.generate(c, "workloads", max(6 * n, 60), c.seed, workers=4, Drops="{}")
    cases = D.select_covering(pool, n, needs, c.seed)
    hist = D.op_histogram(cases)
    c.cov["workload_histogram"] = hist
    for need in needs:
        if not hist.get(need):
            raise vlib.Inconclusive("generated workloads contain no %s" % need)
    # 3. crash images
    results, nchecks, classes = D.crash_campaign(c, cases, KINDS, "kill", reopen2=not q, full_confirm=1 if q else 3)
    nenc = 1 if q else 6
    r2, n2, cl2 = D.crash_campaign(c, cases[:nenc], KINDS, "kill(encrypted)", enc=True, full_confirm=0 if q else 1)
    # transactions large relative to MemTableSize: the production code rotates memtable and WAL by
    # itself in the middle of the workload; kill points with an un-flushed immutable memtable
    hv = D.heavy_workloads(c, 1 if q else 6, c.seed)
    r3, n3, cl3 = D.crash_campaign(c, hv, KINDS, "kill(natural rotation, un-flushed memtables)", full_confirm=0 if q else 1)
    n2 += n3
    cl2 = cl2 | set("heavy|" + x for x in cl3)
    c.add_cases(nchecks + n2, classes | set("enc|" + x for x in cl2))
    c.cov["rule"] = ("one evaluation = one crash point (hook event x image kind) re-opened with the real Open and judged "
                     "against DiskDefs.PrefixAllowed; distinct = distinct (image kind, operation, hook point) classes; "
                     "every hook event of every workload is a crash point (exhaustive over the recorded points)")
    for r in results[:2]:
        c.sample({"workload": " ; ".join(o["op"] + ("%s" % [(w["k"], "del" if w["del"] else "big" if w["big"] else "small") for w in o["w"]] if o["w"] else "")
                                          for o in cases[r["ci"]]["ops"]),
                  "hook_events": r["events"], "distinct_images": r["images"], "crash_points": r["nchecks"],
                  "findings": len(r["findings"])})
    # 4. trace validation of the fs-event order of every run
    traces = [os.path.join(r["dir"], "trace.ndjson") for r in results]
    rej, strict = D.validate_traces(c, traces, "workloads")
    if rej:
        at, ev, cond = rej
        c.violation("disk:trace rejected cond=%s ev=%s op=%s" % (cond, ev.get("ev"), ev.get("opname")),
                    {"line": at, "event": ev, "condition": cond}, {"event": ev, "condition": cond})
    st = [r for r in results if any(o["op"] == "compactL0" for o in cases[r["ci"]]["ops"])]
    if st:
        D.trace_selftest(c, os.path.join(st[0]["dir"], "trace.ndjson"))
    # 5. confirmation by really killing a child process
    binp = vlib.go_build("cmd/crashfs")
    conf = []
    for r in results[: (2 if q else 8)]:
        evs = sorted(rnd.sample(range(1, r["events"]), min(4 if q else 12, r["events"] - 1)))
        conf += D.real_kill_confirm(c, binp, cases[r["ci"]], r, evs)
    c.cov["real_kill_confirmations"] = {"points": len(conf), "identical_to_image": sum(1 for x in conf if x["same_as_image"])}
    # evidence
    c.add_cases(0, None, traces=len(traces))
    c.cov["exhaustive"] = True
    c.cov["sub_checks"] = {"C14_manifest_equals_directory_and_validate": nchecks + n2,
                           "C11_next_commit_above_all_versions": nchecks + n2,
                           "point_reads_agree_with_iterator": nchecks + n2}
    c.assumptions += [
        "one goroutine is active at a time during a recorded run (NumCompactors=0; flush, compaction, GC driven "
        "synchronously; the flusher is parked at its gate), so the directory copied inside a hook is a state the "
        "process could have been killed in; confirmed for a sample of points by killing a child process",
        "the state between ftruncate(0) and unlink inside z.MmapFile.Delete (ristretto, no hook possible) is "
        "synthesised from the image before the fs.remove event",
        "value-log GC racing with an in-flight write request (TLC counterexample with GCSafe=FALSE, reproduced by "
        "`crashfs gcrace`) is outside single-goroutine crash enumeration; reported separately"]


vlib.main("C08", "fault_enumeration", body)
