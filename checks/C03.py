#!/usr/bin/env python3
"""C03 — commits are atomic, uniquely timestamped and visible to later readers; rejected commits
leave no trace.
spec : specs/kv/BadgerKV.tla  UniqueTs, TsMonotone, AtomicVisibility, RejectedLeavesNoTrace
       (Commit / CommitRejected / SetRejected actions)
MC   : exhaustive TLC over all interleavings of 2 transactions on 2 keys including commits
       refused by the write path
bind : TLC-generated histories (BadgerKVGen -simulate, shaped: multi-key commits, Commit and
       CommitWith(callback) alternating, concurrent iterators of other transactions, Sets refused
       with ErrTxnTooBig, commits refused by conflict / blocked writes (the first step of
       DropAll, DropPrefix and Flatten) / a closed DB; every rejection is followed by an AllVersions
       dump that must equal the pre-state) replayed against the real DB; begin timestamps, commit
       outcomes, versions of later reads and every dump are compared with the prediction."""
import os, sys
sys.path.insert(0, os.path.dirname(os.path.abspath(__file__)))
import lib_kv as K
import vlib

INV = ["TypeOK", "UniqueTs", "AtomicVisibility", "NextTsAboveAll"]
PROPS = ["TsMonotone", "RejectedLeavesNoTrace"]


def multikey_seen(h):
    """a commit of >= 2 keys followed by an iterator / scan / dump"""
    nw = {}
    big = False
    for s in h:
        if s["op"] in ("set", "del"):
            nw.setdefault(s["t"], set()).add(s["k"])
        elif s["op"] in ("commit", "commitAt") and s["res"] == "ok" and len(nw.get(s["t"], ())) >= 2:
            big = True
        elif big and s["op"] in ("iter", "iterRun", "scan", "dump"):
            return True
    return False


def body(c):
    q = c.quick
    mc = dict(K.MC_DEFAULT, Feat='{"iter", "reject"}')
    K.model_check(c, "commit-2txn-2key-reject", mc, INV, PROPS, bound="nval <= 2" if q else "nval <= 3", timeout=3000)
    tab = K.key_table(c.seed)
    base = dict(HistLen="30", MaxOps="4", MaxActive="3", WriteWeight="2", Dumps="TRUE", BigSets="TRUE",
                IterOptList=K.tla_seq([K.tla_opts(), K.tla_opts(rev=True), K.tla_opts(all=True)]),
                ScanVias='{"iter"}', EnvSteps=K.tla_set(["flush", "compactL0"]))
    simA = K.hist_consts(tab, RejKinds='{"blocked", "closed"}', **base)
    n = 500 if q else 4000
    sims = K.generate(c, "sim-rejections", simA, n, 30, c.seed, workers=8 if q else 12, timeout=1800)
    hist = K.op_histogram(sims)
    c.cov["generated_op_histogram"] = hist
    need = ["commit:ok", "commit:conflict", "commit:blocked", "commit:closed", "setBig", "dump"]
    missing = [k for k in need if hist.get(k, 0) == 0]
    if missing:
        raise vlib.Inconclusive("generator produced no %s" % missing)
    c.cov["histories_with_multikey_commit_then_iterated"] = sum(1 for h in sims if multikey_seen(h))
    c.cov["commits_through_CommitWith"] = sum(1 for h in sims for s in h if s["op"] == "commit" and s.get("cb"))
    confs = ["lsmonly"] if q else ["lsmonly", "lsmonly+zstd", "lsmonly+l3", "lsmonly+enc"]
    stats = {}
    for conf in confs:
        K.replay(c, sims, conf, c.seed, "sim-rejections", keys=tab, collect=stats)
    c.cov["observations_compared"] = stats
    # true concurrency of the commit pipeline: gates in every window (separate Oracle module)
    K.oracle_stage(c, "C03")
    rej = [h for h in sims if K.nontrivial(h, ["commit:ok"]) and any(
        s["op"] == "commit" and s["res"] in ("conflict", "blocked", "closed") for s in h)]
    c.add_cases(len(sims) * len(confs), set(K.hist_key(h) for h in rej), traces=len(sims) * len(confs))
    c.cov["rule"] = ("histories are behaviours of BadgerKVGen (TLC -simulate, length 30); non-trivial = contains a successful "
                     "commit and a rejected one (conflict, blocked writes or closed DB) followed by the pre-state dump; "
                     "distinct = distinct step sequences")
    c.cov["exhaustive"] = False
    for h in rej[:2]:
        c.sample(K.short(h))
    c.assumptions += ["blocked writes are produced by calling the production blockWrite/unblockWrite pair (what DropAll, "
                      "DropPrefix and Flatten do first) around the Commit",
                      "a commit refused by the write path consumes a timestamp (oracle.newCommitTs precedes "
                      "sendToWriteCh); the replayer accounts for the gap, the contract only demands distinct increasing "
                      "timestamps",
                      "ErrTxnTooBig is produced at Set time with a value at the inline limit (configuration lsmonly: "
                      "ValueThreshold = 15% of the memtable); the commit-time ErrTxnTooBig of C28 is not generated here"]


vlib.main("C03", "model_checking", body)
