#!/usr/bin/env python3
"""C01 — transactions read a consistent snapshot at their read timestamp.
spec : specs/kv/BadgerKV.tla  SnapshotRead, SnapshotStable, ReadStableAboveDiscard (compaction may
       only remove what no open or future reader can see), ConflictLogSufficient
MC   : exhaustive TLC over all interleavings of 2 transactions on 2 keys with Tick (expiry) and the
       contract's Compact action (removes every version the retention rule permits)
bind : TLC-generated API histories (BadgerKVGen, -simulate, shaped: up to 3 open transactions of
       8, iterators held open across commits / flushes / compactions / GC) replayed against the
       real DB in several DB configurations (value threshold, compression, encryption, in-memory,
       level count: a covered dimension); every Get, iterator item, value and version is compared
       with the specification's prediction.  Plus every placement of every store of <= 2 versions over
       2 keys across 7 physical sources (KVIterGen, managed mode): Get and iterators must not depend
       on the layout (thorough: also after a compaction)."""
import os, sys
sys.path.insert(0, os.path.dirname(os.path.abspath(__file__)))
import lib_kv as K
import vlib

INV = ["TypeOK", "SnapshotRead", "ConflictLogSufficient", "NeverReturnsDead"]
PROPS = ["SnapshotStable", "ReadStableAboveDiscard", "TickNeverReveals"]


def interesting(h):
    """a transaction reads while another one's commit, a flush/compaction/GC or a tick falls
    inside its lifetime"""
    open_at = {}
    hit = set()
    reads = set()
    for s in h:
        o = s["op"]
        if o in ("begin", "beginAt"):
            open_at[s["t"]] = True
        elif o in ("commit", "commitAt", "discard"):
            open_at.pop(s["t"], None)
            if o != "discard" and s.get("res") == "ok":
                hit |= set(open_at)
        elif o in ("env", "tick"):
            hit |= set(open_at)
        elif o in ("get", "iter", "iterRun") and s["t"] in hit:
            reads.add(s["t"])
    return bool(reads)


def body(c):
    q = c.quick
    # 1. design level
    mc = dict(K.MC_DEFAULT, Feat='{"iter", "compact"}', Exps="{0, 2}", MaxNow="2")
    K.model_check(c, "snapshot-2txn-2key-compact-expiry", mc, INV, PROPS, bound="nval <= %d" % (2 if q else 3),
                  timeout=3000)
    # 2. generated histories
    tab = K.key_table(c.seed)
    sim = K.hist_consts(tab, Exps="{0, 3}", MaxNow="3", HistLen="30", EnvSteps=K.tla_set(K.ENV_ALL), EnvWeight="2",
                        IterOptList=K.tla_seq([K.tla_opts(), K.tla_opts(rev=True), K.tla_opts(all=True),
                                               K.tla_opts(since=1), K.tla_opts(all=True, rev=True)]),
                        SplitIter="TRUE", MaxOps="4")
    n = 500 if q else 4000
    sims = K.generate(c, "sim-8txn-env", sim, n, 30, c.seed, workers=8 if q else 12, timeout=1800)
    hist = K.op_histogram(sims)
    c.cov["generated_op_histogram"] = hist
    nontriv = [h for h in sims if interesting(h)]
    c.cov["histories_reading_across_commit_or_env_step"] = len(nontriv)
    if len(nontriv) < len(sims) // 4:
        raise vlib.Inconclusive("generator shaping lost: only %d of %d histories read across a concurrent step" % (len(nontriv), len(sims)))
    confs = ["vlog", "enc+zstd+l3", "inmem"] if q else ["default", "vlog", "enc+vlog", "snappy+vlog", "l3+vlog",
                                                          "inmem", "vlogpct", "enc+zstd+l3"]
    stats = {}
    for conf in confs:
        K.replay(c, sims, conf, c.seed, "sim-8txn-env", keys=tab, collect=stats)
    c.cov["observations_compared"] = {k: v for k, v in stats.items() if k in ("get", "iter", "iterRun")}
    c.cov["configurations"] = confs
    # 3. snapshot reads do not depend on where the versions are stored: every placement of small
    #    stores over memtables / L0 / L1 / L2 / L3 (also the ones only a GC write-back produces)
    nlay = K.layout_stage(c, tab, c.seed, "layouts", q, parts=("all",) if q else ("all", "compact"))
    # 4. true concurrency of the commit pipeline (separate Oracle module)
    K.oracle_stage(c, "C01")
    c.add_cases(len(sims) * len(confs) + nlay, set(K.hist_key(h) for h in nontriv), traces=len(sims) * len(confs) + nlay)
    c.cov["rule"] = ("histories are behaviours of BadgerKVGen (TLC -simulate, length 30, shaped); a history is non-trivial "
                     "when some transaction reads after a commit by another transaction, an environment step or a "
                     "clock tick fell inside its lifetime; distinct = distinct step sequences; evaluations = history x "
                     "DB configuration replays")
    c.cov["exhaustive"] = False
    for h in nontriv[:2]:
        c.sample(K.short(h))
    c.assumptions += ["API calls of different transactions are issued from one goroutine; true concurrency of the commit "
                      "pipeline is the Oracle module's stage (called from here when present)",
                      "environment steps run the production flush / compaction / GC-rewrite code one step at a time "
                      "(no background compactors)",
                      "option combinations are covered as a list of configurations, not as a full product"]


vlib.main("C01", "model_checking", body)
