#!/usr/bin/env python3
"""C33 — expired entries are invisible on every read path, live ones visible.
spec : specs/kv/KVDefs.tla Dead / ReadAt / IterSeq (an expired newest version hides the older ones
       exactly as a delete does); specs/kv/BadgerKV.tla Tick, NeverReturnsDead, TickNeverReveals,
       SnapshotRead (a value read earlier may only disappear by expiring), ReadStableAboveDiscard
       with Removable treating expired as deleted
MC   : exhaustive TLC with expiry times {0, 2}, clock 1..3, Tick and Compact steps
bind : TLC-generated histories shaped for expiry (half of the Sets carry an expiry time in
       {2, 4}, Tick steps weighted 2x, writes 4x, clock override y.VerifSetClock) with flush / compaction /
       value-log GC steps; every Get and iterator (also AllVersions, reverse, SinceTs) is compared
       with the prediction, and the whole visible content is read through the plain iterator, the
       Stream framework (Stream.Orchestrate) and Backup (+ Load into a scratch DB) and compared.
       Plus every LSM-ordered placement of every store of <= 2 versions (value / tombstone / expired)
       over 2 keys across 7 sources, SetDiscardTs, one compaction Li -> Li+1 with older versions in the
       levels below: an expired newest version must keep hiding them."""
import os, sys
sys.path.insert(0, os.path.dirname(os.path.abspath(__file__)))
import lib_kv as K
import vlib


def expiry_profile(h):
    """(#sets with expiry, #reads issued while the newest committed version of some key is expired, #ticks)"""
    nexp = ticks = reads = 0
    now = 1
    pend, newest = {}, {}
    for s in h:
        o = s["op"]
        if o == "set":
            nexp += bool(s["exp"])
            pend.setdefault(s["t"], {})[s["k"]] = s["exp"]
        elif o == "del":
            pend.setdefault(s["t"], {})[s["k"]] = 0
        elif o == "commit":
            if s["res"] == "ok":
                newest.update(pend.get(s["t"], {}))
            pend.pop(s["t"], None)
        elif o == "tick":
            ticks += 1
            now = s["now"]
        elif o in ("get", "iter", "iterRun", "scan", "dump"):
            if any(e and e <= now for e in newest.values()):
                reads += 1
    return nexp, reads, ticks


def body(c):
    q = c.quick
    mc = dict(K.MC_DEFAULT, Feat='{"iter", "compact"}', Exps="{0, 2}", MaxNow="2" if q else "3")
    K.model_check(c, "expiry-2txn-2key", mc, ["TypeOK", "NeverReturnsDead", "SnapshotRead", "IterAgreesWithGet"],
                  ["TickNeverReveals", "ReadStableAboveDiscard"], bound="nval <= 2" if q else "nval <= 3",
                  timeout=3000)
    tab = K.key_table(c.seed)
    sim = K.hist_consts(tab, Exps="{2, 3, 4}", MaxNow="5", HistLen="34", MaxOps="4", MaxActive="2", WriteWeight="4",
                        TickWeight="2", EnvSteps=K.tla_set(K.ENV_ALL), Dumps="TRUE",
                        ScanVias='{"iter", "stream", "backup"}',
                        IterOptList=K.tla_seq([K.tla_opts(), K.tla_opts(rev=True), K.tla_opts(all=True), K.tla_opts(since=1),
                                               K.tla_opts(all=True, rev=True)]))
    # Exps without 0: ExpOf gives "no expiry" only through Min(Exps) = 2 for odd value ids; add 0 for a mix
    sim["Exps"] = "{0, 2, 3, 4}"
    n = 300 if q else 2000
    sims = K.generate(c, "sim-expiry", sim, n, 34, c.seed, workers=8 if q else 12, timeout=1800)
    hist = K.op_histogram(sims)
    c.cov["generated_op_histogram"] = hist
    prof = [expiry_profile(h) for h in sims]
    c.cov["expiry_profile"] = {"sets_with_expiry": sum(p[0] for p in prof), "ticks": sum(p[2] for p in prof),
                               "reads_while_a_newest_version_is_expired": sum(p[1] for p in prof),
                               "histories_with_expired_version": sum(1 for p in prof if p[1] > 0)}
    if c.cov["expiry_profile"]["histories_with_expired_version"] < len(sims) // 5:
        raise vlib.Inconclusive("generator shaping lost: %s" % c.cov["expiry_profile"])
    for k in ("scan:iter", "scan:stream", "scan:backup", "tick"):
        if hist.get(k, 0) == 0:
            raise vlib.Inconclusive("generator produced no %s" % k)
    stats = {}
    confs = ["vlog", "default"] if q else ["default", "vlog", "thr+l3", "enc+vlog", "zstd+vlog", "inmem"]
    nrep = 0
    for i, conf in enumerate(confs):
        hs = sims if (i == 0 or not q) else sims[:len(sims) // 2]   # quick: second configuration on half of them
        K.replay(c, hs, conf, c.seed, "sim-expiry", keys=tab, collect=stats)
        nrep += len(hs)
    c.cov["observations_compared"] = {k: v for k, v in stats.items() if k.startswith(("scan", "get", "iter", "dump"))}
    c.cov["env_steps_executed"] = {k: stats.get(k, 0) for k in K.ENV_ALL}
    # expired newest versions across physical layouts, then a compaction into a level that still has
    # older versions below it (the expired version must keep hiding them)
    nlay = K.layout_stage(c, tab, c.seed, "layouts-expiry", q, parts=("compact",) if q else ("all", "compact"))
    good = [h for h, p in zip(sims, prof) if p[1] > 0]
    c.add_cases(nrep + nlay, set(K.hist_key(h) for h in good), traces=nrep + nlay)
    c.cov["rule"] = ("histories are behaviours of BadgerKVGen (TLC -simulate, length 34, shaped: expiring Sets and Tick steps "
                     "frequent); non-trivial = a read is issued while the newest committed version of some key is expired; distinct = "
                     "distinct step sequences")
    c.cov["exhaustive"] = False
    for h in good[:2]:
        c.sample(K.short(h))
    c.assumptions += ["expiry uses the clock override y.VerifSetClock (isDeletedOrExpired); Entry.WithTTL itself is not used, "
                      "ExpiresAt is set directly",
                      "Stream does not expose the discard flag; it is not compared on that path",
                      "the value of an expired version listed by AllVersions may be gone after value-log GC (accepted)"]


vlib.main("C33", "model_checking", body)
