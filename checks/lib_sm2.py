"""sm2 family: Stream (C25), Backup/Load (C24), StreamWriter (C26).
specs/sm2/{Stream,Backup,StreamGen}.tla  -> harness/cmd/sm2stream
specs/sm2/{StreamWriter,StreamWriterGen}.tla -> harness/cmd/sm2sw"""
import json, os, random, re, subprocess, sys, time
sys.path.insert(0, os.path.join(os.path.dirname(os.path.abspath(__file__)), "..", "tools"))
import vlib
from vlib import Inconclusive, log


def tla(x):
    """Python value -> TLA+ expression (ints, bools, strings, lists = tuples, sets/frozensets)."""
    if isinstance(x, bool):
        return "TRUE" if x else "FALSE"
    if isinstance(x, int):
        return str(x)
    if isinstance(x, str):
        return '"%s"' % x
    if isinstance(x, (set, frozenset)):
        return "{" + ", ".join(sorted((tla(e) for e in x), key=lambda s: (len(s), s))) + "}"
    if isinstance(x, (list, tuple)):
        return "<<" + ", ".join(tla(e) for e in x) + ">>"
    raise TypeError(x)


def write_mc(d, name, extends, consts, spec, invariants=(), properties=(), constraint=None, defs=""):
    """Writes <name>.tla (EXTENDS <extends>, one definition MC_<c> per constant) and <name>.cfg."""
    with open(os.path.join(d, name + ".tla"), "w") as f:
        f.write("---- MODULE %s ----\nEXTENDS %s\n" % (name, extends))
        for k, v in consts.items():
            f.write("MC_%s == %s\n" % (k, tla(v)))
        f.write(defs)
        f.write("====\n")
    with open(os.path.join(d, name + ".cfg"), "w") as f:
        f.write("SPECIFICATION %s\nCONSTANTS\n" % spec)
        for k in consts:
            f.write("  %s <- MC_%s\n" % (k, k))
        if invariants:
            f.write("INVARIANTS %s\n" % " ".join(invariants))
        if properties:
            f.write("PROPERTIES %s\n" % " ".join(properties))
        if constraint:
            f.write("CONSTRAINT %s\n" % constraint)


def final_zero_actions(res):
    """Actions with zero count in the LAST coverage report of a TLC run (-coverage 1 also prints interim
    reports every minute, in which late actions legitimately have count 0)."""
    i = res.out.rfind("The coverage statistics at")
    txt = res.out[i:] if i >= 0 else res.out
    zero = []
    for mm in re.finditer(r"<(\w+) line \d+, col \d+ to line \d+, col \d+ of module \w+>: (\d+):(\d+)", txt):
        if mm.group(2) == "0" and mm.group(3) == "0":
            zero.append(mm.group(1))
    return zero


# =========================================================================== Stream / Backup
PER_PROC = 40
STREAM_INV = ["TypeOK", "SendSerial", "EachKeyOnce", "OneSnapshot", "SnapshotAtStart", "SameReadTs"]
BACKUP_INV = STREAM_INV + ["RestoreEqualsSource", "ChainComplete"]


def stream_consts(nkeys, range_of, init_ts, first_ts, producers, ncommits, wsets, kinds, maxruns, mode, nvk,
                  sinces, chained, chosen=None, shared=True):
    keys = set(range(1, nkeys + 1))
    return {
        "Keys": keys, "NRanges": max(range_of), "RangeOf": list(range_of), "InitTs": list(init_ts),
        "FirstTs": first_ts, "Producers": set(range(1, producers + 1)), "MaxTs": first_ts + ncommits - 1,
        "WSets": set(frozenset(w) for w in wsets), "Kinds": set(kinds), "MaxRuns": maxruns, "Mode": mode,
        "NVK": nvk, "Sinces": set(sinces), "Chained": chained,
        "Chosen": set(chosen) if chosen is not None else keys, "SharedSnapshot": shared,
    }


def mc_stream(c, name, consts, module="Stream", invariants=STREAM_INV, timeout=600, workers=None, coverage=True,
              expect_violation=False):
    """Exhaustive TLC on the design module (all interleavings of commits, producer starts, range
    hand-outs, production, sends)."""
    d = vlib.stage_specs(["sm2"])
    write_mc(d, "SMC", module, consts, "Spec", invariants)
    res = vlib.run_tlc(d, "SMC", "SMC.cfg", timeout=timeout, workers=workers, coverage=coverage and not expect_violation)
    if expect_violation:
        # model of the code as it is: the counterexample documents that the specification predicts the
        # deviation; it is not a verdict (the replay decides), and not a failure of the check either
        c.cov["tlc_runs"].append({"config": name, "model": "code as it is (SharedSnapshot=FALSE)",
                                  "violated": res.violation, "distinct_states": res.distinct,
                                  "states_generated": res.generated, "wall_s": round(res.wall, 1)})
        if res.timeout or (not res.violation and not res.ok):
            raise Inconclusive("TLC failed on %s: %s" % (name, res.error_trace[:1500]))
        return res
    if coverage:
        res.coverage_zero = final_zero_actions(res)
    c.add_tlc(name, res)
    vlib.require_tlc_ok(res, module + "/" + name)
    dead = [a for a in final_zero_actions(res) if a not in ("Init",)] if coverage else []
    if dead:
        raise Inconclusive("vacuous model checking run %s: actions never taken: %s" % (name, dead))
    return res


def probe_stream(c, layout, numgo, prefix):
    """Builds the layout, runs one quiescent Stream and returns the ranges it handed out (model key
    numbering, RangeOf, InitTs).  The quiescent run is judged here: every key exactly once, Send
    serial.  Returns None when the ranges are unusable (a violation was reported)."""
    binp = vlib.go_build("cmd/sm2stream")
    d = vlib.scratch("sm2probe-")
    env = vlib.goenv()
    env["TMPDIR"] = d

    def once():
        rc, out, err, _ = vlib.run([binp, "-probe", "-layout", layout, "-numgo", str(numgo), "-prefix", prefix],
                                   timeout=120, env=env)
        if rc != 0:
            raise Inconclusive("sm2stream -probe failed: %s" % err[-1500:])
        return json.loads(out.strip().splitlines()[-1])

    def bad(pr):
        if pr.get("quiescentMissing"):
            return "sm2:stream quiescent-run key-not-emitted", pr["quiescentMissing"]
        if pr.get("quiescentTwice"):
            return "sm2:stream quiescent-run key-emitted-twice", pr["quiescentTwice"]
        if pr.get("sendConcurrent"):
            return "sm2:stream send-concurrent", "quiescent run"
        if pr.get("partitionErr"):
            return "sm2:stream ranges-do-not-partition-keys", pr["partitionErr"]
        return None

    pr = once()
    b = bad(pr)
    if b:
        b2 = bad(once())       # confirm from a clean state
        if b2 and b2[0] == b[0]:
            c.violation(b[0], {"layout": layout, "numgo": numgo, "prefix": prefix, "keys": b[1], "ranges": pr["realRanges"]},
                        {"layout": layout, "numgo": numgo, "prefix": prefix, "replay_cmd": "sm2stream -probe"})
            return None
        raise Inconclusive("probe result did not reproduce: %s" % (b,))
    return pr


def pick_wsets(pr, rnd, n=3):
    """Key sets for concurrent commits: pairs of keys lying in different ranges (the
    'transfer'), a triple over three ranges when there are that many, and single keys."""
    by_range = {}
    for k, r in enumerate(pr["rangeOf"], start=1):
        by_range.setdefault(r, []).append(k)
    rs = sorted(by_range)
    out = []
    # first: a key whose user key is a range boundary (the split is an internal key key||version: a
    # newer version of that key sorts before the split) together with a key of another range
    splits = [k for k in pr.get("splitKeys", []) if 1 <= k <= len(pr["rangeOf"])]
    if splits and len(rs) >= 2:
        sk = rnd.choice(splits)
        other = rnd.choice([r for r in rs if r != pr["rangeOf"][sk - 1]])
        out.append({sk, rnd.choice(by_range[other])})
    if len(rs) >= 2:
        pairs = [(a, b) for i, a in enumerate(rs) for b in rs[i + 1:]]
        rnd.shuffle(pairs)
        for a, b in pairs[:max(1, n - 1 - len(out))]:
            out.append({rnd.choice(by_range[a]), rnd.choice(by_range[b])})
    if len(rs) >= 3 and n >= 3:
        three = rnd.sample(rs, 3)
        out.append({rnd.choice(by_range[r]) for r in three})
    out.append({rnd.choice(by_range[rnd.choice(rs)])})
    uniq = []
    for w in out:
        if w not in uniq:
            uniq.append(w)
    return uniq[:n]


def gen_stream(c, name, consts, maxpre, num=None, seed=1, workers=4, timeout=600, depth=80):
    """Runs StreamGen (model of the code as it is + allowed alternatives). Exhaustive when num is
    None, otherwise TLC -simulate with `num` behaviours."""
    consts = dict(consts)
    consts["SharedSnapshot"] = False
    consts["MaxPre"] = maxpre
    d = vlib.stage_specs(["sm2"])
    write_mc(d, "SGEN", "StreamGen", consts, "GenSpec", ["Emit"])
    if num is None:
        res = vlib.run_tlc(d, "SGEN", "SGEN.cfg", timeout=timeout, workers=workers)
    else:
        res = vlib.run_tlc(d, "SGEN", "SGEN.cfg", timeout=timeout, workers=workers,
                           simulate=max(1, num // workers), depth=depth, seed=seed)
    if res.violation or not res.ok:
        raise Inconclusive("generator %s failed: %s %s" % (name, res.violation, res.error_trace[:2000]))
    c.cov["tlc_runs"].append({"config": "gen:" + name, "mode": "exhaustive" if num is None else "simulate",
                              "cases": len(res.cases), "states_generated": res.generated,
                              "distinct_states": res.distinct, "wall_s": round(res.wall, 1)})
    if num is None:
        c.cov["states"] += res.distinct
        c.cov["transitions"] += res.generated
    # simulation may produce the same schedule twice
    seen, out = set(), []
    for h in res.cases:
        k = json.dumps(h["steps"], sort_keys=True)
        if k not in seen:
            seen.add(k)
            out.append(h)
    return out


def schedule_features(h):
    """What makes a generated schedule interesting (measured, recorded in the evidence)."""
    f = set()
    running, started = False, 0
    for s in h["steps"]:
        if s["op"] == "start":
            running, started = True, 0
        elif s["op"] == "finish":
            running = False
        elif s["op"] == "pstart":
            started += 1
        elif s["op"] == "commit":
            if running and started == 0:
                f.add("commit_before_first_producer")
            elif running:
                f.add("commit_between_producer_starts" if any(
                    t["op"] == "pstart" for t in h["steps"][h["steps"].index(s):]) else "commit_after_last_start")
            else:
                f.add("commit_outside_run")
            if s["kind"] != "set":
                f.add("kind_" + s["kind"])
    for r in h["asis"]["runs"]:
        if len(r.get("pts", [])) > 1:
            f.add("model_mixed_readTs")
    if len(h["alts"]) > 1:
        f.add("several_allowed_snapshots")
    return f


def short_schedule(h):
    out = []
    for s in h["steps"]:
        o = s["op"]
        if o == "commit":
            out.append("commit@%d(%s %s)" % (s["ts"], s["kind"], ",".join("k%d" % k for k in s["keys"])))
        elif o == "start":
            out.append("Orchestrate(since=%d)@%d" % (s["since"], s["startTs"]))
        elif o == "pstart":
            out.append("P%d.newTxn->range %d" % (s["p"], s["takes"]))
        elif o == "produce":
            out.append("P%d.iterate(r%d)->range %d" % (s["p"], s["r"], s["takes"]))
        else:
            out.append(o)
    return " ; ".join(out)


def replay_stream(c, cases, pr, layout, numgo, prefix, mode, nvk, chosen, label, nproc=None, timeout=900):
    """Replays schedules with sm2stream; reports confirmed mismatches as violations."""
    if not cases:
        raise Inconclusive("no schedules generated for " + label)
    binp = vlib.go_build("cmd/sm2stream")
    d = vlib.scratch("sm2cases-")
    inp = os.path.join(d, "cases.ndjson")
    with open(inp, "w") as f:
        for h in cases:
            f.write(json.dumps(h) + "\n")
    args = [binp, "-layout", layout, "-numgo", str(numgo), "-prefix", prefix, "-mode", mode, "-nvk", str(nvk),
            "-rangeof", ",".join(str(x) for x in pr["rangeOf"])]
    if chosen is not None:
        args += ["-chosen", ",".join(str(x) for x in sorted(chosen))]
    # the harness runs with the Go collector off (see its main): bounded number of cases per process
    nshards = max(1, (len(cases) + PER_PROC - 1) // PER_PROC)
    nproc = nproc or min(vlib.NCPU, 12)
    env = vlib.goenv()
    env["TMPDIR"] = d
    t0 = time.time()
    results = []
    pending = list(range(nshards))
    running = []

    def reap(p, out, s):
        try:
            _, err = p.communicate(timeout=max(1, timeout - (time.time() - t0)))
        except subprocess.TimeoutExpired:
            for q, _, _ in running:
                q.kill()
            p.kill()
            raise Inconclusive("%s timed out (%s)" % (os.path.basename(binp), label))
        out.close()
        if p.returncode != 0:
            for q, _, _ in running:
                q.kill()
            raise Inconclusive("%s failed rc=%s (%s): %s" % (os.path.basename(binp), p.returncode, label,
                                                            err.decode("utf-8", "replace")[-2000:]))
        for line in open(os.path.join(d, "res%d.ndjson" % s)):
            results.append(json.loads(line))

    while pending or running:
        while pending and len(running) < nproc:
            s = pending.pop(0)
            out = open(os.path.join(d, "res%d.ndjson" % s), "w")
            p = subprocess.Popen(args + ["-in", inp, "-shard", str(s), "-nshards", str(nshards)], stdout=out,
                                 stderr=subprocess.PIPE, env=env)
            running.append((p, out, s))
        p, out, s = running.pop(0)
        reap(p, out, s)
    if len(results) != len(cases):
        raise Inconclusive("sm2stream returned %d results for %d cases" % (len(results), len(cases)))
    results.sort(key=lambda r: r["case"])
    bad = [r for r in results if not r["ok"]]
    div = [r for r in results if r.get("diverged")]
    stat = {"replay": label, "layout": layout, "numgo": numgo, "prefix": prefix, "mode": mode, "nvk": nvk,
            "cases": len(results), "mismatches": len(bad), "schedule_not_forced": len(div),
            "real_runs_with_mixed_readTs": sum(1 for r in results if r.get("mixed")),
            "matched_snapshot_at_entry": sum(1 for r in results if r["ok"] and r["alt"] == 0),
            "matched_later_single_snapshot": sum(1 for r in results if r["ok"] and r["alt"] > 0),
            "send_calls": sum(r.get("sends", 0) for r in results),
            "cases_whose_load_needed_3_or_more_loader_batches": sum(1 for r in results if r.get("loadBatches", 0) >= 3),
            "wall_s": round(time.time() - t0, 1)}
    c.cov["engines"].append(stat)
    per_sig = {}
    for r in bad:
        per_sig[r["sig"]] = per_sig.get(r["sig"], 0) + 1
        if per_sig[r["sig"]] > 2:
            continue
        case = cases[r["case"]]
        one = os.path.join(d, "one.ndjson")
        with open(one, "w") as f:
            f.write(json.dumps(case) + "\n")
        rc, out, err, _ = vlib.run(args + ["-in", one], timeout=120, env=env)
        again = json.loads(out.strip().splitlines()[0]) if rc == 0 and out.strip() else None
        if again is None or again.get("ok") or again.get("sig") != r["sig"]:
            log("mismatch did not reproduce on re-run, ignoring:", r.get("sig"))
            c.cov["unreproduced"] = c.cov.get("unreproduced", 0) + 1
            continue
        c.violation(r["sig"], {"schedule": short_schedule(case), "detail": r.get("detail")},
                    {"layout": layout, "numgo": numgo, "prefix": prefix, "mode": mode, "nvk": nvk,
                     "chosen": sorted(chosen) if chosen is not None else None, "rangeOf": pr["rangeOf"],
                     "case": case, "replay_cmd": "sm2stream"})
    stat["signatures"] = per_sig
    # schedules that could not be forced give no snapshot verdict (their output is still checked for
    # duplicates / unknown keys / payload above); too many of them means the machinery is off
    if len(div) > max(2, len(results) // 50) and not c.violations:
        raise Inconclusive("%d of %d schedules could not be forced (%s): %s" % (len(div), len(results), label, div[0]["diverged"]))
    return results


# =========================================================================== StreamWriter
SW_INV = ["TypeOK", "ResultEqualsStreams", "NextTsAboveAll", "NothingLostInFlight", "KeyInOneTable",
          "WritesToFreeLevel", "DroppedInvisible"]


def sw_consts(nstreams, keys_per_stream, vers, maxlen, maxbatch, cap, modes, sessions, commits, levels, levelfix=True):
    nk = nstreams * keys_per_stream
    return {"Streams": set(range(1, nstreams + 1)), "Keys": set(range(1, nk + 1)),
            "Owner": [(k - 1) // keys_per_stream + 1 for k in range(1, nk + 1)], "Vers": set(vers),
            "MaxLen": maxlen, "MaxBatch": maxbatch, "Cap": cap, "Modes": set(modes), "MaxSessions": sessions,
            "MaxCommits": commits, "MaxLevels": levels, "LevelFix": levelfix}


def mc_sw(c, name, consts, timeout=600, workers=None, coverage=False, expect_violation=False):
    d = vlib.stage_specs(["sm2"])
    write_mc(d, "SWMC", "StreamWriter", consts, "Spec", ["WritesToFreeLevel"] if expect_violation else SW_INV)
    res = vlib.run_tlc(d, "SWMC", "SWMC.cfg", timeout=timeout, workers=workers, coverage=coverage)
    if expect_violation:
        # model of the code as it is (LevelFix=FALSE): informational, the replay decides
        c.cov["tlc_runs"].append({"config": name, "model": "code as it is (LevelFix=FALSE)", "violated": res.violation,
                                  "distinct_states": res.distinct, "states_generated": res.generated,
                                  "wall_s": round(res.wall, 1)})
        if res.timeout or (not res.violation and not res.ok):
            raise Inconclusive("TLC failed on %s: %s" % (name, res.error_trace[:1500]))
        return res
    if coverage:
        res.coverage_zero = final_zero_actions(res)
    c.add_tlc(name, res)
    vlib.require_tlc_ok(res, "StreamWriter/" + name)
    if coverage and final_zero_actions(res):
        raise Inconclusive("vacuous model checking run %s: actions never taken: %s" % (name, final_zero_actions(res)))
    return res


def gen_sw(c, name, consts, num, seed, workers=4, timeout=600, depth=70):
    d = vlib.stage_specs(["sm2"])
    write_mc(d, "SWGEN", "StreamWriterGen", consts, "GenSpec", ["Emit"])
    res = vlib.run_tlc(d, "SWGEN", "SWGEN.cfg", timeout=timeout, workers=workers,
                       simulate=max(1, num // workers), depth=depth, seed=seed)
    if res.violation or not res.ok:
        raise Inconclusive("generator %s failed: %s %s" % (name, res.violation, res.error_trace[:2000]))
    c.cov["tlc_runs"].append({"config": "gen:" + name, "mode": "simulate", "cases": len(res.cases),
                              "states_generated": res.generated, "wall_s": round(res.wall, 1)})
    seen, out = set(), []
    for h in res.cases:
        k = json.dumps(h["steps"], sort_keys=True)
        if k not in seen:
            seen.add(k)
            out.append(h)
    return out


def sw_features(h):
    f = set()
    nsess = 0
    for s in h["steps"]:
        if s["op"] == "prepare":
            nsess += 1
            f.add("prepare_" + s["mode"])
            if s.get("flatten"):
                f.add("flatten_before_incremental")
        elif s["op"] == "content":
            ks = [e["k"] for e in s["entries"]]
            if len(ks) != len(set(ks)):
                f.add("key_with_several_versions")
            if any(e["kind"] == "del" for e in s["entries"]):
                f.add("delete_marker_streamed")
            if any(e["big"] for e in s["entries"]):
                f.add("value_at_or_above_threshold")
        elif s["op"] == "write":
            if sum(1 for n in s["n"] if n > 0) > 1:
                f.add("batch_mixes_streams")
            if s["done"]:
                f.add("done_marker")
            if s["done"] and not any(s["n"]):
                f.add("done_marker_alone")
        elif s["op"] == "flush":
            if s["tables"] > len(s.get("lv", [])) and s["tables"] > 2:
                f.add("model_cuts_tables")
    if nsess > 1:
        f.add("two_sessions")
    ops = [s["op"] for s in h["steps"]]
    if "commit" in ops and ops.index("commit") < ops.index("prepare"):
        f.add("pre_existing_commits")
    return f


def short_sw(h):
    out = []
    for s in h["steps"]:
        o = s["op"]
        if o == "commit":
            out.append("commit k%d@%d" % (s["k"], s["ts"]))
        elif o == "reopen":
            out.append("reopen(next=%d,levels=%s)" % (s["nextTs"], s["lv"]))
        elif o == "prepare":
            out.append("Prepare%s->L%d" % ("Incremental" if s["mode"] == "incr" else "", s["level"]))
        elif o == "content":
            out.append("stream%d=[%s]" % (s["s"], " ".join("k%d@%d%s%s" % (e["k"], e["ts"], "D" if e["kind"] == "del" else "",
                                                                          "+" if e["big"] else "") for e in s["entries"])))
        elif o == "write":
            out.append("Write(n=%s%s)" % (s["n"], ",done=%s" % s["done"] if s["done"] else ""))
        elif o == "flush":
            out.append("Flush(next=%d,levels=%s,%d entries)" % (s["nextTs"], s["lv"], len(s["db"])))
    return " ; ".join(out)


def replay_sw(c, cases, levels, config, label, nproc=None, timeout=900):
    if not cases:
        raise Inconclusive("no cases generated for " + label)
    binp = vlib.go_build("cmd/sm2sw")
    d = vlib.scratch("sm2sw-")
    inp = os.path.join(d, "cases.ndjson")
    with open(inp, "w") as f:
        for h in cases:
            f.write(json.dumps(h) + "\n")
    args = [binp, "-levels", str(levels), "-config", config]
    nproc = nproc or min(vlib.NCPU, 12, max(1, len(cases) // 8))
    env = vlib.goenv()
    env["TMPDIR"] = d
    procs = []
    t0 = time.time()
    for s in range(nproc):
        out = open(os.path.join(d, "res%d.ndjson" % s), "w")
        p = subprocess.Popen(args + ["-in", inp, "-shard", str(s), "-nshards", str(nproc)], stdout=out,
                             stderr=subprocess.PIPE, env=env)
        procs.append((p, out))
    results = []
    aborted = []
    for s, (p, out) in enumerate(procs):
        try:
            _, err = p.communicate(timeout=max(1, timeout - (time.time() - t0)))
        except subprocess.TimeoutExpired:
            for q, _ in procs:
                q.kill()
            raise Inconclusive("sm2sw timed out (%s)" % label)
        out.close()
        err = err.decode("utf-8", "replace")
        mine = []
        for line in open(os.path.join(d, "res%d.ndjson" % s)):
            try:
                mine.append(json.loads(line))
            except ValueError:
                pass
        results += mine
        if p.returncode != 0:
            if "harness:" in err:
                for q, _ in procs:
                    q.kill()
                raise Inconclusive("sm2sw failed rc=%s (%s): %s" % (p.returncode, label, err[-2000:]))
            # the process was killed by the code under test (y.AssertTrue / log.Fatalf / a panic on one of
            # badger's goroutines): the case it was executing is the first one of this shard without a result
            donei = {r["case"] for r in mine}
            todo = [i for i in range(len(cases)) if i % nproc == s and i not in donei]
            aborted.append((todo[0], p.returncode, err[-1500:]))
            for i in todo:
                results.append({"case": i, "ok": True, "skipped": True, "tables": 0, "vlogValues": 0, "variant": i % 4,
                                "cutSessions": 0})
    for (i, rc0, err) in aborted[:3]:
        one = os.path.join(d, "abort.ndjson")
        with open(one, "w") as f:
            for _ in range(i % 4):
                f.write(json.dumps({"steps": [], "db": [], "may": [], "nextTs": 1}) + "\n")
            f.write(json.dumps(cases[i]) + "\n")
        rc, out, err2, _ = vlib.run(args + ["-in", one], timeout=120, env=env)
        if rc == 0 or "harness:" in err2:
            log("abort of the harness process did not reproduce, ignoring")
            c.cov["unreproduced"] = c.cov.get("unreproduced", 0) + 1
            continue
        c.violation("sm2:streamwriter process-aborted " + config,
                    {"case": short_sw(cases[i]), "exit": rc, "stderr": err2[-1500:]},
                    {"levels": levels, "config": config, "variant": i % 4, "case": cases[i], "replay_cmd": "sm2sw"})
    if len(results) != len(cases):
        raise Inconclusive("sm2sw returned %d results for %d cases" % (len(results), len(cases)))
    results.sort(key=lambda r: r["case"])
    bad = [r for r in results if not r["ok"]]
    stat = {"replay": label, "config": config, "levels": levels, "cases": len(results), "mismatches": len(bad),
            "tables_written_by_stream_writer": sum(r["tables"] for r in results),
            "values_in_value_log": sum(r["vlogValues"] for r in results),
            "cases_with_concurrent_write_calls": sum(1 for r in results if r["variant"] == 3),
            "sessions_in_which_a_table_was_cut": sum(r.get("cutSessions", 0) for r in results),
            "cases_not_executed_after_abort": sum(1 for r in results if r.get("skipped")),
            "wall_s": round(time.time() - t0, 1)}
    c.cov["engines"].append(stat)
    per_sig = {}
    for r in bad:
        per_sig[r["sig"]] = per_sig.get(r["sig"], 0) + 1
        if per_sig[r["sig"]] > 2:
            continue
        case = cases[r["case"]]
        # same interleaving variant on the re-run: the harness derives it from the case index
        one = os.path.join(d, "one.ndjson")
        with open(one, "w") as f:
            for _ in range(r["variant"]):
                f.write(json.dumps({"steps": [], "db": [], "may": [], "nextTs": 1}) + "\n")
            f.write(json.dumps(case) + "\n")
        rc, out, err, _ = vlib.run(args + ["-in", one], timeout=120, env=env)
        lines = out.strip().splitlines()
        again = json.loads(lines[-1]) if rc == 0 and lines else None
        if again is None or again.get("ok") or again.get("sig") != r["sig"]:
            log("mismatch did not reproduce on re-run, ignoring:", r.get("sig"))
            c.cov["unreproduced"] = c.cov.get("unreproduced", 0) + 1
            continue
        c.violation(r["sig"] + " " + config, {"case": short_sw(case), "step": r.get("step"), "detail": r.get("detail")},
                    {"levels": levels, "config": config, "variant": r["variant"], "case": case, "replay_cmd": "sm2sw"})
    stat["signatures"] = per_sig
    return results


# =========================================================================== --replay <file>
def replay_file(c):
    """bin/check Cxx --replay evidence/replays/Cxx/<h>.json : re-executes the stored case against the
    current tree and reports the same kind of verdict."""
    obj = json.load(open(c.replay))
    case = obj["case"]
    if case.get("replay_cmd") == "sm2sw":
        cs = case["case"]
        pad = [{"steps": [], "db": [], "may": [], "nextTs": 1}] * case.get("variant", 0)
        res = replay_sw(c, pad + [cs], case["levels"], case["config"], "replay", nproc=1)
        c.add_cases(1, [short_sw(cs)], traces=1)
        c.sample(short_sw(cs))
    elif case.get("replay_cmd") == "sm2stream":
        pr = {"rangeOf": case["rangeOf"]}
        chosen = set(case["chosen"]) if case.get("chosen") else None
        replay_stream(c, [case["case"]], pr, case["layout"], case["numgo"], case["prefix"], case["mode"], case["nvk"],
                      chosen, "replay", nproc=1)
        c.add_cases(1, [short_schedule(case["case"])], traces=1)
        c.sample(short_schedule(case["case"]))
    elif case.get("replay_cmd") == "sm2stream -probe":
        probe_stream(c, case["layout"], case["numgo"], case["prefix"])
        c.add_cases(1, ["probe"], traces=1)
        c.sample("quiescent run on layout %s" % case["layout"])
    else:
        raise Inconclusive("unknown replay file format: %s" % c.replay)
    c.cov["rule"] = "single stored case re-executed"
