#!/usr/bin/env python3
"""C12 — flushes and compactions never change reads at or above the discard watermark.
spec : specs/lsm/LSM.tla (pickers, sub-compaction retention, read path), invariant ReadStable
MC   : exhaustive TLC over every sequence of put / rotate / flush / picker choice
bind : state injection — every compaction transition TLC takes is replayed as ONE production
       compaction on a layout built with the production table builder; the resulting layout must
       be the one the specification computes, and (independently of the model) every read at or
       above the watermark must be identical before and after the compaction in the real DB."""
import os, sys, random
sys.path.insert(0, os.path.dirname(os.path.abspath(__file__)))
import lib_lsm as L
import vlib


def body(c, prop="C12", kinds='{"val", "del", "exp"}', nvks=(1,), invariants=("ReadStable", "Retention", "Structure", "NoInvention", "AgeOrdered")):
    q = c.quick
    rnd = random.Random(c.seed)
    base = dict(L.BASE, Kinds=kinds)
    # 1. design level
    for nvk in nvks:
        consts = dict(base, NVK=str(nvk))
        if q:
            consts.update(MaxTs="3", MaxId="6")
            if kinds.count(',') >= 3:
                # retention is decided per key: with all four entry kinds the quick model check uses one key
                consts.update(Keys="{1}", MaxTs=("3" if nvk == 1 else "4"), MaxId="6")
        if not q and kinds.count(',') >= 3:
            # thorough, all entry kinds: one key with four writes (retention is decided per key) and two keys
            # with three writes
            L.model_check(c, "picks NVK=%d, one key, 4 writes" % nvk, dict(consts, Keys="{1}", MaxTs="4", MaxId="7"), invariants, timeout=3000)
            L.model_check(c, "picks NVK=%d, two keys, 3 writes" % nvk, dict(consts, MaxTs="3", MaxId="6"), invariants, timeout=3000)
            continue
        if not q and kinds.count(',') == 2:
            # thorough, three kinds: the deep configuration with deletion markers only (expired entries are
            # treated exactly like them by addKeys), the shallower one with all three
            L.model_check(c, "picks NVK=%d, val/del, 4 writes" % nvk, dict(consts, Kinds='{"val", "del"}'), invariants, timeout=3000)
            L.model_check(c, "picks NVK=%d, val/del/exp, 3 writes" % nvk, dict(consts, MaxTs="3", MaxId="6"), invariants, timeout=3000)
            continue
        L.model_check(c, "picks NVK=%d" % nvk, consts, invariants, timeout=3000)
    if prop == "C12":
        # the base level: without the clamp at the first non-empty level (code before the repair) and with
        # the rejected repair (skipped levels only counted as overlapping) the model has to show the loss
        small = dict(base, NVK="1", Keys="{1}", MaxTs="3", MaxId="5")
        L.model_must_fail(c, "base level may skip non-empty levels (unrepaired)", dict(small, BaseSkip='"skip"'), "ReadStable")
        if not q:
            L.model_must_fail(c, "skipped levels counted as overlapping (rejected repair)", dict(small, BaseSkip='"checked"'), "ReadStable")
        L.scenario_baseflip(c, prop)
        L.size_walks(c, prop, 24 if q else 1200)
        # the level targets a compactor captured may be out of date when it picks its tables
        L.compactors_mc(c, q, sensitivity=True)
        L.compactors_traces(c, prop, 8 if q else 200, scenario=True)
    # 2. state injection, L0->Lbase and Li->Li+1 (MinL0L0 irrelevant for these families)
    allcases = []
    for nvk in nvks:
        g = dict(base, Keys="{1, 2, 3}", NVK=str(nvk), MaxTs="5", MaxId="9", Wide="0", L0Hold="0", MtMax="2")
        cases = L.generate(c, "walk NVK=%d" % nvk, g, c.seed + nvk, simulate=(1500 if q else 30000), depth=32, workers=4)
        cases = [x for x in cases if x["fam"] != "L0ToL0"]
        allcases += cases
    # 3. L0->L0 with the code's constant (4 tables): shaped walk that lets level 0 fill up
    for nvk in nvks:
        g = dict(base, Keys="{1, 2}", NVK=str(nvk), MaxTs="9", MaxId="16", MinL0L0="4", Wide="0", L0Hold="99", MtMax="1")
        cases = L.generate(c, "L0L0 NVK=%d" % nvk, g, c.seed + 10 + nvk, simulate=(1000 if q else 20000), depth=60, workers=4)
        cases = [x for x in cases if x["fam"] == "L0ToL0"]
        rest = [x for x in cases if any(t["big"] or not t["aged"] for t in x["pre"]["L0"])]
        c.cov.setdefault("l0l0_cases_with_excluded_tables", 0)
        c.cov["l0l0_cases_with_excluded_tables"] += len(L.dedupe(rest))
        allcases += cases
    deep = []
    if prop == "C13":
        # one key with many versions on both sides of the watermark in one compaction: the retention
        # counter (NumVersionsToKeep) has to start counting at the watermark, not at the newest version
        for nvk in nvks:
            g = dict(base, Keys="{1}", NVK=str(nvk), MaxTs="6", MaxId="9", Wide="0", L0Hold="0", MtMax="3")
            cs = L.generate(c, "one key, many versions NVK=%d" % nvk, g, c.seed + 20 + nvk, simulate=(700 if q else 12000),
                            depth=40, workers=4)

            def straddles(x):
                d = x["pre"]["discardTs"]
                ents = [e for t in x["pre"]["L0"] for e in t["ents"]] + [e for lv in x["pre"]["lv"] for t in lv for e in t["ents"]]
                return any(e["ts"] > d for e in ents) and sum(1 for e in ents if e["ts"] <= d) >= 2
            deep += [x for x in L.dedupe(cs) if x["fam"] != "L0ToL0" and straddles(x)]
        rnd.shuffle(deep)
        c.cov["cases_with_versions_on_both_sides_of_the_watermark"] = len(deep)
    allcases = L.dedupe(allcases)
    total = len(allcases)
    nmem, ndisk = (600, 90) if q else (12000, 1500)
    # always keep L0->L0 cases that leave tables behind (the situation that needs the rest of L0)
    def later_overlap(x):
        """L0->Lbase where the oldest-first overlapping prefix stops early although a LATER table
        overlaps the picked range (the picker must not reach over the gap)"""
        if x["fam"] != "L0ToBase":
            return False
        rng = None
        n = 0
        for t in x["pre"]["L0"]:
            ks = [e["k"] for e in t["ents"]]
            lo, hi = min(ks), max(ks)
            if rng is None or (lo <= rng[1] and rng[0] <= hi):
                rng = (lo, hi) if rng is None else (min(rng[0], lo), max(rng[1], hi))
                n += 1
            else:
                break
        for t in x["pre"]["L0"][n + 1:]:
            ks = [e["k"] for e in t["ents"]]
            if min(ks) <= rng[1] and rng[0] <= max(ks):
                return True
        return False
    special = [x for x in allcases if (x["fam"] == "L0ToL0" and any(t["big"] or not t["aged"] for t in x["pre"]["L0"]))
               or later_overlap(x)]
    c.cov["l0base_cases_with_overlap_behind_a_gap"] = sum(1 for x in special if x["fam"] == "L0ToBase")
    sk = set(id(x) for x in special)
    others = [x for x in allcases if id(x) not in sk]
    rnd.shuffle(special)
    rnd.shuffle(others)
    mem = deep[:(150 if q else 4000)] + special[:nmem // 3] + others[:nmem - min(len(special), nmem // 3)]
    disk = special[:ndisk // 3] + others[nmem:nmem + ndisk]
    L.replay(c, prop, mem, "state injection (in-memory tables)", inmem=True)
    if disk:
        L.replay(c, prop, disk, "state injection (on disk, MANIFEST checked)", inmem=False)
    # 4. the two-step installation against a concurrent level-by-level read
    if prop == "C12":
        L.model_check_install(c, q)
        inst = [x for x in others if x["fam"] != "L0ToL0" and len(x["posts"][0]["reads"]) <= 3][:(16 if q else 300)]
        L.replay_install(c, prop, inst, "read interleaved with replaceTables/deleteTables (all positions)")
    c.add_cases(len(mem) + len(disk), set(L.shape_key(x) for x in mem + disk), traces=len(mem) + len(disk))
    c.cov["distinct_cases_generated"] = total
    c.cov["rule"] = ("a case = one compaction transition of LSM.tla (pre-layout, family, allowed post-layouts, predicted reads); "
                     "distinct up to table ids; all are non-trivial (a production compaction runs in each)")
    c.cov["exhaustive"] = False
    for x in (special[:1] + others[:2]):
        c.sample(L.describe(x))
    c.assumptions += ["layouts are built by injecting tables (db.VerifInjectTable) instead of replaying the writes that lead to them; "
                      "only layouts reachable in LSM.tla are injected",
                      "for model-sized data the production base level is the first non-empty level (else the last level); "
                      "L0->Lbase cases are replayed only where the specification's choice agrees; the size-dependent "
                      "movement of the base level is exercised by the lsmprobe scenario with real sizes",
                      "LmaxRewrite is checked at the specification level only (the production picker needs >= 10 MiB of stale data)"]


if __name__ == "__main__":
    vlib.main("C12", "model_checking", body)
