#!/usr/bin/env python3
"""C27 - WriteBatch applies every operation, later operations winning.
spec : specs/sm1/WriteBatch.tla (Issue/Split/Flush over Txn.modify's pendingWrites/duplicateWrites
       and commitAndSend's write order; invariant LaterWins)
MC   : exhaustive TLC, all operation sequences x all split points, three constructors
bind : WriteBatchGen cases (operation sequence + predicted AllVersions contents) replayed through
       NewWriteBatch / NewWriteBatchAt / NewManagedWriteBatch with forced internal splits
       (pad entries that fill the byte budget; tiny memtables where the count limit cuts)."""
import os, sys, random
sys.path.insert(0, os.path.dirname(os.path.abspath(__file__)))
import lib_sm1 as L
import vlib

INV = ["TypeOK", "LaterWins", "NothingPending"]
MODES = {
    "plain":   dict(Versions=[0], AtTs=0),
    "at":      dict(Versions=[0, 3, 5], AtTs=5),     # version 0 resolves to 5 and collides with an explicit 5
    "managed": dict(Versions=[3, 5], AtTs=0),
}


def consts(mode, maxops, dupfirst=True, minops=None):
    m = MODES[mode]
    k = L.K(Keys=[1, 2], Versions=m["Versions"], MaxOps=maxops, Mode=mode, AtTs=m["AtTs"], DupFirst=dupfirst)
    if minops is not None:
        k["MinOps"] = str(minops)
    return k


def to_case(mode, hist):
    ops = [h for h in hist if h["op"] in ("set", "del")]
    splits = [h["i"] for h in hist if h["op"] == "split"]
    fl = hist[-1]
    return {"mode": mode, "atTs": MODES[mode]["AtTs"], "ops": [{"op": o["op"], "k": o["k"], "ver": o["ver"], "i": o["i"]} for o in ops],
            "splits": splits, "via": "pad" if splits else "none",
            "expect": sorted(fl["store"], key=lambda e: (e["k"], e["ts"]))}


def with_splits(case, splits, via):
    c = dict(case)
    c["splits"] = sorted(splits)
    c["via"] = via if splits else "none"
    return c


def all_split_sets(n):
    pos = list(range(1, n))
    for m in range(1 << len(pos)):
        yield [p for i, p in enumerate(pos) if m >> i & 1]


def has_xver(case):
    """same (key, effective version) written twice with another version of the key in between"""
    eff = lambda o: o["ver"] or case["atTs"]
    ops = case["ops"]
    for a in range(len(ops)):
        for b in range(a + 1, len(ops)):
            if ops[b]["k"] == ops[a]["k"] and ops[b]["ver"] != ops[a]["ver"]:
                for cc in range(b, len(ops)):
                    if ops[cc]["k"] == ops[a]["k"] and eff(ops[cc]) == eff(ops[a]):
                        return True
    return False


def short(case):
    def o(x):
        return "%s(k%d%s)#%d" % (x["op"], x["k"], "@%d" % x["ver"] if x["ver"] else "", x["i"])
    return "%s[%s] splits=%s via=%s => %s" % (case["mode"], " ".join(o(x) for x in case["ops"]), case["splits"], case["via"],
                                             ",".join("k%d@%d=%s" % (e["k"], e["ts"], e["v"]) for e in case["expect"]))


def body(c):
    q = c.quick
    rnd = random.Random(c.seed)
    n_mc = 4 if q else 5
    # 1. design level: LaterWins for every operation sequence and every split, per constructor
    for mode in ("plain", "at", "managed"):
        L.mc(c, "WriteBatch", "%s-%dops" % (mode, n_mc if mode != "plain" else 5),
             consts(mode, n_mc if mode != "plain" else 5), INV, timeout=900)
    # the write order the tree had before fix a5388b6 is expressible and violates LaterWins in the model
    cx = L.expect_counterexample(c, "WriteBatch", "managed-asis", consts("managed", 3, dupfirst=False), "LaterWins")
    c.cov["asis_write_order_counterexample_found"] = bool(cx.violation)
    if not cx.violation:
        raise vlib.Inconclusive("the as-is write order (pending before duplicates) no longer violates LaterWins in the model")
    # 2. generated cases
    cases = {}
    cases["plain"] = [to_case("plain", h) for h in L.gen(c, "WriteBatchGen", "plain", consts("plain", 4 if q else 5, minops=1), timeout=900)]
    for mode in ("at", "managed"):
        cases[mode] = [to_case(mode, h) for h in L.gen(c, "WriteBatchGen", mode, consts(mode, 4 if q else 5, minops=1), timeout=900)]
    c.cov["generated"] = {m: len(v) for m, v in cases.items()}
    total_eval, keys, nx = 0, set(), 0
    for mode in ("plain", "at", "managed"):
        base = cases[mode]
        run = []
        if mode == "plain":
            run = list(base)                      # split points are part of the case
            if q and len(run) > 4000:
                run = rnd.sample(run, 4000)
        else:
            pool = base if not q else rnd.sample(base, min(len(base), 2500))
            for cs in pool:
                n = len(cs["ops"])
                sets = list(all_split_sets(n))
                if q or n >= 5:
                    chosen = [[]] + rnd.sample(sets[1:], min(len(sets) - 1, 1 if q else 2))
                else:
                    chosen = sets
                for s in chosen:
                    run.append(with_splits(cs, s, "pad"))
        managed = ["-managed"] if mode != "plain" else []
        L.replay(c, "cmd/sm1batch", run, managed + ["-inmem"], "batch-%s-pad-inmem" % mode, timeout=1500)
        total_eval += len(run)
        if not q:
            sub = rnd.sample(run, min(len(run), 8000))
            L.replay(c, "cmd/sm1batch", sub, managed, "batch-%s-pad-disk" % mode, timeout=1500)
            total_eval += len(sub)
        for cs in run:
            if len(cs["ops"]) >= 2:
                keys.add(short(cs))
        nx += sum(1 for cs in run if has_xver(cs))
        # count-limit splits: memtable so small that maxBatchCount cuts the batch every `cap` entries
        for cap in ([2] if q else [1, 2, 3]):
            mts = ((cap + 2) * 96 * 100) // 15 + 1
            pool = [cs for cs in base if not cs["splits"]] if mode == "plain" else base
            pool = rnd.sample(pool, min(len(pool), 600 if q else 3000))
            capr = []
            for cs in pool:
                n = len(cs["ops"])
                sp = [p for p in range(cap, n, cap)]
                if mode == "plain":
                    # predicted versions depend on the splits: take the generated case with these splits
                    continue
                capr.append(with_splits(cs, sp, "cap"))
            if mode == "plain":
                bysplit = {}
                for cs in base:
                    n = len(cs["ops"])
                    if cs["splits"] == [p for p in range(cap, n, cap)]:
                        bysplit[short(cs)] = dict(cs, via="cap" if cs["splits"] else "none")
                capr = list(bysplit.values())
                capr = rnd.sample(capr, min(len(capr), 600 if q else 3000))
            L.replay(c, "cmd/sm1batch", capr, managed + ["-memtable", str(mts), "-vthreshold", "32", "-bigvalues", "-reopen", "60"],
                     "batch-%s-cap%d-disk" % (mode, cap), timeout=1500)
            total_eval += len(capr)
    c.cov["cases_with_same_cell_rewritten_after_other_version"] = nx
    c.add_cases(total_eval, keys, traces=total_eval)
    c.cov["rule"] = ("a case = operation sequence (TLC-enumerated, all sequences up to length %d over 2 keys x versions of the "
                     "constructor x set/delete, first key fixed by symmetry) x a split set; non-trivial = at least 2 operations; "
                     "distinct = distinct (sequence, split set, split mechanism)" % (4 if q else 5))
    c.cov["exhaustive"] = False   # sequences are enumerated by TLC, replays above the caps are seeded samples
    for mode in ("managed", "at", "plain"):
        for cs in cases[mode]:
            if len(cs["ops"]) >= 3 and (mode == "plain" or has_xver(cs)):
                c.sample(short(cs))
                break
    c.assumptions += ["split points are forced by pad entries on a third key (byte budget) or by a tiny MemTableSize (count limit); "
                      "the replayer verifies through the commit.start hook that the internal commits happened exactly there",
                      "delete markers are compared as markers (which delete call wrote a marker is not observable)"]


vlib.main("C27", "model_checking", body)
