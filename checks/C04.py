#!/usr/bin/env python3
"""C04 — a read-write transaction sees its own pending writes.
spec : specs/kv/KVDefs.tla  PendingAt / Overlay (pending entries appear at version readTs, first in
       merge order) + IterSeq; specs/kv/BadgerKV.tla OwnWrites, IterAgreesWithGet, IterOpen/IterRun
       (the iterator captures the pending writes when it is created)
MC   : BadgerKV exhaustive (2 transactions, own writes, split iterators); KVIterGen invariants
       Theorems / IterGetAgree on every generated case
bind : (a) exhaustive in the bound: every store of <= 3 snapshot keys (value or tombstone) x every
       sequence of <= 2 pending operations (Set, Delete, SetEntry with user meta + expiry + discard
       flag; thorough: also <= 3 of Set / Delete) over the 3 keys x every iterator option record in
       {fwd, rev} x {AllVersions} x SinceTs in {0, 1, readTs} x seek keys x {no prefix, opt.Prefix,
       ValidForPrefix}: replayed on a real transaction (snapshot placed by ordinary commits, in the
       memtable / flushed once / flushed per commit), Get of every key and every iterator sequence
       compared; a second transaction confirms invisibility before commit.
       (b) long transactions with many own writes and iterators created before later writes
       (BadgerKVGen -simulate), on-disk with value log."""
import os, sys, random
sys.path.insert(0, os.path.dirname(os.path.abspath(__file__)))
import lib_kv as K
import vlib


def body(c):
    q = c.quick
    # 1. design level: own writes in the contract state machine
    if q:
        mc = dict(K.MC_DEFAULT, Feat='{"iter", "split"}')
    else:
        mc = dict(K.MC_DEFAULT, Feat='{"iter", "split"}', Exps="{0, 2}", MaxNow="2", IterDirs="{FALSE, TRUE}")
    K.model_check(c, "ownwrites-2txn-2key-splititer", mc, ["TypeOK", "OwnWrites", "IterAgreesWithGet", "SnapshotRead"],
                  ["SnapshotStable"], bound="nval <= 2", timeout=3000)
    # 2. exhaustive overlay cases
    tab = K.key_table(c.seed)
    kc = K.key_consts(tab)
    sk = [1, 2, 3]
    queries = K.query_set(seeks=[0, 1, 2, 3, 4], sinces=[0, 1, 3], prefixes=[1, 2])
    plans = [("overlay-3keys-pend2", '{"val", "del", "meta"}', "2")]
    if not q:
        plans.append(("overlay-3keys-pend3", '{"val", "del"}', "3"))
    groups, ncases, nq = [], 0, 0
    stats = {}
    maxpend = 0
    for name, kinds, mp in plans:
        cons = dict(kc, StoreKeys=K.tla_set(sk), TsSet="1..3", Kinds='{"val", "del"}', MaxVersions="3", Contiguous="TRUE",
                    OnePerKey="TRUE", ReadTs="0", Now="5", PendKeys=K.tla_set(sk), PendKinds=kinds, MaxPend=mp, Queries=queries)
        g, n_ = K.gen_store(c, name, cons, workers=10 if q else 14, timeout=4000, check_theorems=True)
        nq_ = sum(len(r["q"]) for x in g for r in x["runs"])
        c.cov.setdefault("overlay_cases", []).append(
            {"plan": name, "snapshots": len(g), "snapshot_x_pending": n_, "predicted_iterator_sequences": nq_,
             "max_pending_ops": int(mp), "pending_kinds": kinds, "queries_per_case": len(g[0]["runs"][0]["q"])})
        K.replay(c, g, "default", c.seed, name, keys=tab, mode="store", nproc=min(vlib.NCPU, len(g)), collect=stats, timeout=6000)
        if not q:
            K.replay(c, g, "vlog+zstd", c.seed, name, keys=tab, mode="store", nproc=min(vlib.NCPU, len(g)), collect=stats, timeout=6000)
        groups += g
        ncases += n_
        nq += nq_
        maxpend = max(maxpend, int(mp))
    cons = {"MaxPend": str(maxpend)}
    c.cov["overlay_replay"] = stats
    if stats.get("query", 0) < nq or stats.get("invisible", 0) == 0:
        raise vlib.Inconclusive("overlay replay executed %s iterator checks for %d predictions" % (stats.get("query"), nq))
    # 3. long transactions (many own writes, iterators opened before later writes)
    sim = K.hist_consts(tab, Exps="{0, 3}", MaxNow="3", HistLen="36", MaxOps="9", MaxActive="2", WriteWeight="2",
                        SplitIter="TRUE", IterOptList=K.iter_templates(tab, rich=True), EnvSteps=K.tla_set(["flush", "compactL0"]))
    n = 300 if q else 2500
    sims = K.generate(c, "sim-long-txns", sim, n, 36, c.seed, workers=8 if q else 12, timeout=1800)
    c.cov["generated_op_histogram"] = K.op_histogram(sims)

    def own(h):
        wrote = {}
        n = 0
        for s in h:
            if s["op"] in ("set", "del"):
                wrote.setdefault(s["t"], set()).add(s["k"])
            elif s["op"] == "get" and s["k"] in wrote.get(s["t"], ()):
                n += 1
            elif s["op"] in ("iter", "iterRun") and wrote.get(s["t"]):
                n += 1
        return n
    owns = [own(h) for h in sims]
    c.cov["reads_after_own_write_per_history_avg"] = round(sum(owns) / max(1, len(owns)), 2)
    K.replay(c, sims, "vlog", c.seed, "sim-long-txns", keys=tab)
    keys = set(json_key(g, r) for g in groups for r in g["runs"] if r["pend"])
    c.add_cases(nq + len(sims), keys | set(K.hist_key(h) for h, o in zip(sims, owns) if o > 0), traces=ncases * 3 + len(sims))
    c.cov["rule"] = ("overlay cases = every (snapshot, pending-operation sequence) KVIterGen enumerates in the bound "
                     "(<= 3 snapshot keys; <= 2 pending operations of 3 kinds, and in the thorough tier <= %s of 2 kinds, over 3 keys); non-trivial = at least one "
                     "pending operation; evaluations = predicted iterator sequences + simulated histories; every case is "
                     "replayed under 3 placements of the snapshot" % cons["MaxPend"])
    c.cov["exhaustive"] = True
    g = groups[len(groups) // 2]
    r = [r for r in g["runs"] if r["pend"]][0]
    c.sample({"snapshot": g["store"], "pending": r["pend"], "query": r["q"][7]["o"], "predicted_item_codes(k*1000+ts)": r["q"][7]["r"]})
    for h in [h for h, o in zip(sims, owns) if o > 2][:1]:
        c.sample(K.short(h))
    c.assumptions += ["the seek key of an iterator with opt.Prefix lies inside the prefix (KVDefs!WellFormed); other seeks "
                      "have placement-dependent results because pickTables drops tables outside the prefix",
                      "bound: 3 abstract keys (concretised to byte strings that are prefixes of one another / contain "
                      "0x00 and 0xFF depending on the seed), seek keys additionally one key outside the written set"]


def json_key(g, r):
    import json
    return json.dumps([g["store"], r["pend"]], sort_keys=True)


vlib.main("C04", "model_checking", body)
