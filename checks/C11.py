#!/usr/bin/env python3
"""C11 — commits after any re-open get timestamps above every stored version.
spec : specs/kv/BadgerKV.tla  NextTsAboveAll (invariant, also across Restart), TsMonotone
MC   : exhaustive TLC with Restart and Compact steps (a compaction may drop the newest tombstone:
       the next timestamp still exceeds everything that is stored)
bind : histories with many re-opens (clean close here); after EVERY re-open the harness asserts
       vh.AssertNextTsAboveAll(db) (oracle.nextTxnTs > version of every entry physically stored in
       memtables and tables) and the following commits of the history must read back with the
       predicted versions; at the end of every history the DB is closed and opened once more and
       vh.CommitProbeAboveAll commits one more write and reads it back: its version must exceed
       every stored version and the read must return it.  Crash / Load / StreamWriter / DropAll
       variants call the same two helpers (harness/vh/kv.go) from the other families' harnesses."""
import os, sys
sys.path.insert(0, os.path.dirname(os.path.abspath(__file__)))
import lib_kv as K
import vlib


def body(c):
    q = c.quick
    mc = dict(K.MC_DEFAULT, Feat='{"restart", "compact", "reject"}', Exps="{0, 2}", MaxNow="2")
    K.model_check(c, "nextts-2txn-2key-restart", mc, ["TypeOK", "NextTsAboveAll", "UniqueTs"], ["TsMonotone", "RestartInvisible"],
                  bound="nval <= 2" if q else "nval <= 3", timeout=3000)
    tab = K.key_table(c.seed)
    env = ["flush", "compactL0", "compactDown", "gc", "reopen", "reopenCompact"]
    sim = K.hist_consts(tab, Exps="{0, 2}", MaxNow="3", HistLen="34", MaxOps="2", MaxActive="2", WriteWeight="4",
                        EnvSteps=K.tla_set(env), EnvWeight="3", RejKinds='{"blocked", "closed"}',
                        IterOptList=K.tla_seq([K.tla_opts(), K.tla_opts(all=True)]))
    n = 450 if q else 4000
    sims = K.generate(c, "sim-reopen-commit", sim, n, 34, c.seed, workers=8 if q else 12, timeout=1800)
    c.cov["generated_op_histogram"] = K.op_histogram(sims)

    def commits_after_reopen(h):
        seen = False
        n = 0
        for s in h:
            if s["op"] == "env" and s["what"].startswith("reopen") or (s["op"] == "commit" and s["res"] == "closed"):
                seen = True
            elif seen and s["op"] == "commit" and s["res"] == "ok":
                n += 1
        return n
    car = [commits_after_reopen(h) for h in sims]
    c.cov["commits_after_a_reopen_total"] = sum(car)
    if sum(car) < len(sims) // 2:
        raise vlib.Inconclusive("generator shaping lost: only %d commits after a re-open in %d histories" % (sum(car), len(sims)))
    stats = {}
    confs = ["vlog", "default"] if q else ["default", "vlog", "thr+l3", "enc+vlog", "zstd", "sync+vlog"]
    for conf in confs:
        K.replay(c, sims, conf, c.seed, "sim-reopen-commit", keys=tab, flags=["-final", "probe"], collect=stats)
    c.cov["probe_commits"] = stats.get("probe", 0)
    c.cov["reopen_steps_executed"] = {k: stats.get(k, 0) for k in ("reopen", "reopenCompact")}
    c.cov["closed_db_rejections_followed_by_reopen"] = stats.get("commit:closed", 0)
    stopped = sum(e.get("mismatches", 0) for e in c.cov["engines"] if e.get("replay") == "sim-reopen-commit")
    if stats.get("probe", 0) < len(sims) * len(confs) - stopped:
        raise vlib.Inconclusive("probe commit ran %d times for %d replays (%d stopped at a mismatch)" % (
            stats.get("probe", 0), len(sims) * len(confs), stopped))
    good = [h for h, n in zip(sims, car) if n > 0]
    c.add_cases(len(sims) * len(confs), set(K.hist_key(h) for h in good), traces=len(sims) * len(confs))
    c.cov["rule"] = ("histories are behaviours of BadgerKVGen (TLC -simulate, length 34, many re-opens); non-trivial = a "
                     "successful commit after a re-open inside the history (every history additionally ends with "
                     "re-open + probe commit); distinct = distinct step sequences")
    c.cov["exhaustive"] = False
    for h in good[:2]:
        c.sample(K.short(h))
    c.assumptions += ["clean close only; crash images, DB.Load, StreamWriter.Flush and DropAll are produced by the disk / "
                      "stream families, which call vh.AssertNextTsAboveAll and vh.CommitProbeAboveAll on their re-opened DBs",
                      "managed mode has no oracle-assigned timestamps and is excluded"]


vlib.main("C11", "model_checking", body)
