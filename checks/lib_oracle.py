"""Oracle family: specs/oracle (WaterMark, Oracle, traces) <-> y/watermark.go, txn.go, db.go.
 * model checking of WaterMark (incl. liveness) and Oracle (three transaction programs)
 * WaterMarkGen interleavings replayed on the real y.WaterMark (harness/cmd/wmreplay)
 * traces of free-running concurrent workloads on the real DB (harness/cmd/drive) validated
   by TLC against OracleTrace / WaterMarkTrace."""
import json, os, re, subprocess, sys, time, random, shutil
sys.path.insert(0, os.path.join(os.path.dirname(os.path.abspath(__file__)), "..", "tools"))
import vlib
from vlib import Inconclusive, log


def mc_watermark(c, quick):
    d = vlib.stage_specs(["oracle"])
    for uniq in ("TRUE", "FALSE"):
        cfg = os.path.join(d, "WM_%s.cfg" % uniq)
        with open(cfg, "w") as f:
            f.write("SPECIFICATION FairSpec\nCONSTANTS\n  MaxIdx = 3\n  Waiters = {1, 2}\n  MaxMarks = %d\n  Unique = %s\n"
                    "INVARIANTS DoneUntilSound AssertNeverFires ReleasedSound NoStaleWaiter\n"
                    "PROPERTIES DoneUntilMonotone NoLostWakeup\n" % (6 if quick else 8, uniq))
        res = vlib.run_tlc(d, "WaterMark", os.path.basename(cfg), timeout=900, workers=8 if quick else None)
        c.add_tlc("WaterMark Unique=%s" % uniq, res)
        vlib.require_tlc_ok(res, "WaterMark Unique=%s" % uniq)


def mc_oracle(c, quick):
    d = vlib.stage_specs(["oracle"])
    for cfg in ("Oracle_MC_A.cfg", "Oracle_MC_B.cfg", "Oracle_MC_C.cfg"):
        res = vlib.run_tlc(d, "Oracle_MC", cfg, timeout=900, workers=8 if quick else None)
        c.add_tlc(cfg, res)
        vlib.require_tlc_ok(res, cfg)


def gen_wm(c, histlen, uniq, seed, num=None):
    d = vlib.stage_specs(["oracle"])
    with open(os.path.join(d, "G.cfg"), "w") as f:
        f.write("SPECIFICATION GenSpec\nCONSTANTS\n  MaxIdx = 3\n  Waiters = {1, 2}\n  MaxMarks = %d\n  Unique = %s\n"
                "  HistLen = %d\nINVARIANTS Emit\n" % (histlen, uniq, histlen))
    if num:
        res = vlib.run_tlc(d, "WaterMarkGen", "G.cfg", timeout=600, workers=4, simulate=max(1, num // 4),
                           depth=histlen + 1, seed=seed)
    else:
        res = vlib.run_tlc(d, "WaterMarkGen", "G.cfg", timeout=900, workers=8)
        c.cov["states"] += res.distinct
        c.cov["transitions"] += res.generated
    if not res.ok:
        raise Inconclusive("WaterMarkGen failed: %s" % res.error_trace[:2000])
    c.cov["tlc_runs"].append({"config": "gen:WaterMark Unique=%s len=%d" % (uniq, histlen),
                              "mode": "simulate" if num else "exhaustive", "cases": len(res.cases),
                              "wall_s": round(res.wall, 1)})
    return res.cases


def replay_wm(c, prop, cases, label):
    binp = vlib.go_build("cmd/wmreplay")
    d = vlib.scratch("wm-")
    inp = os.path.join(d, "cases.ndjson")
    with open(inp, "w") as f:
        for h in cases:
            f.write(json.dumps(h) + "\n")
    nproc = min(vlib.NCPU, max(1, len(cases) // 50))
    procs = []
    t0 = time.time()
    for s in range(nproc):
        out = open(os.path.join(d, "res%d" % s), "w")
        procs.append((subprocess.Popen([binp, "-in", inp, "-shard", str(s), "-nshards", str(nproc)],
                                       stdout=out, stderr=subprocess.PIPE, env=vlib.goenv()), out))
    results = []
    for s, (p, out) in enumerate(procs):
        try:
            _, err = p.communicate(timeout=1200)
        except subprocess.TimeoutExpired:
            for q, _ in procs:
                q.kill()
            raise Inconclusive("wmreplay timed out")
        out.close()
        if p.returncode != 0:
            raise Inconclusive("wmreplay rc=%s: %s" % (p.returncode, err.decode("utf-8", "replace")[-1500:]))
        results += [json.loads(l) for l in open(os.path.join(d, "res%d" % s))]
    if len(results) != len(cases):
        raise Inconclusive("wmreplay: %d results for %d cases" % (len(results), len(cases)))
    bad = [r for r in results if not r["ok"]]
    c.cov["engines"].append({"replay": label, "cases": len(results), "mismatches": len(bad),
                             "wall_s": round(time.time() - t0, 1)})
    seen = {}
    for r in bad:
        if r["sig"].startswith("harness."):
            raise Inconclusive("wmreplay harness trouble: %s" % r)
        seen[r["sig"]] = seen.get(r["sig"], 0) + 1
        if seen[r["sig"]] > 2:
            continue
        case = cases[r["case"]]
        # re-run this single case
        one = os.path.join(d, "one.ndjson")
        open(one, "w").write(json.dumps(case) + "\n")
        rc, out, err, _ = vlib.run([binp, "-in", one], timeout=60)
        if rc != 0 or not out.strip() or json.loads(out.splitlines()[0])["ok"]:
            log("watermark mismatch did not reproduce:", r)
            continue
        c.violation("oracle:watermark %s" % r["sig"], r.get("detail"), {"interleaving": case, "tool": "wmreplay"})
    return results


def record_traces(c, seeds, quick):
    """Run the free-running driver for several seeds/shapes; returns (oracle trace file,
    watermark trace file, number of runs, number of events)."""
    binp = vlib.go_build("cmd/drive")
    d = vlib.scratch("traces-")
    shapes = [dict(g=2, txns=150, keys=3, vlog=False, compactors=2),
              dict(g=8, txns=120, keys=6, vlog=False, compactors=3),
              dict(g=16, txns=60, keys=4, vlog=True, compactors=3),
              dict(g=4, txns=200, keys=2, vlog=True, compactors=2)]
    ofiles, wfiles = [], []
    procs = []
    env = vlib.goenv()
    env["TMPDIR"] = d
    n = 0
    for s in seeds:
        for i, sh in enumerate(shapes):
            n += 1
            of, wf = os.path.join(d, "o_%d_%d.ndjson" % (s, i)), os.path.join(d, "w_%d_%d.ndjson" % (s, i))
            cmd = [binp, "-oracle", of, "-wm", wf, "-seed", str(s * 10 + i), "-g", str(sh["g"]),
                   "-txns", str(sh["txns"] * (1 if quick else 3)), "-keys", str(sh["keys"]),
                   "-compactors", str(sh["compactors"])]
            if sh["vlog"]:
                cmd.append("-vlog")
            procs.append((subprocess.Popen(cmd, stdout=subprocess.PIPE, stderr=subprocess.PIPE, env=env), cmd))
            ofiles.append(of)
            wfiles.append(wf)
            if len(procs) >= 6:
                _drain(procs)
    _drain(procs)
    ot, wt = os.path.join(d, "oracle.ndjson"), os.path.join(d, "wm.ndjson")
    nev = 0
    for files, dst in ((ofiles, ot), (wfiles, wt)):
        with open(dst, "w") as out:
            for f in files:
                for line in open(f):
                    out.write(line)
                    nev += 1
    return ot, wt, n, nev


def _drain(procs):
    while procs:
        p, cmd = procs.pop(0)
        try:
            _, err = p.communicate(timeout=300)
        except subprocess.TimeoutExpired:
            p.kill()
            raise Inconclusive("driver timed out: %s" % " ".join(cmd))
        if p.returncode != 0:
            raise Inconclusive("driver failed rc=%s: %s\n%s" % (p.returncode, " ".join(cmd),
                                                                 err.decode("utf-8", "replace")[-2000:]))


def validate_trace(c, module, trace_file, label, expect_reject=False):
    """TLC trace validation. Returns (accepted, rule, line)."""
    d = vlib.stage_specs(["oracle"])
    shutil.copy(trace_file, os.path.join(d, "trace.ndjson"))
    res = vlib.run_tlc(d, module, module + ".cfg", workers=1, dfs_queue=True, timeout=900, deadlock=True,
                       extra_args=[])
    nlines = sum(1 for _ in open(trace_file))
    if not expect_reject:
        c.cov["tlc_runs"].append({"config": "trace:%s %s" % (module, label), "events": nlines,
                                  "distinct_states": res.distinct, "wall_s": round(res.wall, 1), "accepted": res.ok})
    if res.ok:
        return True, None, None
    rule, line = None, None
    m = re.search(r'bad = "(\w+)"', res.error_trace or res.out)
    if res.violation == "Conforms" and m:
        # the last state of the counterexample carries the first violated rule and the line
        bads = re.findall(r'bad = "(\w+)"', res.out)
        rule = [b for b in bads if b != "none"][0] if [b for b in bads if b != "none"] else None
        ls = re.findall(r"\bl = (\d+)", res.out)
        line = int(ls[-1]) - 1 if ls else None
        return False, rule, line
    m = re.search(r'"REJECTED_AT", (\d+)', res.out)
    if m:
        return False, "NotABehaviour", int(m.group(1))
    if res.timeout:
        raise Inconclusive("trace validation timed out (%s)" % label)
    raise Inconclusive("trace validation failed to run (%s): %s" % (label, (res.error_trace or res.out)[-2000:]))


def trace_stage(c, prop, quick, seeds, modules=("OracleTrace", "WaterMarkTrace")):
    ot, wt, nruns, nev = record_traces(c, seeds, quick)
    files = {"OracleTrace": ot, "WaterMarkTrace": wt}
    for mod in modules:
        ok, rule, line = validate_trace(c, mod, files[mod], "%d runs" % nruns)
        if not ok:
            # keep the trace as the replay artefact
            dst_dir = os.path.join(vlib.EVID, "replays", prop)
            os.makedirs(dst_dir, exist_ok=True)
            dst = os.path.join(dst_dir, "%s_rejected.ndjson" % mod)
            shutil.copy(files[mod], dst)
            ctx = []
            if line:
                lines = open(files[mod]).read().splitlines()
                ctx = lines[max(0, line - 3):line + 1]
            c.violation("oracle:trace %s %s" % (mod, rule), {"line": line, "context": ctx, "trace": dst},
                        {"trace_file": dst, "module": mod, "rule": rule, "line": line})
    c.cov["traces_validated_against_impl"] += nruns * len(modules)
    c.cov["evaluations"] += nev
    return ot, wt, nruns


def selftest_binding(c, ot):
    """Negative self-test: drop the memtable puts of one committed transaction from a real
    trace; OracleTrace must reject it (DoneBeforeApply / NoReaderBeforeApply)."""
    lines = open(ot).read().splitlines()
    target = None
    for ln in lines:
        e = json.loads(ln)
        if e["ev"] == "orc.commit.ts" and e["writes"]:
            target = e["ts"]
            break
    if target is None:
        raise Inconclusive("self-test: no committed transaction in trace")
    d = vlib.scratch("self-")
    f = os.path.join(d, "t.ndjson")
    seen_reset = 0
    with open(f, "w") as out:
        for ln in lines:
            e = json.loads(ln)
            if e["ev"] == "reset":
                seen_reset += 1
            if seen_reset == 1 and e["ev"] == "mem.put" and e["ts"] == target and e["k"] != 0:
                continue
            out.write(ln + "\n")
    ok, rule, line = validate_trace(c, "OracleTrace", f, "selftest", expect_reject=True)
    if ok:
        raise Inconclusive("binding self-test failed: a trace with the puts of commit %d removed was accepted" % target)
    c.cov.setdefault("selftests", []).append({"corruption": "removed mem.put events of commit ts %d" % target,
                                              "rejected_by": rule, "line": line})


PROGS = {
    "ProgA": (3, [dict(upd=True, reads=[1], writes=[2]), dict(upd=True, reads=[2], writes=[1, 2]),
                  dict(upd=False, reads=[1, 2], writes=[])]),
    "ProgB": (4, [dict(upd=True, reads=[1], writes=[1]), dict(upd=True, reads=[2], writes=[1]),
                  dict(upd=True, reads=[1], writes=[2]), dict(upd=False, reads=[1], writes=[])]),
    "ProgC": (4, [dict(upd=True, reads=[], writes=[1]), dict(upd=True, reads=[], writes=[1]),
                  dict(upd=True, reads=[1], writes=[2]), dict(upd=True, reads=[2], writes=[2])]),
}


def gated_stage(c, prop, num, seed):
    """OracleGen schedules forced on the real commit pipeline with gates (harness/cmd/orcreplay)."""
    binp = vlib.go_build("cmd/orcreplay")
    allcases = []
    for name, (ntx, prog) in PROGS.items():
        d = vlib.stage_specs(["oracle"])
        with open(os.path.join(d, "OG.cfg"), "w") as f:
            f.write("SPECIFICATION GenSpec\nCONSTANTS\n  Txns = {%s}\n  Keys = {1, 2}\n  MaxTs = %d\n  Prog <- %s\n"
                    "  HistLen = 60\nINVARIANTS Emit GenSound\n" % (", ".join(str(i) for i in range(1, ntx + 1)), ntx, name))
        res = vlib.run_tlc(d, "OracleGen_MC", "OG.cfg", timeout=600, workers=2, simulate=max(1, num // 2), depth=64, seed=seed)
        if not res.ok:
            raise Inconclusive("OracleGen %s failed: %s" % (name, (res.error_trace or res.out)[-1500:]))
        seen = set()
        for h in res.cases:
            k = json.dumps([(s["act"], s["t"]) for s in h])
            if k in seen:
                continue
            seen.add(k)
            allcases.append({"prog": prog, "keys": 2, "steps": h, "name": name})
        c.cov["tlc_runs"].append({"config": "gen:OracleGen " + name, "schedules": len(seen), "wall_s": round(res.wall, 1)})
    d = vlib.scratch("orc-")
    inp = os.path.join(d, "cases.ndjson")
    open(inp, "w").write("".join(json.dumps(x) + "\n" for x in allcases))
    nproc = min(8, max(1, len(allcases) // 40))
    t0 = time.time()
    procs = [subprocess.Popen([binp, "-in", inp, "-shard", str(s), "-nshards", str(nproc)], stdout=subprocess.PIPE,
                              stderr=subprocess.PIPE, env=vlib.goenv(), text=True) for s in range(nproc)]
    results = []
    for p in procs:
        try:
            out, err = p.communicate(timeout=1500)
        except subprocess.TimeoutExpired:
            p.kill()
            raise Inconclusive("orcreplay timed out")
        if p.returncode != 0:
            raise Inconclusive("orcreplay failed: %s" % err[-2000:])
        results += [json.loads(l) for l in out.splitlines() if l.strip()]
    if len(results) != len(allcases):
        raise Inconclusive("orcreplay: %d results for %d cases" % (len(results), len(allcases)))
    bad = [r for r in results if not r["ok"]]
    windows = sum(1 for x in allcases if any(s["obs"]["blocked"] for s in x["steps"]))
    c.cov["engines"].append({"replay": "OracleGen schedules forced with gates", "schedules": len(allcases),
                             "schedules_with_a_blocked_reader_window": windows,
                             "schedules_with_lock_contention": sum(1 for x in allcases if any(s["act"] == "trystamp" for s in x["steps"])),
                             "deviations": len(bad), "wall_s": round(time.time() - t0, 1)})
    per = {}
    one = os.path.join(d, "one.ndjson")
    nharness = 0
    for r in bad:
        if r["sig"].startswith("harness."):
            nharness += 1
            continue
        per[r["sig"]] = per.get(r["sig"], 0) + 1
        if per[r["sig"]] > 2:
            continue
        open(one, "w").write(json.dumps(allcases[r["case"]]) + "\n")
        rc, out, err, _ = vlib.run([binp, "-in", one], timeout=120)
        if rc != 0 or not out.strip() or json.loads(out.splitlines()[0])["ok"]:
            log("oracle deviation did not reproduce:", r["sig"])
            continue
        c.violation("oracle:gated %s" % r["sig"], r.get("detail"),
                    {"prog": allcases[r["case"]]["name"], "schedule": [(s["act"], s["t"]) for s in allcases[r["case"]]["steps"]]})
    if nharness > max(3, len(allcases) // 20):
        raise Inconclusive("orcreplay: %d harness-level problems" % nharness)
    c.cov["evaluations"] += len(allcases)
    c.cov["traces_validated_against_impl"] += len(allcases)
    if allcases:
        c.sample({"gated_schedule": [(s["act"], s["t"]) for s in allcases[0]["steps"]]})
    return allcases


def stage(c, prop):
    """Hook for C01/C03: concurrent-pipeline stage (traces of free-running workloads)."""
    seeds = [c.seed] if c.quick else [c.seed, c.seed + 1, c.seed + 2]
    mc_oracle(c, c.quick)
    gated_stage(c, prop, 300 if c.quick else 6000, c.seed)
    trace_stage(c, prop, c.quick, seeds, modules=("OracleTrace",))
