"""sm1 family (small modules 1): WriteBatch (C27), TxnSize (C28), Sequence (C30), MergeOp (C31),
Publisher (C32), DirLock (C35).  Every property follows the same path:
  specs/sm1/<M>.tla        design module with the property as invariant  -> TLC model checking
  specs/sm1/<M>Gen.tla     the same module + history variable            -> cases with predictions
  harness/cmd/sm1<x>       Go replayer against the real code             -> comparison
"""
import json, os, subprocess, sys, time, random
sys.path.insert(0, os.path.join(os.path.dirname(os.path.abspath(__file__)), "..", "tools"))
import vlib
from vlib import Inconclusive, log

NW = int(os.environ.get("VERIF_WORKERS", str(min(vlib.NCPU, 8))))      # TLC workers
NP = int(os.environ.get("VERIF_PROCS", str(min(vlib.NCPU, 12))))       # replay processes


def tla(x):
    if isinstance(x, bool):
        return "TRUE" if x else "FALSE"
    if isinstance(x, str):
        return '"%s"' % x
    if isinstance(x, (set, frozenset, list, tuple)):
        return "{" + ", ".join(tla(y) for y in (sorted(x) if isinstance(x, (set, frozenset)) else x)) + "}"
    return str(x)


def write_cfg(path, spec, consts, invariants=(), properties=(), constraint=None, view=None):
    with open(path, "w") as f:
        f.write("SPECIFICATION %s\nCONSTANTS\n" % spec)
        for k, v in consts.items():
            f.write("  %s = %s\n" % (k, v))
        if invariants:
            f.write("INVARIANTS %s\n" % " ".join(invariants))
        if properties:
            f.write("PROPERTIES %s\n" % " ".join(properties))
        if constraint:
            f.write("CONSTRAINT %s\n" % constraint)
        if view:
            f.write("VIEW %s\n" % view)


def K(**kw):
    """constants dict with python values rendered as TLA+ (strings become TLA+ strings)."""
    return {k: tla(v) for k, v in kw.items()}


def mc(c, module, name, consts, invariants, properties=(), timeout=600, workers=None, spec="Spec",
       constraint=None, coverage=True, allow_zero=()):
    """Exhaustive TLC run on a design module; a failure is Inconclusive, never a verdict."""
    d = vlib.stage_specs(["sm1"])
    cfg = "mc_%s.cfg" % name.replace("/", "_")
    write_cfg(os.path.join(d, cfg), spec, consts, invariants, properties, constraint)
    res = vlib.run_tlc(d, module, cfg, timeout=timeout, workers=workers or NW, coverage=coverage)
    c.add_tlc("%s:%s" % (module, name), res)
    vlib.require_tlc_ok(res, "%s/%s" % (module, name))
    zero = [a for a in res.coverage_zero if a not in allow_zero]
    if zero:
        raise Inconclusive("vacuity: actions never taken in %s/%s: %s" % (module, name, zero))
    return res


def expect_counterexample(c, module, name, consts, invariant, timeout=300, workers=None, spec="Spec"):
    """Model-check the design module with the switch that models the code before a defect was
    repaired: TLC must find a counterexample (this shows the specification is able to express
    the defect; it is not a verdict).  Returns the TLCResult."""
    d = vlib.stage_specs(["sm1"])
    cfg = "cx_%s.cfg" % name
    write_cfg(os.path.join(d, cfg), spec, consts, [invariant])
    res = vlib.run_tlc(d, module, cfg, timeout=timeout, workers=workers or NW)
    c.cov["tlc_runs"].append({"config": "%s:%s (pre-fix switch, counterexample expected)" % (module, name),
                              "violated": res.violation, "states_generated": res.generated,
                              "distinct_states": res.distinct, "wall_s": round(res.wall, 1)})
    if res.timeout or (not res.violation and not res.ok):
        raise Inconclusive("TLC failed on %s/%s: %s" % (module, name, res.error_trace[:1500]))
    return res


def gen(c, module, name, consts, invariants=("Emit",), spec="GenSpec", simulate=None, depth=None, seed=1,
        timeout=600, workers=None, constraint=None, count_states=True):
    """Run a generator module; returns the list of cases (parsed JSON payloads)."""
    d = vlib.stage_specs(["sm1"])
    cfg = "gen_%s.cfg" % name.replace("/", "_")
    write_cfg(os.path.join(d, cfg), spec, consts, list(invariants), (), constraint)
    w = workers or NW
    if simulate:
        res = vlib.run_tlc(d, module, cfg, timeout=timeout, workers=w, simulate=max(1, simulate // w),
                           depth=depth, seed=seed)
    else:
        res = vlib.run_tlc(d, module, cfg, timeout=timeout, workers=w)
    if res.violation or not res.ok:
        raise Inconclusive("generator %s/%s failed: %s %s" % (module, name, res.violation, (res.error_trace or res.out[-1500:])[:2000]))
    c.cov["tlc_runs"].append({"config": "gen:%s:%s" % (module, name), "mode": "simulate" if simulate else "exhaustive",
                              "cases": len(res.cases), "states_generated": res.generated,
                              "distinct_states": res.distinct, "wall_s": round(res.wall, 1)})
    if not simulate and count_states:
        c.cov["states"] += res.distinct
        c.cov["transitions"] += res.generated
    if not res.cases:
        raise Inconclusive("generator %s/%s produced no cases" % (module, name))
    return res.cases


def _run_shards(binp, inp, d, args, env, shards, nshards, timeout, label):
    """start one process per shard index in `shards`; returns {shard: (rc, results, stderr)}"""
    procs = {}
    for s in shards:
        out = open(os.path.join(d, "res%d.ndjson" % s), "w")
        err = open(os.path.join(d, "err%d.txt" % s), "w")
        p = subprocess.Popen([binp, "-in", inp, "-shard", str(s), "-nshards", str(nshards)] + list(args),
                             stdout=out, stderr=err, env=env, cwd=d)
        procs[s] = (p, out, err)
    t0 = time.time()
    res = {}
    for s, (p, out, err) in procs.items():
        try:
            p.wait(timeout=max(1, timeout - (time.time() - t0)))
        except subprocess.TimeoutExpired:
            for q, _, _ in procs.values():
                q.kill()
            raise Inconclusive("replayer timed out after %ds (%s)" % (timeout, label))
        out.close()
        err.close()
        rs = []
        for line in open(os.path.join(d, "res%d.ndjson" % s)):
            try:
                rs.append(json.loads(line))
            except ValueError:
                pass            # torn last line of a crashed process
        res[s] = (p.returncode, rs, open(os.path.join(d, "err%d.txt" % s)).read()[-3000:])
    return res


def run_replayer(binp, cases, args, label, nproc=None, timeout=900, env_extra=None, crash_class=None):
    """Run a case replayer over the cases in nproc shards; returns results aligned with cases.
    A replayer that stops through vh.Fatalf ("harness: ..." on stderr, status 2) = harness
    trouble (Inconclusive).  Any other abnormal end
    (a panic or fatal error inside the code under test takes the process down) is attributed to
    the first case of the shard that has no result line: that case gets the result
    {"ok": False, "sig": "crash", "crashed": True, "stderr": ...} and the rest of the shard is
    run again without it.  crash_class(case) may name the input class of a case (None = no
    class): once three cases of a class have taken the process down, the remaining cases of
    that class are not run any more (result {"ok": True, "skipped": True})."""
    if not cases:
        raise Inconclusive("no cases for " + label)
    d = vlib.scratch("sm1cases-")
    inp = os.path.join(d, "cases.ndjson")
    with open(inp, "w") as f:
        for h in cases:
            f.write(json.dumps(h) + "\n")
    nproc = max(1, min(nproc or NP, len(cases)))
    env = vlib.goenv()
    env["TMPDIR"] = d
    if env_extra:
        env.update(env_extra)
    t0 = time.time()
    results = [None] * len(cases)
    out = _run_shards(binp, inp, d, args, env, range(nproc), nproc, timeout, label)
    crashes = 0
    crashed_classes = {}
    for s, (rc, rs, err) in out.items():
        for r in rs:
            results[r["case"]] = r
        while rc != 0:
            if rc == 2 and "harness:" in err and "panic:" not in err and "fatal error:" not in err:
                # vh.Fatalf (the Go runtime also exits with 2 after a panic, hence the message test)
                raise Inconclusive("replayer failed rc=2 (%s): %s" % (label, err[-2000:]))
            mine = [i for i in range(len(cases)) if i % nproc == s]
            todo = [i for i in mine if results[i] is None]
            if not todo:
                break
            crashes += 1
            if crashes > 20:
                raise Inconclusive("replayer crashed more than 20 times (%s): %s" % (label, err[-1500:]))
            results[todo[0]] = {"case": todo[0], "ok": False, "sig": "crash", "crashed": True, "stderr": err[-2500:]}
            rest = todo[1:]
            if crash_class:
                k = crash_class(cases[todo[0]])
                if k is not None:
                    crashed_classes[k] = crashed_classes.get(k, 0) + 1
                keep = []
                for i in rest:
                    if crashed_classes.get(crash_class(cases[i]), 0) >= 3:
                        results[i] = {"case": i, "ok": True, "skipped": True}
                    else:
                        keep.append(i)
                rest = keep
            if not rest:
                break
            sub = os.path.join(d, "rest%d.ndjson" % s)
            with open(sub, "w") as f:
                for i in rest:
                    f.write(json.dumps(cases[i]) + "\n")
            o2 = _run_shards(binp, sub, d, args, env, [0], 1, max(60, timeout - (time.time() - t0)), label)
            rc, rs, err = o2[0]
            for r in rs:
                r["case"] = rest[r["case"]]
                results[r["case"]] = r
    if any(r is None for r in results):
        raise Inconclusive("replayer returned %d results for %d cases (%s)" % (
            sum(1 for r in results if r is not None), len(cases), label))
    return results, time.time() - t0


def replay(c, pkg, cases, args, label, nproc=None, timeout=900, env_extra=None, max_per_sig=3, crash_sig=None,
           crash_class=None):
    """Build the replayer, run the cases, confirm every mismatch by a second run from a clean
    state, and report confirmed mismatches as violations (known findings are matched by vlib).
    Signatures starting with "harness:" mean the replayer could not realise the case."""
    binp = vlib.go_build(pkg)
    results, wall = run_replayer(binp, cases, args, label, nproc, timeout, env_extra, crash_class)
    nskip = sum(1 for r in results if r.get("skipped"))
    if nskip:
        c.cov["cases_skipped_after_confirmed_crash_of_their_class"] = c.cov.get("cases_skipped_after_confirmed_crash_of_their_class", 0) + nskip
    for r in results:
        if r.get("crashed"):
            # name the crash after the input class (callback) and the panic message
            msg = ""
            for ln in r.get("stderr", "").splitlines():
                if ln.startswith(("panic:", "fatal error:")):
                    msg = ln.strip()[:120]
                    break
            r["sig"] = (crash_sig(cases[r["case"]], r.get("stderr", "")) if crash_sig else "sm1:crash") + " [" + msg + "]"
            r["detail"] = r.get("stderr", "")[-1500:]
    bad = [r for r in results if not r["ok"]]
    info = {}
    for r in results:
        for k, v in (r.get("info") or {}).items():
            info[k] = info.get(k, 0) + v
    c.cov["engines"].append({"replay": label, "binary": pkg, "args": " ".join(args), "cases": len(results),
                             "mismatches": len(bad), "measured": info, "wall_s": round(wall, 1)})
    hb = [r for r in bad if r.get("sig", "").startswith("harness:")]
    per_sig = {}
    for r in bad:
        if r in hb:
            continue
        per_sig[r["sig"]] = per_sig.get(r["sig"], 0) + 1
        if per_sig[r["sig"]] > max_per_sig:
            continue
        case = cases[r["case"]]
        again, _ = run_replayer(binp, [case], args, label + " (confirm)", 1, 300, env_extra)
        if again[0].get("crashed") and r.get("crashed"):
            again[0]["sig"] = r["sig"]
        if again[0].get("ok") or again[0].get("sig") != r["sig"]:
            log("mismatch did not reproduce on re-run, ignoring:", r.get("sig"), r.get("detail"))
            c.cov["unreproduced"] = c.cov.get("unreproduced", 0) + 1
            continue
        c.violation(r["sig"], {"label": label, "detail": r.get("detail")},
                    {"replayer": pkg, "args": list(args), "case": case})
    c.cov.setdefault("mismatch_signatures", {})
    for s, n in per_sig.items():
        c.cov["mismatch_signatures"][s] = c.cov["mismatch_signatures"].get(s, 0) + n
    if hb:
        raise Inconclusive("replayer could not realise %d cases (%s): %s %s" % (
            len(hb), label, hb[0]["sig"], str(hb[0].get("detail"))[:500]))
    return results, info
