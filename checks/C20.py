#!/usr/bin/env python3
"""C20 — internal key, header and value encodings round-trip and order correctly.
spec : specs/ds/KeyOrder.tla (byte-level KeyWithTs / ParseKey / ParseTs / CompareKeys / SameKey
       against the abstract order: user key ascending, version descending; theorems RoundTrip,
       OrderIso, SameKeyIff, TotalOrder), specs/ds/Varint.tla + RecordCodec.tla (header,
       ValueStruct, valuePointer layouts; round-trip theorems)
MC   : TLC checks the theorems for every pair of the boundary domain (byte symbols
       {00,01,7f,80,ff}, key lengths 1..3, long keys, 7 boundary versions) and for the full product
       of the header / value-struct / value-pointer field classes
bind : (R) TLC emits the domain sorted by the order the specification demands; the harness
       concretises every item (long keys = 64998-byte run) and compares y.CompareKeys and
       y.SameKey on EVERY pair with the positions, and the round trips of every item; every
       header / value struct / value pointer case is encoded by the real code and compared byte
       for byte with the predicted encoding, then decoded back (Decode and DecodeFrom).
level: exploration (boundary domain, exhaustive within it)."""
import os, sys
sys.path.insert(0, os.path.dirname(os.path.abspath(__file__)))
import lib_ds as D
import vlib


def body(c):
    if D.handle_replay(c):
        return
    q = c.quick
    dom = {"Syms": {0, 1, 127, 128, 255}, "MaxLen": 2 if q else 3, "LongLen": 1 if q else 2, "ModelRun": 4}
    D.model_check(c, "KeyOrder-len%d" % dom["MaxLen"], "KeyOrder_MC", D.cfg_text("Spec", dom, ["PairTheorems"]), timeout=1100)
    order = D.generate(c, "keyorder-domain", "KeyOrderGen", D.cfg_text("GenSpec", dom, ["Emit"]), nworkers=1, timeout=600, count_states=False)
    _, st, ev = D.replay(c, "keyorder", order[:1], "keyorder", c.seed, nproc=1, timeout=900)
    hdr = D.generate(c, "codec-classes", "RecordCodecGen", D.cfg_text("Spec", {"Mode": "header", "Full": True}, ["Theorems", "Emit"]), timeout=600)
    _, st2, ev2 = D.replay(c, "header", hdr, "codec-classes", c.seed, timeout=600)
    items = order[0]["order"]
    keys = set("K" + D.json.dumps(it) for it in items)
    keys |= set("H" + D.json.dumps(x) for x in hdr if x["kind"] != "header" or len(x["bytes"]) > 5)
    c.add_cases(ev + ev2, keys)
    c.cov["domain"] = {"items": len(items), "long_items": st.get("long_items", 0), "pairs_compared": len(items) ** 2,
                       "header_cases": sum(1 for x in hdr if x["kind"] == "header"),
                       "valuestruct_cases": sum(1 for x in hdr if x["kind"] == "vstruct"),
                       "valuepointer_cases": sum(1 for x in hdr if x["kind"] == "vptr")}
    c.cov["rule"] = ("key items = user keys over the byte symbols {00,01,7f,80,ff} of length 1..%d plus long keys (first symbol repeated 64998 "
                     "times + up to %d more symbols) x 7 versions {0,1,2,2^32,2^63,2^64-2,2^64-1}; TLC emits them in specification order and "
                     "every ordered pair is compared (CompareKeys, SameKey). codec cases = full product of the field boundary classes "
                     "(13 uint32 values at every varint length boundary, 8 expiry values up to 2^64-1, 5 meta and 2 user-meta bytes). "
                     "evaluations = comparisons; non-trivial = every key item, every codec case with a multi-byte varint / non-default field; "
                     "distinct = distinct items / field tuples." % (dom["MaxLen"], dom["LongLen"] - 1))
    c.cov["exhaustive"] = True
    c.sample({"first_items_in_spec_order": items[:6], "last_items": items[-3:]})
    c.sample([x for x in hdr if x["kind"] == "header" and len(x["bytes"]) > 15][0])
    c.assumptions += [
        "the claim is exhaustive only within the boundary domain; arbitrary byte strings are not enumerated",
        "long keys are modelled with a run of 4 symbols standing for 64998: comparisons between keys of the domain are decided within "
        "the first 3 positions, by a plain key being a proper prefix, or after runs of equal length, so the order does not depend on the run "
        "length (>= 4)",
        "valuePointer.Encode uses the host byte order (unsafe cast); the predicted layout is little-endian (amd64/arm64)",
    ]


vlib.main("C20", "exploration", body)
