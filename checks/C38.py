#!/usr/bin/env python3
"""C38 — public calls and Close always return (no deadlock).
spec : specs/flow/Flow.tla — data-free skeleton of the write path with back-pressure (write channel,
       writer, memtable rotation into the bounded flush queue, flusher stalling on a full level 0,
       compactor pool) and shutdown (the phases of DB.close in order; prepareToDrop/unblockWrite)
MC   : TLC with weak fairness on every goroutine: CommitsReturn, CloseCompletes, DropCompletes (liveness)
       and NoPanic, for the intended atomicity (AtomicSend, SerialCloseDrop = TRUE); the as-is constants
       (FALSE) give counterexamples which are replayed against the real code
bind : (R) the counterexample schedules are forced on the real DB with verif gates; (R) FlowGen scenarios
       (order in which commits, a drop and Close are issued) run on a real DB configured for back-pressure
       (1 memtable in the flush queue, 16 KiB memtables, level-0 stall at 2-3 tables, compactors parked at
       their tick for a while), with background callers (WriteBatch, RunValueLogGC, Subscribe+cancel, reads,
       iteration, Flatten - in the combinations the API documents as allowed); every call must return."""
import json, os, subprocess, sys, time, random
sys.path.insert(0, os.path.dirname(os.path.abspath(__file__)))
sys.path.insert(0, os.path.join(os.path.dirname(os.path.abspath(__file__)), "..", "tools"))
import vlib
from vlib import Inconclusive, log


def run_flow(binp, args, timeout=400):
    rc, out, err, _ = vlib.run([binp] + args, timeout=timeout)
    return rc, out, err


def body(c):
    q = c.quick
    d = vlib.stage_specs(["flow"])
    for cfg in ("Flow_drop.cfg", "Flow_dropread.cfg", "Flow_close.cfg", "Flow_both.cfg"):
        res = vlib.run_tlc(d, "Flow", cfg, timeout=900, workers=4)
        c.add_tlc(cfg, res)
        vlib.require_tlc_ok(res, cfg)
    res = vlib.run_tlc(d, "SubFlow", "SubFlow_TRUE.cfg", timeout=300, workers=2)
    c.add_tlc("SubFlow (subscription end: drain, then deregister)", res)
    vlib.require_tlc_ok(res, "SubFlow_TRUE")
    binp = vlib.go_build("cmd/flowrun")
    # the lagging-subscriber schedule SubFlow is about: queue full, publisher blocked in the send, subscription ends
    rc, out, err = run_flow(binp, ["-sublag", "-hang", "40"])
    if rc != 0 or not out.strip():
        raise Inconclusive("flowrun -sublag failed: %s" % err[-1500:])
    r = json.loads(out.strip().splitlines()[-1])
    c.cov["engines"].append({"replay": "lagging subscriber (1000-batch queue full) then callback error", "result": r.get("sig") or r.get("detail")})
    if not r["ok"]:
        rc2, out2, _ = run_flow(binp, ["-sublag", "-hang", "40"])
        r2 = json.loads(out2.strip().splitlines()[-1]) if rc2 == 0 and out2.strip() else {"ok": True}
        if not r2["ok"]:
            c.violation(r["sig"], r.get("detail"), {"mode": "-sublag"})
    # sustained back-pressure: level 0 stalled, flush queue full, four committers, repeated DropAll/DropPrefix, Close
    tot_stalls = 0
    for sd in range(2 if q else 10):
        rc, out, err = run_flow(binp, ["-stalldrop", "-seed", str(c.seed * 100 + sd), "-hang", "45"], timeout=600)
        if rc != 0 or not out.strip():
            raise Inconclusive("flowrun -stalldrop failed: %s" % err[-1500:])
        r = json.loads(out.strip().splitlines()[-1])
        tot_stalls += r.get("stalls", 0)
        if not r["ok"]:
            rc2, out2, _ = run_flow(binp, ["-stalldrop", "-seed", str(c.seed * 100 + sd), "-hang", "45"], timeout=600)
            r2 = json.loads(out2.strip().splitlines()[-1]) if rc2 == 0 and out2.strip() else {"ok": True}
            if not r2["ok"] and r2.get("sig", "").split(" (")[0] == r["sig"].split(" (")[0]:
                c.violation(r["sig"], r.get("detail"), {"mode": "-stalldrop", "seed": c.seed * 100 + sd})
                break
    c.cov["engines"].append({"replay": "sustained back-pressure with repeated drops and Close", "runs": 2 if q else 10,
                             "l0_stall_events": tot_stalls})
    # the as-is constants: TLC's counterexamples, reproduced against the real code
    for cfg, mode in (("Flow_close_asis.cfg", "-straggler"), ("Flow_close_asis.cfg", "-stragglerhang"),
                      ("Flow_both_asis.cfg", "-closeduringdrop"), ("Flow_dropread_asis.cfg", "-dropstraggler")):
        res = vlib.run_tlc(d, "Flow", cfg, timeout=600, workers=4)
        c.add_tlc(cfg + " (code as it is)", res)
        if res.violation in ("NoPanic", "temporal"):
            rc, out, err = run_flow(binp, [mode, "-hang", "20"])
            if rc != 0 or not out.strip():
                raise Inconclusive("flowrun %s failed: %s" % (mode, err[-1500:]))
            r = json.loads(out.strip().splitlines()[-1])
            c.cov["engines"].append({"replay": "TLC counterexample of %s forced with gates" % cfg, "result": r.get("sig") or "no deviation"})
            if not r["ok"]:
                # confirm once more
                rc2, out2, _ = run_flow(binp, [mode, "-hang", "20"])
                r2 = json.loads(out2.strip().splitlines()[-1]) if rc2 == 0 and out2.strip() else {"ok": True}
                if not r2["ok"]:
                    c.violation(r["sig"], r.get("detail"), {"mode": mode, "tlc_config": cfg})
        elif not res.ok:
            raise Inconclusive("TLC failed on %s: %s" % (cfg, res.error_trace[:1500]))
    # scenarios
    with open(os.path.join(d, "G.cfg"), "w") as f:
        f.write("SPECIFICATION GenSpec\nCONSTANTS\n  Committers = {1, 2, 3}\n  NWrites = 4\n  ChanCap = 2\n  FlushCap = 1\n"
                "  MemCap = 1\n  L0Stall = 2\n  L0Trigger = 1\n  NCompactors = 2\n  WithClose = TRUE\n  WithDrop = TRUE\n"
                "  AtomicSend = TRUE\n  DropReads = FALSE\n  SerialCloseDrop = TRUE\n  HistLen = 20\nINVARIANTS Emit\n")
    res = vlib.run_tlc(d, "FlowGen", "G.cfg", timeout=600, workers=2, simulate=(200 if q else 3000), depth=120, seed=c.seed)
    if not res.ok:
        raise Inconclusive("FlowGen failed: %s" % res.error_trace[:1500])
    seen, cases = set(), []
    for h in res.cases:
        k = json.dumps(h)
        if k not in seen and any(s["op"] == "close" for s in h):
            seen.add(k)
            cases.append(h)
    rnd = random.Random(c.seed)
    rnd.shuffle(cases)
    cases = cases[:(60 if q else 1500)]
    sd = vlib.scratch("flow-")
    inp = os.path.join(sd, "cases.ndjson")
    open(inp, "w").write("".join(json.dumps(h) + "\n" for h in cases))
    nproc = 6 if q else 8
    env = vlib.goenv()
    env["TMPDIR"] = sd
    procs = []
    t0 = time.time()
    for s in range(nproc):
        procs.append(subprocess.Popen([binp, "-in", inp, "-seed", str(c.seed), "-shard", str(s), "-nshards", str(nproc), "-hang", "25"],
                                      stdout=subprocess.PIPE, stderr=subprocess.PIPE, env=env, text=True))
    results, redo = [], []
    for s, p in enumerate(procs):
        try:
            out, err = p.communicate(timeout=1500)
        except subprocess.TimeoutExpired:
            p.kill()
            raise Inconclusive("flowrun shard timed out")
        rs = [json.loads(l) for l in out.splitlines() if l.strip()]
        results += rs
        if p.returncode != 0:
            # the process died inside the real code: the scenario after the last reported one
            mine = [i for i in range(len(cases)) if i % nproc == s]
            done = set(r["case"] for r in rs)
            pend = [i for i in mine if i not in done]
            if pend:
                redo.append((pend[0], err[-3000:]))
            redo += [(i, None) for i in pend[1:]]
    stalls = sum(r.get("stalls", 0) for r in results)
    bad = [r for r in results if not r["ok"]]
    c.cov["engines"].append({"replay": "FlowGen scenarios", "scenarios": len(cases), "completed": len(results),
                             "l0_stall_events": stalls, "scenarios_with_stall": sum(1 for r in results if r.get("stalls")),
                             "deviations_first_pass": len(bad), "shard_crashes": sum(1 for x in redo if x[1]),
                             "wall_s": round(time.time() - t0, 1)})
    # re-run every deviation / unfinished scenario alone (no other load): only what reproduces counts
    one = os.path.join(sd, "one.ndjson")
    for idx, crash in [(r["case"], None) for r in bad] + redo:
        pad = [[{"op": "commit", "c": 1, "blocked": False, "during": "no"}]] * idx + [cases[idx]]
        open(one, "w").write("".join(json.dumps(h) + "\n" for h in pad))
        # same scenario index => same seed-derived schedule; shard selects only that line
        rc, out, err = run_flow(binp, ["-in", one, "-seed", str(c.seed), "-shard", str(idx % (idx + 1)), "-nshards", str(idx + 1), "-hang", "45"], timeout=300)
        rs = [json.loads(l) for l in out.splitlines() if l.strip()]
        rs = [r for r in rs if r["case"] == idx]
        if rc != 0 and not rs:
            frames = [l.strip() for l in err.splitlines() if "dgraph-io/badger" in l and "(" in l][:1]
            c.violation("flow:crash %s" % (frames[0].split("(")[0] if frames else "unknown"), err[-2500:],
                        {"scenario": cases[idx], "seed": c.seed, "index": idx})
        elif rs and not rs[0]["ok"]:
            if rs[0]["sig"].startswith("harness."):
                c.cov.setdefault("unreproduced", 0)
                c.cov["unreproduced"] += 1
                log("scenario %d: %s again on re-run; not a verdict" % (idx, rs[0]["sig"]))
            else:
                c.violation(rs[0]["sig"], rs[0].get("detail"), {"scenario": cases[idx], "seed": c.seed, "index": idx})
        else:
            c.cov.setdefault("unreproduced", 0)
            c.cov["unreproduced"] += 1
    keys = set(json.dumps(cases[r["case"]]) for r in results if r.get("stalls"))
    c.add_cases(len(results), keys | set(json.dumps(h) for h in cases[:2]), traces=len(results))
    c.cov["rule"] = ("scenario = order in which FlowGen issues commits (3 clients), a drop and Close; non-trivial (counted) = "
                     "the real run hit at least one level-0 stall; each scenario also runs WriteBatch, GC, Subscribe and, "
                     "where the API allows it, reads, iteration and Flatten")
    c.cov["exhaustive"] = False
    if cases:
        c.sample([(s["op"], s["c"]) for s in cases[0]])
    c.assumptions += ["reads are not combined with DropAll/DropPrefix and Flatten is not combined with a drop (API documentation); "
                      "Close is issued after a drop has returned except in the dedicated counterexample replay",
                      "a call counts as not returning after 60 s without progress and two identical goroutine dumps 5 s apart; "
                      "deviations are re-run alone and only reproduced ones are reported"]


vlib.main("C38", "model_checking", body)
