#!/usr/bin/env python3
"""C14 — the LSM tree and MANIFEST stay structurally consistent.
spec : specs/lsm/LSM.tla invariant Structure (levels >= 1 disjoint, all versions of a key in one table
       per level, no empty table, unique ids)
MC   : exhaustive TLC over every picker choice (shared with C12)
bind : state injection on disk: after every production compaction the harness checks that levels >= 1
       are ordered and disjoint, that levelsController.validate() passes, that the MANIFEST's table->level
       map equals the live tables and that every table file exists; then the DB is closed and re-opened
       (Open's revertToManifest + validate must succeed) and the layout must be unchanged.
conc : specs/lsm/Compactors.tla (capture / fill / finish of several compactors, compactStatus, level targets):
       InputsDisjoint, OutputSafe, Disjoint, StatusExact model-checked; recorded concurrent production compactions
       (csreplay, gate compact.beforeManifest) validated step by step by TLC (CompactorsTrace.tla).
       The crash side of C14 (MANIFEST vs directory after recovery) is asserted inside C08/C10/C29 runs."""
import os, sys, random
sys.path.insert(0, os.path.dirname(os.path.abspath(__file__)))
import lib_lsm as L
import vlib


def body(c):
    q = c.quick
    rnd = random.Random(c.seed)
    consts = dict(L.BASE, Keys="{1, 2, 3}")
    if q:
        consts.update(MaxTs="3", MaxId="6")
    L.model_check(c, "structure", consts, ("Structure", "NoInvention"), timeout=1800)
    g = dict(L.BASE, Keys="{1, 2, 3}", MaxTs="5", MaxId="9", Wide="0", L0Hold="0", MtMax="9", MaxLevel="2")
    cases = L.generate(c, "walk", g, c.seed, simulate=(1500 if q else 30000), depth=36, workers=4)
    cases = [x for x in L.dedupe(cases) if x["fam"] != "L0ToL0"]
    g2 = dict(L.BASE, Keys="{1, 2}", MaxTs="9", MaxId="16", MinL0L0="4", Wide="0", L0Hold="99", MtMax="1")
    c2 = [x for x in L.dedupe(L.generate(c, "L0L0", g2, c.seed + 1, simulate=(800 if q else 8000), depth=60, workers=4))
          if x["fam"] == "L0ToL0"]
    # many bottom tables: compactions that are split into sub-compactions (addSplits picks a bound
    # every 3 bottom tables), top tables holding newer versions of keys at the split points
    if q:
        g3 = dict(L.BASE, Keys="{1, 2, 3, 4, 5}", MaxTs="8", MaxId="11", Wide="5", L0Hold="0", MtMax="3", MaxLevel="2")
        w3 = L.generate(c, "wide (split sub-compactions)", g3, c.seed + 2, simulate=150, depth=10, workers=8, timeout=900)
    else:
        g3 = dict(L.BASE, Keys="{1, 2, 3, 4, 5, 6, 7}", MaxTs="10", MaxId="13", Wide="7", L0Hold="0", MtMax="3", MaxLevel="2")
        w3 = L.generate(c, "wide (split sub-compactions)", g3, c.seed + 2, simulate=150, depth=14, workers=8, timeout=3000)
    c3 = [x for x in L.dedupe(w3) if x["fam"] != "L0ToL0" and sum(len(l) for l in x["pre"]["lv"]) >= (4 if q else 5)]
    rnd.shuffle(c3)
    c.cov["cases_with_many_bottom_tables"] = len(c3)
    rnd.shuffle(cases)
    rnd.shuffle(c2)
    n = 160 if q else 5000
    sel = cases[:n] + c2[:n // 4] + c3[:n // 2]
    L.replay(c, "C14", sel, "state injection on disk (MANIFEST, files, validate, reopen)", inmem=False)
    # concurrently running compactions: compactStatus keeps inputs and outputs apart
    L.compactors_mc(c, q, sensitivity=False)
    L.compactors_traces(c, "C14", 24 if q else 600, scenario=False)
    multi = set(L.shape_key(x) for x in sel if sum(len(l) for l in x["pre"]["lv"]) >= 1)
    c.add_cases(len(sel), multi, traces=len(sel))
    c.cov["rule"] = ("a case = one compaction transition of LSM.tla replayed on disk; non-trivial = the pre-layout has at "
                     "least one table below level 0 (so range disjointness and ordering are exercised)")
    c.cov["exhaustive"] = False
    for x in sel[:2]:
        c.sample(L.describe(x))
    c.assumptions += ["crash-time consistency of MANIFEST and directory is checked by the disk family (C08/C10/C29)"]


vlib.main("C14", "model_checking", body)
