"""LSM family: specs/lsm (LSM.tla, LSMGen.tla) <-> levels.go, level_handler.go, db.go.
 * TLC model checking of ReadStable / Retention / Structure over every picker choice
 * state injection: each compaction transition TLC takes becomes one implementation test
   (harness/cmd/lsmreplay builds the layout with the production builder, runs one production
   compaction and compares layout, reads, level validation and MANIFEST)."""
import json, os, subprocess, sys, time, random, hashlib
sys.path.insert(0, os.path.join(os.path.dirname(os.path.abspath(__file__)), "..", "tools"))
import vlib
from vlib import Inconclusive, log


def cfg_text(spec, consts, invariants=(), extra=""):
    s = "SPECIFICATION %s\nCONSTANTS\n" % spec
    for k, v in consts.items():
        s += "  %s = %s\n" % (k, v)
    if invariants:
        s += "INVARIANTS %s\n" % " ".join(invariants)
    return s + extra


BASE = dict(Keys="{1, 2}", MaxTs="4", MaxLevel="2", MinL0L0="2", NVK="1", Kinds='{"val", "del"}',
            L0L0KeepsTombstones="TRUE", BaseSkip='"none"', MaxId="7")


def model_check(c, name, consts, invariants=("ReadStable", "Retention", "Structure", "NoInvention", "AgeOrdered"), timeout=1500,
                workers=None):
    d = vlib.stage_specs(["lsm"])
    open(os.path.join(d, "MC.cfg"), "w").write(cfg_text("Spec", consts, invariants))
    res = vlib.run_tlc(d, "LSM_MC", "MC.cfg", timeout=timeout, workers=workers)
    c.add_tlc("LSM " + name, res)
    vlib.require_tlc_ok(res, "LSM " + name)
    return res


def generate(c, name, consts, seed, simulate=None, depth=None, timeout=900, workers=4):
    """Run LSMGen; returns grouped cases: one per (pre-state, family) with the allowed posts."""
    d = vlib.stage_specs(["lsm"])
    open(os.path.join(d, "G.cfg"), "w").write(
        cfg_text("GenSpec", consts, (), "ACTION_CONSTRAINT PrintCase\nVIEW View\n"))
    res = vlib.run_tlc(d, "LSMGen", "G.cfg", timeout=timeout, workers=workers, simulate=simulate, depth=depth,
                       seed=seed if simulate else None)
    if not res.ok:
        raise Inconclusive("LSMGen %s failed: %s" % (name, (res.error_trace or res.out)[-2000:]))
    if not simulate:
        c.cov["states"] += res.distinct
        c.cov["transitions"] += res.generated
    maxlevel = int(consts["MaxLevel"])
    groups = {}
    for t in res.cases:
        pre = t["pre"]
        fam = t["fam"]
        if fam == "L0ToBase":
            # the production base level for model-sized data is the first non-empty level, or the
            # last level when all are empty (levelTargets); the specification allows more
            first = next((i + 1 for i in range(maxlevel - 1) if pre["lv"][i]), maxlevel)
            if t["arg"] != first:
                continue
        if fam == "LevelDown":
            first = next((i + 1 for i in range(maxlevel - 1) if pre["lv"][i]), None)
            if first is None or t["arg"] != first:
                continue
        key = fam + "|" + json.dumps(pre, sort_keys=True)
        g = groups.setdefault(key, {"fam": fam, "pre": pre, "posts": [], "nvk": int(consts["NVK"])})
        p = {"post": t["post"], "reads": t["reads"]}
        if p not in g["posts"]:
            g["posts"].append(p)
    c.cov["tlc_runs"].append({"config": "gen:" + name, "mode": "simulate" if simulate else "exhaustive",
                              "transitions_printed": len(res.cases), "grouped_cases": len(groups),
                              "distinct_states": res.distinct, "wall_s": round(res.wall, 1)})
    return list(groups.values())


def shape_key(case):
    """Distinctness up to table ids: family + normalised pre layout."""
    pre = case["pre"]

    def ents(es):
        return sorted((e["k"], e["ts"], e["kind"]) for e in es)
    return json.dumps([case["fam"], ents(pre["mt"]),
                       [(ents(t["ents"]), t["big"], t["aged"]) for t in pre["L0"]],
                       [sorted((ents(t["ents"])) for t in lvl) for lvl in pre["lv"]], pre["discardTs"], case["nvk"]])


def dedupe(cases):
    seen, out = set(), []
    for cs in cases:
        k = shape_key(cs)
        if k in seen:
            continue
        seen.add(k)
        out.append(cs)
    return out


def replay(c, prop, cases, label, inmem=False, timeout=1500):
    if not cases:
        raise Inconclusive("no LSM cases for " + label)
    binp = vlib.go_build("cmd/lsmreplay")
    d = vlib.scratch("lsm-")
    inp = os.path.join(d, "cases.ndjson")
    with open(inp, "w") as f:
        for i, cs in enumerate(cases):
            # every third case runs with BaseTableSize = 1 (each key of the output starts a new table):
            # the table-boundary logic of addKeys is then exercised at every key
            cs = dict(cs, tiny=(i % 3 == 2))
            cases[i] = cs
            f.write(json.dumps(cs) + "\n")
    nproc = min(vlib.NCPU, max(1, len(cases) // 10))
    env = vlib.goenv()
    env["TMPDIR"] = d
    procs = []
    t0 = time.time()
    for s in range(nproc):
        out = open(os.path.join(d, "res%d" % s), "w")
        cmd = [binp, "-in", inp, "-shard", str(s), "-nshards", str(nproc)] + (["-inmem"] if inmem else [])
        procs.append((subprocess.Popen(cmd, stdout=out, stderr=subprocess.PIPE, env=env), out))
    results = []
    for s, (p, out) in enumerate(procs):
        try:
            _, err = p.communicate(timeout=max(1, timeout - (time.time() - t0)))
        except subprocess.TimeoutExpired:
            for q, _ in procs:
                q.kill()
            raise Inconclusive("lsmreplay timed out (%s)" % label)
        out.close()
        if p.returncode != 0:
            raise Inconclusive("lsmreplay rc=%s (%s): %s" % (p.returncode, label, err.decode("utf-8", "replace")[-2000:]))
        results += [json.loads(l) for l in open(os.path.join(d, "res%d" % s))]
    if len(results) != len(cases):
        raise Inconclusive("lsmreplay: %d results for %d cases" % (len(results), len(cases)))
    bad = [r for r in results if not r["ok"]]
    fams = {}
    for r in results:
        fams[r["fam"]] = fams.get(r["fam"], 0) + 1
    c.cov["engines"].append({"replay": label, "inmem": inmem, "cases": len(results), "by_family": fams,
                             "mismatches": len(bad), "wall_s": round(time.time() - t0, 1)})
    seen = {}
    for r in bad:
        sig = "lsm:%s %s" % (r["fam"], r["sig"])
        seen[sig] = seen.get(sig, 0) + 1
        if seen[sig] > 2:
            continue
        case = cases[r["case"]]
        one = os.path.join(d, "one.ndjson")
        open(one, "w").write(json.dumps(case) + "\n")
        rc, out, err, _ = vlib.run([binp, "-in", one] + (["-inmem"] if inmem else []), timeout=120, env=env)
        if rc != 0 or not out.strip() or json.loads(out.splitlines()[0])["ok"]:
            log("LSM mismatch did not reproduce:", r)
            continue
        c.violation(sig, r.get("detail"), {"case": case, "tool": "lsmreplay", "inmem": inmem})
    return results


def model_must_fail(c, name, consts, invariant, timeout=900):
    """Sensitivity of the specification: with the switch set to the unrepaired behaviour TLC has to
    find the violation (otherwise the model no longer represents the hazard and the check is void)."""
    d = vlib.stage_specs(["lsm"])
    open(os.path.join(d, "MC.cfg"), "w").write(cfg_text("Spec", consts, (invariant,)))
    res = vlib.run_tlc(d, "LSM_MC", "MC.cfg", timeout=timeout, workers=None)
    c.cov["tlc_runs"].append({"config": "LSM " + name, "mode": "exhaustive (expected counterexample)",
                              "violated": res.violation, "distinct_states": res.distinct, "wall_s": round(res.wall, 1)})
    if res.violation != invariant:
        raise Inconclusive("LSM %s: expected a counterexample to %s, got %r" % (name, invariant, res.violation or res.ok))


def scenario_baseflip(c, prop):
    """A real history (writes, flushes and only compactions the production picker lists with a score
    >= 1) in which the last level shrinks and the size-derived base level returns below a non-empty
    level; then a delete is flushed and L0 is compacted. Reads must not change."""
    binp = vlib.go_build("cmd/lsmprobe")
    d = vlib.scratch("probe-")
    env = vlib.goenv()
    env["TMPDIR"] = d
    rc, out, err, _ = vlib.run([binp], timeout=600, env=env)
    if rc != 0 or not out.strip():
        raise Inconclusive("lsmprobe failed: %s" % err[-1500:])
    r = json.loads(out.splitlines()[-1])
    c.cov["engines"].append({"scenario": "base level returns below a non-empty level", "eligible": r["eligible"],
                             "read_before": r["before"], "read_after": r["after"]})
    c.cov["traces_validated_against_impl"] += 1
    if not r["eligible"]:
        raise Inconclusive("lsmprobe: a compaction of the scenario was not listed by the picker: %s" % r["log"])
    if not r["ok"]:
        rc2, out2, _, _ = vlib.run([binp], timeout=600, env=env)
        if rc2 == 0 and out2.strip() and not json.loads(out2.splitlines()[-1])["ok"]:
            c.violation("lsm:L0ToBase baseflip.resurrected (base level below a non-empty level, marker dropped at the bottom)",
                        r["log"], {"tool": "lsmprobe", "scenario": "baseflip"})


def size_walks(c, prop, walks, steps=120):
    """Random walks on the real DB with real value sizes (the base level moves up and down with the size of
    the last level), flushes and only compactions listed by pickCompactLevels; after every flush and
    compaction the invariants of LSM.tla are evaluated on the real state: ReadStable against the ideal
    store, Structure (validate) - and AgeOrdered, which is recorded but is not a read deviation."""
    binp = vlib.go_build("cmd/lsmprobe")
    d = vlib.scratch("walk-")
    env = vlib.goenv()
    env["TMPDIR"] = d
    nproc = min(vlib.NCPU, max(1, walks // 3))
    per = (walks + nproc - 1) // nproc
    t0 = time.time()
    cmds = [[binp, "-random", str(per), "-seed", str(c.seed * 1000 + i), "-steps", str(steps)] for i in range(nproc)]
    procs = [subprocess.Popen(cmd, stdout=subprocess.PIPE, stderr=subprocess.PIPE, env=env, text=True) for cmd in cmds]
    tot = {"walks": 0, "steps": 0, "reads": 0, "age_order_inversions": 0, "base_moves": 0, "compactions": {}}
    for cmd, p in zip(cmds, procs):
        try:
            out, err = p.communicate(timeout=3000)
        except subprocess.TimeoutExpired:
            for q in procs:
                q.kill()
            raise Inconclusive("lsmprobe -random timed out")
        if p.returncode != 0 or not out.strip():
            raise Inconclusive("lsmprobe -random failed: %s" % err[-1500:])
        r = json.loads(out.splitlines()[-1])
        for k in ("walks", "steps", "reads", "age_order_inversions", "base_moves"):
            tot[k] += r[k]
        for k, v in r["compactions"].items():
            tot["compactions"][k] = tot["compactions"].get(k, 0) + v
        for v in (r["violations"] or [])[:2]:
            rc, out2, _, _ = vlib.run(cmd, timeout=3000, env=env)
            again = json.loads(out2.splitlines()[-1])["violations"] or [] if rc == 0 and out2.strip() else []
            if not any(a["walk"] == v["walk"] and a["sig"] == v["sig"] for a in again):
                log("walk deviation did not reproduce:", v["sig"])
                continue
            c.violation("lsm:" + v["sig"], v["log"][-40:], {"tool": "lsmprobe", "cmd": cmd[1:], "walk": v["walk"]})
        if r.get("age_order_inversion_sample"):
            tot["age_order_inversion_sample"] = r["age_order_inversion_sample"][-12:]
    tot["wall_s"] = round(time.time() - t0, 1)
    c.cov["engines"].append(dict(tot, engine="real-size walks, LSM.tla invariants evaluated on the real state"))
    c.cov["traces_validated_against_impl"] += tot["walks"]
    if tot["age_order_inversions"]:
        print("NOTE property=%s the real tree left the age order LSM.tla proves (%d times); no read changed"
              % (prop, tot["age_order_inversions"]))
    if tot["walks"] == 0 or sum(tot["compactions"].values()) == 0:
        raise Inconclusive("real-size walks ran no compaction")


COMPACTORS = dict(Keys="{1, 2}", MaxLevel="2", Compactors="{0, 1}", MinL0L0="2", MaxId="8", StaleTargets="TRUE",
                  BaseSize="1", Mult="2", FillChecks="TRUE", Drops="TRUE", Clamp="TRUE")
COMPACTORS_INV = ("StatusExact", "InputsDisjoint", "InputsLive", "Disjoint", "OutputSafe", "NoJump")


def compactors_mc(c, quick, sensitivity=True):
    """Compactors.tla: every interleaving of capture / fill / finish of two compactors with flushes, level
    targets transcribed from levelTargets. Repaired behaviour: all invariants; with the targets trusted at
    fill time (the code before the second C12 repair) TLC has to find the jump."""
    d = vlib.stage_specs(["lsm"])
    consts = dict(COMPACTORS, MaxId=("6" if quick else "8"))
    open(os.path.join(d, "C.cfg"), "w").write(cfg_text("Spec", consts, COMPACTORS_INV))
    res = vlib.run_tlc(d, "Compactors_MC", "C.cfg", timeout=3000, workers=None)
    c.add_tlc("Compactors (stale targets, fill-time check, clamp)", res)
    vlib.require_tlc_ok(res, "Compactors")
    if sensitivity:
        d = vlib.stage_specs(["lsm"])
        consts = dict(COMPACTORS, MaxId=("6" if quick else "7"), FillChecks="FALSE")
        open(os.path.join(d, "C.cfg"), "w").write(cfg_text("Spec", consts, ("NoJump",)))
        res = vlib.run_tlc(d, "Compactors_MC", "C.cfg", timeout=3000, workers=None)
        c.cov["tlc_runs"].append({"config": "Compactors, captured targets trusted at fill time (unrepaired)",
                                  "mode": "exhaustive (expected counterexample)", "violated": res.violation,
                                  "distinct_states": res.distinct, "wall_s": round(res.wall, 1)})
        if res.violation != "NoJump":
            raise Inconclusive("Compactors (unrepaired): expected a counterexample to NoJump, got %r" % (res.violation or res.ok))


def _validate_compactors(trace, timeout=900):
    d = vlib.stage_specs(["lsm"])
    import shutil, re
    shutil.copy(trace, os.path.join(d, "trace.ndjson"))
    res = vlib.run_tlc(d, "CompactorsTrace", "CompactorsTrace.cfg", workers=1, dfs_queue=True, timeout=timeout, deadlock=True)
    if res.ok:
        return True, None, None, res
    out = (res.out or "") + "\n" + (res.error_trace or "")
    ls = re.findall(r"\bl = (\d+)", out)
    line = int(ls[-1]) - 1 if ls else None
    if res.violation == "Conforms":
        bads = [b for b in re.findall(r'bad = "(\w+)"', out) if b != "none"]
        return False, bads[0] if bads else "Conforms", line, res
    if res.violation:
        return False, res.violation, line, res
    m = re.search(r'"REJECTED_AT", (\d+)', out)
    if m:
        return False, "NotABehaviour", int(m.group(1)), res
    raise Inconclusive("CompactorsTrace did not run: %s" % out[-1500:])


def compactors_traces(c, prop, runs, steps=70, scenario=True):
    """Concurrent production compactions (csreplay: capture / fill up to the gate compact.beforeManifest /
    finish, interleaved over three compactors with flushes) validated by TLC against Compactors.tla."""
    binp = vlib.go_build("cmd/csreplay")
    d = vlib.scratch("cs-")
    env = vlib.goenv()
    env["TMPDIR"] = d
    jobs = []
    if scenario:
        jobs.append(("stale-targets scenario", ["-scenario", "stale"]))
    nfiles = max(1, min(8, runs // 8))
    per = (runs + nfiles - 1) // nfiles
    for i in range(nfiles):
        jobs.append(("random seed %d" % (c.seed * 100 + i), ["-runs", str(per), "-steps", str(steps), "-seed", str(c.seed * 100 + i)]))
    events = 0
    for label, args in jobs:
        tr = os.path.join(d, "t%d.ndjson" % jobs.index((label, args)))
        rc, out, err, _ = vlib.run([binp] + args + ["-out", tr], timeout=1200, env=env)
        if rc != 0:
            raise Inconclusive("csreplay failed (%s): %s" % (label, err[-1500:]))
        n = sum(1 for _ in open(tr))
        events += n
        ok, rule, line, res = _validate_compactors(tr)
        c.cov["tlc_runs"].append({"config": "trace:CompactorsTrace " + label, "events": n, "accepted": ok,
                                  "distinct_states": res.distinct, "wall_s": round(res.wall, 1)})
        if not ok:
            # a second recording with the same seed has to be rejected for the same rule
            tr2 = tr + ".again"
            rc, _, err, _ = vlib.run([binp] + args + ["-out", tr2], timeout=1200, env=env)
            ok2, rule2, line2, _ = _validate_compactors(tr2) if rc == 0 else (True, None, None, None)
            if ok2 or rule2 != rule:
                log("CompactorsTrace rejection did not reproduce: %s at %s / %s" % (rule, line, rule2))
                continue
            evs = [json.loads(x) for x in open(tr)]
            ctx = [{k: v for k, v in e.items() if k not in ("tabs",)} for e in evs[max(0, (line or 1) - 6):(line or 1) + 1]]
            c.violation("lsm:compactors %s (%s)" % (rule, "scenario stale" if "-scenario" in args else "random walk"),
                        ctx, {"tool": "csreplay", "args": args, "validate": "CompactorsTrace.cfg", "line": line})
        if "-scenario" in args:
            note = [json.loads(x) for x in open(tr) if '"note"' in x]
            if note and note[0]["get_before"] != note[0]["get_after"]:
                c.violation("lsm:compactors readChanged.resurrected (stale targets: L0->Lbase jumped over a level filled meanwhile)",
                            note[0], {"tool": "csreplay", "args": args})
    # binding: a corrupted record has to be rejected
    src = os.path.join(d, "t%d.ndjson" % (len(jobs) - 1))
    evs = [json.loads(x) for x in open(src)]
    idx = [i for i, e in enumerate(evs) if e["ev"] == "fill" and e.get("picked") and e.get("top")]
    rej = 0
    tried = 0
    for how in ("top", "base", "busy"):
        es = json.loads(json.dumps(evs))
        if how == "top" and idx:
            es[idx[0]]["top"] = es[idx[0]]["top"][:-1] + [es[idx[0]]["top"][-1] + 1000]
        elif how == "base":
            k = [i for i, e in enumerate(es) if e["ev"] == "capture"]
            if not k:
                continue
            es[k[0]]["base"] = 3 - es[k[0]]["base"]
        elif how == "busy" and idx:
            es[idx[0]]["busy"] = []
        else:
            continue
        tried += 1
        bad = os.path.join(d, "bad_%s.ndjson" % how)
        open(bad, "w").write("".join(json.dumps(e) + "\n" for e in es))
        ok, rule, line, _ = _validate_compactors(bad)
        rej += (not ok)
    c.cov["engines"].append({"engine": "CompactorsTrace (TLC validates recorded concurrent compactions)", "traces": len(jobs),
                             "events": events, "corrupted_traces_rejected": "%d/%d" % (rej, tried)})
    c.cov["traces_validated_against_impl"] += len(jobs)
    if tried == 0 or rej != tried:
        raise Inconclusive("CompactorsTrace accepted a corrupted trace (%d/%d rejected)" % (rej, tried))


def model_check_install(c, quick):
    """LSMInstall.tla: the two-step installation of a compaction result against a concurrent read."""
    d = vlib.stage_specs(["lsm"])
    consts = dict(Keys="{1, 2}", MaxTs=("2" if quick else "3"), MaxLevel="2", MinL0L0="2", NVK="1", Kinds='{"val", "del"}',
                  L0L0KeepsTombstones="TRUE", BaseSkip='"none"', MaxId=("4" if quick else "5"), InstallOrder='"code"')
    open(os.path.join(d, "I.cfg"), "w").write(cfg_text("ISpec", consts, ("ReadCorrect",)))
    res = vlib.run_tlc(d, "LSMInstall_MC", "I.cfg", timeout=2400, workers=None)
    c.add_tlc("LSMInstall (replace, then delete; read level by level)", res)
    vlib.require_tlc_ok(res, "LSMInstall")


def replay_install(c, prop, cases, label):
    """One point read interleaved level by level (gate get.level) with replaceTables / deleteTables of
    the case's production compaction (gates compact.beforeReplace / compact.beforeDelete): every pair of
    positions, every key, every timestamp at or above the watermark."""
    if not cases:
        return
    binp = vlib.go_build("cmd/lsmreplay")
    d = vlib.scratch("inst-")
    inp = os.path.join(d, "cases.ndjson")
    open(inp, "w").write("".join(json.dumps(dict(cs, tiny=False)) + "\n" for cs in cases))
    nproc = min(vlib.NCPU, len(cases))
    env = vlib.goenv()
    env["TMPDIR"] = d
    t0 = time.time()
    procs = [subprocess.Popen([binp, "-in", inp, "-install", "-shard", str(s), "-nshards", str(nproc)],
                              stdout=subprocess.PIPE, stderr=subprocess.PIPE, env=env, text=True) for s in range(nproc)]
    results = []
    for p in procs:
        try:
            out, err = p.communicate(timeout=1800)
        except subprocess.TimeoutExpired:
            p.kill()
            raise Inconclusive("lsmreplay -install timed out")
        if p.returncode != 0:
            raise Inconclusive("lsmreplay -install failed: %s" % err[-1500:])
        results += [json.loads(l) for l in out.splitlines() if l.strip()]
    bad = [r for r in results if not r["ok"]]
    c.cov["engines"].append({"replay": label, "cases": len(results), "mismatches": len(bad), "wall_s": round(time.time() - t0, 1)})
    nh = 0
    for r in bad[:6]:
        if r["sig"].startswith("harness."):
            nh += 1
            continue
        one = os.path.join(d, "one.ndjson")
        open(one, "w").write(json.dumps(dict(cases[r["case"]], tiny=False)) + "\n")
        rc, out, err, _ = vlib.run([binp, "-in", one, "-install"], timeout=600, env=env)
        if rc != 0 or not out.strip() or json.loads(out.splitlines()[0])["ok"]:
            log("install deviation did not reproduce:", r["sig"])
            continue
        c.violation("lsm:%s %s" % (r["fam"], r["sig"]), r.get("detail"), {"case": cases[r["case"]], "tool": "lsmreplay -install"})
    if nh > max(2, len(cases) // 5):
        raise Inconclusive("lsmreplay -install: %d harness-level problems" % nh)
    c.cov["traces_validated_against_impl"] += len(results)


def describe(case):
    def ents(es):
        return " ".join("k%d@%d%s" % (e["k"], e["ts"], "" if e["kind"] == "val" else ":" + e["kind"])
                        for e in sorted(es, key=lambda e: (e["k"], -e["ts"])))
    pre = case["pre"]
    s = "%s  discardTs=%d  mt[%s] L0[%s]" % (case["fam"], pre["discardTs"], ents(pre["mt"]),
                                             " | ".join(ents(t["ents"]) + ("(big)" if t["big"] else "") +
                                                        ("(aged)" if t["aged"] else "") for t in pre["L0"]))
    for i, lvl in enumerate(pre["lv"]):
        s += " L%d[%s]" % (i + 1, " | ".join(ents(t["ents"]) for t in lvl))
    return s
