#!/usr/bin/env python3
"""C15 — value-log GC never changes, loses or resurrects data.
spec : specs/lsm/VLogGC.tla — value-log files, pointers, the four phases of valueLog.rewrite, the
       gcDiscardTs clamp in compactions, requests between vlog.write and writeToLSM, iterator counting,
       items held by open transactions; invariants ReadStable (incl. dangling pointers) and ItemReadable
MC   : exhaustive TLC; a design under which the invariants hold (three switches TRUE) must pass; each
       switch set to what the code does yields a counterexample (recorded, not a verdict)
bind : VLogGCGen schedules (code-as-it-is switches) are forced on the real DB with verif gates
       (gc.scanned, gc.beforeDelete, mem.beforePut) and after every step all reads at or above the watermark
       are compared with the contract and every held item must still yield its value."""
import json, os, subprocess, sys, time, random
sys.path.insert(0, os.path.dirname(os.path.abspath(__file__)))
sys.path.insert(0, os.path.join(os.path.dirname(os.path.abspath(__file__)), "..", "tools"))
import vlib
from vlib import Inconclusive, log


def body(c):
    q = c.quick
    d = vlib.stage_specs(["lsm"])
    res = vlib.run_tlc(d, "VLogGC", "VLogGC_ok.cfg", timeout=1800, workers=None)
    c.add_tlc("VLogGC safe design (all switches TRUE)", res)
    vlib.require_tlc_ok(res, "VLogGC_ok")
    asis = {}
    for cfg in ("VLogGC_items.cfg", "VLogGC_inflight.cfg", "VLogGC_writeback.cfg"):
        r = vlib.run_tlc(d, "VLogGC", cfg, timeout=900, workers=6)
        c.add_tlc(cfg + " (one switch as the code is)", r)
        asis[cfg] = r.violation
        if not r.violation and not r.ok:
            raise Inconclusive("TLC failed on %s: %s" % (cfg, r.error_trace[:1500]))
    c.cov["spec_counterexamples_for_code_as_is"] = asis
    # schedules
    with open(os.path.join(d, "G.cfg"), "w") as f:
        f.write("SPECIFICATION GenSpec\nCONSTANTS\n  Keys = {1, 2}\n  MaxTs = 4\n  FileCap = 2\n  MaxFiles = 4\n"
                "  CountGetItems = FALSE\n  SkipInFlightFile = FALSE\n  SafeWriteBack = FALSE\n  HistLen = %d\nINVARIANTS Emit\n" % (14 if q else 16))
    gen = vlib.run_tlc(d, "VLogGCGen", "G.cfg", timeout=900, workers=4, simulate=(4000 if q else 20000), depth=(15 if q else 17), seed=c.seed)
    if not gen.ok:
        raise Inconclusive("VLogGCGen failed: %s" % gen.error_trace[:1500])
    seen, cases = set(), []
    for h in gen.cases:
        k = json.dumps([(s["op"], s["k"], s["f"]) for s in h])
        if k not in seen and any(s["op"] == "gcScan" for s in h):
            seen.add(k)
            cases.append(h)
    rnd = random.Random(c.seed)
    rnd.shuffle(cases)

    def window(h):
        """delete and compaction between the rewrite's scan and its write-back (the #2286 window)"""
        ops = [s["op"] for s in h]
        for i, o in enumerate(ops):
            if o == "gcScan":
                j = next((x for x in range(i + 1, len(ops)) if ops[x] in ("gcWriteBack", "gcDelete")), None)
                if j and "del" in ops[i + 1:j] and "compact" in ops[i + 1:j] and ops[j] == "gcWriteBack":
                    d = i + 1 + ops[i + 1:j].index("del")
                    if "compact" in ops[d:j]:
                        return True
        return False
    def iter_across_delete(h):
        """an iterator is open when the rewrite removes its file, a compaction ran while it was open,
        and no request was in flight at the scan"""
        ops = [s["op"] for s in h]
        for j, o in enumerate(ops):
            if o != "gcDelete":
                continue
            i = max(x for x in range(j) if ops[x] == "gcScan")
            if ops[:i].count("putVlog") > ops[:i].count("putMem"):
                continue
            if ops[:j].count("iterOpen") > ops[:j].count("iterClose"):
                io = max(x for x in range(j) if ops[x] == "iterOpen")
                if "compact" in ops[io:j]:
                    return True
        return False
    win = [h for h in cases if window(h)]
    itd = [h for h in cases if iter_across_delete(h) and not window(h)]
    rest = [h for h in cases if not window(h) and not iter_across_delete(h)]
    nwin = 150 if q else 4000
    cases = win[:nwin] + itd[:nwin] + rest[:(700 if q else 20000) - min(len(win), nwin) - min(len(itd), nwin)]
    c.cov["schedules_with_delete_and_compaction_inside_gc_window"] = min(len(win), nwin)
    c.cov["schedules_with_iterator_open_across_file_deletion"] = min(len(itd), nwin)
    # three fixed schedules (one per counterexample class TLC finds for the code-as-it-is switches),
    # so that every run exercises them
    canon = os.path.join(os.path.dirname(os.path.abspath(__file__)), "data", "C15_canonical.ndjson")
    if os.path.exists(canon):
        cases = [json.loads(l) for l in open(canon) if l.strip()] + cases
    # every schedule runs in one of two tree shapes: 2 levels (the compaction target is the last level)
    # or 3 levels with a tiny BaseLevelSize (the target is not the last level)
    cases = [{"deep": i % 2 == 1, "steps": h} for i, h in enumerate(cases)]
    c.cov["tlc_runs"].append({"config": "gen:VLogGCGen", "cases": len(cases), "wall_s": round(gen.wall, 1)})
    binp = vlib.go_build("cmd/gcreplay")
    sd = vlib.scratch("gc-")
    inp = os.path.join(sd, "cases.ndjson")
    open(inp, "w").write("".join(json.dumps(h) + "\n" for h in cases))
    nproc = min(vlib.NCPU, max(1, len(cases) // 20))
    env = vlib.goenv()
    env["TMPDIR"] = sd
    t0 = time.time()
    procs = [subprocess.Popen([binp, "-in", inp, "-shard", str(s), "-nshards", str(nproc)], stdout=subprocess.PIPE,
                              stderr=subprocess.PIPE, env=env, text=True) for s in range(nproc)]
    results = []
    for p in procs:
        try:
            out, err = p.communicate(timeout=2400)
        except subprocess.TimeoutExpired:
            p.kill()
            raise Inconclusive("gcreplay timed out")
        if p.returncode != 0:
            raise Inconclusive("gcreplay failed: %s" % err[-2000:])
        results += [json.loads(l) for l in out.splitlines() if l.strip()]
    if len(results) != len(cases):
        raise Inconclusive("gcreplay: %d results for %d cases" % (len(results), len(cases)))
    bad = [r for r in results if not r["ok"]]
    ops = {}
    for h in cases:
        for s in h["steps"]:
            ops[s["op"]] = ops.get(s["op"], 0) + 1
    c.cov["engines"].append({"replay": "VLogGCGen schedules on the real DB", "cases": len(cases), "deviations": len(bad),
                             "steps_by_kind": ops, "wall_s": round(time.time() - t0, 1)})
    per = {}
    one = os.path.join(sd, "one.ndjson")
    for r in bad:
        if r["sig"].startswith("harness."):
            c.cov.setdefault("harness_trouble", 0)
            c.cov["harness_trouble"] += 1
            continue
        per[r["sig"]] = per.get(r["sig"], 0) + 1
        if per[r["sig"]] > 2:
            continue
        open(one, "w").write(json.dumps(cases[r["case"]]) + "\n")
        rc, out, err, _ = vlib.run([binp, "-in", one], timeout=300, env=env)
        if rc != 0 or not out.strip() or json.loads(out.splitlines()[0])["ok"]:
            log("GC deviation did not reproduce:", r["sig"])
            continue
        c.violation("gc:" + r["sig"], r.get("detail"), {"schedule": [(s["op"], s["k"], s["f"]) for s in cases[r["case"]]["steps"]],
                                                         "deep": cases[r["case"]]["deep"], "full": cases[r["case"]]})
    if c.cov.get("harness_trouble", 0) > len(cases) // 10:
        raise Inconclusive("too many harness problems in gcreplay: %d" % c.cov["harness_trouble"])
    full = set(json.dumps([(s["op"], s["k"], s["f"]) for s in h["steps"]]) for h in cases
               if any(s["op"] in ("gcDelete", "gcWriteBack") for s in h["steps"]))
    c.add_cases(len(cases), full, traces=len(cases))
    c.cov["rule"] = ("schedule = behaviour of VLogGCGen (puts split into vlog write / memtable write, deletes, watermark moves, "
                     "compactions, rewrite phases, iterator and Get-item lifetimes); non-trivial = the rewrite proceeds past its scan")
    c.cov["exhaustive"] = False
    if cases:
        c.sample([(s["op"], s["k"], s["f"]) for s in cases[0]["steps"]])
    c.assumptions += ["the LSM tree is abstracted to one level in VLogGC.tla; the level-0 ordering hazard for two copies of one "
                      "k@ts (DESIGN section 7) is outside this module",
                      "write-back of all scanned records is one step (valueLog.rewrite offers no schedule point inside a batch)"]


vlib.main("C15", "model_checking", body)
