#!/usr/bin/env python3
"""C36 — managed mode honors caller-chosen timestamps.
spec : specs/kv/BadgerKV.tla with Managed = TRUE: BeginAt, CommitAt (any order of timestamps),
       SetDiscardTs, Compact; ReadStableAboveDiscard, DiscardTsInvisible
MC   : exhaustive TLC, 2 transactions, 1 key x timestamps 0..3 (quick) / 2 keys x 0..2 (thorough) chosen freely, discard movements and
       every removal the retention rule permits
bind : TLC-generated managed histories (OpenManaged, NewTransactionAt, CommitAt with non-monotonic
       timestamps, SetDiscardTs, flush / compaction / GC / re-open steps) replayed against the real
       DB: reads at the chosen read timestamps (Get, iterators incl. AllVersions and SinceTs),
       Item.Version equal to the caller's commit timestamp; after SetDiscardTs + compactions every
       read at or above the discard timestamp must still equal the prediction (AllVersions output
       below the discard timestamp is checked against exactly what BadgerKV!Compact permits).
       Per-entry versions through the managed write batch are C27's business."""
import os, sys
sys.path.insert(0, os.path.dirname(os.path.abspath(__file__)))
import lib_kv as K
import vlib


def profile(h):
    """non-monotonic commit timestamps? discard moves followed by compaction and reads?"""
    last = 0
    nonmono = False
    disc = comp = False
    reads_after = 0
    for s in h:
        if s["op"] == "commitAt" and s["res"] == "ok":
            if s["cts"] < last:
                nonmono = True
            last = max(last, s["cts"])
        elif s["op"] == "setDiscardTs":
            disc = True
        elif s["op"] == "env" and disc and s["what"].startswith("compact"):
            comp = True
        elif comp and s["op"] in ("get", "iter", "iterRun", "scan", "dump"):
            reads_after += 1
    return nonmono, reads_after


def body(c):
    q = c.quick
    if q:   # one key, timestamps 0..3
        mc = dict(K.MC_DEFAULT, Keys="{1}", Managed="TRUE", MaxTs="3", Feat='{"discard", "compact"}')
    else:   # two keys, timestamps 0..2
        mc = dict(K.MC_DEFAULT, Managed="TRUE", MaxTs="2", Feat='{"discard", "compact"}')
    K.model_check(c, "managed-2txn-discard-compact", mc, ["TypeOK", "AtomicVisibility"], ["ReadStableAboveDiscard", "DiscardTsInvisible"],
                  bound="nval <= 2", timeout=3000)
    tab = K.key_table(c.seed)
    env = K.ENV_ALL + ["reopen"]
    sim = K.hist_consts(tab, Managed="TRUE", MaxTs="6", Txns="1..7", MaxNow="2", HistLen="32", MaxOps="2", MaxActive="2",
                        WriteWeight="4", EnvSteps=K.tla_set(env), EnvWeight="2", Feat='{"discard"}', Dumps="TRUE",
                        WriteKeys=K.tla_set([1, 2, 3]), ScanVias='{"iter"}',
                        IterOptList=K.tla_seq([K.tla_opts(), K.tla_opts(all=True), K.tla_opts(rev=True), K.tla_opts(since=2),
                                               K.tla_opts(all=True, rev=True)]))
    n = 500 if q else 5000
    sims = K.generate(c, "sim-managed", sim, n, 32, c.seed, workers=8 if q else 12, timeout=1800)
    hist = K.op_histogram(sims)
    c.cov["generated_op_histogram"] = hist
    prof = [profile(h) for h in sims]
    c.cov["managed_profile"] = {"histories_with_non_monotonic_commit_ts": sum(1 for p in prof if p[0]),
                                "reads_after_discard_move_and_compaction": sum(p[1] for p in prof),
                                "discard_moves": hist.get("setDiscardTs", 0)}
    if c.cov["managed_profile"]["histories_with_non_monotonic_commit_ts"] < len(sims) // 10 or hist.get("setDiscardTs", 0) == 0:
        raise vlib.Inconclusive("generator shaping lost: %s" % c.cov["managed_profile"])
    stats = {}
    confs = ["managed+vlog", "managed"] if q else ["managed", "managed+vlog", "managed+thr+l3", "managed+zstd", "managed+inmem"]
    for conf in confs:
        # an in-memory DB cannot be re-opened: only histories without a re-open are valid there
        hs = sims if "inmem" not in conf else [h for h in sims if not any(s["op"] == "env" and s["what"] == "reopen" for s in h)]
        K.replay(c, hs, conf, c.seed, "sim-managed", keys=tab, collect=stats)
    c.cov["observations_compared"] = {k: v for k, v in stats.items() if k in ("get", "iter", "scan:iter", "dump", "commit:ok")}
    c.cov["env_steps_executed"] = {k: stats.get(k, 0) for k in env}
    good = [h for h, p in zip(sims, prof) if p[0] or p[1]]
    c.add_cases(len(sims) * len(confs), set(K.hist_key(h) for h in good), traces=len(sims) * len(confs))
    c.cov["rule"] = ("histories are behaviours of BadgerKVGen with Managed = TRUE (TLC -simulate, length 32); non-trivial = "
                     "commit timestamps not monotone, or reads after a discard-timestamp move followed by a compaction; "
                     "distinct = distinct step sequences")
    c.cov["exhaustive"] = False
    for h in good[:2]:
        c.sample(K.short(h))
    c.assumptions += ["caller obligations of managed mode are respected by the generator: read and commit timestamps are not "
                      "below the discard timestamp announced (oracle asserts it), SetDiscardTs is monotone and not above the "
                      "read timestamp of an open transaction, the same key is not committed twice at the same version",
                      "the oracle's conflict log is volatile (emptied by a re-open, pruned by SetDiscardTs): modelled as the "
                      "code does it (BadgerKV!clog)"]


vlib.main("C36", "model_checking", body)
