#!/usr/bin/env python3
"""C31 - a merge operator returns the fold of all added values.
spec : specs/sm1/MergeOp.tla (Add / Merge write-back at the newest operand's version with the
       discard bit / Get fold over a reduced LSM: memtable, L0 list, lower level, source precedence,
       retention rule of subcompact; invariant GetIsFold)
MC   : exhaustive TLC, 3-4 operands, all interleavings of Add, Merge, Flush, Compact(d), Reopen
bind : MergeOpGen behaviours replayed (VerifMergeCompact, VerifFlush, VerifDoCompact, Stop/Close/Open);
       Get after every step and every write-back (version, bits, via the mem.put hook) compared."""
import os, sys, random
sys.path.insert(0, os.path.dirname(os.path.abspath(__file__)))
import lib_sm1 as L
import vlib

INV = ["TypeOK", "GetIsFold", "NoOperandTwice"]


def short(h):
    return " ".join(("add(%d)" % s["x"] if s["op"] == "add" else s["op"] + ("*" if s["op"] in ("merge", "reopen") and s["writes"] else ""))
                    for s in h) + " => get=" + "".join(chr(96 + x) for x in h[-1]["get"])


def body(c):
    q = c.quick
    rnd = random.Random(c.seed)
    L.mc(c, "MergeOp", "3adds", L.K(MaxAdds=3, MaxL0=3, NVK=1), INV, timeout=600, allow_zero=("Next",))
    L.mc(c, "MergeOp", "3adds-nvk2", L.K(MaxAdds=3, MaxL0=2, NVK=2), INV, timeout=600, allow_zero=("Next",))
    if not q:
        L.mc(c, "MergeOp", "5adds", L.K(MaxAdds=5, MaxL0=3, NVK=1), INV, timeout=1200, allow_zero=("Next",))
    total, keys = 0, set()
    plans = [("len8", 3, 8, 1, 500)] if q else [("len10", 3, 10, 2, 1200), ("len11-4adds", 4, 11, 1, 1200)]
    for name, adds, hl, reopen, cap in plans:
        cases = L.gen(c, "MergeOpGen", name, L.K(MaxAdds=adds, MaxL0=3, NVK=1, HistLen=hl, MaxReopen=reopen),
                      invariants=("Emit", "GetIsFold"), timeout=1200)
        c.cov.setdefault("generated", {})[name] = len(cases)
        if len(cases) > cap:
            cases = rnd.sample(cases, cap)
        for label, args in (("inline", ["-vthreshold", "1024", "-vlen", "3"]), ("vlog", ["-vthreshold", "16", "-vlen", "20"])):
            L.replay(c, "cmd/sm1merge", cases, args, "merge-%s-%s" % (name, label), timeout=1500)
            total += len(cases)
        if not q:
            sub = rnd.sample(cases, min(len(cases), 400))
            L.replay(c, "cmd/sm1merge", sub, ["-nvk", "3", "-vlen", "2"], "merge-%s-nvk3" % name, timeout=1500)
            total += len(sub)
        keys |= set(short(h) for h in cases if any(s["op"] == "merge" and s["writes"] for s in h))
        c.cov["cases_with_merge_write_back"] = c.cov.get("cases_with_merge_write_back", 0) + \
            sum(1 for h in cases if any(s["op"] in ("merge", "reopen") and s["writes"] for s in h))
        c.cov["cases_with_compaction_after_write_back"] = c.cov.get("cases_with_compaction_after_write_back", 0) + \
            sum(1 for h in cases if any(s["op"] == "merge" and s["writes"] and any(t["op"] == "compact" for t in h[i + 1:])
                                        for i, s in enumerate(h)))
        for h in [h for h in cases if sum(1 for s in h if s["op"] == "merge" and s["writes"]) >= 1 and any(s["op"] == "compact" for s in h)][:2]:
            c.sample(short(h))
    c.add_cases(total, keys, traces=total)
    c.cov["rule"] = ("a case = behaviour of MergeOpGen of fixed length over add/merge/flush/compact/reopen (all behaviours of that length; "
                     "sampled above the cap); Get compared after every step; non-trivial = contains a merge that writes back; "
                     "distinct = distinct step sequences")
    c.cov["exhaustive"] = False   # sequences are enumerated by TLC, replays above the caps are seeded samples
    c.assumptions += ["compaction steps are L0->Lbase compactions picked by the production picker (the L0->L0 path, whose output position "
                      "in L0 is the subject of the DupPrecedence finding of the LSM family, is not driven here)",
                      "the merge function is byte concatenation (order-sensitive, so operand order and multiplicity are observable)"]


vlib.main("C31", "model_checking", body)
