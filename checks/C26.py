#!/usr/bin/env python3
"""C26 — StreamWriter builds exactly the streamed database.
spec : specs/sm2/StreamWriter.tla (ResultEqualsStreams, NextTsAboveAll, NothingLostInFlight,
       KeyInOneTable, WritesToFreeLevel, DroppedInvisible)
MC   : exhaustive TLC over all stream contents (sorted sequences of key@version pairs per stream,
       keys with several versions), all splits into Write calls, done markers, Prepare /
       PrepareIncremental, commits and re-opens around the sessions
bind : StreamWriterGen cases replayed through the public API (KVToBuffer buffers, tiny tables so
       that tables are cut, values around ValueThreshold); after every Flush / re-open the full
       dump, point reads, next timestamp, levels and table structure are compared."""
import os, random, sys
sys.path.insert(0, os.path.dirname(os.path.abspath(__file__)))
import lib_sm2 as S
import vlib


def body(c):
    if c.replay:
        return S.replay_file(c)
    q = c.quick
    rnd = random.Random(c.seed)
    if q:
        S.mc_sw(c, "1session-2streams", S.sw_consts(2, 2, (2, 3), 2, 2, 2, ("full", "incr"), 1, 1, 3), timeout=300, workers=8)
    else:
        S.mc_sw(c, "2sessions-2streams", S.sw_consts(2, 2, (2, 3), 2, 2, 2, ("full", "incr"), 2, 2, 3), timeout=1500)
        S.mc_sw(c, "1session-3entries", S.sw_consts(2, 2, (2, 3, 5), 3, 2, 2, ("full", "incr"), 1, 1, 4), timeout=1500,
                coverage=True)
    # the code as it is (LevelFix=FALSE) must show the counterexample the replay looks for
    r = S.mc_sw(c, "as-is-2sessions-L4", S.sw_consts(2, 2, (2, 3), 2, 2, 2, ("incr",), 2, 2, 4, levelfix=False),
                timeout=600, workers=8, expect_violation=True)
    c.cov["as_is_model_violates"] = r.violation or "nothing"
    levels = 4 if q else rnd.choice([3, 4, 7])
    gen = S.sw_consts(2, 2, (2, 3, 5, 8), 4, 3, 2, ("full", "incr"), 2, 3, levels)
    n = 400 if q else 2500
    cases = S.gen_sw(c, "2streams-2sessions-L%d" % levels, gen, n, c.seed, workers=4 if q else 8, timeout=300 if q else 900)
    cases = rnd.sample(cases, min(len(cases), 450 if q else 1800))
    confs = ["default"] if q else ["default", "snappy", "enc"]
    feats, keys = {}, set()
    for h in cases:
        fs = S.sw_features(h)
        for f in fs:
            feats[f] = feats.get(f, 0) + 1
        if fs & {"key_with_several_versions", "batch_mixes_streams", "done_marker"}:
            keys.add(S.short_sw(h))
    nrep = 0
    for conf in confs:
        sub = cases if conf == "default" else cases[:700]      # compression / encryption: a subset
        S.replay_sw(c, sub, levels, conf, "2streams-2sessions-L%d" % levels, timeout=1200)
        nrep += len(sub)
    if not q:
        # three streams, one session, longer streams
        gen3 = S.sw_consts(3, 2, (2, 3, 5), 5, 3, 2, ("full", "incr"), 1, 2, 4)
        cases3 = S.gen_sw(c, "3streams-1session", gen3, 1000, c.seed + 1, workers=8, timeout=900)
        S.replay_sw(c, cases3, 4, "default", "3streams-1session")
        for h in cases3:
            for f in S.sw_features(h):
                feats[f] = feats.get(f, 0) + 1
            keys.add(S.short_sw(h))
        cases = cases + cases3
        nrep += len(cases3)
    c.add_cases(nrep, keys, traces=nrep)
    c.cov["case_features"] = feats
    need = ["key_with_several_versions", "batch_mixes_streams", "done_marker", "prepare_incr", "prepare_full",
            "value_at_or_above_threshold", "delete_marker_streamed"]
    miss = [f for f in need if not feats.get(f)]
    if miss:
        raise vlib.Inconclusive("generator produced no case with: %s" % miss)
    cuts = sum(e.get("sessions_in_which_a_table_was_cut", 0) for e in c.cov["engines"])
    if cuts * 4 < nrep:
        raise vlib.Inconclusive("tables were hardly ever cut (%d sessions with a cut in %d cases)" % (cuts, len(cases)))
    for h in cases[:3]:
        c.sample(S.short_sw(h))
    c.cov["rule"] = ("cases are behaviours of StreamWriterGen (TLC -simulate): stream contents, splits into Write calls, "
                     "done markers, Prepare/PrepareIncremental, commits and re-opens are all chosen by TLC; non-trivial = "
                     "a key with several versions, a batch mixing streams or a done marker; distinct = distinct step sequences")
    c.cov["exhaustive"] = False
    c.assumptions += [
        "incremental streams carry newer versions than the database holds for the same key (older versions written "
        "later are outside the contract, C36)",
        "entries at or below a delete marker may disappear when PrepareIncremental flattens the tree (compaction); "
        "everything else must be present, nothing else may appear",
        "Write calls are issued one at a time, except in a quarter of the cases where one call per stream runs concurrently",
        "model table capacity (size units) and the real BaseTableSize=130/BlockSize=64 are not related; the table "
        "structure is checked through invariants (levels valid, a key's versions in one table), not compared cut by cut",
    ]


vlib.main("C26", "model_checking", body)
