#!/usr/bin/env python3
"""C13 — compaction retains the versions the retention settings promise.
spec : specs/lsm/LSM.tla: Keep/Out transcribe levels.go addKeys (NumVersionsToKeep, stop at a
       delete or discard-earlier-versions entry, merge entries exempt); invariant Retention compares the
       tree with Required(k) computed on the complete history of each key
MC   : exhaustive TLC, kinds {val, del, disc, merge}, NumVersionsToKeep in {1, 2, 3}
bind : state injection (as C12) — the post-layout of every production compaction must be exactly
       the one Out(...) computes, so a version kept or dropped against the rules is a mismatch."""
import os, sys
sys.path.insert(0, os.path.dirname(os.path.abspath(__file__)))
import C12
import vlib


def body(c):
    nvks = (1, 2) if c.quick else (1, 2, 3)
    C12.body(c, prop="C13", kinds='{"val", "del", "exp", "disc", "merge"}', nvks=nvks,
             invariants=("Retention", "ReadStableNoMerge", "Structure", "NoInvention"))


vlib.main("C13", "model_checking", body)
