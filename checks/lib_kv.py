"""KV family: BadgerKV contract spec (specs/kv) -> TLC model checking, TLC-generated API
histories (BadgerKVGen) -> replay against the real DB (harness/cmd/kvreplay)."""
import hashlib, json, os, re, subprocess, sys, time
sys.path.insert(0, os.path.join(os.path.dirname(os.path.abspath(__file__)), "..", "tools"))
import vlib
from vlib import Inconclusive, log


# --------------------------------------------------------------------------- key tables
# Concretisation tables: abstract key i (1-based) -> byte string.  Every table is sorted in
# byte order (the contract's key order is numeric order).  kvreplay receives the table of a
# run through -keys, so this list is the single source of truth.
KEY_TABLES = [
    [b"a", b"a\x00", b"ab", b"a\xff", b"b", b"b\x00\x00", b"c"],
    [b"k1", b"k2", b"k3", b"k4", b"k5", b"k6", b"k7"],
    [b"\x00", b"\x00\x00", b"\x01", b"\x7f\xff", b"\xff", b"\xff\x00", b"\xff\xff"],
    [b"key", b"key0", b"key00", b"keya", b"keyb", b"kez", b"l"],
]
# >= 8-byte keys whose bytes can be searched for in files (C23 plaintext scan)
MARKER_KEYS = [b"ukey-marker-%02d" % i for i in range(1, 8)]
INTERNAL_KEY = b"!badger!verifkey"


def key_table(seed, internal=False, table=None):
    """Sorted concretisation table for a seed; with internal=True a reserved-prefix key is
    inserted at its byte-order position."""
    t = list(KEY_TABLES[seed % len(KEY_TABLES)] if table is None else table)
    if internal:
        t.append(INTERNAL_KEY)
    t.sort()
    assert len(set(t)) == len(t)
    return t


def key_consts(table):
    """TLA+ constants Keys / Pre / Internal describing a concretisation table."""
    n = len(table)
    pre = ["<<%d, %d>>" % (i + 1, j + 1) for i in range(n) for j in range(n) if table[j].startswith(table[i])]
    internal = [i + 1 for i in range(n) if table[i].startswith(b"!badger!")]
    return dict(Keys="1..%d" % n, Pre="{" + ", ".join(pre) + "}", Internal=tla_set(internal))


def keys_arg(d, table, name="keys.json"):
    """Write a key table as JSON (latin-1 strings) for kvreplay -keys."""
    path = os.path.join(d, name)
    with open(path, "w") as f:
        json.dump([k.decode("latin-1") for k in table], f)
    return path


# --------------------------------------------------------------------------- models
def tla_set(xs):
    def one(x):
        if isinstance(x, bool):
            return "TRUE" if x else "FALSE"
        if isinstance(x, str):
            return '"%s"' % x
        return str(x)
    return "{" + ", ".join(one(x) for x in xs) + "}"


def tla_opts(rev=False, all=False, since=0, pfx=0, pmode="none", seek=0, internal=False):
    b = lambda x: "TRUE" if x else "FALSE"
    return ('[rev |-> %s, all |-> %s, since |-> %d, pfx |-> %d, pmode |-> "%s", seek |-> %d, internal |-> %s]'
            % (b(rev), b(all), since, pfx, pmode, seek, b(internal)))


def tla_seq(xs):
    return "<<" + ", ".join(xs) + ">>"


KV_DEFAULTS = dict(Keys="{1, 2}", Pre=None, Internal="{}", Txns="{1, 2}", MaxTs="2", MaxNow="1",
                   Managed="FALSE", UMs="{0}", Exps="{0}", Discs="{FALSE}", IterDirs="{FALSE}", Feat='{"iter"}')
GEN_DEFAULTS = dict(HistLen="6", EnvSteps="{}", MaxOps="3", MaxActive="3", IterOptList="<<>>", SeekKeys=None,
                    WriteKeys=None, SplitIter="FALSE", ScanVias="{}", RejKinds="{}", BigSets="FALSE",
                    Dumps="FALSE", TickWeight="1", EnvWeight="1", WriteWeight="1")
MC_DEFAULT = dict(Keys="{1, 2}", Txns="{1, 2}", MaxTs="2", MaxNow="1", Managed="FALSE",
                  UMs="{0}", Exps="{0}", Discs="{FALSE}", IterDirs="{FALSE}")


def _complete(consts, gen):
    out = dict(KV_DEFAULTS)
    if gen:
        out.update(GEN_DEFAULTS)
    out.update(consts)
    if out.get("Pre") is None:
        out["Pre"] = "{<<k, k>> : k \\in (%s)}" % out["Keys"]
    if gen:
        for k in ("SeekKeys", "WriteKeys"):
            if out.get(k) is None:
                out[k] = "(%s) \\ (%s)" % (out["Keys"], out["Internal"])
    return out


def write_model(d, name, extends, consts, spec, invariants=(), properties=(), constraint=None, view=None,
                defs="", postcondition=None):
    """Write <name>.tla (EXTENDS <extends>; one definition per constant) and <name>.cfg in d.
    Every constant is substituted by a definition so that any TLA+ expression can be used."""
    with open(os.path.join(d, name + ".tla"), "w") as f:
        f.write("---- MODULE %s ----\nEXTENDS %s\n" % (name, extends))
        for k, v in consts.items():
            f.write("c_%s == %s\n" % (k, v))
        if constraint:
            f.write("c__Constraint == %s\n" % constraint)
        if view:
            f.write("c__View == %s\n" % view)
        f.write(defs + "\n====\n")
    with open(os.path.join(d, name + ".cfg"), "w") as f:
        f.write("SPECIFICATION %s\nCONSTANTS\n" % spec)
        for k in consts:
            f.write("  %s <- c_%s\n" % (k, k))
        if invariants:
            f.write("INVARIANTS %s\n" % " ".join(invariants))
        if properties:
            f.write("PROPERTIES %s\n" % " ".join(properties))
        if constraint:
            f.write("CONSTRAINT c__Constraint\n")
        if view:
            f.write("VIEW c__View\n")
        if postcondition:
            f.write("POSTCONDITION %s\n" % postcondition)


def model_check(c, name, consts, invariants, properties=(), bound="nval <= 3", timeout=900, workers=None,
                coverage=False):
    """Exhaustive TLC on the contract module with the given constants."""
    d = vlib.stage_specs(["kv"])
    write_model(d, "KVMC", "BadgerKV", _complete(consts, False), "Spec", invariants, properties, bound)
    res = vlib.run_tlc(d, "KVMC", "KVMC.cfg", timeout=timeout, workers=workers, coverage=coverage)
    c.add_tlc(name, res)
    vlib.require_tlc_ok(res, "BadgerKV/" + name)
    return res


def generate(c, name, consts, num, depth, seed, workers=4, timeout=600, exhaustive=False):
    """Run BadgerKVGen; returns list of histories (lists of step dicts)."""
    d = vlib.stage_specs(["kv"])
    write_model(d, "Gen", "BadgerKVGen", _complete(consts, True), "GenSpec", ["Emit"])
    if exhaustive:
        res = vlib.run_tlc(d, "Gen", "Gen.cfg", timeout=timeout, workers=workers)
    else:
        res = vlib.run_tlc(d, "Gen", "Gen.cfg", timeout=timeout, workers=workers,
                           simulate=max(1, num // workers), depth=depth + 1, seed=seed)
    if res.violation or (not res.ok):
        raise Inconclusive("generator %s failed: %s %s" % (name, res.violation, res.error_trace[:2000]))
    c.cov["tlc_runs"].append({"config": "gen:" + name, "mode": "exhaustive" if exhaustive else "simulate",
                              "cases": len(res.cases), "states_generated": res.generated,
                              "distinct_states": res.distinct, "wall_s": round(res.wall, 1)})
    if exhaustive:
        c.cov["states"] += res.distinct
        c.cov["transitions"] += res.generated
    return res.cases


# --------------------------------------------------------------------------- store cases (KVIterGen)
ITER_DEFAULTS = dict(StoreKeys="{1, 2}", TsSet="1..2", Kinds='{"val", "del"}', MaxVersions="2", Contiguous="FALSE",
                     OnePerKey="FALSE",
                     ReadTs="0", Now="5", NSrc="6", NMixed="3", PendKeys="{}", PendKinds='{"val", "del"}',
                     MaxPend="0", Queries="{NoOpts}")


def query_set(seeks, sinces, prefixes, keyiters=(), internal=False, dirs=("FALSE", "TRUE"), alls=("FALSE", "TRUE")):
    """TLA+ expression for a set of iterator option records: the product of directions,
    AllVersions, SinceTs values, seek keys (0 = Rewind) with: no prefix / opt.Prefix = p /
    ValidForPrefix(p) for p in prefixes; NewKeyIterator(k) for k in keyiters; and, if
    internal, InternalAccess on for the prefix-less combinations."""
    rec = ('[rev |-> r, all |-> a, since |-> s, pfx |-> %s, pmode |-> %s, seek |-> k, internal |-> %s]')
    dom = "r \\in {%s}, a \\in {%s}, s \\in %s, k \\in %s" % (", ".join(dirs), ", ".join(alls), tla_set(sinces), tla_set(seeks))
    parts = ["{" + rec % ("0", '"none"', "FALSE") + " : " + dom + "}"]
    if prefixes:
        parts.append("{" + rec % ("p", "m", "FALSE") + " : " + dom + ', p \\in %s, m \\in {"opt", "valid"}}' % tla_set(prefixes))
    if keyiters:
        parts.append('{[rev |-> r, all |-> TRUE, since |-> s, pfx |-> p, pmode |-> "key", seek |-> k, internal |-> FALSE]'
                     " : r \\in {%s}, s \\in %s, p \\in %s, k \\in {0} \\cup %s}" % (", ".join(dirs), tla_set(sinces), tla_set(keyiters), tla_set(keyiters)))
    if internal:
        parts.append("{" + rec % ("0", '"none"', "TRUE") + " : " + dom + "}")
    return " \\cup ".join(parts)


def gen_store(c, name, consts, workers=4, timeout=3000, check_theorems=True):
    """Run KVIterGen exhaustively; returns store cases grouped by store: each has the runs
    (pending sequence + gets + queries) generated for it."""
    d = vlib.stage_specs(["kv"])
    full = dict(KV_DEFAULTS)
    for k in ("Txns", "MaxTs", "MaxNow", "Managed", "UMs", "Exps", "Discs", "IterDirs", "Feat"):
        full.pop(k)
    full.update(ITER_DEFAULTS)
    full.update(consts)
    if full.get("Pre") is None:
        full["Pre"] = "{<<k, k>> : k \\in (%s)}" % full["Keys"]
    inv = ["Emit"] + (["Theorems", "IterGetAgree"] if check_theorems else [])
    write_model(d, "IGen", "KVIterGen", full, "GenSpec", inv)
    res = vlib.run_tlc(d, "IGen", "IGen.cfg", timeout=timeout, workers=workers)
    if res.violation or not res.ok:
        raise Inconclusive("KVIterGen %s failed: %s %s" % (name, res.violation, res.error_trace[:3000]))
    c.cov["tlc_runs"].append({"config": "itergen:" + name, "mode": "exhaustive", "cases": len(res.cases),
                              "states_generated": res.generated, "distinct_states": res.distinct,
                              "wall_s": round(res.wall, 1), "theorems_checked": check_theorems})
    c.cov["states"] += res.distinct
    c.cov["transitions"] += res.generated
    groups = {}
    for cs in res.cases:
        key = json.dumps([cs["store"], cs["rts"], cs["now"]], sort_keys=True)
        g = groups.setdefault(key, {"store": cs["store"], "rts": cs["rts"], "now": cs["now"], "pl": cs["pl"],
                                    "runs": [], "baseGets": None, "baseIter": None})
        g["runs"].append({"pend": cs["pend"], "gets": cs["gets"], "q": cs["q"]})
        if not cs["pend"]:
            g["baseGets"] = cs["gets"]
            plain = [q for q in cs["q"] if q["o"] == {"rev": False, "all": False, "since": 0, "pfx": 0,
                                                      "pmode": "none", "seek": 0, "internal": False}]
            g["baseIter"] = plain[0]["r"] if plain else None
    out = []
    for g in groups.values():
        if g["baseGets"] is None:
            raise Inconclusive("KVIterGen produced a store without its pending-free run")
        if g["baseIter"] is None:
            # plain forward iteration = keys found by Get, ascending, with the version Get reports
            g["baseIter"] = [(k + 1) * 1000 + r["ts"] for k, r in enumerate(g["baseGets"]) if r["found"]]
        out.append(g)
    return out, len(res.cases)


_DEPTH = {1: 0, 2: 1, 4: 2, 3: 3, 5: 4, 6: 5, 7: 6}   # mt, imm, l0b (newer L0 table), l0a, l1, l2, l3


def _valid_layout(store, pl):
    """LSM invariant: of two versions of a key the newer one is never deeper than the older one"""
    for i, e in enumerate(store):
        for j, f in enumerate(store):
            if e["k"] == f["k"] and e["ts"] > f["ts"] and _DEPTH[pl[i]] > _DEPTH[pl[j]]:
                return False
    return True


def layout_stage(c, tab, seed, label, quick, kinds='{"val", "del", "exp"}', parts=("all", "compact")):
    """Reads are the same whatever the physical layout: every store of <= 2 versions over 2 keys
    (versions 1..2, read at 2) under EVERY placement of its versions over 7 sources (active /
    immutable memtable, two L0 tables, L1, L2, L3) in managed mode: (A) all placements, also those
    only a value-log GC write-back can produce (older version above a newer one): Get of every key
    and plain / reverse / prefix iterators must equal the prediction; (B) the placements that respect
    the LSM order, after SetDiscardTs(2) and one level-to-next-level compaction (and, thorough, an
    L0 compaction): same predictions (ReadStableAboveDiscard)."""
    kc = key_consts(tab)
    user = [i + 1 for i, k in enumerate(tab) if not k.startswith(b"!badger!")]
    sk = user[:2]
    queries = query_set(seeks=[0] + sk, sinces=[0], prefixes=[sk[0]], alls=("FALSE",))
    cons = dict(kc, StoreKeys=tla_set(sk), TsSet="1..2", Kinds=kinds, MaxVersions="2", Contiguous="FALSE", ReadTs="2",
                Now="5", NSrc="7", NMixed="-1", Queries=queries)
    groups, n = gen_store(c, label, cons, workers=8, timeout=3000)
    stats = {}
    confs = ["managed+inmem"] if quick else ["managed+inmem", "managed+vlog"]
    nall = sum(len(g["pl"]) for g in groups)
    for conf in confs if "all" in parts else ():
        replay(c, groups, conf, seed, label + "-all-placements", keys=tab, mode="store", nproc=vlib.NCPU, collect=stats, timeout=3000)
    valid = []
    for g in groups:
        pl = [p for p in g["pl"] if _valid_layout(g["store"], p)]
        if pl:
            valid.append(dict(g, pl=pl, discardTs=2))
    nvalid = sum(len(g["pl"]) for g in valid)
    posts = (["compactDown"],) if quick else (["compactDown"], ["compactL0"], ["compactL0", "compactDown"])
    for post in posts if "compact" in parts else ():
        for g in valid:
            g["post"] = post
        for conf in confs:
            replay(c, valid, conf, seed, label + "-then-" + "+".join(post), keys=tab, mode="store", nproc=vlib.NCPU,
                   collect=stats, timeout=3000)
    c.cov["layout_stage"] = {"stores": len(groups), "placements_all": nall, "placements_respecting_lsm_order": nvalid,
                             "gets_compared": stats.get("get", 0), "iterator_runs_compared": stats.get("query", 0),
                             "compactions_run": stats.get("compactDown", 0) + stats.get("compactL0", 0)}
    c.cov["layout_stage"]["parts"] = list(parts)
    if "compact" in parts and stats.get("compactDown", 0) == 0:
        raise Inconclusive("layout stage ran no compaction")
    return ((nall if "all" in parts else 0) + (nvalid if "compact" in parts else 0)) * len(confs)


def replay(c, cases, config, seed, label, timeout=3600, nproc=None, keys=None, mode="hist", flags=(),
           cwd=None, sig_prefix="kv", max_report=3, collect=None, tmpdir=None):
    """Replay cases with kvreplay under a DB configuration; report mismatches as violations
    (after re-running the failing case once from a clean state).
    keys: concretisation table (list of bytes) passed through -keys; flags: extra kvreplay flags;
    collect: optional dict receiving aggregated per-case statistics."""
    if not cases:
        raise Inconclusive("no cases generated for " + label)
    binp = vlib.go_build("cmd/kvreplay")
    d = vlib.scratch("kvcases-")
    inp = os.path.join(d, "cases.ndjson")
    with open(inp, "w") as f:
        for h in cases:
            f.write(json.dumps(h) + "\n")
    base = [binp, "-config", config, "-seed", str(seed), "-mode", mode] + list(flags)
    if keys is not None:
        base += ["-keys", keys_arg(d, keys)]
    nproc = nproc or min(vlib.NCPU, max(1, len(cases) // 20))
    procs = []
    env = vlib.goenv()
    env["TMPDIR"] = tmpdir or d
    for s in range(nproc):
        out = open(os.path.join(d, "res%d.ndjson" % s), "w")
        cmd = base + ["-in", inp, "-shard", str(s), "-nshards", str(nproc)]
        if "-trace" in flags:
            k = cmd.index("-trace")
            cmd[k + 1] = cmd[k + 1] + ".%d" % s
        p = subprocess.Popen(cmd, stdout=out, stderr=subprocess.PIPE, env=env, cwd=cwd)
        procs.append((p, out))
    t0 = time.time()
    results = []
    for s, (p, out) in enumerate(procs):
        try:
            _, err = p.communicate(timeout=max(1, timeout - (time.time() - t0)))
        except subprocess.TimeoutExpired:
            for q, _ in procs:
                q.kill()
            raise Inconclusive("kvreplay timed out (%s, config %s)" % (label, config))
        out.close()
        if p.returncode != 0:
            raise Inconclusive("kvreplay failed rc=%s (%s, config %s): %s" % (
                p.returncode, label, config, err.decode("utf-8", "replace")[-2000:]))
        for line in open(os.path.join(d, "res%d.ndjson" % s)):
            results.append(json.loads(line))
    if len(results) != len(cases):
        raise Inconclusive("kvreplay returned %d results for %d cases" % (len(results), len(cases)))
    bad = [r for r in results if not r["ok"]]
    envs, stats = {}, {}
    for r in results:
        for k, v in (r.get("env") or {}).items():
            envs[k] = envs.get(k, 0) + v
        for k, v in (r.get("stats") or {}).items():
            stats[k] = stats.get(k, 0) + v
        for k in ("fsEvents", "scanFiles", "scanBytes", "scanHits"):
            if k in r:
                stats[k] = stats.get(k, 0) + r[k]
    if collect is not None:
        for k, v in list(envs.items()) + list(stats.items()):
            collect[k] = collect.get(k, 0) + v
    c.cov["engines"].append({"replay": label, "config": config, "cases": len(results),
                             "mismatches": len(bad), "env_steps_executed": envs, "stats": stats,
                             "wall_s": round(time.time() - t0, 1)})
    per_sig = {}
    for r in bad:
        per_sig[r["sig"]] = per_sig.get(r["sig"], 0) + 1
        if per_sig[r["sig"]] > max_report:
            continue
        case = cases[r["case"]]
        # confirm once more from a clean DB to rule out harness noise
        again = rerun_one(base, case, d, cwd)
        if again is None or again.get("ok"):
            log("mismatch did not reproduce on re-run, ignoring:", r.get("sig"))
            c.cov.setdefault("unreproduced", 0)
            c.cov["unreproduced"] += 1
            continue
        sig = "%s:%s op=%s" % (sig_prefix, r["sig"], r.get("op", "?"))
        extra = classify(case, r) if mode == "hist" else ""
        if extra:
            sig += " " + extra
        c.violation(sig, {"config": config, "step": r.get("step"), "detail": r.get("detail")},
                    {"config": config, "seed": seed, "mode": mode, "flags": list(flags), "case": case,
                     "keys": [k.decode("latin-1") for k in keys] if keys else None,
                     "replay_cmd": "kvreplay"})
    return results


def rerun_one(base, case, d, cwd=None):
    inp = os.path.join(d, "one.ndjson")
    with open(inp, "w") as f:
        f.write(json.dumps(case) + "\n")
    env = vlib.goenv()
    env["TMPDIR"] = d
    cmd = list(base)
    if "-trace" in cmd:
        k = cmd.index("-trace")
        del cmd[k:k + 2]
    rc, out, err, _ = vlib.run(cmd + ["-in", inp], timeout=1200, env=env, cwd=cwd)
    if rc != 0 or not out.strip():
        return None
    return json.loads(out.strip().splitlines()[0])


def classify(case, r):
    """Input-class tags appended to a violation signature so that known findings can be
    matched narrowly."""
    tags = []
    step = r.get("step", -1)
    prefix = case[:step + 1] if isinstance(step, int) and step >= 0 else case
    # managed mode: some key written at an older version after a newer one (documented
    # limitation "never write an older timestamp for the same key")
    newest = {}
    older_later = False
    pend = {}
    for s in prefix:
        if s["op"] in ("set", "del"):
            pend.setdefault(s["t"], set()).add(s["k"])
        if s["op"] == "commitAt" and s.get("res") == "ok":
            for k in pend.get(s["t"], ()):
                if k in newest and s["cts"] < newest[k]:
                    older_later = True
                newest[k] = max(newest.get(k, 0), s["cts"])
    if older_later:
        tags.append("older-version-written-later")
    if any(s["op"] in ("commit", "commitAt") and s.get("res") in ("blocked", "closed") for s in prefix):
        tags.append("after-rejected-commit")
    # a value-log GC rewrite (which writes live entries back through the write path, i.e. copies an
    # old version into the newest memtable) followed by a compaction
    gc_at = [i for i, s in enumerate(prefix) if s["op"] == "env" and s["what"] == "gc"]
    if gc_at and any(s["op"] == "env" and (s["what"].startswith("compact") or s["what"] == "reopenCompact")
                     for s in prefix[gc_at[0] + 1:]):
        tags.append("gc-then-compaction")
    return " ".join(tags)


# --------------------------------------------------------------------------- trace validation (Threshold)
def validate_threshold_trace(c, trace_files, label, timeout=2400):
    """Concatenate the per-shard decision traces and validate them with TLC against
    specs/kv/ThresholdTrace.tla. Returns (#lines, #segments, rejected_line_or_None)."""
    d = vlib.stage_specs(["kv"])
    n = segs = puts = decides = 0
    with open(os.path.join(d, "trace.ndjson"), "w") as out:
        for tf in trace_files:
            if not os.path.exists(tf):
                continue
            for line in open(tf):
                if line.strip():
                    out.write(line)
                    n += 1
                    segs += '"ev":"reset"' in line
                    puts += '"ev":"put"' in line
                    decides += '"ev":"decide"' in line
    if n == 0:
        raise Inconclusive("no decision trace recorded (%s)" % label)
    write_model(d, "ThrTrace", "ThresholdTrace", {}, "TraceSpec", constraint="HighWater", postcondition="Accepted")
    res = vlib.run_tlc(d, "ThrTrace", "ThrTrace.cfg", workers=1, timeout=timeout, dfs_queue=True)
    c.cov["tlc_runs"].append({"config": "trace:" + label, "mode": "trace-validation", "lines": n, "segments": segs,
                              "put_events": puts, "vlog_decide_events": decides, "distinct_states": res.distinct, "wall_s": round(res.wall, 1),
                              "ok": res.ok})
    if res.ok:
        c.cov["states"] += res.distinct
        c.cov["transitions"] += res.generated
        return n, segs, puts, None
    m = re.search(r'<<\s*"REJECTED_AT",\s*(\d+),\s*(.*?)>>\s*\n', res.out, re.S)
    if res.violation == "postcondition" or m:
        return n, segs, puts, (int(m.group(1)), " ".join(m.group(2).split())[:400]) if m else (-1, res.out[-600:])
    if res.timeout:
        raise Inconclusive("trace validation timed out (%s)" % label)
    raise Inconclusive("trace validation failed to run (%s): %s" % (label, (res.error_trace or res.out)[-2000:]))


def build_badger_cli():
    """Build the production `badger` command (badger/cmd, used for `badger rotate`) from the
    repository under test."""
    alt = vlib.REPO.rstrip("/") != "/repo"
    bindir = os.path.join(vlib.ROOT, ".bin") if not alt else os.path.join(
        vlib.ROOT, ".bin-" + hashlib.sha1(vlib.REPO.encode()).hexdigest()[:8])
    os.makedirs(bindir, exist_ok=True)
    out = os.path.join(bindir, "badger-cli")
    p = subprocess.run(["go", "build", "-o", out, "./badger"], cwd=vlib.REPO, env=vlib.goenv(),
                       stdout=subprocess.PIPE, stderr=subprocess.STDOUT, text=True)
    if p.returncode != 0:
        raise Inconclusive("go build ./badger failed:\n%s" % p.stdout[-3000:])
    return out


def tree_hash(root):
    """names, sizes and content hashes of everything below root"""
    out = {}
    for dp, dns, fns in os.walk(root):
        for n in dns:
            out[os.path.relpath(os.path.join(dp, n), root) + "/"] = "dir"
        for n in fns:
            p = os.path.join(dp, n)
            try:
                b = open(p, "rb").read()
                out[os.path.relpath(p, root)] = "%d:%s" % (len(b), hashlib.sha256(b).hexdigest()[:16])
            except OSError as e:
                out[os.path.relpath(p, root)] = "unreadable:%s" % e
    return out


def op_histogram(cases):
    h = {}
    for cs in cases:
        for s in cs:
            k = s["op"]
            if k in ("commit", "commitAt"):
                k += ":" + s["res"]
            elif k == "env":
                k += ":" + s["what"]
            elif k == "scan":
                k += ":" + s["via"]
            h[k] = h.get(k, 0) + 1
    return dict(sorted(h.items()))


# --------------------------------------------------------------------------- shared shapes
ENV_ALL = ["flush", "compactL0", "compactL0L0", "compactDown", "gc"]


def hist_consts(table, **over):
    """Constants of a BadgerKVGen run over a concretisation table (with or without the
    reserved-prefix key): transactions write the first non-reserved keys."""
    kc = key_consts(table)
    user = [i + 1 for i, k in enumerate(table) if not k.startswith(b"!badger!")]
    base = dict(kc, Txns="1..8", MaxTs="8", MaxNow="3", Managed="FALSE", UMs="{0, 7}", Exps="{0}",
                Discs="{FALSE}", IterDirs="{FALSE, TRUE}", HistLen="30", MaxOps="3", MaxActive="3",
                WriteKeys=tla_set(user[:3]), SeekKeys=tla_set(user[:5]))
    base.update(over)
    return base


def iter_templates(table, rich=True):
    """Iterator option templates over a table: plain, reverse, AllVersions, SinceTs, prefix
    through opt.Prefix / ValidForPrefix, key iterator, InternalAccess."""
    user = [i + 1 for i, k in enumerate(table) if not k.startswith(b"!badger!")]
    p = user[0]
    t = [tla_opts(), tla_opts(rev=True), tla_opts(all=True), tla_opts(since=1)]
    if rich:
        t += [tla_opts(pfx=p, pmode="opt"), tla_opts(pfx=p, pmode="valid", rev=True), tla_opts(pfx=p, pmode="opt", rev=True),
              tla_opts(pfx=user[1], pmode="key", all=True), tla_opts(all=True, rev=True, since=2),
              tla_opts(pfx=user[1], pmode="valid"), tla_opts(internal=True), tla_opts(all=True, internal=True)]
    return tla_seq(t)


def oracle_stage(c, prop):
    """Hook for the commit-pipeline (Oracle) module, which adds true concurrency."""
    if os.environ.get("VERIF_KV_SKIP_ORACLE_STAGE"):   # development aid only; never set by bin/check
        log("oracle stage skipped on request")
        return
    try:
        import lib_oracle
    except ImportError:
        return
    lib_oracle.stage(c, prop)


def hist_key(h):
    return json.dumps(h, sort_keys=True)


def nontrivial(h, need_ops):
    ops = set()
    for s in h:
        ops.add(s["op"] + (":" + s["res"] if s["op"] in ("commit", "commitAt") else ""))
    return all(o in ops for o in need_ops)


def short(h, n=40):
    def items(rs):
        return ",".join("k%d:%s@%d" % (x["k"], "del" if x["res"].get("del") else "v%d" % x["res"]["val"], x["res"]["ts"]) for x in rs)

    def optstr(o):
        if not o:
            return ""
        parts = ["rev" if o["rev"] else "fwd"]
        if o["all"]:
            parts.append("all")
        if o["since"]:
            parts.append("since=%d" % o["since"])
        if o["pmode"] != "none":
            parts.append("%s=k%d" % (o["pmode"], o["pfx"]))
        parts.append("seek=k%d" % o["seek"] if o["seek"] else "rewind")
        if o["internal"]:
            parts.append("internal")
        return ",".join(parts)
    out = []
    for s in h[:n]:
        o = s["op"]
        if o in ("begin", "beginAt"):
            out.append("%s(t%d,%s,rts=%d)" % (o, s["t"], "rw" if s["upd"] else "ro", s["readTs"]))
        elif o == "get":
            r = s["res"]
            out.append("get(t%d,k%d)=%s" % (s["t"], s["k"], ("v%d@%d" % (r["val"], r["ts"])) if r["found"] else "nil"))
        elif o == "set":
            out.append("set(t%d,k%d,v%d%s%s)" % (s["t"], s["k"], s["val"], ",exp=%d" % s["exp"] if s["exp"] else "",
                                                 ",um=%d" % s["um"] if s["um"] else ""))
        elif o in ("del", "setBig"):
            out.append("%s(t%d,k%d)" % (o, s["t"], s["k"]))
        elif o in ("commit", "commitAt"):
            out.append("%s%s(t%d)=%s@%d" % (o, "With" if s.get("cb") else "", s["t"], s["res"], s["cts"]))
        elif o == "iter":
            out.append("iter(t%d,%s)=[%s]" % (s["t"], optstr(s.get("o")) or ("from k%d" % s["from"]), items(s["res"])))
        elif o == "iterOpen":
            out.append("newIterator(t%d,%s)" % (s["t"], optstr(s.get("o"))))
        elif o == "iterRun":
            out.append("iterate(t%d)=[%s]" % (s["t"], items(s["res"])))
        elif o in ("scan", "dump"):
            out.append("%s%s=[%s]" % (o, ":" + s["via"] if o == "scan" else "", items(s["res"])))
        elif o == "env":
            out.append("ENV:" + s["what"])
        elif o == "tick":
            out.append("tick->%d" % s["now"])
        elif o == "setDiscardTs":
            out.append("setDiscardTs(%d)" % s["ts"])
        else:
            out.append(o + "(t%s)" % s.get("t"))
    return " ; ".join(out)
