"""KV family: BadgerKV contract spec (specs/kv) -> TLC model checking, TLC-generated API
histories (BadgerKVGen) -> replay against the real DB (harness/cmd/kvreplay)."""
import json, os, subprocess, sys, time
sys.path.insert(0, os.path.join(os.path.dirname(os.path.abspath(__file__)), "..", "tools"))
import vlib
from vlib import Inconclusive, log


def write_cfg(path, spec, consts, invariants=(), properties=(), constraint=None):
    with open(path, "w") as f:
        f.write("SPECIFICATION %s\nCONSTANTS\n" % spec)
        for k, v in consts.items():
            f.write("  %s = %s\n" % (k, v))
        if invariants:
            f.write("INVARIANTS %s\n" % " ".join(invariants))
        if properties:
            f.write("PROPERTIES %s\n" % " ".join(properties))
        if constraint:
            f.write("CONSTRAINT %s\n" % constraint)


def tla_set(xs):
    def one(x):
        if isinstance(x, bool):
            return "TRUE" if x else "FALSE"
        if isinstance(x, str):
            return '"%s"' % x
        return str(x)
    return "{" + ", ".join(one(x) for x in xs) + "}"


MC_DEFAULT = dict(Keys="{1, 2}", Txns="{1, 2}", MaxTs="2", MaxNow="1", Managed="FALSE",
                  UMs="{0}", Exps="{0}", Discs="{FALSE}", IterDirs="{FALSE}")


def model_check(c, name, consts, invariants, properties=(), bound="nval <= 3", timeout=900, workers=None):
    """Exhaustive TLC on the contract module with the given constants."""
    d = vlib.stage_specs(["kv"])
    with open(os.path.join(d, "KVMC.tla"), "w") as f:
        f.write("---- MODULE KVMC ----\nEXTENDS BadgerKV\nBound == %s\n====\n" % bound)
    write_cfg(os.path.join(d, "KVMC.cfg"), "Spec", consts, invariants, properties, "Bound")
    res = vlib.run_tlc(d, "KVMC", "KVMC.cfg", timeout=timeout, workers=workers)
    c.add_tlc(name, res)
    vlib.require_tlc_ok(res, "BadgerKV/" + name)
    return res


def generate(c, name, consts, num, depth, seed, workers=4, timeout=600, exhaustive=False):
    """Run BadgerKVGen; returns list of histories (lists of step dicts)."""
    d = vlib.stage_specs(["kv"])
    write_cfg(os.path.join(d, "Gen.cfg"), "GenSpec", consts, ["Emit"])
    if exhaustive:
        res = vlib.run_tlc(d, "BadgerKVGen", "Gen.cfg", timeout=timeout, workers=workers)
    else:
        res = vlib.run_tlc(d, "BadgerKVGen", "Gen.cfg", timeout=timeout, workers=workers,
                           simulate=max(1, num // workers), depth=depth + 1, seed=seed)
    if res.violation or (not res.ok):
        raise Inconclusive("generator %s failed: %s %s" % (name, res.violation, res.error_trace[:2000]))
    c.cov["tlc_runs"].append({"config": "gen:" + name, "mode": "exhaustive" if exhaustive else "simulate",
                              "cases": len(res.cases), "states_generated": res.generated,
                              "distinct_states": res.distinct, "wall_s": round(res.wall, 1)})
    if exhaustive:
        c.cov["states"] += res.distinct
        c.cov["transitions"] += res.generated
    return res.cases


def replay(c, cases, config, seed, label, timeout=1200, nproc=None):
    """Replay histories with kvreplay under a DB configuration; report mismatches."""
    if not cases:
        raise Inconclusive("no cases generated for " + label)
    binp = vlib.go_build("cmd/kvreplay")
    d = vlib.scratch("kvcases-")
    inp = os.path.join(d, "cases.ndjson")
    with open(inp, "w") as f:
        for h in cases:
            f.write(json.dumps(h) + "\n")
    nproc = nproc or min(vlib.NCPU, max(1, len(cases) // 20))
    procs = []
    env = vlib.goenv()
    env["TMPDIR"] = d
    for s in range(nproc):
        out = open(os.path.join(d, "res%d.ndjson" % s), "w")
        p = subprocess.Popen([binp, "-in", inp, "-config", config, "-seed", str(seed),
                              "-shard", str(s), "-nshards", str(nproc)], stdout=out,
                             stderr=subprocess.PIPE, env=env)
        procs.append((p, out))
    t0 = time.time()
    results = []
    for s, (p, out) in enumerate(procs):
        try:
            _, err = p.communicate(timeout=max(1, timeout - (time.time() - t0)))
        except subprocess.TimeoutExpired:
            for q, _ in procs:
                q.kill()
            raise Inconclusive("kvreplay timed out (%s, config %s)" % (label, config))
        out.close()
        if p.returncode != 0:
            raise Inconclusive("kvreplay failed rc=%s (%s, config %s): %s" % (
                p.returncode, label, config, err.decode("utf-8", "replace")[-2000:]))
        for line in open(os.path.join(d, "res%d.ndjson" % s)):
            results.append(json.loads(line))
    if len(results) != len(cases):
        raise Inconclusive("kvreplay returned %d results for %d cases" % (len(results), len(cases)))
    bad = [r for r in results if not r["ok"]]
    envs = {}
    for r in results:
        for k, v in (r.get("env") or {}).items():
            envs[k] = envs.get(k, 0) + v
    c.cov["engines"].append({"replay": label, "config": config, "cases": len(results),
                             "mismatches": len(bad), "env_steps_executed": envs,
                             "wall_s": round(time.time() - t0, 1)})
    per_sig = {}
    for r in bad:
        per_sig[r["sig"]] = per_sig.get(r["sig"], 0) + 1
        if per_sig[r["sig"]] > 3:
            continue
        case = cases[r["case"]]
        # confirm once more from a clean DB to rule out harness noise
        again = rerun_one(binp, case, config, seed, d)
        if again is None or again.get("ok"):
            log("mismatch did not reproduce on re-run, ignoring:", r.get("sig"))
            c.cov.setdefault("unreproduced", 0)
            c.cov["unreproduced"] += 1
            continue
        sig = "kv:%s:%s" % (config.split("+")[0] if False else "", r["sig"])
        sig = "kv:%s op=%s" % (r["sig"], r.get("op", "?"))
        c.violation(sig, {"config": config, "step": r.get("step"), "detail": r.get("detail")},
                    {"config": config, "seed": seed, "history": case, "replay_cmd": "kvreplay"})
    return results


def rerun_one(binp, case, config, seed, d):
    inp = os.path.join(d, "one.ndjson")
    with open(inp, "w") as f:
        f.write(json.dumps(case) + "\n")
    env = vlib.goenv()
    env["TMPDIR"] = d
    rc, out, err, _ = vlib.run([binp, "-in", inp, "-config", config, "-seed", str(seed)], timeout=120, env=env)
    if rc != 0 or not out.strip():
        return None
    return json.loads(out.strip().splitlines()[0])


def hist_key(h):
    return json.dumps(h, sort_keys=True)


def nontrivial(h, need_ops):
    ops = set()
    for s in h:
        ops.add(s["op"] + (":" + s["res"] if s["op"] in ("commit", "commitAt") else ""))
    return all(o in ops for o in need_ops)


def short(h, n=40):
    out = []
    for s in h[:n]:
        o = s["op"]
        if o in ("begin", "beginAt"):
            out.append("%s(t%d,%s,rts=%d)" % (o, s["t"], "rw" if s["upd"] else "ro", s["readTs"]))
        elif o == "get":
            r = s["res"]
            out.append("get(t%d,k%d)=%s" % (s["t"], s["k"], ("v%d@%d" % (r["val"], r["ts"])) if r["found"] else "nil"))
        elif o == "set":
            out.append("set(t%d,k%d,v%d%s)" % (s["t"], s["k"], s["val"], ",exp" if s["exp"] else ""))
        elif o == "del":
            out.append("del(t%d,k%d)" % (s["t"], s["k"]))
        elif o in ("commit", "commitAt"):
            out.append("%s(t%d)=%s@%d" % (o, s["t"], s["res"], s["cts"]))
        elif o == "iter":
            out.append("iter(t%d,from k%d,%s)=[%s]" % (s["t"], s["from"], "rev" if s["rev"] else "fwd",
                       ",".join("k%d:v%d" % (x["k"], x["res"]["val"]) for x in s["res"])))
        elif o == "env":
            out.append("ENV:" + s["what"])
        elif o == "tick":
            out.append("tick->%d" % s["now"])
        else:
            out.append(o + "(t%s)" % s.get("t"))
    return " ; ".join(out)
