#!/usr/bin/env python3
"""C02 — read-write transactions are serializable (SSI conflict detection).
spec : specs/kv/BadgerKV.tla  (Commit guard, Serializable, RejectedOnlyOnOverlap)
MC   : exhaustive TLC over all interleavings of 2 (quick) / 3 (thorough) transactions on 2 keys
bind : TLC-generated API histories (exhaustive for short lengths + seeded simulation with
       environment steps) replayed against the real DB; every Commit outcome and every read
       must equal the specification's prediction."""
import os, sys, random
sys.path.insert(0, os.path.dirname(os.path.abspath(__file__)))
import lib_kv as K
import vlib

INV = ["TypeOK", "UniqueTs", "AtomicVisibility", "Serializable", "RejectedOnlyOnOverlap"]


def body(c):
    q = c.quick
    # 1. design level: the Commit guard is exactly what makes commit-ts order a serial order
    mc = dict(K.MC_DEFAULT)
    mc.update(IterDirs="{FALSE}")
    if q:
        K.model_check(c, "2txn-2key", mc, INV, ["SnapshotStable", "TsMonotone"], bound="nval <= 4", timeout=300)
    else:
        mc3 = dict(mc, Txns="{1, 2, 3}")
        K.model_check(c, "3txn-2key", mc3, INV, ["SnapshotStable", "TsMonotone"], bound="nval <= 3", timeout=1500)
    # 2. exhaustive short histories of two overlapping read-write transactions (no
    #    environment steps: conflict detection does not depend on storage), in-memory replay
    gen = dict(Keys="{1, 2}", Txns="{1, 2}", MaxTs="3", MaxNow="1", Managed="FALSE", UMs="{0}", Exps="{0}",
               Discs="{FALSE}", IterDirs="{FALSE}", HistLen="6", EnvSteps="{}", MaxOps="2", MaxActive="2")
    if not q:
        gen["HistLen"] = "7"
    cases = K.generate(c, "exhaustive-2txn", gen, 0, 0, c.seed, workers=8, exhaustive=True, timeout=900)
    total = len(cases)
    if q:
        rnd = random.Random(c.seed)
        cases = rnd.sample(cases, min(len(cases), 12000))
    K.replay(c, cases, "inmem", c.seed, "exhaustive-2txn", nproc=vlib.NCPU)
    keys = set(K.hist_key(h) for h in cases if K.nontrivial(h, ["commit:ok"]))
    nconf = sum(1 for h in cases if K.nontrivial(h, ["commit:conflict"]))
    c.cov["exhaustive_histories_total"] = total
    c.cov["histories_with_conflict"] = nconf
    # 3. seeded simulation: longer histories, up to 3 concurrent transactions out of 8, with
    #    flush / compaction / GC / reopen steps interposed; on-disk configurations
    sim = dict(Keys="{1, 2, 3}", Txns="{1, 2, 3, 4, 5, 6, 7, 8}", MaxTs="8", MaxNow="3", Managed="FALSE",
               UMs="{0, 7}", Exps="{0}", Discs="{FALSE}", IterDirs="{FALSE, TRUE}", HistLen="30",
               EnvSteps=K.tla_set(["flush", "compactL0", "compactDown", "gc", "reopen"]), MaxOps="3", MaxActive="3")
    n = 1500 if q else 30000
    sims = K.generate(c, "sim-8txn", sim, n, 30, c.seed, workers=4)
    for conf in (["vlog"] if q else ["default", "vlog", "l3+vlog", "enc+vlog"]):
        K.replay(c, sims, conf, c.seed, "sim-8txn")
    # 4. managed mode: caller-chosen (also non-monotonic) commit timestamps; the conflict rule is the same
    msim = dict(Keys="{1, 2, 3}", Txns="{1, 2, 3, 4, 5, 6}", MaxTs="6", MaxNow="1", Managed="TRUE",
                UMs="{0}", Exps="{0}", Discs="{FALSE}", IterDirs="{FALSE}", HistLen="24",
                EnvSteps=K.tla_set(["flush"]), MaxOps="3", MaxActive="3")
    msims = K.generate(c, "sim-managed", msim, 1200 if q else 20000, 24, c.seed + 5, workers=4)
    K.replay(c, msims, "managed", c.seed, "sim-managed")
    c.cov["managed_histories"] = len(msims)
    keys |= set(K.hist_key(h) for h in sims if K.nontrivial(h, ["commit:ok"]))
    nconf += sum(1 for h in sims if K.nontrivial(h, ["commit:conflict"]))
    c.cov["histories_with_conflict"] = nconf
    c.add_cases(len(cases) + len(sims) * (1 if q else 4) + len(msims), keys, traces=len(cases) + len(sims) + len(msims))
    c.cov["rule"] = ("histories are behaviours of BadgerKVGen (TLC exhaustive for length %s with 2 transactions, "
                     "TLC -simulate for length 30); a history is non-trivial when at least one transaction commits "
                     "writes; distinct = distinct step sequences" % gen["HistLen"])
    c.cov["exhaustive"] = not q
    for h in [h for h in sims if K.nontrivial(h, ["commit:conflict"])][:2] + cases[:1]:
        c.sample(K.short(h))
    c.assumptions += ["key fingerprints (z.MemHash) of the concretised keys are distinct (checked at harness start)",
                      "API calls of different transactions are issued from one goroutine (true concurrency of the "
                      "commit pipeline is covered by the Oracle specification, C34/C03)"]


vlib.main("C02", "model_checking", body)
