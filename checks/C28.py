#!/usr/bin/env python3
"""C28 - writes validate keys and sizes deterministically; accepted transactions fit.
spec : specs/sm1/TxnSize.tla (checkSize vs sendToWriteCh with the code's constants, AcceptedFits,
       BudgetCovers; Validate/Accepts/Readable for the validation rules)
MC   : exhaustive TLC over entry mixes placed at chosen distances from the limits, commit
       timestamps with 1..20 digits
bind : TxnSizeGen cases (constants = the limits measured on the opened DB) replayed: every write's
       answer and the budget after it, Commit must succeed, accepted entries read back;
       TxnValidGen cases: error class of every write / read per key and value class."""
import os, sys, random, json
sys.path.insert(0, os.path.dirname(os.path.abspath(__file__)))
import lib_sm1 as L
import vlib

KEYCLASSES = ["empty", "reserved", "reservedExact", "nearReserved", "max", "over", "plain", "short", "bannedLong", "bannedExact"]
VALCLASSES = ["none", "small", "thr", "thrOver", "vlfs", "vlfsOver"]


def probe(binp, args):
    rc, out, err, _ = vlib.run([binp, "-probe"] + args, timeout=120)
    if rc != 0:
        raise vlib.Inconclusive("sm1size -probe failed: " + err[-1000:])
    return json.loads(out.strip().splitlines()[-1])


def size_consts(lim, reserve, klens, fixed, dists, digits, maxadds, inmem=False):
    return L.K(MaxSize=lim["maxBatchSize"], MaxCount=lim["maxBatchCount"], Threshold=lim["threshold"], InMem=inmem, Reserve=reserve,
               KLens=klens, FixedV=fixed, Dists=dists, Digits=digits, MaxAdds=maxadds)


def short_size(h):
    return " ".join(("add(k=%d,v=%d)=%s[size=%d,count=%d]" % (s["k"], s["v"], s["res"], s["size"], s["count"])) if s["op"] == "add"
                    else "commit(digits=%d)=%s%s" % (s["d"], s["res"], " real=%d" % s["real"] if s["tight"] else "") for s in h)


def short_valid(h):
    out = []
    for s in h:
        if s["op"] in ("set", "del"):
            out.append("%s(%s,%s)=%s" % (s["op"], s["kc"], s["vc"], s["res"]))
        elif s["op"] == "readall":
            out.append("read{" + ",".join("%s:%s" % (k, v["res"]) for k, v in sorted(s["gets"].items()) if v["res"] != "notfound") + "}")
        else:
            out.append(s["op"])
    return " ".join(out)


def crash_sig(inmem):
    def f(case, stderr):
        if inmem and any(s["op"] == "set" and s["vc"] == "thr" and s["res"] == "ok" for s in case):
            return "sm1:valid inmem=true crash after accepted value of length = value threshold"
        return "sm1:valid inmem=%s crash" % str(inmem).lower()
    return f


def crash_class(inmem):
    def f(case):
        if inmem and any(s["op"] == "set" and s["vc"] == "thr" and s["res"] == "ok" for s in case):
            return "thr-accepted-inmem"
        return None
    return f


def body(c):
    q = c.quick
    rnd = random.Random(c.seed)
    binp = vlib.go_build("cmd/sm1size")
    # ---- 1. design level, with the limits of a DB with a 4000 byte memtable (600 bytes / 6 entries)
    small = ["-memtable", "4000"]
    lim = probe(binp, small)
    c.cov["measured_limits"] = {"memtable=4000": lim}
    intended = 11 + 8 + 2 + 20
    mcK = size_consts(lim, intended, [1, 12], [0, 7, lim["threshold"]], [0, 1, 2, 3, 4, 21, 41], [1, 2, 3, 10, 20], 3 if q else 5)
    L.mc(c, "TxnSize", "reserve41", mcK, ["TypeOK", "AcceptedFits", "BudgetCovers"], timeout=900)
    # in-memory mode: no value log, values up to and including the threshold are budgeted and sent inline
    imargs = ["-memtable", "8000", "-vthreshold", "300", "-inmem"]
    limi = probe(binp, imargs)
    c.cov["measured_limits"]["inmem memtable=8000 thr=300"] = limi
    thr = limi["threshold"]
    L.mc(c, "TxnSize", "inmem-reserve41", size_consts(limi, intended, [1, 12], [0, thr - 1, thr, thr + 1], [0, 1, 2, 21],
                                                        [1, 3, 20], 4 if q else 5, inmem=True),
         ["TypeOK", "AcceptedFits", "BudgetCovers"], timeout=900)
    cx = L.expect_counterexample(c, "TxnSize", "reserve21", dict(mcK, Reserve="21"), "AcceptedFits")
    c.cov["reserve21_counterexample_found"] = bool(cx.violation)
    if not cx.violation:
        raise vlib.Inconclusive("Reserve=21 no longer violates AcceptedFits in the model")
    # ---- 2. size accounting cases, constants measured on the DB the cases are replayed on
    total, keys, tight = 0, set(), 0
    confs = [("m4000-thrmax", small, [1, 12], [0, 7], [0, 1, 2, 3, 21], 3 if q else 4),
             ("m4000-thr32", small + ["-vthreshold", "32"], [1, 12], [0, 31, 32, 400], [0, 1, 2], 3 if q else 4),
             ("m16000", ["-memtable", "16000"], [1], [0, 7], [0, 1, 2, 3, 4, 5, 21], 3 if q else 4)]
    if q:
        confs = confs[:1] + confs[2:]
    confs.append(("inmem-m8000-thr300", imargs, [1], [0, thr - 1, thr, thr + 1], [0, 1], 4 if q else 5))
    for name, args, klens, fixed, dists, maxadds in confs:
        inmem = "-inmem" in args
        lim2 = probe(binp, args)
        c.cov["measured_limits"][name] = lim2
        k = size_consts(lim2, lim2["reserve"], klens, [v for v in fixed if v < lim2["maxBatchSize"]] + [lim2["threshold"]],
                        dists, [1, 2, 3, 10, 20] if not inmem else [1, 3, 20], maxadds, inmem=inmem)
        allcases = L.gen(c, "TxnSizeGen", name, k, timeout=900)
        c.cov.setdefault("size_cases_generated", {})[name] = len(allcases)
        for dbmode, digs in (("managed", [1, 2, 3, 10, 20]), ("plain", [1, 2, 3])):
            cases = [h for h in allcases if h[-1]["d"] in digs]
            cap = 3000 if q else 20000
            if len(cases) > cap:
                t = [h for h in cases if h[-1]["tight"]]
                o = [h for h in cases if not h[-1]["tight"]]
                nt = min(len(t), cap // 2)
                cases = rnd.sample(t, nt) + rnd.sample(o, min(len(o), cap - nt))
            if dbmode == "plain":
                cases.sort(key=lambda h: h[-1]["d"])
            L.replay(c, "cmd/sm1size", cases, ["-mode", "size"] + args + (["-managed"] if dbmode == "managed" else []),
                     "size-%s-%s" % (name, dbmode), timeout=1500, nproc=min(L.NP, 8), max_per_sig=1)
            total += len(cases)
            tight += sum(1 for h in cases if h[-1]["tight"])
            keys |= set(short_size(h) for h in cases if len(h) >= 2)
            c.cov["size_cases_with_value_length_equal_threshold_inmem"] = c.cov.get("size_cases_with_value_length_equal_threshold_inmem", 0) + \
                (sum(1 for h in cases if any(s["op"] == "add" and s["v"] == lim2["threshold"] and s["res"] == "ok" for s in h)) if inmem else 0)
            if dbmode == "managed" and name == "m4000-thrmax":
                for h in [h for h in cases if h[-1]["tight"]][:1] + [h for h in cases if len(h) >= 4][:1]:
                    c.sample(short_size(h))
    c.cov["size_cases_where_real_request_exceeds_limit"] = tight
    # ---- 3. validation rules
    vtotal = 0
    for nso, inmem, thr in ((3, False, 64), (-1, False, 64), (0, True, 64), (3, True, 2048)):
        if q and (nso, inmem, thr) in ((-1, False, 64), (3, True, 2048)):
            continue
        k = L.K(NsOffset=nso if nso >= 0 else 1000, InMemory=inmem, Thr=thr, VlogFileSize=1 << 20, KeyClasses=KEYCLASSES, ValClasses=VALCLASSES,
                MaxWrites=2)
        if q:   # seeded sample of the behaviours (TLC -simulate); the thorough tier enumerates all of them
            cases = L.gen(c, "TxnValidGen", "ns%d-%s-thr%d" % (nso, "inmem" if inmem else "disk", thr), k,
                          invariants=("Emit", "RefusedInvisible"), timeout=300, simulate=900, depth=8, seed=c.seed)
            cases = list({json.dumps(h, sort_keys=True): h for h in cases}.values())
        else:
            cases = L.gen(c, "TxnValidGen", "ns%d-%s-thr%d" % (nso, "inmem" if inmem else "disk", thr), k,
                          invariants=("Emit", "RefusedInvisible"), timeout=900)
        c.cov.setdefault("valid_cases_generated", {})["ns%d-inmem%s-thr%d" % (nso, inmem, thr)] = len(cases)
        cap = 600 if q else (6000 if inmem else 3000)
        if len(cases) > cap:
            cases = rnd.sample(cases, cap)
        args = ["-mode", "valid", "-nsoffset", str(nso), "-vthreshold", str(thr)] + (["-inmem"] if inmem else [])
        L.replay(c, "cmd/sm1size", cases, args, "valid-ns%d-%s-thr%d" % (nso, "inmem" if inmem else "disk", thr), timeout=1500,
                 crash_sig=crash_sig(inmem), crash_class=crash_class(inmem), max_per_sig=1)
        vtotal += len(cases)
        keys |= set(short_valid(h) for h in cases if any(s["op"] in ("set", "del") and s["res"] != "ok" for s in h))
        if not inmem and nso == 3:
            for h in cases:
                if any(s["op"] == "set" and s["res"] == "banned" for s in h):
                    c.sample(short_valid(h))
                    break
    c.add_cases(total + vtotal, keys, traces=total + vtotal)
    c.cov["rule"] = ("size cases: TLC-enumerated sequences of up to %d writes (key length x value length, values either fixed or chosen "
                     "so that the budget lands 0..41 bytes below maxBatchSize) + Commit at a timestamp with 1..20 digits, for three "
                     "DB configurations; validation cases: optional ban, up to 2 writes over 10 key classes x 6 value classes, commit, "
                     "optional ban, read of every key class; non-trivial = at least one write followed by commit / at least one refused "
                     "write; distinct = distinct step sequences" % (3 if q else 4))
    c.cov["exhaustive"] = False   # sequences are enumerated by TLC, replays above the caps are seeded samples
    c.assumptions += ["the limits (maxBatchSize, maxBatchCount, value threshold, bytes reserved for the end marker) are read from the opened DB "
                      "and given to TLC as constants; the accounting formulas themselves are the specification's",
                      "one transaction writes distinct keys (a key overwritten inside a transaction is charged twice by checkSize but sent once; "
                      "that only makes the budget more conservative)"]


vlib.main("C28", "model_checking", body)
