package vh

import (
	"bufio"
	"encoding/json"
	"flag"
	"os"
)

// CaseResult is one line of a replayer's output.
type CaseResult struct {
	Case   int            `json:"case"`
	OK     bool           `json:"ok"`
	Sig    string         `json:"sig,omitempty"`
	Detail interface{}    `json:"detail,omitempty"`
	Info   map[string]int `json:"info,omitempty"` // measured facts about the run (counts), summed by the check
}

// CaseFlags are the flags every replayer of generated cases understands.
type CaseFlags struct {
	In      string
	Shard   int
	NShards int
	Seed    int64
}

// RegisterCaseFlags registers -in, -shard, -nshards, -seed on the default flag set.
func RegisterCaseFlags() *CaseFlags {
	f := &CaseFlags{}
	flag.StringVar(&f.In, "in", "", "NDJSON file, one case per line")
	flag.IntVar(&f.Shard, "shard", 0, "shard index")
	flag.IntVar(&f.NShards, "nshards", 1, "number of shards")
	flag.Int64Var(&f.Seed, "seed", 1, "seed")
	return f
}

// RunCases feeds every case of the shard to fn and writes one result line per case to stdout.
func RunCases(f *CaseFlags, fn func(idx int, raw []byte) CaseResult) {
	if f.In == "" {
		Fatalf("-in is required")
	}
	w := bufio.NewWriter(os.Stdout)
	defer w.Flush()
	idx := -1
	err := ReadNDJSON(f.In, func(line []byte) error {
		idx++
		if f.NShards > 1 && idx%f.NShards != f.Shard {
			return nil
		}
		r := fn(idx, line)
		r.Case = idx
		b, err := json.Marshal(r)
		if err != nil {
			return err
		}
		w.Write(b)
		w.WriteByte('\n')
		// one line per case, flushed at once: if the code under test takes the process down,
		// the first case of the shard without a result line is the one that did it
		return w.Flush()
	})
	if err != nil {
		w.Flush()
		Fatalf("reading %s: %v", f.In, err)
	}
}
