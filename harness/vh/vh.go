// Package vh is the shared library of the verification harness: hook recorder, gate
// scheduler, trace (NDJSON) output and small DB helpers. Standard library only.
package vh

import (
	"bufio"
	"bytes"
	"encoding/json"
	"fmt"
	"os"
	"runtime"
	"sort"
	"strconv"
	"sync"
	"time"

	badger "github.com/dgraph-io/badger/v4"
	"github.com/dgraph-io/badger/v4/y"
)

// Event is one recorded hook notification.
type Event struct {
	Seq   uint64
	Kind  byte // 'E' event, 'G' gate
	Point string
	Args  []interface{}
	G     int64 // goroutine id
}

// fieldNames gives the JSON field names of the positional hook arguments per point.
var fieldNames = map[string][]string{
	"orc.readTs.alloc":       {"readTs"},
	"orc.readTs.wait":        {"readTs"},
	"orc.readTs.ready":       {"readTs"},
	"orc.setDiscardTs":       {"ts"},
	"orc.commit.conflict":    {"txn", "readTs"},
	"orc.commit.ts":          {"txn", "readTs", "ts", "ncommitted", "lastCleanup"},
	"orc.doneRead":           {"txn", "readTs"},
	"orc.doneCommit":         {"ts"},
	"commit.start":           {"txn"},
	"commit.beforeEnqueue":   {"txn", "ts"},
	"commit.rejected":        {"txn", "ts", "err"},
	"commit.enqueued":        {"txn", "ts"},
	"commit.beforeDone":      {"ts"},
	"wm.begin":               {"name", "index"},
	"wm.done":                {"name", "index"},
	"wm.waitFast":            {"name", "index"},
	"wm.waitEnq":             {"name", "index"},
	"wm.released":            {"name", "index"},
	"wm.process":             {"name"},
	"wm.take":                {"name", "index", "done", "waiter", "doneUntil"},
	"wm.processed":           {"name", "index", "done", "waiter", "doneUntil", "nwaiters"},
	"mem.beforePut":          {"ikey"},
	"mem.put":                {"ikey", "meta", "threshold", "vlen"},
	"writer.batch":           {"n"},
	"writer.vlogDone":        {"n"},
	"writer.applied":         {"n"},
	"send.beforeChan":        {"n"},
	"mem.rotate":             {"nimm"},
	"flush.table":            {"id"},
	"flush.published":        {"id", "err"},
	"flush.done":             {"nimm"},
	"level.tables":           {"level", "op", "ids"},
	"compactor.tick":         {"cid"},
	"compact.sub":            {"cid", "this", "next", "hasOverlap", "discardTs", "left", "right"},
	"compact.beforeManifest": {"cid", "level"},
	"compact.manifest":       {"cid", "level", "new", "top", "bot"},
	"compact.beforeReplace":  {"cid", "level"},
	"compact.beforeDelete":   {"cid", "level"},
	"compact.installed":      {"cid", "level"},
	"compact.picked":         {"cid", "this", "next", "top", "bot", "inf"},
	"compact.done":           {"cid", "this"},
	"l0.stall":               {"id"},
	"gc.start":               {"fid", "gcDiscardTs"},
	"gc.scanned":             {"fid", "nwb"},
	"gc.beforeWriteBack":     {"fid", "from", "to"},
	"gc.beforeDelete":        {"fid"},
	"gc.delete":              {"fid", "now", "iters"},
	"vlog.deferredDelete":    {"n"},
	"vlog.rotate":            {"fid"},
	"threshold.update":       {"value"},
	"stream.producer":        {"thread"},
	"stream.txn":             {"thread", "readTs"},
	"fs.syncdir":             {"path"},
	"fs.sync":                {"path"},
	"fs.truncate":            {"path", "size"},
	"fs.create":              {"path"},
	"fs.remove":              {"path"},
	"fs.append":              {"path", "n"},
	"fs.rename":              {"path", "to"},
	"fs.close":               {"path", "size"},
	"dropAll.treeDropped":    {"n"},
	"dropAll.vlogDropped":    {"n"},
}

// Recorder collects hook events and implements gates.
type Recorder struct {
	mu     sync.Mutex
	events []Event
	keep   bool
	gates  map[string]*Gate
	txnIDs map[string]int
	// OnEvent, if set, is called synchronously (in the emitting goroutine) for every
	// event and gate, before gate parking.
	OnEvent func(Event)
}

// Gate is an armed schedule point.
type Gate struct {
	r      *Recorder
	point  string
	match  func(args []interface{}) bool
	mu     sync.Mutex
	parked []*parked
	armed  bool
	notify chan struct{}
}

type parked struct {
	args []interface{}
	ch   chan struct{}
	g    int64
}

func goid() int64 {
	var buf [64]byte
	n := runtime.Stack(buf[:], false)
	// "goroutine 123 ["
	b := buf[:n]
	b = bytes.TrimPrefix(b, []byte("goroutine "))
	i := bytes.IndexByte(b, ' ')
	if i < 0 {
		return -1
	}
	id, _ := strconv.ParseInt(string(b[:i]), 10, 64)
	return id
}

// Install creates a recorder and installs it as the process-wide hook handler.
func Install(keepEvents bool) *Recorder {
	r := &Recorder{keep: keepEvents, gates: map[string]*Gate{}, txnIDs: map[string]int{}}
	y.VerifSetHandler(r.handle)
	return r
}

// Uninstall removes the handler and releases every parked goroutine.
func (r *Recorder) Uninstall() {
	y.VerifSetHandler(nil)
	r.mu.Lock()
	gs := make([]*Gate, 0, len(r.gates))
	for _, g := range r.gates {
		gs = append(gs, g)
	}
	r.mu.Unlock()
	for _, g := range gs {
		g.Disarm()
	}
}

func (r *Recorder) handle(kind byte, point string, seq uint64, kv []interface{}) {
	ev := Event{Seq: seq, Kind: kind, Point: point, Args: kv, G: goid()}
	if r.keep {
		r.mu.Lock()
		r.events = append(r.events, ev)
		r.mu.Unlock()
	}
	if r.OnEvent != nil {
		r.OnEvent(ev)
	}
	if kind != 'G' {
		return
	}
	r.mu.Lock()
	g := r.gates[point]
	r.mu.Unlock()
	if g == nil {
		return
	}
	g.arrive(ev)
}

// Arm makes goroutines that reach the gate `point` (and satisfy match, if non-nil) park
// until released.
func (r *Recorder) Arm(point string, match func(args []interface{}) bool) *Gate {
	g := &Gate{r: r, point: point, match: match, armed: true, notify: make(chan struct{}, 1024)}
	r.mu.Lock()
	r.gates[point] = g
	r.mu.Unlock()
	return g
}

func (g *Gate) arrive(ev Event) {
	g.mu.Lock()
	if !g.armed || (g.match != nil && !g.match(ev.Args)) {
		g.mu.Unlock()
		return
	}
	p := &parked{args: ev.Args, ch: make(chan struct{}), g: ev.G}
	g.parked = append(g.parked, p)
	g.mu.Unlock()
	select {
	case g.notify <- struct{}{}:
	default:
	}
	<-p.ch
}

// NumParked returns how many goroutines are parked at the gate.
func (g *Gate) NumParked() int {
	g.mu.Lock()
	defer g.mu.Unlock()
	return len(g.parked)
}

// WaitParked waits until at least n goroutines are parked at the gate.
func (g *Gate) WaitParked(n int, timeout time.Duration) bool {
	deadline := time.Now().Add(timeout)
	for {
		if g.NumParked() >= n {
			return true
		}
		rem := time.Until(deadline)
		if rem <= 0 {
			return false
		}
		select {
		case <-g.notify:
		case <-time.After(minDur(rem, 2*time.Millisecond)):
		}
	}
}

func minDur(a, b time.Duration) time.Duration {
	if a < b {
		return a
	}
	return b
}

// ParkedArgs returns the arguments of the i-th parked goroutine.
func (g *Gate) ParkedArgs(i int) []interface{} {
	g.mu.Lock()
	defer g.mu.Unlock()
	if i >= len(g.parked) {
		return nil
	}
	return g.parked[i].args
}

// Release lets the first parked goroutine satisfying sel (nil = first) continue.
func (g *Gate) Release(sel func(args []interface{}) bool) bool {
	g.mu.Lock()
	defer g.mu.Unlock()
	for i, p := range g.parked {
		if sel == nil || sel(p.args) {
			g.parked = append(g.parked[:i], g.parked[i+1:]...)
			close(p.ch)
			return true
		}
	}
	return false
}

// ReleaseG lets the goroutine with id g continue, if it is parked at this gate.
func (g *Gate) ReleaseG(id int64) bool {
	g.mu.Lock()
	defer g.mu.Unlock()
	for i, p := range g.parked {
		if p.g == id {
			g.parked = append(g.parked[:i], g.parked[i+1:]...)
			close(p.ch)
			return true
		}
	}
	return false
}

// ParkedG reports whether goroutine id is parked at this gate.
func (g *Gate) ParkedG(id int64) bool {
	g.mu.Lock()
	defer g.mu.Unlock()
	for _, p := range g.parked {
		if p.g == id {
			return true
		}
	}
	return false
}

// Disarm stops parking at this gate and releases everything parked.
func (g *Gate) Disarm() {
	g.mu.Lock()
	g.armed = false
	ps := g.parked
	g.parked = nil
	g.mu.Unlock()
	for _, p := range ps {
		close(p.ch)
	}
}

// Events returns the recorded events ordered by sequence number.
func (r *Recorder) Events() []Event {
	r.mu.Lock()
	out := append([]Event(nil), r.events...)
	r.mu.Unlock()
	sort.Slice(out, func(i, j int) bool { return out[i].Seq < out[j].Seq })
	return out
}

// Reset drops recorded events.
func (r *Recorder) Reset() {
	r.mu.Lock()
	r.events = nil
	r.mu.Unlock()
}

// TxnID maps a *badger.Txn (as passed in hook args) to a small stable integer.
func (r *Recorder) TxnID(t *badger.Txn) int {
	k := badger.VerifTxnID(t)
	r.mu.Lock()
	defer r.mu.Unlock()
	id, ok := r.txnIDs[k]
	if !ok {
		id = len(r.txnIDs) + 1
		r.txnIDs[k] = id
	}
	return id
}

// ToJSON converts an event to a flat JSON-able map using fieldNames.
func (r *Recorder) ToJSON(ev Event) map[string]interface{} {
	m := map[string]interface{}{"seq": ev.Seq, "ev": ev.Point, "g": ev.G}
	names := fieldNames[ev.Point]
	for i, a := range ev.Args {
		name := "a" + strconv.Itoa(i)
		if i < len(names) {
			name = names[i]
		}
		m[name] = r.conv(name, a)
	}
	return m
}

func (r *Recorder) conv(name string, a interface{}) interface{} {
	switch v := a.(type) {
	case *badger.Txn:
		return r.TxnID(v)
	case []byte:
		if name == "ikey" && len(v) >= 8 {
			return map[string]interface{}{"k": string(y.ParseKey(v)), "ts": y.ParseTs(v)}
		}
		return string(v)
	case error:
		if v == nil {
			return ""
		}
		return v.Error()
	case nil:
		return ""
	case []uint64:
		out := make([]uint64, len(v))
		copy(out, v)
		return out
	case byte:
		return int(v)
	default:
		return v
	}
}

// WriteNDJSON writes objects one per line.
func WriteNDJSON(path string, objs []map[string]interface{}) error {
	f, err := os.Create(path)
	if err != nil {
		return err
	}
	w := bufio.NewWriter(f)
	for _, o := range objs {
		b, err := json.Marshal(o)
		if err != nil {
			return err
		}
		w.Write(b)
		w.WriteByte('\n')
	}
	if err := w.Flush(); err != nil {
		return err
	}
	return f.Close()
}

// ReadNDJSON reads one JSON value per line into out (a pointer to a slice is built by caller).
func ReadNDJSON(path string, each func(line []byte) error) error {
	f, err := os.Open(path)
	if err != nil {
		return err
	}
	defer f.Close()
	sc := bufio.NewScanner(f)
	sc.Buffer(make([]byte, 1<<20), 1<<28)
	for sc.Scan() {
		b := bytes.TrimSpace(sc.Bytes())
		if len(b) == 0 {
			continue
		}
		if err := each(append([]byte(nil), b...)); err != nil {
			return err
		}
	}
	return sc.Err()
}

// SmallOptions returns options suited to model-sized experiments: tiny memtables and
// tables, no background compactors unless asked, quiet logger.
func SmallOptions(dir string) badger.Options {
	o := badger.DefaultOptions(dir)
	o.Logger = nil
	o.MemTableSize = 1 << 20
	o.ValueThreshold = 1 << 10
	o.BaseTableSize = 1 << 20
	o.BaseLevelSize = 4 << 20
	o.ValueLogFileSize = 1 << 20
	o.NumCompactors = 0
	o.NumMemtables = 5
	o.NumLevelZeroTables = 50
	o.NumLevelZeroTablesStall = 100
	o.BlockCacheSize = 1 << 20
	o.IndexCacheSize = 0
	o.MetricsEnabled = false
	o.DetectConflicts = true
	o.CompactL0OnClose = false
	return o
}

// Fatalf prints and exits with status 2 (inconclusive), never 1.
func Fatalf(format string, a ...interface{}) {
	fmt.Fprintf(os.Stderr, "harness: "+format+"\n", a...)
	os.Exit(2)
}
