package vh

import (
	"bytes"
	"fmt"

	badger "github.com/dgraph-io/badger/v4"
)

// MaxStoredVersion returns the largest version of any entry physically stored in the DB
// (memtables and all tables, internal keys included).
func MaxStoredVersion(db *badger.DB) uint64 {
	ents, _ := db.VerifLayout()
	var maxV uint64
	for _, e := range ents {
		if e.Version > maxV {
			maxV = e.Version
		}
	}
	return maxV
}

// AssertNextTsAboveAll checks property C11 on a freshly opened (non-managed) DB: the next
// commit timestamp the oracle will hand out exceeds the version of every stored entry.
// Any harness (clean close, crash image, Load, StreamWriter, DropAll) can call it right
// after Open / Load / Flush.
func AssertNextTsAboveAll(db *badger.DB) error {
	st := db.VerifOracleState()
	if maxV := MaxStoredVersion(db); st.NextTxnTs <= maxV {
		return fmt.Errorf("nextTxnTs=%d but a stored entry has version %d", st.NextTxnTs, maxV)
	}
	return nil
}

// CommitProbeAboveAll commits one more write (key, val) and reads it back: the version it
// gets must exceed every version stored before, and a new reader must see it (C11,
// "commit one more write and read it back").
func CommitProbeAboveAll(db *badger.DB, key, val []byte) error {
	before := MaxStoredVersion(db)
	txn := db.NewTransaction(true)
	if err := txn.Set(key, val); err != nil {
		txn.Discard()
		return fmt.Errorf("probe Set: %v", err)
	}
	if err := txn.Commit(); err != nil {
		return fmt.Errorf("probe Commit: %v", err)
	}
	rd := db.NewTransaction(false)
	defer rd.Discard()
	item, err := rd.Get(key)
	if err != nil {
		return fmt.Errorf("probe Get after commit: %v", err)
	}
	got, err := item.ValueCopy(nil)
	if err != nil {
		return fmt.Errorf("probe value: %v", err)
	}
	if !bytes.Equal(got, val) {
		return fmt.Errorf("probe read back %q, wrote %q (a stale version shadows the new commit)", got, val)
	}
	if item.Version() <= before {
		return fmt.Errorf("probe commit got version %d, not above the stored maximum %d", item.Version(), before)
	}
	return nil
}
