package vh

// GoID returns the id of the calling goroutine (the same value the recorder stores in
// Event.G), so that a harness callback invoked by badger (ChooseKey, Send, ...) can be
// attributed to the goroutine that emitted a hook event.
func GoID() int64 { return goid() }
