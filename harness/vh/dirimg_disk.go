package vh

import (
	"os"
	"path/filepath"
)

// FileImage is the content of one file with trailing zero bytes trimmed (sparse files of the
// DB directory -- pre-sized .mem / .vlog / DISCARD -- stay cheap to copy).
type FileImage struct {
	Name string
	Size int64
	Data []byte
}

// ReadDirImage reads every regular file of dir.
func ReadDirImage(dir string) ([]FileImage, error) {
	ents, err := os.ReadDir(dir)
	if err != nil {
		return nil, err
	}
	var out []FileImage
	for _, e := range ents {
		if !e.Type().IsRegular() {
			continue
		}
		b, err := os.ReadFile(filepath.Join(dir, e.Name()))
		if err != nil {
			return nil, err
		}
		n := len(b)
		for n > 0 && b[n-1] == 0 {
			n--
		}
		out = append(out, FileImage{Name: e.Name(), Size: int64(len(b)), Data: append([]byte(nil), b[:n]...)})
	}
	return out, nil
}

// WriteDirImage materialises the files in dir (which must exist).
func WriteDirImage(dir string, files []FileImage) error {
	for _, fi := range files {
		f, err := os.Create(filepath.Join(dir, fi.Name))
		if err != nil {
			return err
		}
		if len(fi.Data) > 0 {
			if _, err := f.Write(fi.Data); err != nil {
				f.Close()
				return err
			}
		}
		if err := f.Truncate(fi.Size); err != nil {
			f.Close()
			return err
		}
		if err := f.Close(); err != nil {
			return err
		}
	}
	return nil
}

// CutFile returns the image of a file cut at byte x: fill "trunc" = the rest is missing,
// "zero" = the bytes from x up to end are zero and the length is unchanged.
func CutFile(fi FileImage, x, end int64, fill string) FileImage {
	full := make([]byte, fi.Size)
	copy(full, fi.Data)
	out := FileImage{Name: fi.Name}
	if fill == "trunc" {
		out.Size = x
		full = full[:x]
	} else {
		out.Size = fi.Size
		for i := x; i < end && i < int64(len(full)); i++ {
			full[i] = 0
		}
	}
	n := len(full)
	for n > 0 && full[n-1] == 0 {
		n--
	}
	out.Data = full[:n]
	return out
}
