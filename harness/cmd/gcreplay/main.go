// gcreplay forces VLogGCGen schedules (specs/lsm/VLogGCGen.tla) on a real DB: writes whose
// values go to the value log, deletes, discard-watermark moves, full compactions, the phases
// of one value-log rewrite (scan | write-back | file deletion, separated with the verif gates
// gc.scanned / gc.beforeDelete), a request parked between vlog.write and writeToLSM (gate
// mem.beforePut), open iterators and items held by an open transaction. After every step all
// reads at or above the discard watermark are compared with what the contract says (Ideal),
// and every held item must still yield its value.
package main

import (
	"bytes"
	"encoding/json"
	"flag"
	"fmt"
	"os"
	"time"

	badger "github.com/dgraph-io/badger/v4"

	"verifharness/vh"
)

type Row struct {
	K  int   `json:"k"`
	At []int `json:"at"`
}

type Exp struct {
	DiscardTs uint64 `json:"discardTs"`
	Unsettled struct {
		K  int    `json:"k"`
		Ts uint64 `json:"ts"`
	} `json:"unsettled"`
	Ideal []Row `json:"ideal"`
}

type Step struct {
	Op  string `json:"op"`
	K   int    `json:"k"`
	F   int    `json:"f"`
	Exp Exp    `json:"exp"`
}

type mismatch struct {
	Sig    string      `json:"sig"`
	Detail interface{} `json:"detail"`
}

const stepTimeout = 20 * time.Second

// real timestamp = model timestamp + tsOff (the filler of the deep variant lives at version 1)
const tsOff = 10

var keyNames = []string{"", "ka", "kb", "kc"}

func value(k int, ts uint64) []byte {
	v := []byte(fmt.Sprintf("value-of-%s@%d-", keyNames[k], ts))
	for len(v) < 100 {
		v = append(v, 'x')
	}
	return v
}

type heldItem struct {
	txn  *badger.Txn
	item *badger.Item
	k    int
	ts   uint64
}

func runCase(steps []Step, deep bool) (int, *mismatch) {
	dir, err := os.MkdirTemp("", "gcreplay-")
	if err != nil {
		vh.Fatalf("%v", err)
	}
	defer os.RemoveAll(dir)
	rec := vh.Install(false)
	defer rec.Uninstall()
	o := vh.SmallOptions(dir)
	o.MaxLevels = 2
	if deep {
		// three levels and a tiny BaseLevelSize: once the last level holds a table the base level
		// moves up, so that later compactions target a level that is NOT the last one
		o.MaxLevels = 3
		o.BaseLevelSize = 64
	}
	o.ValueThreshold = 32
	o.ValueLogMaxEntries = 1 // rotate once a file holds two records (FileCap = 2)
	o.NumVersionsToKeep = 1
	db, err := badger.OpenManaged(o)
	if err != nil {
		return 0, &mismatch{"open.error", err.Error()}
	}
	defer db.Close()
	if deep {
		txn := db.NewTransactionAt(1, true)
		if err := txn.Set([]byte("zz-filler"), []byte("f")); err != nil {
			return 0, &mismatch{"harness.filler", err.Error()}
		}
		if err := txn.CommitAt(1, nil); err != nil {
			return 0, &mismatch{"harness.filler", err.Error()}
		}
		txn.Discard()
		if err := db.VerifFlush(); err != nil {
			return 0, &mismatch{"harness.filler", err.Error()}
		}
		if err := db.VerifDoCompact(1, 0, 1.0, 1.0); err != nil {
			return 0, &mismatch{"harness.filler", err.Error()}
		}
	}
	var nextTs uint64 = 1 + tsOff
	// model fid -> real fid: learnt when a record is written (the file that was current)
	realFid := map[int]uint32{}
	var putDone chan error
	var gcDone chan error
	var gScanned, gBeforeDelete, gBeforePut *vh.Gate
	var iterTxn *badger.Txn
	var iter *badger.Iterator
	var held []heldItem
	defer func() {
		for _, g := range []*vh.Gate{gScanned, gBeforeDelete, gBeforePut} {
			if g != nil {
				g.Disarm()
			}
		}
		if putDone != nil {
			<-putDone
		}
		if gcDone != nil {
			select {
			case <-gcDone:
			case <-time.After(stepTimeout):
			}
		}
		if iter != nil {
			iter.Close()
			iterTxn.Discard()
		}
		for _, h := range held {
			h.txn.Discard()
		}
	}()
	commit := func(k int, del bool, ts uint64) error {
		txn := db.NewTransactionAt(ts, true)
		defer txn.Discard()
		var err error
		if del {
			err = txn.Delete([]byte(keyNames[k]))
		} else {
			err = txn.Set([]byte(keyNames[k]), value(k, ts))
		}
		if err != nil {
			return err
		}
		return txn.CommitAt(ts, nil)
	}
	// qualifiers that make the signatures of deviations specific to the schedule class
	inflightAtScan := false         // a request was between vlog.write and writeToLSM when GC scanned
	delBeforeScan := map[int]bool{} // keys whose delete was committed before the GC scan
	deleted := map[int]bool{}
	compactInWindow := false // a compaction ran between the GC scan and its write-back
	inWindow := false
	for i, s := range steps {
		switch s.Op {
		case "putVlog":
			_, _, maxFid := db.VerifVlogFids()
			if _, ok := realFid[s.F]; !ok {
				realFid[s.F] = maxFid
			}
			ts := nextTs
			nextTs++
			gBeforePut = rec.Arm("mem.beforePut", nil)
			putDone = make(chan error, 1)
			go func(k int, ts uint64, ch chan error) { ch <- commit(k, false, ts) }(s.K, ts, putDone)
			if !gBeforePut.WaitParked(1, stepTimeout) {
				return i, &mismatch{"harness.putNotParked", nil}
			}
		case "putMem":
			gBeforePut.Disarm()
			select {
			case err := <-putDone:
				if err != nil {
					return i, &mismatch{"put.error", err.Error()}
				}
			case <-time.After(stepTimeout):
				return i, &mismatch{"put.hang", "commit did not return after the writer was released"}
			}
			putDone, gBeforePut = nil, nil
		case "del":
			ts := nextTs
			nextTs++
			deleted[s.K] = true
			if err := commit(s.K, true, ts); err != nil {
				return i, &mismatch{"del.error", err.Error()}
			}
		case "discard":
			db.SetDiscardTs(s.Exp.DiscardTs + tsOff)
		case "compact":
			if inWindow {
				compactInWindow = true
			}
			if err := db.VerifFlush(); err != nil {
				return i, &mismatch{"flush.error", err.Error()}
			}
			for n := 0; n < 20; n++ {
				err := db.VerifDoCompact(1, 0, 1.0, 1.0)
				if err == badger.ErrVerifNoFill {
					break
				}
				if err != nil {
					return i, &mismatch{"compact.error", err.Error()}
				}
			}
		case "gcScan":
			inflightAtScan = putDone != nil
			delBeforeScan = map[int]bool{}
			for k := range deleted {
				delBeforeScan[k] = true
			}
			inWindow, compactInWindow = true, false
			fid, ok := realFid[s.F]
			if !ok {
				return i, &mismatch{"harness.unknownFid", s.F}
			}
			gScanned = rec.Arm("gc.scanned", nil)
			gBeforeDelete = rec.Arm("gc.beforeDelete", nil)
			gcDone = make(chan error, 1)
			go func(ch chan error) { ch <- db.VerifRewrite(fid) }(gcDone)
			if !gScanned.WaitParked(1, stepTimeout) {
				select {
				case err := <-gcDone:
					gcDone = nil
					return i, &mismatch{"harness.gcReturnedEarly", fmt.Sprint(err)}
				default:
				}
				return i, &mismatch{"harness.gcNotParked", nil}
			}
		case "gcWriteBack":
			inWindow = false
			gScanned.Disarm()
			if !gBeforeDelete.WaitParked(1, stepTimeout) {
				return i, &mismatch{"gc.writeBackStuck", "rewrite did not reach the deletion block"}
			}
		case "gcDelete":
			inWindow = false
			gScanned.Disarm()
			gBeforeDelete.Disarm()
			select {
			case err := <-gcDone:
				if err != nil {
					return i, &mismatch{"gc.error", err.Error()}
				}
			case <-time.After(stepTimeout):
				return i, &mismatch{"gc.hang", "rewrite did not return"}
			}
			gcDone, gScanned, gBeforeDelete = nil, nil, nil
		case "iterOpen":
			iterTxn = db.NewTransactionAt(^uint64(0), false)
			io := badger.DefaultIteratorOptions
			io.AllVersions = true
			io.PrefetchValues = false
			iter = iterTxn.NewIterator(io)
		case "iterClose":
			iter.Close()
			iterTxn.Discard()
			iter, iterTxn = nil, nil
		case "txnGet":
			txn := db.NewTransactionAt(^uint64(0), false)
			item, err := txn.Get([]byte(keyNames[s.K]))
			if err != nil {
				txn.Discard()
				return i, &mismatch{"txnGet.error", err.Error()}
			}
			held = append(held, heldItem{txn, item, s.K, item.Version()})
		case "txnEnd":
			for _, h := range held {
				h.txn.Discard()
			}
			held = nil
		default:
			vh.Fatalf("unknown op %q", s.Op)
		}
		// items of open transactions must keep yielding their value (C15, second sentence)
		for _, h := range held {
			v, err := h.item.ValueCopy(nil)
			if err != nil {
				return i, &mismatch{"item.error", fmt.Sprintf("item %s@%d from Txn.Get: %v", keyNames[h.k], h.ts, err)}
			}
			if !bytes.Equal(v, value(h.k, h.ts)) {
				q := " (item from Txn.Get of an open transaction: only iterators defer the deletion of a rewritten file)"
				return i, &mismatch{"item.valueLost" + q, fmt.Sprintf("item %s@%d obtained by Txn.Get of a still-open transaction returned %d bytes (want %d) after step %d (%s)", keyNames[h.k], h.ts, len(v), len(value(h.k, h.ts)), i, s.Op)}
			}
		}
		// an open iterator (it pins the tables it was created on) must keep yielding the value of
		// every version it shows
		if iter != nil {
			for iter.Rewind(); iter.Valid(); iter.Next() {
				it := iter.Item()
				if it.IsDeletedOrExpired() || len(it.Key()) < 2 || it.Key()[0] != 'k' {
					continue
				}
				k := 0
				for j, n := range keyNames {
					if n == string(it.Key()) {
						k = j
					}
				}
				if k == 0 {
					continue
				}
				v, err := it.ValueCopy(nil)
				if err != nil || !bytes.Equal(v, value(k, it.Version())) {
					q := ""
					if inflightAtScan {
						q = " (rewrite scanned a file while a request was between vlog.write and writeToLSM)"
					}
					return i, &mismatch{"iter.valueLost" + q, fmt.Sprintf("after step %d (%s): the open iterator shows %s@%d but its value has %d bytes (err %v): the value-log file was removed while the iterator is open", i, s.Op, it.Key(), it.Version(), len(v), err)}
				}
			}
		}
		// every read at or above the watermark must be what the contract says
		for _, row := range s.Exp.Ideal {
			for ts := 1; ts <= len(row.At); ts++ {
				if uint64(ts) < s.Exp.DiscardTs {
					continue
				}
				if s.Exp.Unsettled.K == row.K && uint64(ts) >= s.Exp.Unsettled.Ts {
					continue
				}
				want := row.At[ts-1]
				txn := db.NewTransactionAt(uint64(ts)+tsOff, false)
				item, err := txn.Get([]byte(keyNames[row.K]))
				got := 0
				var val []byte
				if err == nil {
					got = int(item.Version()) - tsOff
					val, err = item.ValueCopy(nil)
					if err != nil {
						txn.Discard()
						return i, &mismatch{"read.valueError", fmt.Sprintf("Get(%s)@%d: %v", keyNames[row.K], ts, err)}
					}
				} else if err != badger.ErrKeyNotFound {
					txn.Discard()
					return i, &mismatch{"read.error", err.Error()}
				}
				txn.Discard()
				if got != want {
					kind := "changed"
					if want == 0 {
						kind = "resurrected"
					} else if got == 0 {
						kind = "lost"
					}
					q := ""
					if kind == "resurrected" && delBeforeScan[row.K] && compactInWindow {
						q = " (delete committed before the rewrite started, compaction between its scan and write-back)"
					}
					return i, &mismatch{"read." + kind + q, fmt.Sprintf("after step %d (%s): Get(%s)@%d returns version %d, contract says %d (discardTs=%d)", i, s.Op, keyNames[row.K], ts, got, want, s.Exp.DiscardTs)}
				}
				if got != 0 && !bytes.Equal(val, value(row.K, uint64(got)+tsOff)) {
					q := ""
					if inflightAtScan {
						q = " (rewrite scanned a file while a request was between vlog.write and writeToLSM)"
					}
					return i, &mismatch{"read.emptyValue" + q, fmt.Sprintf("after step %d (%s): Get(%s)@%d finds version %d but its value has %d bytes (want %d): dangling value pointer", i, s.Op, keyNames[row.K], ts, got, len(val), len(value(row.K, uint64(got)+tsOff)))}
				}
			}
		}
	}
	return -1, nil
}

func main() {
	in := flag.String("in", "", "cases NDJSON")
	shard := flag.Int("shard", 0, "")
	nshard := flag.Int("nshards", 1, "")
	flag.Parse()
	enc := json.NewEncoder(os.Stdout)
	idx := 0
	err := vh.ReadNDJSON(*in, func(line []byte) error {
		i := idx
		idx++
		if i%*nshard != *shard {
			return nil
		}
		var cs struct {
			Deep  bool   `json:"deep"`
			Steps []Step `json:"steps"`
		}
		if err := json.Unmarshal(line, &cs); err != nil {
			return err
		}
		steps := cs.Steps
		at, m := runCase(steps, cs.Deep)
		out := map[string]interface{}{"case": i, "ok": m == nil}
		if m != nil {
			out["step"], out["sig"], out["detail"] = at, m.Sig, m.Detail
			if at >= 0 && at < len(steps) {
				out["op"] = steps[at].Op
			}
		}
		return enc.Encode(out)
	})
	if err != nil {
		vh.Fatalf("%v", err)
	}
}
