// sm1lock replays DirLockGen cases (C35).
//
// The replayer starts helper processes (itself with -lockproc) and tells them, in the order
// of the case, to open (read-write / read-only / read-only with BypassLockGuard, Dir and
// ValueDir chosen from two prepared directories) and close real badger DBs; the outcome of
// every Open (ok / refused by the directory lock) is compared with the specification's.
// -layout decides which openers live in the same helper process: "procs" (one process per
// opener) or "mixed" (openers 1 and 2 are two DB instances of one process).
//
// output: one JSON line per case (vh.CaseResult).
package main

import (
	"bufio"
	"encoding/json"
	"flag"
	"fmt"
	"io"
	"os"
	"os/exec"
	"path/filepath"
	"strings"

	badger "github.com/dgraph-io/badger/v4"

	"verifharness/vh"
)

type Step struct {
	Op     string `json:"op"`
	P      int    `json:"p"`
	Mode   string `json:"mode"`
	Dir    int    `json:"dir"`
	Vdir   int    `json:"vdir"`
	Bypass bool   `json:"bypass"`
	Res    string `json:"res"`
}

var (
	lockproc = flag.Bool("lockproc", false, "helper process mode: read commands from stdin")
	layout   = flag.String("layout", "procs", "procs | mixed")
)

func opts(dir, vdir string, ro, bypass bool) badger.Options {
	o := vh.SmallOptions(dir)
	o.ValueDir = vdir
	o.MemTableSize = 64 << 10
	o.ReadOnly = ro
	o.BypassLockGuard = bypass
	return o
}

// ---------------------------------------------------------------- helper process
func helper() {
	dbs := map[string]*badger.DB{}
	in := bufio.NewScanner(os.Stdin)
	out := bufio.NewWriter(os.Stdout)
	reply := func(s string) {
		out.WriteString(strings.ReplaceAll(s, "\n", " ") + "\n")
		out.Flush()
	}
	for in.Scan() {
		f := strings.Fields(in.Text())
		if len(f) == 0 {
			continue
		}
		switch f[0] {
		case "open": // open <slot> <rw|ro> <dir> <vdir> <bypass>
			if len(f) != 6 {
				reply("err usage")
				continue
			}
			if dbs[f[1]] != nil {
				reply("err slot in use")
				continue
			}
			db, err := badger.Open(opts(f[3], f[4], f[2] == "ro", f[5] == "true"))
			if err != nil {
				if strings.Contains(err.Error(), "Cannot acquire directory lock") {
					reply("locked " + err.Error())
				} else {
					reply("err " + err.Error())
				}
				continue
			}
			dbs[f[1]] = db
			reply("ok")
		case "close":
			db := dbs[f[1]]
			if db == nil {
				reply("err not open")
				continue
			}
			delete(dbs, f[1])
			if err := db.Close(); err != nil {
				reply("err " + err.Error())
				continue
			}
			reply("ok")
		case "quit":
			reply("ok")
			return
		default:
			reply("err unknown command")
		}
	}
}

// ---------------------------------------------------------------- replayer
type child struct {
	cmd *exec.Cmd
	in  io.WriteCloser
	out *bufio.Reader
}

func startChild() *child {
	cmd := exec.Command(os.Args[0], "-lockproc")
	cmd.Stderr = os.Stderr
	in, err := cmd.StdinPipe()
	if err != nil {
		vh.Fatalf("pipe: %v", err)
	}
	outp, err := cmd.StdoutPipe()
	if err != nil {
		vh.Fatalf("pipe: %v", err)
	}
	if err := cmd.Start(); err != nil {
		vh.Fatalf("start helper: %v", err)
	}
	return &child{cmd: cmd, in: in, out: bufio.NewReader(outp)}
}

func (c *child) call(format string, a ...interface{}) string {
	if _, err := fmt.Fprintf(c.in, format+"\n", a...); err != nil {
		vh.Fatalf("helper write: %v", err)
	}
	line, err := c.out.ReadString('\n')
	if err != nil {
		vh.Fatalf("helper died: %v", err)
	}
	return strings.TrimSpace(line)
}

func fail(sig string, detail interface{}) vh.CaseResult {
	return vh.CaseResult{OK: false, Sig: sig, Detail: detail}
}

func main() {
	f := vh.RegisterCaseFlags()
	flag.Parse()
	if *lockproc {
		helper()
		return
	}
	base, err := os.MkdirTemp("", "sm1lock-")
	if err != nil {
		vh.Fatalf("mkdtemp: %v", err)
	}
	defer os.RemoveAll(base)
	dirs := map[int]string{1: filepath.Join(base, "d1"), 2: filepath.Join(base, "d2")}
	// every directory holds a (cleanly closed, empty) database, so that read-only opens find one
	for _, d := range dirs {
		db, err := badger.Open(opts(d, d, false, false))
		if err != nil {
			vh.Fatalf("prepare %s: %v", d, err)
		}
		if err := db.Close(); err != nil {
			vh.Fatalf("prepare close: %v", err)
		}
	}
	// opener -> (helper process, slot)
	var kids []*child
	procOf := map[int]int{}
	switch *layout {
	case "procs":
		for p := 1; p <= 4; p++ {
			kids = append(kids, startChild())
			procOf[p] = p - 1
		}
	case "mixed":
		kids = append(kids, startChild(), startChild(), startChild())
		procOf = map[int]int{1: 0, 2: 0, 3: 1, 4: 2}
	default:
		vh.Fatalf("unknown layout %q", *layout)
	}
	defer func() {
		for _, k := range kids {
			k.call("quit")
			k.in.Close()
			k.cmd.Wait()
		}
	}()
	vh.RunCases(f, func(idx int, line []byte) vh.CaseResult {
		var steps []Step
		if err := json.Unmarshal(line, &steps); err != nil {
			vh.Fatalf("bad case %d: %v", idx, err)
		}
		open := map[int]bool{}
		info := map[string]int{}
		cleanup := func() {
			for p := range open {
				kids[procOf[p]].call("close %d", p)
			}
		}
		for j, s := range steps {
			k := kids[procOf[s.P]]
			det := map[string]interface{}{"step": j, "opener": s.P, "mode": s.Mode, "dir": s.Dir, "vdir": s.Vdir,
				"bypass": s.Bypass, "want": s.Res, "layout": *layout}
			switch s.Op {
			case "open":
				r := k.call("open %d %s %s %s %v", s.P, s.Mode, dirs[s.Dir], dirs[s.Vdir], s.Bypass)
				got := strings.Fields(r)[0]
				det["reply"] = r
				if got == "ok" {
					open[s.P] = true
				}
				if got == "err" {
					cleanup()
					return fail("sm1:lock Open failed for another reason than the directory lock", det)
				}
				if got != s.Res {
					cleanup()
					if got == "ok" {
						return fail("sm1:lock Open succeeded although the directory is in use ("+s.Mode+")", det)
					}
					return fail("sm1:lock Open refused although the directory is free ("+s.Mode+")", det)
				}
				info["opens_"+got]++
			case "close":
				r := k.call("close %d", s.P)
				delete(open, s.P)
				if r != "ok" {
					det["reply"] = r
					cleanup()
					return fail("sm1:lock Close failed", det)
				}
			}
		}
		cleanup()
		return vh.CaseResult{OK: true, Info: info}
	})
}
