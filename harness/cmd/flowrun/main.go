// flowrun executes Flow scenarios (specs/flow/FlowGen.tla) on a real DB configured so
// that back-pressure happens (one memtable in the flush queue, tiny memtables, level-0
// stall at 2-3 tables, >= 2 real compactors) and checks the property C38 is about: every
// public call returns. A scenario fixes the order in which client calls are *issued*
// (commit by client c, DropAll/DropPrefix, Close); each call runs in its own goroutine.
// In addition the harness keeps background callers busy for the whole scenario (reads,
// iteration, WriteBatch, RunValueLogGC, a subscriber that is cancelled at the end, one
// Flatten) - all of them must return as well.
//
// -straggler runs the deterministic schedule TLC finds for AtomicSend = FALSE: a commit is
// parked (verif gate send.beforeChan) between the blockWrites test and the channel send,
// Close runs to completion, then the commit is released.
package main

import (
	"context"
	"encoding/json"
	"flag"
	"fmt"
	"math/rand"
	"os"
	"runtime"
	"strings"
	"sync"
	"sync/atomic"
	"time"

	badger "github.com/dgraph-io/badger/v4"
	"github.com/dgraph-io/badger/v4/pb"

	"verifharness/vh"
)

type Step struct {
	Op      string `json:"op"`
	C       int    `json:"c"`
	Blocked bool   `json:"blocked"`
	During  string `json:"during"`
}

type result struct {
	Case   int            `json:"case"`
	Ok     bool           `json:"ok"`
	Sig    string         `json:"sig,omitempty"`
	Detail interface{}    `json:"detail,omitempty"`
	Stalls int            `json:"stalls"`
	Errs   map[string]int `json:"errs,omitempty"`
}

var hangAfter = 60 * time.Second

func opts(dir string, rng *rand.Rand) badger.Options {
	o := vh.SmallOptions(dir)
	o.MemTableSize = 8 << 10
	o.BaseTableSize = 8 << 10
	o.BaseLevelSize = 32 << 10
	o.NumMemtables = 1
	o.NumLevelZeroTables = 1
	o.NumLevelZeroTablesStall = 2 + rng.Intn(2)
	o.NumCompactors = 2 + rng.Intn(2)
	o.ValueThreshold = 1100 // values stay in the LSM tree so that memtables really fill up
	o.ValueLogMaxEntries = 50
	return o
}

type tracker struct {
	mu      sync.Mutex
	pending map[string]time.Time
	errs    map[string]int
	panics  []string
}

func (t *tracker) run(name string, wg *sync.WaitGroup, f func() error) {
	wg.Add(1)
	t.mu.Lock()
	t.pending[name] = time.Now()
	t.mu.Unlock()
	go func() {
		defer wg.Done()
		defer func() {
			if r := recover(); r != nil {
				t.mu.Lock()
				if e, ok := r.(error); ok && e == badger.ErrDBClosed {
					// documented: NewIterator panics with ErrDBClosed on a closed DB
					delete(t.pending, name)
					t.mu.Unlock()
					return
				}
				t.panics = append(t.panics, fmt.Sprintf("%s: %v", name, r))
				delete(t.pending, name)
				t.mu.Unlock()
			}
		}()
		err := f()
		t.mu.Lock()
		delete(t.pending, name)
		if err != nil {
			t.errs[errClass(err)]++
		}
		t.mu.Unlock()
	}()
}

func errClass(err error) string {
	s := err.Error()
	switch {
	case err == badger.ErrBlockedWrites || strings.Contains(s, "Writes are blocked"):
		return "ErrBlockedWrites"
	case err == badger.ErrDBClosed || strings.Contains(s, "DB Closed"):
		return "ErrDBClosed"
	case err == badger.ErrConflict:
		return "ErrConflict"
	case err == badger.ErrNoRewrite, err == badger.ErrRejected:
		return "gc:" + s
	case err == context.Canceled:
		return "context canceled"
	}
	return "other: " + s
}

func allowed(class string) bool {
	return class == "ErrBlockedWrites" || class == "ErrDBClosed" || class == "ErrConflict" ||
		strings.HasPrefix(class, "gc:") || class == "context canceled"
}

func runScenario(steps []Step, seed int64) (sig string, detail interface{}, stalls int, errs map[string]int) {
	rng := rand.New(rand.NewSource(seed))
	dir, err := os.MkdirTemp("", "flowrun-")
	if err != nil {
		vh.Fatalf("%v", err)
	}
	defer os.RemoveAll(dir)
	var nstall atomic.Int64
	rec := vh.Install(false)
	rec.OnEvent = func(ev vh.Event) {
		if ev.Point == "l0.stall" {
			nstall.Add(1)
		}
	}
	defer rec.Uninstall()
	// slow compactors: they are parked at their tick until the calls have been issued, so
	// that level 0 fills up, the flusher stalls and the memtable queue backs up
	slow := rng.Intn(3) > 0
	var cgate *vh.Gate
	if slow {
		cgate = rec.Arm("compactor.tick", nil)
	}
	db, err := badger.Open(opts(dir, rng))
	if err != nil {
		return "harness.open", err.Error(), 0, nil
	}
	tr := &tracker{pending: map[string]time.Time{}, errs: map[string]int{}}
	// Which calls run together follows what the API documents as allowed: reads are not
	// allowed during DropAll ("resilient to concurrent writes, but not to reads"), Flatten
	// stops and restarts the compactors itself and is not combined with a drop.
	mix := []string{"prefix", "all", "flatten"}[int(seed)%3]
	var wg sync.WaitGroup
	var closed atomic.Bool
	stop := make(chan struct{})
	val := make([]byte, 1000)
	// background callers
	ctx, cancel := context.WithCancel(context.Background())
	tr.run("Subscribe", &wg, func() error {
		err := db.Subscribe(ctx, func(*badger.KVList) error { return nil }, []pb.Match{{Prefix: []byte("k")}})
		if err == context.Canceled {
			return nil
		}
		return err
	})
	bg := func(name string, f func() error) {
		tr.run(name, &wg, func() error {
			for {
				select {
				case <-stop:
					return nil
				default:
				}
				if closed.Load() {
					return nil
				}
				if err := f(); err != nil && !allowed(errClass(err)) {
					return err
				}
				time.Sleep(time.Duration(200+rng.Intn(300)) * time.Microsecond)
			}
		})
	}
	if mix != "all" {
		bg("reader", func() error {
			return db.View(func(txn *badger.Txn) error {
				_, err := txn.Get([]byte("k1-0"))
				if err == badger.ErrKeyNotFound {
					return nil
				}
				return err
			})
		})
		bg("iterator", func() error {
			return db.View(func(txn *badger.Txn) error {
				it := txn.NewIterator(badger.DefaultIteratorOptions)
				defer it.Close()
				n := 0
				for it.Rewind(); it.Valid() && n < 50; it.Next() {
					n++
				}
				return nil
			})
		})
	}
	if mix == "flatten" {
		bg("gc", func() error { return db.RunValueLogGC(0.5) })
	}
	bg("writebatch", func() error {
		wb := db.NewWriteBatch()
		defer wb.Cancel()
		for i := 0; i < 3; i++ {
			if err := wb.Set([]byte(fmt.Sprintf("wb-%d", i)), val[:700]); err != nil {
				return err
			}
		}
		return wb.Flush()
	})
	// per-client sequential commit queues
	queues := map[int]chan int{}
	counts := map[int]int{}
	for _, s := range steps {
		if s.Op == "commit" {
			counts[s.C]++
		}
	}
	for c, n := range counts {
		q := make(chan int, n)
		queues[c] = q
		c := c
		tr.run(fmt.Sprintf("committer-%d", c), &wg, func() error {
			for i := range q {
				for b := 0; b < 6; b++ { // one issued commit = a burst of six transactions
					err := db.Update(func(txn *badger.Txn) error {
						return txn.Set([]byte(fmt.Sprintf("k%d-%d-%d", c, i, b)), val)
					})
					if err != nil && !allowed(errClass(err)) {
						return err
					}
					if err != nil {
						tr.mu.Lock()
						tr.errs[errClass(err)]++
						tr.mu.Unlock()
					}
				}
			}
			return nil
		})
	}
	issued := map[int]int{}
	flattenAt := rng.Intn(len(steps) + 1)
	for i, s := range steps {
		if i == flattenAt && mix == "flatten" && !closed.Load() {
			tr.run("Flatten", &wg, func() error { return db.Flatten(2) })
		}
		switch s.Op {
		case "commit":
			queues[s.C] <- issued[s.C]
			issued[s.C]++
		case "dropAll":
			switch mix {
			case "all":
				tr.run("DropAll", &wg, func() error { return db.DropAll() })
			case "prefix":
				tr.run("DropPrefix", &wg, func() error { return db.DropPrefix([]byte("k1"), []byte("wb")) })
			}
		case "close":
			if cgate != nil {
				cgate.Disarm() // a parked compactor cannot observe the stop signal
			}
			if s.During == "no" || s.During == "resumed" || s.During == "" {
				// the specification issued Close with no drop in progress: wait for the drop calls
				deadline := time.Now().Add(hangAfter)
				for time.Now().Before(deadline) {
					tr.mu.Lock()
					_, a := tr.pending["DropAll"]
					_, b := tr.pending["DropPrefix"]
					_, f := tr.pending["Flatten"] // Flatten runs its own compactions; Close does not wait for them
					tr.mu.Unlock()
					if !a && !b && !f {
						break
					}
					time.Sleep(200 * time.Microsecond)
				}
			}
			// the issued commits of every client are already queued; Close runs concurrently
			tr.run("Close", &wg, func() error {
				closed.Store(true)
				close(stop)
				return db.Close()
			})
		}
		time.Sleep(time.Duration(rng.Intn(1500)) * time.Microsecond)
	}
	for _, q := range queues {
		close(q)
	}
	if cgate != nil {
		time.Sleep(time.Duration(5+rng.Intn(40)) * time.Millisecond)
		cgate.Disarm()
	}
	if !closed.Load() {
		// wait for the clients, then close
		time.Sleep(5 * time.Millisecond)
	}
	done := make(chan struct{})
	go func() {
		// clients finish; then cancel the subscriber and stop background callers
		deadline := time.Now().Add(hangAfter)
		for time.Now().Before(deadline) {
			tr.mu.Lock()
			busy := false
			for n := range tr.pending {
				if strings.HasPrefix(n, "committer-") || n == "DropAll" || n == "DropPrefix" || n == "Flatten" {
					busy = true
				}
			}
			tr.mu.Unlock()
			if !busy {
				break
			}
			time.Sleep(time.Millisecond)
		}
		cancel()
		if !closed.Load() {
			closed.Store(true)
			close(stop)
			tr.run("Close", &wg, func() error { return db.Close() })
		}
		wg.Wait()
		close(done)
	}()
	select {
	case <-done:
	case <-time.After(hangAfter + 30*time.Second):
		// calls still pending: sample the pending set twice, 5 s apart; the same calls pending
		// both times (after the 60 s bound) => they do not return
		snap := func() []string {
			tr.mu.Lock()
			defer tr.mu.Unlock()
			var names []string
			for n := range tr.pending {
				names = append(names, n)
			}
			return sortedPrefix(names)
		}
		n1 := snap()
		time.Sleep(5 * time.Second)
		n2 := snap()
		d2 := dump()
		if len(n2) > 0 && strings.Join(n1, ",") == strings.Join(n2, ",") {
			when := " (no Close issued)"
			closePending := false
			for _, n := range n2 {
				if n == "Close" {
					closePending = true
				}
			}
			if closePending {
				when = " (Close pending)"
			} else if closed.Load() {
				when = " after Close returned"
			}
			return "flow:hang " + strings.Join(n2, ",") + when, map[string]interface{}{"pending": n2, "goroutines": trimDump(d2)}, int(nstall.Load()), tr.errs
		}
		return "harness.slow", n2, int(nstall.Load()), tr.errs
	}
	tr.mu.Lock()
	defer tr.mu.Unlock()
	if len(tr.panics) > 0 {
		return "flow:panic " + classifyPanic(tr.panics[0]), tr.panics, int(nstall.Load()), tr.errs
	}
	for cl := range tr.errs {
		if !allowed(cl) {
			return "flow:error " + cl, tr.errs, int(nstall.Load()), tr.errs
		}
	}
	return "", nil, int(nstall.Load()), tr.errs
}

func classifyPanic(p string) string {
	switch {
	case strings.Contains(p, "send on closed channel"):
		return "send on closed channel"
	case strings.Contains(p, "nil pointer"):
		return "nil pointer"
	}
	return "other"
}

func sortedPrefix(names []string) []string {
	m := map[string]bool{}
	for _, n := range names {
		m[strings.SplitN(n, "-", 2)[0]] = true
	}
	var out []string
	for n := range m {
		out = append(out, n)
	}
	for i := range out {
		for j := i + 1; j < len(out); j++ {
			if out[j] < out[i] {
				out[i], out[j] = out[j], out[i]
			}
		}
	}
	return out
}

func dump() string {
	buf := make([]byte, 4<<20)
	n := runtime.Stack(buf, true)
	return string(buf[:n])
}

func normalize(d string) string {
	// drop the "N minutes" annotations
	var sb strings.Builder
	for _, l := range strings.Split(d, "\n") {
		if strings.HasPrefix(l, "goroutine ") {
			if i := strings.Index(l, "["); i > 0 {
				st := l[i:]
				if j := strings.Index(st, ","); j > 0 {
					st = st[:j] + "]:"
				}
				l = l[:i] + st
			}
		}
		sb.WriteString(l + "\n")
	}
	return sb.String()
}

func trimDump(d string) string {
	if len(d) > 20000 {
		return d[:20000]
	}
	return d
}

// straggler: commit parked between the blockWrites test and the channel send while Close runs.
func runStraggler() (string, interface{}) {
	dir, err := os.MkdirTemp("", "flowrun-")
	if err != nil {
		vh.Fatalf("%v", err)
	}
	defer os.RemoveAll(dir)
	rec := vh.Install(false)
	defer rec.Uninstall()
	db, err := badger.Open(vh.SmallOptions(dir))
	if err != nil {
		return "harness.open", err.Error()
	}
	gate := rec.Arm("send.beforeChan", nil)
	res := make(chan string, 1)
	go func() {
		defer func() {
			if r := recover(); r != nil {
				res <- fmt.Sprintf("panic: %v", r)
			}
		}()
		err := db.Update(func(txn *badger.Txn) error { return txn.Set([]byte("k"), []byte("v")) })
		res <- fmt.Sprintf("returned: %v", err)
	}()
	if !gate.WaitParked(1, 10*time.Second) {
		return "harness.gateNotReached", nil
	}
	cl := make(chan error, 1)
	go func() { cl <- db.Close() }()
	select {
	case err := <-cl:
		if err != nil {
			return "flow:close error", err.Error()
		}
	case <-time.After(hangAfter):
		return "flow:hang Close", "Close did not return with a commit parked before the channel send"
	}
	gate.Disarm()
	select {
	case r := <-res:
		if strings.HasPrefix(r, "panic") {
			return "flow:panic " + classifyPanic(r) + " (commit between blockWrites test and channel send, Close in between)", r
		}
		if strings.Contains(r, "returned: <nil>") {
			return "flow:straggler commit acknowledged after Close", r
		}
		return "", r
	case <-time.After(hangAfter):
		return "flow:hang committer (commit between blockWrites test and channel send, Close in between)", "Commit never returned"
	}
}

// stragglerHang: the commit is parked between the blockWrites test and the channel send; Close
// is parked after it has stopped the writer and before it closes the channel; the commit is
// released (its request now sits in a channel nobody reads), then Close is released.
func runStragglerHang() (string, interface{}) {
	dir, err := os.MkdirTemp("", "flowrun-")
	if err != nil {
		vh.Fatalf("%v", err)
	}
	defer os.RemoveAll(dir)
	rec := vh.Install(false)
	db, err := badger.Open(vh.SmallOptions(dir))
	if err != nil {
		return "harness.open", err.Error()
	}
	sendGate := rec.Arm("send.beforeChan", nil)
	closeGate := rec.Arm("close.beforeCloseWriteCh", nil)
	res := make(chan string, 1)
	go func() {
		defer func() {
			if r := recover(); r != nil {
				res <- fmt.Sprintf("panic: %v", r)
			}
		}()
		err := db.Update(func(txn *badger.Txn) error { return txn.Set([]byte("k"), []byte("v")) })
		res <- fmt.Sprintf("returned: %v", err)
	}()
	if !sendGate.WaitParked(1, 10*time.Second) {
		return "harness.gateNotReached", "send.beforeChan"
	}
	cl := make(chan error, 1)
	go func() { cl <- db.Close() }()
	if !closeGate.WaitParked(1, 20*time.Second) {
		return "harness.gateNotReached", "close.beforeCloseWriteCh"
	}
	sendGate.Disarm() // the request goes into the channel; the writer goroutine has exited
	time.Sleep(20 * time.Millisecond)
	closeGate.Disarm()
	select {
	case err := <-cl:
		if err != nil {
			return "flow:close error", err.Error()
		}
	case <-time.After(hangAfter):
		return "flow:hang Close (Close pending)", "Close did not return"
	}
	select {
	case r := <-res:
		if strings.HasPrefix(r, "panic") {
			return "flow:panic " + classifyPanic(r) + " (commit between blockWrites test and channel send, Close in between)", r
		}
		if strings.Contains(r, "returned: <nil>") {
			return "flow:straggler commit acknowledged after Close", r
		}
		return "", r
	case <-time.After(hangAfter / 2):
		return "flow:hang committer after Close returned", "Commit never returned: its request was enqueued after the writer goroutine had exited"
	}
}

// dropStraggler: a commit that already has its timestamp is parked between the blockWrites test
// and the channel send; DropPrefix blocks writes, stops the writer and then starts a read
// transaction (filterPrefixesToDrop -> db.View) that waits for that timestamp.
func runDropStraggler() (string, interface{}) {
	dir, err := os.MkdirTemp("", "flowrun-")
	if err != nil {
		vh.Fatalf("%v", err)
	}
	defer os.RemoveAll(dir)
	rec := vh.Install(false)
	db, err := badger.Open(vh.SmallOptions(dir))
	if err != nil {
		return "harness.open", err.Error()
	}
	if err := db.Update(func(txn *badger.Txn) error { return txn.Set([]byte("p-1"), []byte("v")) }); err != nil {
		return "harness.write", err.Error()
	}
	gate := rec.Arm("send.beforeChan", nil)
	res := make(chan string, 1)
	go func() {
		defer func() {
			if r := recover(); r != nil {
				res <- fmt.Sprintf("panic: %v", r)
			}
		}()
		res <- fmt.Sprintf("returned: %v", db.Update(func(txn *badger.Txn) error { return txn.Set([]byte("q-1"), []byte("v")) }))
	}()
	if !gate.WaitParked(1, 10*time.Second) {
		return "harness.gateNotReached", nil
	}
	dp := make(chan error, 1)
	go func() { dp <- db.DropPrefix([]byte("p-")) }()
	select {
	case err := <-dp:
		gate.Disarm()
		return "", fmt.Sprintf("DropPrefix returned %v with the commit parked", err)
	case <-time.After(hangAfter / 2):
	}
	gate.Disarm() // the commit now enqueues its request; nobody reads the channel
	select {
	case err := <-dp:
		return "", fmt.Sprintf("DropPrefix returned %v after the commit was released", err)
	case <-time.After(hangAfter / 2):
	}
	select {
	case r := <-res:
		return "flow:hang DropPrefix (commit between blockWrites test and channel send, DropPrefix in between)", r
	default:
		return "flow:hang DropPrefix,committer (commit between blockWrites test and channel send, DropPrefix in between)", "DropPrefix waits in db.View for the commit's timestamp; the commit's request sits in the write channel that only DropPrefix's return would restart"
	}
}

// subLag: a subscriber whose callback is stuck until its queue (1000 batches) is full and the
// publisher is blocked in the send; then the callback fails, the subscription must end, the
// commits queued behind the publisher must finish and Close must return.
func runSubLag() (string, interface{}) {
	db, err := badger.Open(vh.SmallOptions("").WithInMemory(true))
	if err != nil {
		return "harness.open", err.Error()
	}
	hold := make(chan struct{})
	first := make(chan struct{}, 1)
	subDone := make(chan error, 1)
	go func() {
		subDone <- db.Subscribe(context.Background(), func(*badger.KVList) error {
			select {
			case first <- struct{}{}:
			default:
			}
			<-hold
			return fmt.Errorf("callback failed")
		}, []pb.Match{{Prefix: []byte("k")}})
	}()
	time.Sleep(50 * time.Millisecond)
	var n atomic.Int64
	commitsDone := make(chan struct{})
	const total = 4000
	go func() {
		defer close(commitsDone)
		for i := 0; i < total; i++ {
			if err := db.Update(func(txn *badger.Txn) error { return txn.Set([]byte(fmt.Sprintf("k%05d", i)), []byte("v")) }); err != nil {
				return
			}
			n.Add(1)
			time.Sleep(150 * time.Microsecond) // let the publisher goroutine publish every commit on its own
		}
	}()
	// wait until the commits stall (queue full, publisher blocked holding its mutex)
	last, since := int64(-1), time.Now()
	deadline := time.Now().Add(hangAfter)
	for time.Now().Before(deadline) {
		cur := n.Load()
		if cur != last {
			last, since = cur, time.Now()
		} else if cur >= 1000 && time.Since(since) > 500*time.Millisecond {
			break
		}
		if cur >= total {
			break
		}
		time.Sleep(10 * time.Millisecond)
	}
	stalledAt := n.Load()
	close(hold) // the callback returns an error: Subscribe clears active, drains, deregisters
	select {
	case <-subDone:
	case <-time.After(hangAfter / 2):
		return "flow:hang Subscribe (callback error with a full subscriber queue)", fmt.Sprintf("Subscribe did not return; commits stalled at %d", stalledAt)
	}
	select {
	case <-commitsDone:
	case <-time.After(hangAfter / 2):
		return "flow:hang committer (after a subscription with a full queue ended)", fmt.Sprintf("commits stuck at %d of %d", n.Load(), total)
	}
	cl := make(chan error, 1)
	go func() { cl <- db.Close() }()
	select {
	case <-cl:
	case <-time.After(hangAfter / 2):
		return "flow:hang Close (after a subscription with a full queue ended)", nil
	}
	return "", fmt.Sprintf("commits stalled at %d before the subscription ended", stalledAt)
}

// stallDrop: sustained back-pressure (one memtable in the flush queue, level 0 stalls at two tables,
// four committers writing continuously, real compactors) while DropAll / DropPrefix are issued
// repeatedly, then Close with the writers still running. Flow.tla: DropBlock / CloseBlock taken in
// states where flusher = "building" and l0 = L0Stall.
func runStallDrop(seed int64) (string, interface{}, int) {
	dir, err := os.MkdirTemp("", "flowrun-")
	if err != nil {
		vh.Fatalf("%v", err)
	}
	defer os.RemoveAll(dir)
	var nstall atomic.Int64
	rec := vh.Install(false)
	rec.OnEvent = func(ev vh.Event) {
		if ev.Point == "l0.stall" {
			nstall.Add(1)
		}
	}
	defer rec.Uninstall()
	o := vh.SmallOptions(dir)
	o.MemTableSize = 32 << 10
	o.BaseTableSize = 32 << 10
	o.BaseLevelSize = 128 << 10
	o.NumMemtables = 1
	o.NumLevelZeroTables = 1
	o.NumLevelZeroTablesStall = 2
	o.NumCompactors = 2
	o.ValueThreshold = 2048
	db, err := badger.Open(o)
	if err != nil {
		return "harness.open", err.Error(), 0
	}
	stop := make(chan struct{})
	var wg sync.WaitGroup
	var ncommit atomic.Int64
	val := make([]byte, 1500)
	for g := 0; g < 4; g++ {
		wg.Add(1)
		go func(g int) {
			defer wg.Done()
			defer func() { recover() }() // commits racing Close are a listed finding, not this scenario's subject
			for i := 0; ; i++ {
				select {
				case <-stop:
					return
				default:
				}
				err := db.Update(func(txn *badger.Txn) error {
					return txn.Set([]byte(fmt.Sprintf("k%d-%06d", g, i)), val)
				})
				if err == nil {
					ncommit.Add(1)
				} else if c := errClass(err); !allowed(c) {
					return
				}
			}
		}(g)
	}
	rng := rand.New(rand.NewSource(seed))
	for round := 0; round < 5; round++ {
		// let pressure build up: wait for a fresh level-0 stall (bounded)
		before := nstall.Load()
		t0 := time.Now()
		for nstall.Load() == before && time.Since(t0) < 3*time.Second {
			time.Sleep(time.Millisecond)
		}
		done := make(chan error, 1)
		name := "DropAll"
		if rng.Intn(3) == 0 {
			name = "DropPrefix"
			go func() { done <- db.DropPrefix([]byte("k1-")) }()
		} else {
			go func() { done <- db.DropAll() }()
		}
		select {
		case err := <-done:
			if err != nil && !allowed(errClass(err)) {
				return "flow:error " + name, err.Error(), int(nstall.Load())
			}
		case <-time.After(hangAfter):
			return "flow:hang " + name + " (issued while level 0 is stalled and committers keep writing)", map[string]interface{}{"round": round, "commits": ncommit.Load(), "stalls": nstall.Load(), "goroutines": trimDump(dump())}, int(nstall.Load())
		}
	}
	cl := make(chan error, 1)
	go func() { cl <- db.Close() }()
	select {
	case <-cl:
	case <-time.After(hangAfter):
		return "flow:hang Close (issued while committers keep writing under back-pressure)", trimDump(dump()), int(nstall.Load())
	}
	close(stop)
	fin := make(chan struct{})
	go func() { wg.Wait(); close(fin) }()
	select {
	case <-fin:
	case <-time.After(hangAfter / 2):
		// committers racing Close: listed finding (straggler); not judged here
	}
	return "", fmt.Sprintf("commits=%d stalls=%d", ncommit.Load(), nstall.Load()), int(nstall.Load())
}

// closeDuringDrop: Close issued while DropAll has stopped the flusher (prepareToDrop done).
func runCloseDuringDrop() (string, interface{}) {
	dir, err := os.MkdirTemp("", "flowrun-")
	if err != nil {
		vh.Fatalf("%v", err)
	}
	defer os.RemoveAll(dir)
	rec := vh.Install(false)
	db, err := badger.Open(vh.SmallOptions(dir))
	if err != nil {
		return "harness.open", err.Error()
	}
	if err := db.Update(func(txn *badger.Txn) error { return txn.Set([]byte("k"), []byte("v")) }); err != nil {
		return "harness.write", err.Error()
	}
	reached := make(chan struct{})
	hold := make(chan struct{})
	rec.OnEvent = func(ev vh.Event) {
		if ev.Point == "drop.prepared" {
			close(reached)
			<-hold // DropAll stays here: writes blocked, writer and flusher stopped
		}
	}
	go func() {
		defer func() { recover() }()
		_ = db.DropAll()
	}()
	select {
	case <-reached:
	case <-time.After(hangAfter):
		return "flow:hang DropAll", "DropAll did not finish prepareToDrop"
	}
	res := make(chan string, 1)
	go func() {
		defer func() {
			if r := recover(); r != nil {
				res <- fmt.Sprintf("panic: %v", r)
			}
		}()
		res <- fmt.Sprintf("returned: %v", db.Close())
	}()
	select {
	case r := <-res:
		if strings.HasPrefix(r, "panic") {
			return "flow:panic " + classifyPanic(r) + " (Close while DropAll holds the flusher stopped)", r
		}
		return "", r
	case <-time.After(hangAfter):
		return "flow:hang Close (while DropAll holds the flusher stopped)", "Close never returned"
	}
}

func main() {
	in := flag.String("in", "", "scenarios NDJSON")
	seed := flag.Int64("seed", 1, "seed")
	shard := flag.Int("shard", 0, "")
	nshard := flag.Int("nshards", 1, "")
	straggler := flag.Bool("straggler", false, "run the deterministic straggler schedule")
	sh := flag.Bool("stragglerhang", false, "run the deterministic straggler schedule in which the channel is not yet closed")
	sd := flag.Bool("stalldrop", false, "run the sustained back-pressure scenario with repeated drops and Close")
	sl := flag.Bool("sublag", false, "run the lagging-subscriber schedule")
	ds := flag.Bool("dropstraggler", false, "run the deterministic DropPrefix-vs-stamped-commit schedule")
	cdd := flag.Bool("closeduringdrop", false, "run the deterministic Close-during-DropAll schedule")
	hang := flag.Int("hang", 60, "seconds after which a call counts as not returning")
	flag.Parse()
	hangAfter = time.Duration(*hang) * time.Second
	enc := json.NewEncoder(os.Stdout)
	if *straggler {
		sig, det := runStraggler()
		enc.Encode(result{Case: -1, Ok: sig == "", Sig: sig, Detail: det})
		return
	}
	if *sh {
		sig, det := runStragglerHang()
		enc.Encode(result{Case: -3, Ok: sig == "", Sig: sig, Detail: det})
		os.Exit(0)
	}
	if *sd {
		sig, det, st := runStallDrop(*seed)
		enc.Encode(result{Case: -6, Ok: sig == "", Sig: sig, Detail: det, Stalls: st})
		os.Exit(0)
	}
	if *sl {
		sig, det := runSubLag()
		enc.Encode(result{Case: -5, Ok: sig == "", Sig: sig, Detail: det})
		os.Exit(0)
	}
	if *ds {
		sig, det := runDropStraggler()
		enc.Encode(result{Case: -4, Ok: sig == "", Sig: sig, Detail: det})
		os.Exit(0)
	}
	if *cdd {
		sig, det := runCloseDuringDrop()
		enc.Encode(result{Case: -2, Ok: sig == "", Sig: sig, Detail: det})
		os.Exit(0) // DropAll is still parked; do not let it continue on a closed DB
	}
	idx := 0
	err := vh.ReadNDJSON(*in, func(line []byte) error {
		i := idx
		idx++
		if i%*nshard != *shard {
			return nil
		}
		var steps []Step
		if err := json.Unmarshal(line, &steps); err != nil {
			return err
		}
		sig, det, stalls, errs := runScenario(steps, *seed*100000+int64(i))
		return enc.Encode(result{Case: i, Ok: sig == "", Sig: sig, Detail: det, Stalls: stalls, Errs: errs})
	})
	if err != nil {
		vh.Fatalf("%v", err)
	}
}
