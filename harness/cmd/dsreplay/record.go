package main

// mode record (C16): logFile.encodeEntry / decodeEntry / writeEntry / safeRead.Entry /
// valueLog.Read against the layout RecordCodec predicts, for plain and encrypted log files,
// plus single-byte corruption of the stored record.

import (
	"bytes"
	"crypto/aes"
	"crypto/cipher"
	"encoding/binary"
	"encoding/json"
	"fmt"
	"hash/crc32"
	"path/filepath"

	badger "github.com/dgraph-io/badger/v4"

	"verifharness/vh"
)

type recCase struct {
	Kind string    `json:"kind"`
	H    hdrFields `json:"h"`
	Off  []int     `json:"off"`
	Klen int       `json:"klen"`
	Vlen int       `json:"vlen"`
	Hdr  []int     `json:"hdr"`
	Lay  struct {
		Hlen  int `json:"hlen"`
		KeyAt int `json:"keyAt"`
		ValAt int `json:"valAt"`
		CrcAt int `json:"crcAt"`
		Len   int `json:"len"`
	} `json:"lay"`
	Readable bool `json:"readable"`
}

var castagnoli = crc32.MakeTable(crc32.Castagnoli)

const recFileSize = 6 << 20

type logPair struct {
	plain, enc *badger.VerifLog
}

func openLogs(e *env, size int64, verifyChecksum bool) logPair {
	var lp logPair
	var err error
	lp.plain, err = badger.VerifNewLog(filepath.Join(e.tmp, fmt.Sprintf("p%d.vlog", verifyInt(verifyChecksum))), 7, size, nil, verifyChecksum)
	if err != nil {
		vh.Fatalf("creating plain log: %v", err)
	}
	keys := [][]byte{[]byte("0123456789abcdef"), []byte("0123456789abcdef01234567"), []byte("0123456789abcdef0123456789abcdef")}
	lp.enc, err = badger.VerifNewLog(filepath.Join(e.tmp, fmt.Sprintf("e%d.vlog", verifyInt(verifyChecksum))), 9, size, keys[int(e.seed)%3], verifyChecksum)
	if err != nil {
		vh.Fatalf("creating encrypted log: %v", err)
	}
	if !lp.enc.Encrypted() || lp.plain.Encrypted() {
		vh.Fatalf("log encryption flags wrong")
	}
	return lp
}

func verifyInt(b bool) int {
	if b {
		return 1
	}
	return 0
}

// ctrXor is the specification's Cipher(dataKey, baseIV || BigEndian32(offset), payload),
// evaluated with the standard library.
func ctrXor(key, baseIV []byte, offset uint32, data []byte) []byte {
	blk, err := aes.NewCipher(key)
	if err != nil {
		vh.Fatalf("aes: %v", err)
	}
	iv := make([]byte, 16)
	copy(iv, baseIV)
	binary.BigEndian.PutUint32(iv[12:], offset)
	out := make([]byte, len(data))
	cipher.NewCTR(blk, iv).XORKeyStream(out, data)
	return out
}

func pattern(n, salt int) []byte {
	b := make([]byte, n)
	for i := range b {
		b[i] = byte((i*197 + salt*31 + i/251) % 256)
	}
	return b
}

func newRecordRunner(e *env) func(*env, int, []byte) *Result {
	logs := openLogs(e, recFileSize, true)
	// a third log with the default Options.VerifyValueChecksum = false, only to MEASURE what point reads do
	// with altered bytes in the default configuration (reported in the evidence, not judged)
	var err error
	noVerify, err = badger.VerifNewLog(filepath.Join(e.tmp, "nv.vlog"), 11, recFileSize, nil, false)
	if err != nil {
		vh.Fatalf("creating log: %v", err)
	}
	return func(e *env, idx int, line []byte) *Result {
		r := &Result{OK: true}
		var c recCase
		if err := json.Unmarshal(line, &c); err != nil {
			r.fail("harness:bad case", err.Error())
			return r
		}
		key := pattern(c.Klen, idx+1)
		if c.Klen > 0 {
			key[0] |= 1 // a record with an empty or zero-looking key is the end-of-log marker; keep the key non-zero
		}
		val := pattern(c.Vlen, idx+7)
		meta, um, exp := byte(c.H.Meta), byte(c.H.Um), digitsToU64(c.H.Exp)
		off := uint32(digitsToU64(c.Off))
		hdr := intsToBytes(c.Hdr)
		class := fmt.Sprintf("klen=%d vlen=%d", c.Klen, c.Vlen)
		for _, lg := range []*badger.VerifLog{logs.plain, logs.enc} {
			encd := lg.Encrypted()
			tag := "plain"
			if encd {
				tag = "encrypted"
			}
			rec, n, err := lg.EncodeEntry(key, val, meta, um, exp, off)
			r.Evals++
			if err != nil {
				r.fail("ds:encodeEntry error "+tag, err.Error())
				continue
			}
			if n != c.Lay.Len || len(rec) != c.Lay.Len {
				r.fail("ds:encodeEntry length "+tag+" "+class, fmt.Sprintf("returned %d, wrote %d bytes, spec %d", n, len(rec), c.Lay.Len))
				continue
			}
			if !bytes.Equal(rec[:c.Lay.Hlen], hdr) {
				r.fail("ds:record header bytes "+tag+" "+class, fmt.Sprintf("got % x spec % x", rec[:c.Lay.Hlen], hdr))
				continue
			}
			payload := append(append([]byte{}, key...), val...)
			want := payload
			if encd {
				want = ctrXor(lg.DataKey(), lg.BaseIV(), off, payload)
			}
			r.Evals++
			if !bytes.Equal(rec[c.Lay.KeyAt:c.Lay.CrcAt], want) {
				r.fail("ds:record payload bytes "+tag+" "+class, fmt.Sprintf("offset %d: key/value bytes differ from the specified layout (first diff at %d)",
					off, firstDiff(rec[c.Lay.KeyAt:c.Lay.CrcAt], want)))
				continue
			}
			r.Evals++
			if crc := binary.BigEndian.Uint32(rec[c.Lay.CrcAt:]); crc != crc32.Checksum(rec[:c.Lay.CrcAt], castagnoli) {
				r.fail("ds:record crc "+tag+" "+class, fmt.Sprintf("stored %08x, CRC-32C of header|key|value %08x", crc, crc32.Checksum(rec[:c.Lay.CrcAt], castagnoli)))
				continue
			}
			d, err := lg.DecodeEntry(rec, off)
			r.Evals++
			if err != nil || !bytes.Equal(d.Key, key) || !bytes.Equal(d.Value, val) || d.Meta != meta || d.UserMeta != um || d.ExpiresAt != exp || d.Offset != off {
				r.fail("ds:decodeEntry round trip "+tag+" "+class, fmt.Sprintf("offset %d err=%v meta %x/%x um %x/%x exp %d/%d keyEq=%v valEq=%v off=%d",
					off, err, d.Meta, meta, d.UserMeta, um, d.ExpiresAt, exp, bytes.Equal(d.Key, key), bytes.Equal(d.Value, val), d.Offset))
				continue
			}
			if encd && len(payload) > 0 {
				// decoding at another offset must not give the entry back (the IV depends on the offset)
				d2, err := lg.DecodeEntry(rec, off^0x10)
				r.Evals++
				if err == nil && bytes.Equal(d2.Key, key) && bytes.Equal(d2.Value, val) {
					r.fail("ds:decodeEntry ignores offset "+tag, fmt.Sprintf("offset %d vs %d give the same plaintext", off, off^0x10))
				}
			}
			// in-file checks need the record at its offset inside the mmap file
			if int64(off)+int64(c.Lay.Len)+badger.VerifMaxHeaderSize+1 > recFileSize {
				r.stat("pure_only", 1)
				continue
			}
			lg.SetWriteAt(off)
			woff, wlen, err := lg.WriteEntry(key, val, meta, um, exp)
			r.Evals++
			if err != nil || woff != off || int(wlen) != c.Lay.Len || !bytes.Equal(lg.Data()[off:off+wlen], rec) {
				r.fail("ds:writeEntry "+tag+" "+class, fmt.Sprintf("err=%v off=%d len=%d spec off=%d len=%d bytesEq=%v", err, woff, wlen, off, c.Lay.Len,
					err == nil && bytes.Equal(lg.Data()[off:off+wlen], rec)))
			} else {
				recordInFile(r, lg, &c, tag, class, off, key, val, meta, um, exp, e, idx)
			}
			// wipe the record for the next case
			data := lg.Data()
			end := int(off) + c.Lay.Len + badger.VerifMaxHeaderSize
			for i := int(off); i < end && i < len(data); i++ {
				data[i] = 0
			}
		}
		return r
	}
}

var noVerify *badger.VerifLog

func firstDiff(a, b []byte) int {
	for i := 0; i < len(a) && i < len(b); i++ {
		if a[i] != b[i] {
			return i
		}
	}
	return -1
}

func recordInFile(r *Result, lg *badger.VerifLog, c *recCase, tag, class string, off uint32, key, val []byte, meta, um byte, exp uint64, e *env, idx int) {
	se, cls := lg.SafeReadAt(off)
	r.Evals++
	if c.Readable {
		if cls != "" || !bytes.Equal(se.Key, key) || !bytes.Equal(se.Value, val) || se.Meta != meta || se.UserMeta != um || se.ExpiresAt != exp ||
			se.Offset != off || se.Hlen != c.Lay.Hlen {
			r.fail("ds:safeRead.Entry round trip "+tag+" "+class, fmt.Sprintf("offset %d err=%q hlen=%d spec %d keyEq=%v valEq=%v meta=%x um=%x exp=%d",
				off, cls, se.Hlen, c.Lay.Hlen, bytes.Equal(se.Key, key), bytes.Equal(se.Value, val), se.Meta, se.UserMeta, se.ExpiresAt))
			return
		}
	} else {
		// keys longer than 64 KiB are not readable records: safeRead.Entry must ask for truncation
		if cls != "truncate" {
			r.fail("ds:safeRead.Entry accepts oversized key "+tag, fmt.Sprintf("klen=%d err=%q", c.Klen, cls))
		}
		return
	}
	v, err := lg.ReadValue(off, uint32(c.Lay.Len))
	r.Evals++
	if err != nil || !bytes.Equal(v, val) {
		r.fail("ds:valueLog.Read round trip "+tag+" "+class, fmt.Sprintf("offset %d err=%v valEq=%v", off, err, err == nil && bytes.Equal(v, val)))
		return
	}
	// single-byte corruption: every byte for small records, field boundaries plus a sample otherwise
	data := lg.Data()
	var positions []int
	if c.Lay.Len <= 400 || (e.thorough && c.Lay.Len <= 2500 && idx%5 == 0) {
		for p := 0; p < c.Lay.Len; p++ {
			positions = append(positions, p)
		}
	} else {
		for p := 0; p < c.Lay.Hlen; p++ {
			positions = append(positions, p)
		}
		for _, p := range []int{c.Lay.KeyAt, c.Lay.ValAt - 1, c.Lay.ValAt, c.Lay.CrcAt - 1, c.Lay.CrcAt, c.Lay.Len - 1,
			c.Lay.KeyAt + c.Klen/2, c.Lay.ValAt + c.Vlen/2, c.Lay.ValAt + (idx*7919)%maxInt(c.Vlen, 1)} {
			if p >= 0 && p < c.Lay.Len {
				positions = append(positions, p)
			}
		}
	}
	masks := []byte{0x01, 0x80, 0xff}
	for _, p := range positions {
		mask := masks[(p+idx+int(e.seed))%len(masks)]
		data[int(off)+p] ^= mask
		if p < c.Lay.Hlen && hugeAlloc(data[off:int(off)+c.Lay.Hlen+12]) {
			data[int(off)+p] ^= mask
			r.stat("skipped_huge_alloc", 1)
			continue
		}
		_, cls := lg.SafeReadAt(off)
		r.Evals++
		part := partOf(c, p)
		if cls == "" && part == "lengths" && crcCollision(data[off:]) {
			r.stat("crc_collisions", 1)
		} else if cls == "" {
			r.fail("ds:corrupt record returned by safeRead.Entry "+part+" "+tag,
				fmt.Sprintf("%s, byte %d (%s) xor %#x at offset %d: entry returned without error", class, p, part, mask, off))
		} else if (part == "key" || part == "value" || part == "crc" || part == "meta") && cls != "truncate" {
			r.fail("ds:corrupt record: unexpected error class "+part+" "+tag, fmt.Sprintf("%s, byte %d xor %#x: %q", class, p, mask, cls))
		}
		r.stat("corrupt_"+part+"_"+clsName(cls), 1)
		if _, err := lg.ReadValue(off, uint32(c.Lay.Len)); err == nil {
			r.fail("ds:corrupt record returned by valueLog.Read "+part+" "+tag,
				fmt.Sprintf("%s, byte %d (%s) xor %#x at offset %d: value returned with VerifyValueChecksum on", class, p, part, mask, off))
		}
		r.Evals++
		if !lg.Encrypted() && part == "value" && p%16 == 0 {
			// default configuration (no checksum on point reads): measured, not judged
			nd := noVerify.Data()
			copy(nd[off:], data[off:int(off)+c.Lay.Len])
			if v2, err := noVerify.ReadValue(off, uint32(c.Lay.Len)); err == nil && !bytes.Equal(v2, val) {
				r.stat("default_options_point_read_returned_altered_value", 1)
			} else {
				r.stat("default_options_point_read_rejected", 1)
			}
			for i := int(off); i < int(off)+c.Lay.Len; i++ {
				nd[i] = 0
			}
		}
		data[int(off)+p] ^= mask
	}
}

// hugeAlloc tells whether the (corrupted) header at rec announces a value so long that
// safeRead.Entry would allocate gigabytes before it can notice the damage (it allocates
// 2*vlen + klen+vlen bytes up front). Such corruptions are skipped and counted: they would
// only exercise the allocator (and get the harness killed), see DESIGN_ds.md.
func hugeAlloc(rec []byte) bool {
	if len(rec) < 3 {
		return false
	}
	klen, n1 := binary.Uvarint(rec[2:])
	if n1 <= 0 || uint32(klen) > 1<<16 {
		return false // rejected before any allocation
	}
	vlen, n2 := binary.Uvarint(rec[2+n1:])
	if n2 <= 0 {
		return false
	}
	if _, n3 := binary.Uvarint(rec[2+n1+n2:]); n3 <= 0 {
		return false
	}
	return uint32(vlen) > 16<<20
}

// crcCollision tells whether the bytes at rec parse as a record whose stored CRC-32C genuinely matches
// its (re-delimited) header|key|value. After a corruption of a LENGTH byte the checksummed region
// changes, so a match is possible with probability 2^-32 per experiment; such a record is accepted by
// any CRC-32 based reader and is not a deviation of the code (counted, never seen so far).
func crcCollision(rec []byte) bool {
	if len(rec) < 5 {
		return false
	}
	i := 2
	var f [3]uint64
	for x := 0; x < 3; x++ {
		v, n := binary.Uvarint(rec[i:])
		if n <= 0 {
			return false
		}
		f[x] = v
		i += n
	}
	end := i + int(uint32(f[0])) + int(uint32(f[1]))
	if end+4 > len(rec) {
		return false
	}
	return binary.BigEndian.Uint32(rec[end:]) == crc32.Checksum(rec[:end], castagnoli)
}

func clsName(c string) string {
	switch c {
	case "", "truncate", "eof", "unexpectedEOF":
		return c
	}
	return "error"
}

func maxInt(a, b int) int {
	if a > b {
		return a
	}
	return b
}

func partOf(c *recCase, p int) string {
	switch {
	case p < 2:
		return "meta"
	case p < c.Lay.Hlen:
		return "lengths"
	case p < c.Lay.ValAt:
		return "key"
	case p < c.Lay.CrcAt:
		return "value"
	}
	return "crc"
}
