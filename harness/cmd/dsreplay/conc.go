package main

// Concretisation tables: abstract user keys 1..5, abstract versions 1..3 and abstract value
// tokens of the specifications are mapped to byte strings / uint64 / y.ValueStruct chosen to be
// nasty.  Every table is sorted so that the abstract order (numeric) is the concrete order
// (bytes.Compare for user keys, numeric for versions); this is asserted at start-up.

import (
	"bytes"
	"fmt"
	"math"
	"strings"

	"github.com/dgraph-io/badger/v4/y"

	"verifharness/vh"
)

const maxU64 = math.MaxUint64

var userKeyTables [][]string
var longTable = -1 // index of the table with the 65000-byte keys

var versionTables = [][]uint64{
	{0, 1, 2},
	{1, 1 << 32, 1 << 63},
	{1 << 63, maxU64 - 1, maxU64},
	{0, 2, maxU64},
	{2, 1<<32 + 1, maxU64 - 1},
	{1<<32 - 1, 1 << 32, 1<<32 + 1},
}

func init() {
	p := strings.Repeat("p", 64998)
	userKeyTables = [][]string{
		{"a", "a\x00", "ab", "a\xff", "\xff"},
		{"\x00", "\x00\x00", "\x01", "\x7f\xff", "\xff\x00"},
		{"key", "key0", "key00", "keya", "kez"},
		{"k", "kk", "kkk", "kkkk", "kkkkk"}, // each a prefix of the next
		// keys that are the internal-key image (user key + 8 timestamp bytes) of another key
		{"a", "a\x00\x00\x00\x00\x00\x00\x00\x00", "a\xff\xff\xff\xff\xff\xff\xff\xfe", "a\xff\xff\xff\xff\xff\xff\xff\xff", "b"},
		// a long shared prefix, up to the 65000-byte limit of the API
		{p, p + "\x00", p + "\x00\xff", p + "a", "q"},
		// 8- and 16-byte keys (same length as the timestamp suffix)
		{"\x00\x00\x00\x00\x00\x00\x00\x00", "\x00\x00\x00\x00\x00\x00\x00\x00\x00\x00\x00\x00\x00\x00\x00\x00", "12345678", "\xff\xff\xff\xff\xff\xff\xff\xff", "\xff\xff\xff\xff\xff\xff\xff\xff\xff\xff\xff\xff\xff\xff\xff\xff"},
	}
	longTable = 5
	for i, t := range userKeyTables {
		for j := 1; j < len(t); j++ {
			if bytes.Compare([]byte(t[j-1]), []byte(t[j])) >= 0 {
				vh.Fatalf("user key table %d is not strictly sorted at %d", i, j)
			}
		}
		if len(t) < 5 {
			vh.Fatalf("user key table %d too short", i)
		}
	}
	for i, t := range versionTables {
		for j := 1; j < len(t); j++ {
			if t[j-1] >= t[j] {
				vh.Fatalf("version table %d is not strictly sorted", i)
			}
		}
	}
}

// conc is one concretisation of the abstract domain.
type conc struct {
	kt, vt int // table indices
	sizes  int // value size profile
	salt   int
}

func (c conc) String() string {
	return fmt.Sprintf("keys=%d vers=%d sizes=%d salt=%d", c.kt, c.vt, c.sizes, c.salt)
}

// pickConc derives a concretisation from seed, case index and variant number. Long keys are
// expensive, so that table is used for one variant in 8.
func pickConc(seed int64, idx, variant int) conc {
	h := uint64(seed)*0x9e3779b97f4a7c15 + uint64(idx)*0xbf58476d1ce4e5b9 + uint64(variant)*0x94d049bb133111eb
	h ^= h >> 29
	h *= 0xbf58476d1ce4e5b9
	h ^= h >> 32
	c := conc{salt: int(h % 251)}
	kt := int((h >> 8) % uint64(len(userKeyTables)+1))
	if kt >= len(userKeyTables) { // the extra slot goes to the first table
		kt = 0
	}
	if kt == longTable && (h>>16)%4 != 0 {
		kt = int((h >> 20) % uint64(longTable))
	}
	c.kt = kt
	c.vt = int((h >> 24) % uint64(len(versionTables)))
	c.sizes = int((h >> 32) % uint64(len(sizeProfiles)))
	if c.kt == longTable && c.sizes == len(sizeProfiles)-1 {
		c.sizes = 0
	}
	return c
}

func (c conc) userKey(k int) []byte { return []byte(userKeyTables[c.kt][k-1]) }
func (c conc) version(v int) uint64 { return versionTables[c.vt][v-1] }
func (c conc) ikey(k, v int) []byte { return y.KeyWithTs(c.userKey(k), c.version(v)) }

// value size profiles: lengths chosen by (token + salt) modulo the profile length
var sizeProfiles = [][]int{
	{0, 1, 2, 3},                 // tiny: many entries per 64-byte block
	{20, 33, 40, 27, 60},         // around one entry per small block
	{100, 300, 5, 180, 0},        // mixed
	{4000, 10, 5000, 90, 4100},   // crossing 4 KiB block boundaries
	{70000, 3, 65536, 100, 4096}, // bigger than any block
}

var metas = []byte{0, 1, 2, 4, 8, 0x43, 0x80, 0xff}
var expiries = []uint64{0, 1, 127, 128, 1 << 32, 1 << 63, maxU64}

// valueFor turns a value token into a full ValueStruct. Distinct tokens give distinct structs
// (the token is written into the value bytes when there is room, and into UserMeta/ExpiresAt).
func (c conc) valueFor(tok int) y.ValueStruct {
	prof := sizeProfiles[c.sizes]
	n := prof[(tok+c.salt)%len(prof)]
	val := make([]byte, n)
	for i := range val {
		val[i] = byte((i*131 + tok*17 + c.salt) % 256)
	}
	if n >= 2 {
		val[0], val[1] = byte(tok), byte(tok>>8)
	}
	return y.ValueStruct{
		Meta:      metas[(tok+c.salt)%len(metas)],
		UserMeta:  byte(tok),
		ExpiresAt: expiries[(tok/3+c.salt)%len(expiries)] ^ uint64(tok&3), // keeps tokens apart even for empty values
		Value:     val,
	}
}

func sameValue(a, b y.ValueStruct) bool {
	return a.Meta == b.Meta && a.UserMeta == b.UserMeta && a.ExpiresAt == b.ExpiresAt && bytes.Equal(a.Value, b.Value)
}

func showKey(b []byte) string {
	if len(b) > 40 {
		return fmt.Sprintf("%q...(%d bytes)...%q", b[:8], len(b), b[len(b)-12:])
	}
	return fmt.Sprintf("%q", b)
}

func showVal(v y.ValueStruct) string {
	if len(v.Value) > 16 {
		return fmt.Sprintf("{meta=%#x um=%#x exp=%d len=%d %x...}", v.Meta, v.UserMeta, v.ExpiresAt, len(v.Value), v.Value[:8])
	}
	return fmt.Sprintf("{meta=%#x um=%#x exp=%d val=%x}", v.Meta, v.UserMeta, v.ExpiresAt, v.Value)
}

// digits (little-endian base 128, as emitted by the Varint module) to uint64
func digitsToU64(d []int) uint64 {
	var x uint64
	for i := len(d) - 1; i >= 0; i-- {
		x = x<<7 | uint64(d[i])
	}
	return x
}

func intsToBytes(a []int) []byte {
	b := make([]byte, len(a))
	for i, x := range a {
		b[i] = byte(x)
	}
	return b
}

// Obs is the observation record of the specifications (SortedSeq!CObs).
type Obs struct {
	Valid bool `json:"valid"`
	K     int  `json:"k"`
	V     int  `json:"v"`
	Val   int  `json:"val"`
}

// Op is one cursor operation with the predicted observation.
type Op struct {
	Op  string `json:"op"`
	Tk  int    `json:"tk"`
	Tv  int    `json:"tv"`
	Obs Obs    `json:"obs"`
}

// AEntry is an abstract entry.
type AEntry struct {
	IK  [2]int `json:"ik"`
	Val int    `json:"val"`
}
