package main

// modes header, keyorder (C20)

import (
	"bytes"
	"encoding/binary"
	"encoding/json"
	"fmt"
	"strings"

	badger "github.com/dgraph-io/badger/v4"
	"github.com/dgraph-io/badger/v4/y"
)

type hdrFields struct {
	Meta int   `json:"meta"`
	Um   int   `json:"um"`
	Klen []int `json:"klen"`
	Vlen []int `json:"vlen"`
	Exp  []int `json:"exp"`
}

type codecCase struct {
	Kind  string    `json:"kind"`
	H     hdrFields `json:"h"`
	Bytes []int     `json:"bytes"`
	V     struct {
		Meta  int   `json:"meta"`
		Um    int   `json:"um"`
		Exp   []int `json:"exp"`
		Value []int `json:"value"`
	} `json:"v"`
	Size int `json:"size"`
	P    struct {
		Fid []int `json:"fid"`
		Len []int `json:"len"`
		Off []int `json:"off"`
	} `json:"p"`
}

var junks = [][]byte{nil, {0}, {0xff, 0xff}, {0x80, 0x01}, {0x80, 0x80, 0x80, 0x80, 0x80, 0x80, 0x80, 0x80, 0x80, 0x80, 0x80}}

func runHeader(e *env, idx int, line []byte) *Result {
	r := &Result{OK: true}
	var c codecCase
	if err := json.Unmarshal(line, &c); err != nil {
		r.fail("harness:bad case", err.Error())
		return r
	}
	want := intsToBytes(c.Bytes)
	switch c.Kind {
	case "header":
		h := badger.VerifHeader{Klen: uint32(digitsToU64(c.H.Klen)), Vlen: uint32(digitsToU64(c.H.Vlen)),
			ExpiresAt: digitsToU64(c.H.Exp), Meta: byte(c.H.Meta), UserMeta: byte(c.H.Um)}
		got := badger.VerifHeaderEncode(h)
		r.Evals++
		if !bytes.Equal(got, want) {
			r.fail("ds:header encode bytes", fmt.Sprintf("header %+v: got % x, spec % x", h, got, want))
			return r
		}
		if len(got) > badger.VerifMaxHeaderSize {
			r.fail("ds:header longer than maxHeaderSize", fmt.Sprintf("%+v: %d", h, len(got)))
		}
		for _, j := range junks {
			buf := append(append([]byte{}, want...), j...)
			dh, n := badger.VerifHeaderDecode(buf)
			r.Evals++
			if dh != h || n != len(want) {
				r.fail("ds:header decode round trip", fmt.Sprintf("header %+v + junk % x: Decode gave %+v n=%d (spec n=%d)", h, j, dh, n, len(want)))
			}
			fh, fn, err := badger.VerifHeaderDecodeFrom(buf)
			r.Evals++
			if err != nil || fh != h || fn != len(want) {
				r.fail("ds:header DecodeFrom round trip", fmt.Sprintf("header %+v + junk % x: DecodeFrom gave %+v n=%d err=%v (spec n=%d)", h, j, fh, fn, err, len(want)))
			}
		}
		// every proper prefix of the header is an incomplete header for the streaming decoder
		for cut := 0; cut < len(want); cut++ {
			_, _, err := badger.VerifHeaderDecodeFrom(want[:cut])
			r.Evals++
			if err == nil {
				r.fail("ds:header DecodeFrom accepts a cut header", fmt.Sprintf("header %+v cut at %d of %d", h, cut, len(want)))
			}
		}
	case "vstruct":
		v := y.ValueStruct{Meta: byte(c.V.Meta), UserMeta: byte(c.V.Um), ExpiresAt: digitsToU64(c.V.Exp), Value: intsToBytes(c.V.Value)}
		r.Evals++
		if int(v.EncodedSize()) != c.Size || c.Size != len(want) {
			r.fail("ds:valuestruct EncodedSize", fmt.Sprintf("%s: EncodedSize=%d spec=%d", showVal(v), v.EncodedSize(), c.Size))
			return r
		}
		buf := make([]byte, v.EncodedSize())
		n := v.Encode(buf)
		r.Evals++
		if int(n) != len(want) || !bytes.Equal(buf, want) {
			r.fail("ds:valuestruct encode bytes", fmt.Sprintf("%s: got % x n=%d, spec % x", showVal(v), buf, n, want))
		}
		var bb bytes.Buffer
		v.EncodeTo(&bb)
		r.Evals++
		if !bytes.Equal(bb.Bytes(), want) {
			r.fail("ds:valuestruct EncodeTo bytes", fmt.Sprintf("%s: got % x, spec % x", showVal(v), bb.Bytes(), want))
		}
		var d y.ValueStruct
		d.Decode(append([]byte{}, want...))
		r.Evals++
		if !sameValue(d, v) {
			r.fail("ds:valuestruct decode round trip", fmt.Sprintf("%s decoded as %s", showVal(v), showVal(d)))
		}
	case "vptr":
		le := func(a []int) uint32 { return binary.LittleEndian.Uint32(intsToBytes(a)) }
		fid, ln, off := le(c.P.Fid), le(c.P.Len), le(c.P.Off)
		got := badger.VerifVptrEncode(fid, ln, off)
		r.Evals++
		if !bytes.Equal(got, want) || len(got) != badger.VerifVptrSize {
			r.fail("ds:vptr encode bytes", fmt.Sprintf("{%d %d %d}: got % x, spec % x", fid, ln, off, got, want))
		}
		f2, l2, o2 := badger.VerifVptrDecode(append(append([]byte{}, want...), 0xaa, 0xbb))
		r.Evals++
		if f2 != fid || l2 != ln || o2 != off {
			r.fail("ds:vptr decode round trip", fmt.Sprintf("{%d %d %d} decoded as {%d %d %d}", fid, ln, off, f2, l2, o2))
		}
	default:
		r.fail("harness:bad case", "kind "+c.Kind)
	}
	return r
}

// ---- key order -------------------------------------------------------------------------

type koItem struct {
	Syms []int `json:"syms"`
	Long bool  `json:"long"`
	Vi   int   `json:"vi"`
}

type koCase struct {
	Order    []koItem `json:"order"`
	Versions [][]int  `json:"versions"`
	Run      int      `json:"run"`
}

const longRun = 64998

var koVersions = []uint64{0, 1, 2, 1 << 32, 1 << 63, maxU64 - 1, maxU64}

func runKeyOrder(e *env, idx int, line []byte) *Result {
	r := &Result{OK: true}
	var c koCase
	if err := json.Unmarshal(line, &c); err != nil {
		r.fail("harness:bad case", err.Error())
		return r
	}
	if len(c.Versions) != len(koVersions) {
		r.fail("harness:version table", "length")
		return r
	}
	for i, v := range koVersions {
		var b [8]byte
		binary.BigEndian.PutUint64(b[:], v)
		if !bytes.Equal(b[:], intsToBytes(c.Versions[i])) {
			r.fail("harness:version table", fmt.Sprintf("version %d: harness % x spec %v", i, b, c.Versions[i]))
			return r
		}
	}
	n := len(c.Order)
	ukeys := make([][]byte, n)
	encs := make([][]byte, n)
	uid := make([]string, n) // abstract identity of the user key
	for i, it := range c.Order {
		var k []byte
		if it.Long {
			k = append(bytes.Repeat([]byte{byte(it.Syms[0])}, longRun), intsToBytes(it.Syms[1:])...)
		} else {
			k = intsToBytes(it.Syms)
		}
		ukeys[i] = k
		uid[i] = fmt.Sprintf("%v/%v", it.Syms, it.Long)
		ver := koVersions[it.Vi-1]
		enc := y.KeyWithTs(k, ver)
		encs[i] = enc
		r.Evals += 3
		if len(enc) != len(k)+8 {
			r.fail("ds:KeyWithTs length", fmt.Sprintf("key %s ts %d: len %d", showKey(k), ver, len(enc)))
		}
		if pk := y.ParseKey(enc); !bytes.Equal(pk, k) {
			r.fail("ds:ParseKey round trip", fmt.Sprintf("key %s ts %d: ParseKey gave %s", showKey(k), ver, showKey(pk)))
		}
		if ts := y.ParseTs(enc); ts != ver {
			r.fail("ds:ParseTs round trip", fmt.Sprintf("key %s ts %d: ParseTs gave %d", showKey(k), ver, ts))
		}
	}
	sign := func(x int) int {
		if x < 0 {
			return -1
		} else if x > 0 {
			return 1
		}
		return 0
	}
	long := 0
	for i := 0; i < n; i++ {
		if c.Order[i].Long {
			long++
		}
		for j := 0; j < n; j++ {
			// the specification's answer: position in its sorted sequence
			want := sign(i - j)
			got := sign(y.CompareKeys(encs[i], encs[j]))
			r.Evals++
			if got != want {
				r.fail("ds:CompareKeys order "+pairClass(c.Order[i], c.Order[j]),
					fmt.Sprintf("CompareKeys(%s@%d, %s@%d)=%d, spec %d", showKey(ukeys[i]), koVersions[c.Order[i].Vi-1],
						showKey(ukeys[j]), koVersions[c.Order[j].Vi-1], got, want))
			}
			same := y.SameKey(encs[i], encs[j])
			r.Evals++
			if same != (uid[i] == uid[j]) {
				r.fail("ds:SameKey "+pairClass(c.Order[i], c.Order[j]),
					fmt.Sprintf("SameKey(%s, %s)=%v, spec %v", showKey(encs[i]), showKey(encs[j]), same, uid[i] == uid[j]))
			}
		}
	}
	r.stat("items", n)
	r.stat("long_items", long)
	return r
}

func pairClass(a, b koItem) string {
	var s []string
	if a.Long || b.Long {
		s = append(s, "long")
	}
	if len(a.Syms) != len(b.Syms) {
		s = append(s, "difflen")
	}
	if fmt.Sprint(a.Syms) == fmt.Sprint(b.Syms) && a.Long == b.Long {
		s = append(s, "samekey")
	}
	return strings.Join(s, ",")
}
