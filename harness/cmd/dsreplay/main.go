// dsreplay replays the TLC-generated cases of the data-structure family (specs/ds) against
// the real badger code and compares every observation with the specification's prediction.
//
//	-mode header    RecordCodecGen (Mode="header"): entry header, y.ValueStruct, valuePointer      (C20)
//	-mode keyorder  KeyOrderGen: y.KeyWithTs / ParseKey / ParseTs / CompareKeys / SameKey           (C20)
//	-mode record    RecordCodecGen (Mode="record"): logFile.encodeEntry / decodeEntry /
//	                safeRead.Entry / valueLog.Read, byte corruption                                  (C16)
//	-mode logiter   LogIterateGen: logFile.iterate over real log files, damage at every byte        (C16)
//	-mode table     TableOpsGen groups: table.Builder / Table / Iterator / ConcatIterator           (C18, C19)
//	-mode bloom     BloomGen: y.NewFilter / Filter.MayContain                                       (C19)
//	-mode merge     MergeIterGen groups: table.NewMergeIterator over tables / skiplists             (C21)
//	-mode sklseq    SkiplistGen: skl.Skiplist sequential histories                                  (C22)
//	-mode sklconc   records histories of real concurrent goroutines for SkiplistTrace               (C22)
//
// input : NDJSON, one case per line (-in); output: NDJSON on stdout, one line per case
// {"case":i,"ok":bool,"sig":..,"detail":..,"evals":n,"stats":{..}}.
// exit  : 0 when all cases were executed (mismatches are in the output), 2 on harness trouble.
package main

import (
	"bufio"
	"encoding/json"
	"flag"
	"fmt"
	"os"
	"runtime/debug"
	"runtime/pprof"

	"verifharness/vh"
)

// Result is the verdict for one case.
type Result struct {
	Case   int            `json:"case"`
	OK     bool           `json:"ok"`
	Sig    string         `json:"sig,omitempty"`
	Detail interface{}    `json:"detail,omitempty"`
	Evals  int            `json:"evals"`
	Stats  map[string]int `json:"stats,omitempty"`
}

func (r *Result) fail(sig string, detail interface{}) {
	if r.OK {
		r.OK = false
		r.Sig = sig
		r.Detail = detail
	}
}

func (r *Result) stat(k string, n int) {
	if r.Stats == nil {
		r.Stats = map[string]int{}
	}
	r.Stats[k] += n
}

type env struct {
	seed     int64
	tmp      string
	variant  int // number of concretisation / option variants per case
	thorough bool
	bloom    bool // table mode: every table gets a bloom filter (C19)
}

func main() {
	in := flag.String("in", "", "cases NDJSON")
	mode := flag.String("mode", "", "see package comment")
	seed := flag.Int64("seed", 1, "seed")
	shard := flag.Int("shard", 0, "shard index")
	nshard := flag.Int("nshards", 1, "number of shards")
	variants := flag.Int("variants", 1, "concretisation/option variants per case")
	thorough := flag.Bool("thorough", false, "thorough tier (more byte positions, all pairs)")
	bloom := flag.Bool("bloom", false, "table mode: build every table with a bloom filter")
	n := flag.Int("n", 100, "sklconc: number of histories")
	out := flag.String("out", "", "sklconc: trace output file")
	prof := flag.String("cpuprofile", "", "write a CPU profile (development)")
	flag.Parse()
	if *prof != "" {
		pf, err := os.Create(*prof)
		if err == nil {
			pprof.StartCPUProfile(pf)
			defer pprof.StopCPUProfile()
		}
	}
	debug.SetGCPercent(200)
	tmp, err := os.MkdirTemp("", "dsreplay-")
	if err != nil {
		vh.Fatalf("tmp: %v", err)
	}
	defer os.RemoveAll(tmp)
	e := &env{seed: *seed, tmp: tmp, variant: *variants, thorough: *thorough, bloom: *bloom}
	w := bufio.NewWriterSize(os.Stdout, 1<<20)
	defer w.Flush()
	emit := func(r *Result) {
		b, err := json.Marshal(r)
		if err != nil {
			vh.Fatalf("marshal: %v", err)
		}
		w.Write(b)
		w.WriteByte('\n')
	}
	if *mode == "sklconc" {
		r := sklConc(e, *n, *out)
		emit(r)
		return
	}
	var run func(e *env, idx int, line []byte) *Result
	switch *mode {
	case "header":
		run = runHeader
	case "keyorder":
		run = runKeyOrder
	case "record":
		run = newRecordRunner(e)
	case "logiter":
		run = newLogIterRunner(e)
	case "table":
		run = newTableRunner(e)
	case "bloom":
		run = runBloom
	case "merge":
		run = newMergeRunner(e)
	case "sklseq":
		run = runSklSeq
	default:
		vh.Fatalf("unknown mode %q", *mode)
	}
	idx := -1
	err = vh.ReadNDJSON(*in, func(line []byte) error {
		idx++
		if idx%*nshard != *shard {
			return nil
		}
		var r *Result
		func() {
			defer func() {
				if p := recover(); p != nil {
					// a panic of the code under test on a spec-generated input is a deviation too;
					// it is reported as a mismatch with its own signature (and re-run by the check)
					r = &Result{Case: idx, OK: false, Sig: "panic", Detail: fmt.Sprintf("%v\n%s", p, debug.Stack())}
				}
			}()
			r = run(e, idx, line)
		}()
		r.Case = idx
		emit(r)
		return nil
	})
	if err != nil {
		w.Flush()
		vh.Fatalf("reading cases: %v", err)
	}
}
