package main

// mode bloom (C19): y.NewFilter / Filter.MayContain against the filter Bloom.tla predicts
// bit for bit (B = 65536: the real 32-bit arithmetic).

import (
	"encoding/json"
	"fmt"

	"github.com/dgraph-io/badger/v4/y"
)

type bloomCase struct {
	Hs     [][2]int `json:"hs"`
	Bpk    int      `json:"bpk"`
	K      int      `json:"k"`
	NBytes int      `json:"nbytes"`
	Bits   []int    `json:"bits"`
	Member []bool   `json:"member"`
	Probes []struct {
		H   [2]int `json:"h"`
		May bool   `json:"may"`
	} `json:"probes"`
}

func h32(p [2]int) uint32 { return uint32(p[0])<<16 | uint32(p[1]) }

func runBloom(e *env, idx int, line []byte) *Result {
	r := &Result{OK: true}
	var c bloomCase
	if err := json.Unmarshal(line, &c); err != nil {
		r.fail("harness:bad case", err.Error())
		return r
	}
	hs := make([]uint32, len(c.Hs))
	for i, p := range c.Hs {
		hs[i] = h32(p)
	}
	class := fmt.Sprintf("n=%d bpk=%d", len(hs), c.Bpk)
	f := y.NewFilter(hs, c.Bpk)
	r.Evals++
	if len(f) != c.NBytes+1 {
		r.fail("ds:bloom filter length", fmt.Sprintf("%s: len %d, spec %d+1", class, len(f), c.NBytes))
		return r
	}
	r.Evals++
	if int(f[c.NBytes]) != c.K {
		r.fail("ds:bloom k", fmt.Sprintf("%s: k byte %d, spec %d", class, f[c.NBytes], c.K))
		return r
	}
	want := make([]byte, c.NBytes)
	for _, b := range c.Bits {
		want[b/8] |= 1 << (uint(b) % 8)
	}
	r.Evals++
	for i := 0; i < c.NBytes; i++ {
		if f[i] != want[i] {
			r.fail("ds:bloom bit pattern", fmt.Sprintf("%s hashes %v: byte %d is %08b, spec %08b", class, c.Hs, i, f[i], want[i]))
			return r
		}
	}
	for i, h := range hs {
		r.Evals++
		if !f.MayContain(h) || !c.Member[i] {
			r.fail("ds:bloom false negative", fmt.Sprintf("%s: added hash %#x reported absent (spec member=%v)", class, h, c.Member[i]))
			return r
		}
	}
	for _, p := range c.Probes {
		r.Evals++
		if got := f.MayContain(h32(p.H)); got != p.May {
			r.fail("ds:bloom MayContain differs from the specified function", fmt.Sprintf("%s hashes %v: MayContain(%#x)=%v, spec %v", class, c.Hs, h32(p.H), got, p.May))
			return r
		}
		if p.May {
			r.stat("predicted_false_positive", 1)
		}
	}
	// Bloom!BitsNecessary: clearing any 1 bit makes the filter deny at least one member
	for _, b := range c.Bits {
		g := append(y.Filter{}, f...)
		g[b/8] &^= 1 << (uint(b) % 8)
		denied := false
		for _, h := range hs {
			if !g.MayContain(h) {
				denied = true
				break
			}
		}
		r.Evals++
		if !denied {
			r.fail("ds:bloom bit not probed by any member", fmt.Sprintf("%s hashes %v: clearing bit %d denies nobody", class, c.Hs, b))
			return r
		}
	}
	r.stat("bits_set", len(c.Bits))
	return r
}
