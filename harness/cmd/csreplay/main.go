// csreplay: concurrently running compactions on the real DB, recorded for validation against
// specs/lsm/Compactors.tla (CompactorsTrace.tla).
//
// The driver plays the scheduler of the compactor goroutines: "capture" is what runCompactor does in
// pickCompactLevels (a priority together with the level targets of that moment), "fill" starts the
// production doCompact with the captured targets in its own goroutine and lets it run until it has
// picked and registered its tables and built its outputs (gate compact.beforeManifest) or has
// returned without picking, "finish" lets it install and deregister. Between these steps of one
// compactor any number of steps of the others happen. Every event is logged with the complete
// observable state afterwards: tables per level, level-0 order, compactStatus ranges and tables.
package main

import (
	"encoding/json"
	"flag"
	"fmt"
	"math/rand"
	"os"
	"sort"
	"time"

	badger "github.com/dgraph-io/badger/v4"
	"github.com/dgraph-io/badger/v4/y"

	"verifharness/vh"
)

var (
	runs     = flag.Int("runs", 10, "number of runs")
	steps    = flag.Int("steps", 60, "steps per run")
	seed     = flag.Int64("seed", 1, "seed")
	out      = flag.String("out", "trace.ndjson", "trace file")
	scenario = flag.String("scenario", "", "\"stale\": the schedule TLC finds for targets used after other compactions finished")
)

const (
	baseSize = 6000
	mult     = 2
	nkeys    = 4
	ncomp    = 3
)

func pad(rnd *rand.Rand, n int) []byte {
	b := make([]byte, n)
	rnd.Read(b)
	return b
}

type tab struct {
	ID  uint64 `json:"id"`
	Lvl int    `json:"lvl"`
	Lo  int    `json:"lo"`
	Hi  int    `json:"hi"`
	Mv  uint64 `json:"mv"`
	Sv  uint64 `json:"sv"` // version of the smallest internal key (level 0 is sorted by it)
	W   int64  `json:"w"`
}

type capture struct {
	level    int
	score    float64
	adjusted float64
	base     int
}

type running struct {
	done chan error
	g    int64
}

type driver struct {
	db    *badger.DB
	rec   *vh.Recorder
	gate  *vh.Gate
	rnd   *rand.Rand
	ts    uint64
	log   []map[string]interface{}
	caps  map[int]*capture
	jobs  map[int]*running
	picks map[int]map[string]interface{}
	known map[uint64]bool
}

func keyOf(i int) string { return fmt.Sprintf("k%d", i) }
func keyIdx(b []byte) int {
	var i int
	fmt.Sscanf(string(b[:len(b)-8]), "k%d", &i)
	return i
}

func (d *driver) state() (tabs []tab, l0 []uint64) {
	for lvl, ts := range d.db.VerifTables() {
		for _, t := range ts {
			tabs = append(tabs, tab{t.ID, lvl, keyIdx(t.Smallest), keyIdx(t.Biggest), t.MaxVersion, y.ParseTs(t.Smallest), t.Size})
			if lvl == 0 {
				l0 = append(l0, t.ID)
			}
		}
	}
	if l0 == nil {
		l0 = []uint64{}
	}
	if tabs == nil {
		tabs = []tab{}
	}
	return
}

func (d *driver) emit(ev map[string]interface{}) {
	tabs, l0 := d.state()
	ranges, busy := d.db.VerifCStatus()
	sort.Slice(busy, func(i, j int) bool { return busy[i] < busy[j] })
	rs := make([][]interface{}, len(ranges))
	for l, lr := range ranges {
		rs[l] = []interface{}{}
		for _, r := range lr {
			switch r {
			case "inf":
				rs[l] = append(rs[l], []int{-1, -1})
			case "empty":
				rs[l] = append(rs[l], []int{0, 0})
			default:
				var a, b int
				fmt.Sscanf(r, "k%d..k%d", &a, &b)
				rs[l] = append(rs[l], []int{a, b})
			}
		}
	}
	if busy == nil {
		busy = []uint64{}
	}
	ev["tabs"], ev["l0"], ev["ranges"], ev["busy"] = tabs, l0, rs, busy
	d.log = append(d.log, ev)
}

func (d *driver) flush(lo, hi int, del bool) {
	for _, k := range []int{lo, hi} {
		d.ts++
		txn := d.db.NewTransactionAt(d.ts, true)
		if del {
			_ = txn.Delete([]byte(keyOf(k)))
		} else {
			_ = txn.Set([]byte(keyOf(k)), pad(d.rnd, 2500))
		}
		if err := txn.CommitAt(d.ts, nil); err != nil {
			vh.Fatalf("commit: %v", err)
		}
		if lo == hi {
			break
		}
	}
	if err := d.db.VerifFlush(); err != nil {
		vh.Fatalf("flush: %v", err)
	}
	// every level-0 table counts as old enough for an L0->L0 compaction
	for _, t := range d.db.VerifTables()[0] {
		d.db.VerifSetTableCreatedAt(t.ID, time.Now().Add(-time.Hour))
	}
	d.emit(map[string]interface{}{"ev": "flush", "lo": lo, "hi": hi})
}

func (d *driver) capture(c int, forceLevel int) bool {
	base, sizes, _ := d.db.VerifTargets()
	var cp *capture
	eligible := true
	if forceLevel >= 0 {
		cp = &capture{forceLevel, 1, 100, base}
		eligible = false
		for _, p := range d.db.VerifPickLevels() {
			if int(p[0]) == forceLevel {
				cp = &capture{forceLevel, p[1], p[2], base}
				eligible = true
			}
		}
	} else {
		prios := d.db.VerifPickLevels()
		if len(prios) == 0 {
			return false
		}
		p := prios[d.rnd.Intn(len(prios))]
		cp = &capture{int(p[0]), p[1], p[2], base}
	}
	if len(d.db.VerifTables()[cp.level]) == 0 {
		return false
	}
	// runCompactor: compactor 0 runs level 0 whatever its adjusted score is, the others stop at the
	// first priority with an adjusted score below 1
	if c != 0 && cp.adjusted < 1.0 {
		eligible = false
	}
	d.caps[c] = cp
	adjok := !(cp.adjusted > 0.0 && cp.adjusted < 1.0)
	d.emit(map[string]interface{}{"ev": "capture", "c": c, "level": cp.level, "base": base, "sizes": sizes,
		"adjok": adjok, "eligible": eligible})
	return true
}

func (d *driver) fill(c int) {
	cp := d.caps[c]
	delete(d.caps, c)
	r := &running{done: make(chan error, 1)}
	gch := make(chan int64, 1)
	go func() {
		gch <- vh.GoID()
		r.done <- d.db.VerifDoCompactStale(c, cp.level, cp.score, cp.adjusted, cp.base)
	}()
	r.g = <-gch
	deadline := time.Now().Add(60 * time.Second)
	for {
		select {
		case err := <-r.done:
			if err != nil && err != badger.ErrVerifNoFill {
				vh.Fatalf("compaction: %v", err)
			}
			if err == nil {
				vh.Fatalf("compaction of compactor %d finished without reaching the gate", c)
			}
			d.emit(map[string]interface{}{"ev": "fill", "c": c, "picked": false})
			return
		default:
		}
		if d.gate.ParkedG(r.g) {
			break
		}
		if time.Now().After(deadline) {
			vh.Fatalf("compaction of compactor %d neither returned nor reached the gate", c)
		}
		time.Sleep(200 * time.Microsecond)
	}
	d.jobs[c] = r
	ev := map[string]interface{}{"ev": "fill", "c": c, "picked": true}
	for k, v := range d.picks[c] {
		ev[k] = v
	}
	d.emit(ev)
}

func (d *driver) finish(c int) {
	r := d.jobs[c]
	delete(d.jobs, c)
	before := map[uint64]bool{}
	tabs, _ := d.state()
	for _, t := range tabs {
		before[t.ID] = true
	}
	d.gate.ReleaseG(r.g)
	select {
	case err := <-r.done:
		if err != nil {
			vh.Fatalf("compaction: %v", err)
		}
	case <-time.After(60 * time.Second):
		vh.Fatalf("compaction of compactor %d did not finish", c)
	}
	outs := []uint64{}
	tabs, _ = d.state()
	for _, t := range tabs {
		if !before[t.ID] {
			outs = append(outs, t.ID)
		}
	}
	ev := map[string]interface{}{"ev": "finish", "c": c, "outs": outs}
	if err := d.db.VerifValidateLevels(); err != nil {
		ev["validate"] = err.Error()
	}
	d.emit(ev)
}

func (d *driver) open(dir string) {
	o := vh.SmallOptions(dir)
	o.MaxLevels = 3
	o.BaseLevelSize = baseSize
	o.LevelSizeMultiplier = mult
	o.ValueThreshold = 100 << 10
	o.NumVersionsToKeep = 1
	o.NumLevelZeroTables = 1
	var err error
	d.db, err = badger.OpenManaged(o)
	if err != nil {
		vh.Fatalf("%v", err)
	}
	d.caps, d.jobs, d.picks = map[int]*capture{}, map[int]*running{}, map[int]map[string]interface{}{}
	d.ts = 0
	d.log = append(d.log, map[string]interface{}{"ev": "reset"})
}

func ids(v interface{}) []uint64 {
	if v == nil {
		return []uint64{}
	}
	if x, ok := v.([]uint64); ok && x != nil {
		return x
	}
	return []uint64{}
}

func main() {
	flag.Parse()
	d := &driver{rnd: rand.New(rand.NewSource(*seed))}
	d.rec = vh.Install(false)
	defer d.rec.Uninstall()
	d.rec.OnEvent = func(ev vh.Event) {
		if ev.Point == "compact.picked" {
			c := ev.Args[0].(int)
			d.picks[c] = map[string]interface{}{"this": ev.Args[1], "next": ev.Args[2], "top": ids(ev.Args[3]), "bot": ids(ev.Args[4]), "inf": ev.Args[5]}
		}
	}
	d.gate = d.rec.Arm("compact.beforeManifest", nil)
	nruns := *runs
	if *scenario != "" {
		nruns = 1
	}
	for r := 0; r < nruns; r++ {
		dir, _ := os.MkdirTemp("", "csreplay-")
		d.open(dir)
		if *scenario == "stale" {
			// compactor 0 captures while the last level is small (base level = last level) and is then
			// not scheduled while compactor 1 completes two compactions: the first one makes the last
			// level large (the base level moves up), the second one puts a table on level 1.
			d.flush(1, 1, false)
			d.capture(0, 0)
			for _, k := range []int{0, 2, 3} {
				if k != 0 {
					d.flush(k, k, false)
				}
				d.capture(1, 0)
				d.fill(1)
				d.finish(1)
			}
			d.flush(1, 1, false)
			d.capture(1, 0)
			d.fill(1)
			d.finish(1)
			d.flush(1, 1, true)
			d.db.SetDiscardTs(d.ts)
			before := d.get(1)
			d.fill(0)
			if d.jobs[0] != nil {
				d.finish(0)
			}
			after := d.get(1)
			d.log = append(d.log, map[string]interface{}{"ev": "note", "get_before": before, "get_after": after})
		} else {
			for s := 0; s < *steps; s++ {
				c := d.rnd.Intn(ncomp)
				switch x := d.rnd.Intn(100); {
				case x < 22:
					lo := 1 + d.rnd.Intn(nkeys)
					hi := lo + d.rnd.Intn(nkeys-lo+1)
					if d.rnd.Intn(3) == 0 {
						hi = lo
					}
					d.flush(lo, hi, d.rnd.Intn(4) == 0)
					if d.rnd.Intn(3) == 0 {
						d.db.SetDiscardTs(d.ts)
					}
				case x < 50:
					if d.caps[c] == nil && d.jobs[c] == nil {
						lvl := -1
						if d.rnd.Intn(4) == 0 {
							lvl = d.rnd.Intn(2)
						}
						d.capture(c, lvl)
					}
				case x < 78:
					if d.caps[c] != nil {
						d.fill(c)
					}
				default:
					if d.jobs[c] != nil {
						d.finish(c)
					}
				}
			}
			for c := range d.jobs {
				d.finish(c)
			}
		}
		d.caps = map[int]*capture{}
		d.db.Close()
		os.RemoveAll(dir)
	}
	f, err := os.Create(*out)
	if err != nil {
		vh.Fatalf("%v", err)
	}
	enc := json.NewEncoder(f)
	for _, ev := range d.log {
		enc.Encode(ev)
	}
	f.Close()
	fmt.Printf("{\"runs\": %d, \"events\": %d}\n", nruns, len(d.log))
}

func (d *driver) get(k int) uint64 {
	txn := d.db.NewTransactionAt(d.ts, false)
	defer txn.Discard()
	it, err := txn.Get([]byte(keyOf(k)))
	if err != nil {
		return 0
	}
	return it.Version()
}
