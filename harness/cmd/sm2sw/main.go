// sm2sw replays StreamWriterGen cases (TLC-generated) against the real StreamWriter
// (stream_writer.go) through the public API: NewStreamWriter, Prepare / PrepareIncremental,
// Write (buffers built with KVToBuffer), Flush, ordinary commits, Close + Open.
//
// After every flush / reopen the full contents of the database (AllVersions iteration:
// key, version, delete marker, value, user meta), the next read timestamp, the top-most
// level holding tables and the table structure (level validation, all versions of a key in
// one table of a level) are compared with the specification's prediction.
//
// input : NDJSON, one case per line {steps, db, nextTs}
// output: NDJSON on stdout, one line per case
// exit  : 0 when all cases were executed (mismatches are in the output), 2 on harness trouble.
package main

import (
	"bytes"
	"encoding/json"
	"flag"
	"fmt"
	"os"
	"path/filepath"
	"runtime/debug"
	"sort"
	"strings"
	"sync"

	badger "github.com/dgraph-io/badger/v4"
	"github.com/dgraph-io/badger/v4/options"
	"github.com/dgraph-io/badger/v4/pb"
	"github.com/dgraph-io/ristretto/v2/z"

	"verifharness/vh"
)

type Entry struct {
	K    int    `json:"k"`
	Ts   int    `json:"ts"`
	Kind string `json:"kind"`
	Big  bool   `json:"big"`
}

type Step struct {
	Op      string  `json:"op"`
	K       int     `json:"k"`
	Ts      int     `json:"ts"`
	Big     bool    `json:"big"`
	NextTs  int     `json:"nextTs"`
	Lv      []int   `json:"lv"`
	May     []Entry `json:"may"`
	Flatten bool    `json:"flatten"`
	Mode    string  `json:"mode"`
	Level   int     `json:"level"`
	S       int     `json:"s"`
	Entries []Entry `json:"entries"`
	N       []int   `json:"n"`
	Done    []int   `json:"done"`
	DB      []Entry `json:"db"`
	Tables  int     `json:"tables"`
}

type Case struct {
	Steps  []Step  `json:"steps"`
	DB     []Entry `json:"db"`
	May    []Entry `json:"may"`
	NextTs int     `json:"nextTs"`
}

type Result struct {
	Case     int         `json:"case"`
	Ok       bool        `json:"ok"`
	Step     int         `json:"step"`
	Sig      string      `json:"sig,omitempty"`
	Detail   interface{} `json:"detail,omitempty"`
	Tables   int         `json:"tables"`      // tables written by the stream writer sessions of this case
	CutSess  int         `json:"cutSessions"` // sessions that produced more tables than streams with content
	VlogVals int         `json:"vlogValues"`
	Variant  int         `json:"variant"`
}

const threshold = 64

func keyOf(k int) []byte { return []byte(fmt.Sprintf("key%02d", k)) }

// value sizes straddle the value threshold: big values (>= threshold) live in the value log
func valOf(k, ts int, big bool) []byte {
	head := fmt.Sprintf("v.%d.%d.", k, ts)
	var n int
	if big {
		n = []int{threshold, threshold + 1, 100}[(k+ts)%3]
	} else {
		n = []int{10, threshold - 2, threshold - 1}[(k*3+ts)%3]
	}
	return []byte(head + strings.Repeat("x", n-len(head)))
}
func umOf(k, ts int) byte { return byte(16 + (k*5+ts)%200) }

type cfg struct {
	levels   int
	compress bool
	encKey   []byte
}

type runner struct {
	c       cfg
	dir     string
	db      *badger.DB
	variant int
}

func (r *runner) opts() badger.Options {
	o := vh.SmallOptions(r.dir)
	o.MaxLevels = r.c.levels
	o.ValueThreshold = threshold
	o.NumVersionsToKeep = 100
	// tiny tables and blocks: a table is full after two or three entries
	o.BaseTableSize = 130
	o.TableSizeMultiplier = 1
	o.BlockSize = 64
	o.Compression = options.None // badger's default is Snappy, whose size accounting lags behind the builder
	if r.c.compress {
		o.Compression = options.Snappy
	}
	if r.c.encKey != nil {
		o.EncryptionKey = r.c.encKey
		o.IndexCacheSize = 1 << 20
	}
	return o
}

func (r *runner) open() error {
	db, err := badger.Open(r.opts())
	if err != nil {
		return err
	}
	r.db = db
	return nil
}

type dumpEntry struct {
	K     int
	Ts    int
	Kind  string
	Value []byte
	Um    byte
}

func (r *runner) dump() ([]dumpEntry, error) {
	var out []dumpEntry
	err := r.db.View(func(txn *badger.Txn) error {
		io := badger.DefaultIteratorOptions
		io.AllVersions = true
		it := txn.NewIterator(io)
		defer it.Close()
		for it.Rewind(); it.Valid(); it.Next() {
			item := it.Item()
			var k int
			if _, err := fmt.Sscanf(string(item.Key()), "key%02d", &k); err != nil {
				return fmt.Errorf("unexpected key %q", item.Key())
			}
			e := dumpEntry{K: k, Ts: int(item.Version()), Kind: "set", Um: item.UserMeta()}
			if item.IsDeletedOrExpired() {
				e.Kind = "del"
			} else {
				v, err := item.ValueCopy(nil)
				if err != nil {
					return fmt.Errorf("value of key %d@%d: %v", k, item.Version(), err)
				}
				e.Value = v
			}
			out = append(out, e)
		}
		return nil
	})
	return out, err
}

func (r *runner) nextTs() int {
	txn := r.db.NewTransaction(false)
	defer txn.Discard()
	return int(txn.ReadTs()) + 1
}

// levels holding tables, e.g. "[0 3]"
func (r *runner) levelSet() string {
	out := []int{}
	for _, l := range r.db.Levels() {
		if l.NumTables > 0 {
			out = append(out, l.Level)
		}
	}
	return fmt.Sprint(out)
}

func lvString(lv []int) string {
	out := append([]int{}, lv...)
	sort.Ints(out)
	return fmt.Sprint(out)
}

type mismatch struct {
	sig    string
	detail interface{}
}

// compare the database with the predicted contents; entries in may (invisible ones a compaction
// was allowed to drop) may be absent
func (r *runner) checkDB(want, may []Entry) *mismatch {
	got, err := r.dump()
	if err != nil {
		return &mismatch{"sm2:streamwriter database-unreadable", err.Error()}
	}
	type kv struct{ k, ts int }
	w := map[kv]Entry{}
	for _, e := range want {
		w[kv{e.K, e.Ts}] = e
	}
	seen := map[kv]bool{}
	for _, g := range got {
		id := kv{g.K, g.Ts}
		e, ok := w[id]
		if !ok {
			return &mismatch{"sm2:streamwriter unexpected-entry", fmt.Sprintf("key %d@%d (%s) is in the database but was never written", g.K, g.Ts, g.Kind)}
		}
		if seen[id] {
			return &mismatch{"sm2:streamwriter duplicate-entry", fmt.Sprintf("key %d@%d appears twice", g.K, g.Ts)}
		}
		seen[id] = true
		if e.Kind != g.Kind {
			return &mismatch{"sm2:streamwriter wrong-kind", fmt.Sprintf("key %d@%d is %s, written as %s", g.K, g.Ts, g.Kind, e.Kind)}
		}
		if e.Kind == "set" {
			if !bytes.Equal(g.Value, valOf(e.K, e.Ts, e.Big)) || g.Um != umOf(e.K, e.Ts) {
				return &mismatch{"sm2:streamwriter payload-mismatch", fmt.Sprintf("key %d@%d: value %q userMeta %d, written %q / %d",
					g.K, g.Ts, g.Value, g.Um, valOf(e.K, e.Ts, e.Big), umOf(e.K, e.Ts))}
			}
		}
	}
	optional := map[kv]bool{}
	for _, e := range may {
		optional[kv{e.K, e.Ts}] = true
	}
	var missing []string
	for id := range w {
		if !seen[id] && !optional[id] {
			missing = append(missing, fmt.Sprintf("key %d@%d", id.k, id.ts))
		}
	}
	if len(missing) > 0 {
		sort.Strings(missing)
		return &mismatch{"sm2:streamwriter entry-lost", fmt.Sprintf("streamed / committed entries missing from the database: %v", missing)}
	}
	// point reads must agree with the dump (levels >= 1 are searched by key range)
	latest := map[int]Entry{}
	for _, e := range want {
		if l, ok := latest[e.K]; !ok || l.Ts < e.Ts {
			latest[e.K] = e
		}
	}
	err = r.db.View(func(txn *badger.Txn) error {
		for k, e := range latest {
			item, err := txn.Get(keyOf(k))
			if e.Kind == "del" {
				if err != badger.ErrKeyNotFound {
					return fmt.Errorf("Get(key %d) = %v, want not found (deleted @%d)", k, err, e.Ts)
				}
				continue
			}
			if err != nil {
				return fmt.Errorf("Get(key %d) = %v, want version %d", k, err, e.Ts)
			}
			if int(item.Version()) != e.Ts {
				return fmt.Errorf("Get(key %d) returns version %d, want %d", k, item.Version(), e.Ts)
			}
		}
		return nil
	})
	if err != nil {
		return &mismatch{"sm2:streamwriter get-disagrees", err.Error()}
	}
	return nil
}

// structure: production level validation + all versions of a key in one table per level
func (r *runner) checkTables() *mismatch {
	if err := r.db.VerifValidateLevels(); err != nil {
		return &mismatch{"sm2:streamwriter levels-invalid", err.Error()}
	}
	for lvl, tabs := range r.db.VerifTables() {
		if lvl == 0 {
			continue
		}
		where := map[string]uint64{}
		for _, t := range tabs {
			es, err := r.db.VerifTableEntries(t.ID)
			if err != nil {
				return &mismatch{"sm2:streamwriter table-unreadable", err.Error()}
			}
			for _, e := range es {
				if id, ok := where[string(e.Key)]; ok && id != t.ID {
					return &mismatch{"sm2:streamwriter key-split-across-tables", fmt.Sprintf("level %d: versions of %q are in tables %d and %d", lvl, e.Key, id, t.ID)}
				}
				where[string(e.Key)] = t.ID
			}
		}
	}
	return nil
}

func (r *runner) numTables() int {
	n := 0
	for _, l := range r.db.Levels() {
		n += l.NumTables
	}
	return n
}

func kvOf(e Entry, stream int) *pb.KV {
	kv := &pb.KV{Key: keyOf(e.K), Version: uint64(e.Ts), StreamId: uint32(stream)}
	if e.Kind == "del" {
		kv.Meta = []byte{badger.VerifBitDelete}
	} else {
		kv.Value = valOf(e.K, e.Ts, e.Big)
		kv.UserMeta = []byte{umOf(e.K, e.Ts)}
	}
	return kv
}

func (r *runner) runCase(c *Case, res *Result) {
	res.Ok = true
	fail := func(i int, m *mismatch) {
		res.Ok, res.Step, res.Sig, res.Detail = false, i, m.sig, m.detail
	}
	var sw *badger.StreamWriter
	content := map[int][]Entry{}
	pos := map[int]int{}
	var tablesBefore, sessLevel int
	var idsBefore map[uint64]bool // tables present when the session was prepared
	var occBefore map[int]bool    // levels holding tables at that moment
	for i, s := range c.Steps {
		switch s.Op {
		case "commit":
			err := r.db.Update(func(txn *badger.Txn) error {
				return txn.SetEntry(badger.NewEntry(keyOf(s.K), valOf(s.K, s.Ts, s.Big)).WithMeta(umOf(s.K, s.Ts)))
			})
			if err != nil {
				fail(i, &mismatch{"sm2:streamwriter commit-failed", err.Error()})
				return
			}
			var ver uint64
			_ = r.db.View(func(txn *badger.Txn) error {
				item, err := txn.Get(keyOf(s.K))
				if err == nil {
					ver = item.Version()
				}
				return nil
			})
			if int(ver) != s.Ts {
				fail(i, &mismatch{"sm2:streamwriter next-timestamp", fmt.Sprintf("commit after the stream writer got version %d, specification %d", ver, s.Ts)})
				return
			}
		case "reopen":
			if err := r.db.Close(); err != nil {
				vh.Fatalf("close: %v", err)
			}
			if err := r.open(); err != nil {
				fail(i, &mismatch{"sm2:streamwriter reopen-failed", err.Error()})
				r.db = nil
				return
			}
			if got := r.nextTs(); got != s.NextTs {
				fail(i, &mismatch{"sm2:streamwriter next-timestamp", fmt.Sprintf("after re-open the next timestamp is %d, specification %d", got, s.NextTs)})
				return
			}
			if got := r.levelSet(); got != lvString(s.Lv) {
				fail(i, &mismatch{"sm2:streamwriter level-mismatch", fmt.Sprintf("after re-open the levels holding tables are %s, specification %s", got, lvString(s.Lv))})
				return
			}
			if m := r.checkDB(s.DB, s.May); m != nil {
				fail(i, m)
				return
			}
		case "prepare":
			sw = r.db.NewStreamWriter()
			var err error
			if s.Mode == "full" {
				err = sw.Prepare()
			} else {
				err = sw.PrepareIncremental()
			}
			if err != nil {
				sw.Cancel()
				fail(i, &mismatch{"sm2:streamwriter prepare-failed", fmt.Sprintf("%s: %v", s.Mode, err)})
				return
			}
			content, pos = map[int][]Entry{}, map[int]int{}
			tablesBefore, sessLevel = r.numTables(), s.Level
			idsBefore, occBefore = map[uint64]bool{}, map[int]bool{}
			for lvl, tabs := range r.db.VerifTables() {
				for _, t := range tabs {
					idsBefore[t.ID] = true
					occBefore[lvl] = true
				}
			}
			if got := r.levelSet(); got != lvString(s.Lv) {
				sw.Cancel()
				sig := "sm2:streamwriter level-mismatch"
				if occBefore[0] && !strings.HasPrefix(lvString(s.Lv), "[0") {
					// the session is going to write below L0: newer versions under older ones
					sig = "sm2:streamwriter newer-below-older incremental-session-prepared-with-tables-left-in-L0"
				}
				fail(i, &mismatch{sig, fmt.Sprintf("after %s prepare the levels holding tables are %s, specification %s", s.Mode, got, lvString(s.Lv))})
				return
			}
		case "content":
			content[s.S] = s.Entries
		case "write":
			// per stream the next n entries; streams interleaved in the buffer in a variant-dependent way
			var per [][]*pb.KV
			var ids []int
			for si, n := range s.N {
				st := si + 1
				var kvs []*pb.KV
				for j := 0; j < n; j++ {
					kvs = append(kvs, kvOf(content[st][pos[st]+j], st))
				}
				pos[st] += n
				per = append(per, kvs)
				ids = append(ids, st)
			}
			done := map[int]bool{}
			for _, d := range s.Done {
				done[d] = true
			}
			write := func(kvs []*pb.KV) error {
				buf := z.NewBuffer(1<<16, "sm2sw")
				defer func() { _ = buf.Release() }()
				for _, kv := range kvs {
					badger.KVToBuffer(kv, buf)
				}
				return sw.Write(buf)
			}
			doneKV := func(st int) *pb.KV { return &pb.KV{StreamId: uint32(st), StreamDone: true} }
			var err error
			switch r.variant {
			case 3: // one concurrent Write call per stream ("Write is thread safe")
				var wg sync.WaitGroup
				errs := make([]error, len(per))
				for x := range per {
					kvs := per[x]
					if done[ids[x]] {
						kvs = append(kvs, doneKV(ids[x]))
					}
					if len(kvs) == 0 {
						continue
					}
					wg.Add(1)
					go func(x int, kvs []*pb.KV) {
						defer wg.Done()
						errs[x] = write(kvs)
					}(x, kvs)
				}
				wg.Wait()
				for _, e := range errs {
					if e != nil {
						err = e
					}
				}
			default:
				var all []*pb.KV
				switch r.variant {
				case 0: // stream after stream, each followed by its done marker
					for x := range per {
						all = append(all, per[x]...)
						if done[ids[x]] {
							all = append(all, doneKV(ids[x]))
						}
					}
				case 1: // round robin, done markers at the end
					for j := 0; ; j++ {
						any := false
						for x := range per {
							if j < len(per[x]) {
								all = append(all, per[x][j])
								any = true
							}
						}
						if !any {
							break
						}
					}
					for x := range per {
						if done[ids[x]] {
							all = append(all, doneKV(ids[x]))
						}
					}
				default: // streams in reverse order, done markers first where the stream sends nothing
					for x := len(per) - 1; x >= 0; x-- {
						if done[ids[x]] && len(per[x]) == 0 {
							all = append(all, doneKV(ids[x]))
						}
					}
					for x := len(per) - 1; x >= 0; x-- {
						all = append(all, per[x]...)
						if done[ids[x]] && len(per[x]) > 0 {
							all = append(all, doneKV(ids[x]))
						}
					}
				}
				err = write(all)
			}
			if err != nil {
				sw.Cancel()
				fail(i, &mismatch{"sm2:streamwriter write-failed", err.Error()})
				return
			}
		case "flush":
			ferr := sw.Flush()
			sw = nil
			// WritesToFreeLevel on the real tree: the session's tables must not share a level (>= 1)
			// with tables that were there before
			for lvl, tabs := range r.db.VerifTables() {
				for _, t := range tabs {
					if lvl >= 1 && !idsBefore[t.ID] && occBefore[lvl] {
						fail(i, &mismatch{"sm2:streamwriter incremental-session-writes-into-occupied-level",
							fmt.Sprintf("table %d of this session was added to level %d, which already held tables when the session was prepared (specification: level %d); Flush returned %v",
								t.ID, lvl, sessLevel, ferr)})
						return
					}
				}
			}
			if ferr != nil {
				fail(i, &mismatch{"sm2:streamwriter flush-failed", ferr.Error()})
				return
			}
			n := r.numTables() - tablesBefore
			if n > 0 {
				res.Tables += n
			}
			nonEmpty := 0
			for _, es := range content {
				if len(es) > 0 {
					nonEmpty++
				}
			}
			if n > nonEmpty {
				res.CutSess++
			}
			if m := r.checkDB(s.DB, s.May); m != nil {
				fail(i, m)
				return
			}
			if m := r.checkTables(); m != nil {
				fail(i, m)
				return
			}
			if got := r.nextTs(); got != s.NextTs {
				fail(i, &mismatch{"sm2:streamwriter next-timestamp", fmt.Sprintf("after Flush the next timestamp is %d, specification %d", got, s.NextTs)})
				return
			}
			if got := r.levelSet(); got != lvString(s.Lv) {
				fail(i, &mismatch{"sm2:streamwriter level-mismatch", fmt.Sprintf("after Flush the levels holding tables are %s, specification %s", got, lvString(s.Lv))})
				return
			}
			for _, e := range s.DB {
				if e.Big && e.Kind == "set" {
					res.VlogVals++
				}
			}
		default:
			vh.Fatalf("unknown step %q", s.Op)
		}
	}
	// final state (after the last re-open and possibly one more commit)
	if m := r.checkDB(c.DB, c.May); m != nil {
		fail(len(c.Steps), m)
		return
	}
	if m := r.checkTables(); m != nil {
		fail(len(c.Steps), m)
		return
	}
	if got := r.nextTs(); got != c.NextTs {
		fail(len(c.Steps), &mismatch{"sm2:streamwriter next-timestamp", fmt.Sprintf("at the end the next timestamp is %d, specification %d", got, c.NextTs)})
	}
}

func main() {
	in := flag.String("in", "", "cases (NDJSON)")
	levels := flag.Int("levels", 4, "Options.MaxLevels (the model's MaxLevels)")
	config := flag.String("config", "default", "default | snappy | enc")
	shard := flag.Int("shard", 0, "")
	nshards := flag.Int("nshards", 1, "")
	flag.Parse()
	debug.SetGCPercent(400)
	base, err := os.MkdirTemp("", "sm2sw-")
	if err != nil {
		vh.Fatalf("%v", err)
	}
	defer os.RemoveAll(base)
	c := cfg{levels: *levels}
	switch *config {
	case "default":
	case "snappy":
		c.compress = true
	case "enc":
		c.encKey = []byte("0123456789abcdef0123456789abcdef")
	default:
		vh.Fatalf("unknown config %q", *config)
	}
	enc := json.NewEncoder(os.Stdout)
	idx := -1
	err = vh.ReadNDJSON(*in, func(line []byte) error {
		idx++
		if idx%*nshards != *shard {
			return nil
		}
		var cs Case
		if err := json.Unmarshal(line, &cs); err != nil {
			return fmt.Errorf("case %d: %v", idx, err)
		}
		r := &runner{c: c, dir: filepath.Join(base, fmt.Sprintf("c%d", idx)), variant: idx % 4}
		if err := os.MkdirAll(r.dir, 0o755); err != nil {
			vh.Fatalf("%v", err)
		}
		if err := r.open(); err != nil {
			vh.Fatalf("open: %v", err)
		}
		res := Result{Case: idx, Variant: r.variant}
		func() {
			defer func() {
				if p := recover(); p != nil {
					res.Ok, res.Sig, res.Detail = false, "sm2:streamwriter panic", fmt.Sprint(p)
				}
			}()
			r.runCase(&cs, &res)
		}()
		if r.db != nil {
			_ = r.db.Close()
		}
		os.RemoveAll(r.dir)
		return enc.Encode(res)
	})
	if err != nil {
		vh.Fatalf("%v", err)
	}
}
