package main

import (
	"fmt"

	badger "github.com/dgraph-io/badger/v4"
	"verifharness/vh"
)

func main() {
	o := vh.SmallOptions("").WithInMemory(true)
	o.ValueThreshold = 100
	db, err := badger.Open(o)
	if err != nil {
		panic(err)
	}
	defer db.Close()
	func() {
		defer func() { fmt.Println("recovered:", recover()) }()
		err = db.Update(func(txn *badger.Txn) error {
			v := make([]byte, 200)
			return txn.Set([]byte("k"), v)
		})
		fmt.Println("err:", err)
	}()
	// namespace exact length
	o2 := vh.SmallOptions("").WithInMemory(true).WithNamespaceOffset(1)
	db2, _ := badger.Open(o2)
	defer db2.Close()
	fmt.Println("ban:", db2.BanNamespace(7))
	k9 := []byte{'a', 0, 0, 0, 0, 0, 0, 0, 7}
	k10 := append(append([]byte{}, k9...), 'x')
	for _, k := range [][]byte{k9, k10} {
		err := db2.Update(func(txn *badger.Txn) error { return txn.Set(k, []byte("v")) })
		fmt.Printf("len %d set err=%v\n", len(k), err)
	}
}
