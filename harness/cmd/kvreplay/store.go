package main

import (
	"bytes"
	"fmt"
	"os"
	"sort"

	badger "github.com/dgraph-io/badger/v4"
	"github.com/dgraph-io/badger/v4/y"

	"verifharness/vh"
)

// ---- store mode: KVIterGen cases (C04 overlay, C05 iterators)

type SEntry struct {
	K    int    `json:"k"`
	Ts   uint64 `json:"ts"`
	Val  int    `json:"val"`
	Del  bool   `json:"del"`
	Um   int    `json:"um"`
	Exp  uint64 `json:"exp"`
	Disc bool   `json:"disc"`
}

type PendOp struct {
	K    int    `json:"k"`
	Kind string `json:"kind"`
	E    SEntry `json:"e"`
}

type Query struct {
	O Opts  `json:"o"`
	R []int `json:"r"`
}

type StoreRun struct {
	Pend []PendOp `json:"pend"`
	Gets []Res    `json:"gets"`
	Q    []Query  `json:"q"`
}

type StoreCase struct {
	Store    []SEntry   `json:"store"`
	Rts      uint64     `json:"rts"`
	Now      uint64     `json:"now"`
	Pl       [][]int    `json:"pl"`
	Runs     []StoreRun `json:"runs"`
	BaseGets []Res      `json:"baseGets"` // Get of every key by a transaction without pending writes
	BaseIter []int      `json:"baseIter"` // plain forward iteration of such a transaction
	// optional: after the placement set the discard timestamp (managed mode) and run these
	// environment steps (compactions); the predictions must still hold (C01/C33: reads do
	// not change under compaction whatever the layout)
	DiscardTs uint64   `json:"discardTs"`
	Post      []string `json:"post"`
}

var srcNames = []string{"mt", "imm", "l0a", "l0b", "l1", "l2", "l3"}

func (r *runner) ventry(e SEntry) badger.VerifEntry {
	ve := badger.VerifEntry{Key: r.key(e.K), Version: e.Ts, UserMeta: byte(e.Um), ExpiresAt: r.realExp(e.Exp)}
	if e.Del {
		ve.Meta = badger.VerifBitDelete
	} else {
		ve.Value = r.value(e.Val)
	}
	if e.Disc {
		ve.Meta |= badger.VerifBitDiscard
	}
	return ve
}

func (r *runner) applyEntry(txn *badger.Txn, e SEntry) error {
	if e.Del {
		return txn.Delete(r.key(e.K))
	}
	en := badger.NewEntry(r.key(e.K), r.value(e.Val)).WithMeta(byte(e.Um))
	if e.Disc {
		en = en.WithDiscard()
	}
	en.ExpiresAt = r.realExp(e.Exp)
	return txn.SetEntry(en)
}

// commitGroup writes entries (all with the same version) through a transaction; reserved
// keys go through the raw write path.
func (r *runner) commitGroup(es []SEntry) error {
	var user, internal []SEntry
	for _, e := range es {
		if bytes.HasPrefix(r.key(e.K), []byte("!badger!")) {
			internal = append(internal, e)
		} else {
			user = append(user, e)
		}
	}
	if len(internal) > 0 {
		var ves []badger.VerifEntry
		for _, e := range internal {
			ves = append(ves, r.ventry(e))
		}
		if err := r.db.VerifKVBatchSet(ves); err != nil {
			return err
		}
	}
	if len(user) == 0 {
		return nil
	}
	var txn *badger.Txn
	if r.c.managed {
		txn = r.db.NewTransactionAt(^uint64(0), true)
	} else {
		txn = r.db.NewTransaction(true)
	}
	for _, e := range user {
		if err := r.applyEntry(txn, e); err != nil {
			txn.Discard()
			return err
		}
	}
	if r.c.managed {
		return txn.CommitAt(user[0].Ts, nil)
	}
	return txn.Commit()
}

func byVersion(es []SEntry) [][]SEntry {
	m := map[uint64][]SEntry{}
	var tss []uint64
	for _, e := range es {
		if _, ok := m[e.Ts]; !ok {
			tss = append(tss, e.Ts)
		}
		m[e.Ts] = append(m[e.Ts], e)
	}
	sort.Slice(tss, func(i, j int) bool { return tss[i] < tss[j] })
	var out [][]SEntry
	for _, t := range tss {
		out = append(out, m[t])
	}
	return out
}

func (r *runner) injectLevel(level int, es []SEntry) error {
	if len(es) == 0 {
		return nil
	}
	sort.Slice(es, func(i, j int) bool {
		if es[i].K != es[j].K {
			return es[i].K < es[j].K
		}
		return es[i].Ts > es[j].Ts
	})
	// levels >= 1: two tables when there are at least two keys (split at a key boundary)
	parts := [][]SEntry{es}
	if level >= 1 && es[0].K != es[len(es)-1].K {
		cut := 0
		for i := range es {
			if es[i].K != es[0].K {
				cut = i
				break
			}
		}
		parts = [][]SEntry{es[:cut], es[cut:]}
	}
	for _, p := range parts {
		var ves []badger.VerifEntry
		for _, e := range p {
			ves = append(ves, r.ventry(e))
		}
		if _, err := r.db.VerifInjectTable(level, ves); err != nil {
			return err
		}
	}
	return nil
}

// place builds the store in a fresh DB. Managed configurations follow the placement (source
// index per entry); ordinary ones commit version by version and use the placement variant
// number to decide on flushes (1: all in the memtable, 2: one flush at the end, 3: a flush
// after every commit).
func (r *runner) place(sc *StoreCase, pl []int, variant int) (release func(), m *mismatch) {
	release = func() {}
	if !r.c.managed {
		for _, g := range byVersion(sc.Store) {
			if err := r.commitGroup(g); err != nil {
				return release, &mismatch{"place.commit.error", err.Error()}
			}
			if variant%3 == 2 {
				if err := r.db.VerifFlush(); err != nil {
					return release, &mismatch{"place.flush.error", err.Error()}
				}
			}
		}
		if variant%3 == 1 {
			if err := r.db.VerifFlush(); err != nil {
				return release, &mismatch{"place.flush.error", err.Error()}
			}
		}
		return release, nil
	}
	by := map[string][]SEntry{}
	for i, e := range sc.Store {
		by[srcNames[(pl[i]-1)%len(srcNames)]] = append(by[srcNames[(pl[i]-1)%len(srcNames)]], e)
	}
	for _, lv := range []struct {
		name  string
		level int
	}{{"l3", 3}, {"l2", 2}, {"l1", 1}, {"l0a", 0}, {"l0b", 0}} {
		if err := r.injectLevel(lv.level, by[lv.name]); err != nil {
			return release, &mismatch{"place.inject.error", err.Error()}
		}
		r.stats["place."+lv.name] += len(by[lv.name])
	}
	if len(by["imm"]) > 0 {
		for _, g := range byVersion(by["imm"]) {
			if err := r.commitGroup(g); err != nil {
				return release, &mismatch{"place.commit.error", err.Error()}
			}
		}
		gate := r.rec.Arm("flush.start", nil)
		release = gate.Disarm
		ok, err := r.db.VerifRotate()
		if err != nil || !ok {
			return release, &mismatch{"place.rotate.error", fmt.Sprintf("%v %v", ok, err)}
		}
		if n := r.db.VerifNumImm(); n != 1 {
			return release, &mismatch{"place.rotate.error", fmt.Sprintf("%d immutable memtables", n)}
		}
		r.stats["place.imm"] += len(by["imm"])
	}
	for _, g := range byVersion(by["mt"]) {
		if err := r.commitGroup(g); err != nil {
			return release, &mismatch{"place.commit.error", err.Error()}
		}
	}
	r.stats["place.mt"] += len(by["mt"])
	if err := r.db.VerifValidateLevels(); err != nil {
		return release, &mismatch{"structure.validate", err.Error()}
	}
	return release, nil
}

func code(k int, ts uint64) int { return k*1000 + int(ts) }

// expected attributes of the item with the given code in a run
func (sc *StoreCase) lookup(run *StoreRun, c int) (SEntry, bool) {
	k, ts := c/1000, uint64(c%1000)
	if ts == sc.Rts {
		var last *PendOp
		for i := range run.Pend {
			if run.Pend[i].K == k {
				last = &run.Pend[i]
			}
		}
		if last != nil {
			return last.E, true
		}
	}
	for _, e := range sc.Store {
		if e.K == k && e.Ts == ts {
			return e, true
		}
	}
	return SEntry{}, false
}

func (r *runner) wantRes(sc *StoreCase, e SEntry) Res {
	dead := e.Del || (e.Exp != 0 && e.Exp <= sc.Now)
	return Res{Found: true, Val: e.Val, Ts: e.Ts, Um: e.Um, Exp: e.Exp, Disc: e.Disc, Del: e.Del, Dead: dead}
}

func (r *runner) runQuery(sc *StoreCase, run *StoreRun, txn *badger.Txn, q *Query, what string) *mismatch {
	r.mrts[0], r.rts[0] = sc.Rts, sc.Rts // transaction 0 stands for the reader (SinceTs mapping)
	oi := r.newIter(txn, q.O, 0)
	got, raws, m := oi.run(r)
	oi.it.Close()
	if m != nil {
		m.Detail = map[string]interface{}{"o": q.O, "err": m.Detail}
		return m
	}
	var gotCodes []int
	for _, g := range got {
		gotCodes = append(gotCodes, code(g.K, g.Res.Ts))
	}
	detail := func(d string) map[string]interface{} {
		return map[string]interface{}{"o": q.O, "want": q.R, "got": gotCodes, "diff": d, "pend": run.Pend,
			"prefetch": r.prefetc, "prefetchSize": r.psize}
	}
	if len(gotCodes) != len(q.R) {
		return &mismatch{what + ".length", detail(fmt.Sprintf("want %d items got %d", len(q.R), len(gotCodes)))}
	}
	for i := range q.R {
		if q.R[i] != gotCodes[i] {
			return &mismatch{what + ".key", detail(fmt.Sprintf("position %d: want key %d version %d", i, q.R[i]/1000, q.R[i]%1000))}
		}
		e, ok := sc.lookup(run, q.R[i])
		if !ok {
			vh.Fatalf("case refers to unknown item code %d", q.R[i])
		}
		if d := r.cmpRes(r.wantRes(sc, e), got[i].Res, raws[i], -1); d != "" {
			return &mismatch{what + "." + firstWord(d), detail(fmt.Sprintf("position %d: %s", i, d))}
		}
	}
	r.stats["query"]++
	if len(q.R) > 0 {
		r.stats["query.nonempty"]++
	}
	return nil
}

func firstWord(d string) string {
	for i := 0; i < len(d); i++ {
		if d[i] == ':' {
			return d[:i]
		}
	}
	return d
}

func (r *runner) getCheck(txn *badger.Txn, k int, want Res, what string) *mismatch {
	item, err := txn.Get(r.key(k))
	var got Res
	var raw []byte
	if err == badger.ErrKeyNotFound {
		got = Res{}
	} else if err != nil {
		return &mismatch{what + ".error", err.Error()}
	} else {
		got, raw, err = r.itemObs(item)
		if err != nil {
			return &mismatch{what + ".value.error", err.Error()}
		}
	}
	if d := r.cmpRes(want, got, raw, -1); d != "" {
		return &mismatch{what + "." + firstWord(d), map[string]interface{}{"k": k, "diff": d}}
	}
	r.stats["get"]++
	return nil
}

var prefetchCombos = []struct {
	on   bool
	size int
}{{false, 0}, {true, 1}, {true, 2}, {true, 100}}

func (r *runner) runStore(sc *StoreCase) (int, *mismatch, map[string]interface{}) {
	r.envDone = map[string]int{}
	r.tsMap = map[uint64]uint64{}
	r.mrts = map[int]uint64{}
	r.rts = map[int]uint64{}
	r.digest = [32]byte{}
	for _, e := range sc.Store {
		r.tsMap[e.Ts] = e.Ts
	}
	r.tsMap[sc.Rts] = sc.Rts
	y.VerifSetClock(int64(clockBase + sc.Now))
	defer y.VerifSetClock(0)
	nvar := len(sc.Pl)
	if !r.c.managed && nvar > 3 {
		nvar = 3
	}
	if len(sc.Store) == 0 && nvar > 1 {
		nvar = 1
	}
	for v := 0; v < nvar; v++ {
		if m := r.runStoreVariant(sc, v); m != nil {
			if d, ok := m.Detail.(map[string]interface{}); ok {
				d["placement"] = sc.Pl[v]
				d["variant"] = v + 1
				d["store"] = sc.Store
				d["rts"] = sc.Rts
			}
			return v, m, nil
		}
	}
	return -1, nil, nil
}

func (r *runner) runStoreVariant(sc *StoreCase, v int) (m *mismatch) {
	if !r.c.inmem {
		var err error
		r.dir, err = os.MkdirTemp("", "kvstore-")
		if err != nil {
			vh.Fatalf("mkdtemp: %v", err)
		}
		defer os.RemoveAll(r.dir)
	}
	if err := r.open(); err != nil {
		return &mismatch{"open.error", err.Error()}
	}
	release := func() {}
	defer func() {
		release()
		r.db.Close()
		r.db = nil
	}()
	var pm *mismatch
	release, pm = r.place(sc, sc.Pl[v], v)
	if pm != nil {
		return pm
	}
	if sc.DiscardTs > 0 && r.c.managed {
		r.db.SetDiscardTs(sc.DiscardTs)
	}
	for _, step := range sc.Post {
		if m := r.env(step); m != nil {
			m.Detail = map[string]interface{}{"err": m.Detail}
			return m
		}
	}
	begin := func(upd bool) (*badger.Txn, *mismatch) {
		if r.c.managed {
			return r.db.NewTransactionAt(sc.Rts, upd), nil
		}
		t := r.db.NewTransaction(upd)
		if t.ReadTs() != sc.Rts {
			t.Discard()
			return nil, &mismatch{"begin.readTs", fmt.Sprintf("want %d got %d", sc.Rts, t.ReadTs())}
		}
		return t, nil
	}
	for ri := range sc.Runs {
		run := &sc.Runs[ri]
		txn, m := begin(true)
		if m != nil {
			return m
		}
		for _, p := range run.Pend {
			if err := r.applyEntry(txn, p.E); err != nil {
				txn.Discard()
				return &mismatch{"pend.error", err.Error()}
			}
		}
		// own writes through Get
		for k := 1; k <= len(run.Gets); k++ {
			if bytes.HasPrefix(r.key(k), []byte("!badger!")) {
				continue
			}
			want := run.Gets[k-1]
			if m := r.getCheck(txn, k, want, "get"); m != nil {
				txn.Discard()
				m.Detail.(map[string]interface{})["pend"] = run.Pend
				return m
			}
		}
		// iterators created after the writes, under rotating prefetch settings
		for qi := range run.Q {
			pc := prefetchCombos[(qi+ri+v)%len(prefetchCombos)]
			r.prefetc, r.psize = pc.on, pc.size
			if m := r.runQuery(sc, run, txn, &run.Q[qi], "iter"); m != nil {
				txn.Discard()
				return m
			}
		}
		// invisible to another transaction before commit
		if len(run.Pend) > 0 {
			other, m := begin(ri%2 == 0)
			if m != nil {
				txn.Discard()
				return m
			}
			for _, p := range run.Pend {
				if m := r.getCheck(other, p.K, sc.BaseGets[p.K-1], "otherTxn.get"); m != nil {
					other.Discard()
					txn.Discard()
					m.Sig = "pendingVisibleToOther." + m.Sig
					return m
				}
			}
			q := Query{O: Opts{Pmode: "none"}, R: sc.BaseIter}
			if m := r.runQuery(sc, &StoreRun{}, other, &q, "otherTxn.iter"); m != nil {
				other.Discard()
				txn.Discard()
				m.Sig = "pendingVisibleToOther." + m.Sig
				return m
			}
			other.Discard()
			r.stats["invisible"]++
		}
		txn.Discard()
		r.stats["runs"]++
	}
	return nil
}
