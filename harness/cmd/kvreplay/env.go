package main

import (
	"bytes"
	"crypto/sha256"
	"encoding/hex"
	"fmt"
	"os"
	"os/exec"
	"path/filepath"
	"sort"
	"strings"
	"time"

	badger "github.com/dgraph-io/badger/v4"

	"verifharness/vh"
)

func (r *runner) ageTables() {
	for _, lvl := range r.db.VerifTables() {
		for _, t := range lvl {
			r.db.VerifSetTableCreatedAt(t.ID, time.Now().Add(-2*time.Hour))
		}
	}
}

func (r *runner) env(what string) *mismatch {
	r.envDone[what]++
	switch what {
	case "flush":
		if err := r.db.VerifFlush(); err != nil {
			return &mismatch{"env.flush.error", err.Error()}
		}
	case "compactL0":
		err := r.db.VerifDoCompact(1, 0, 1.0, 1.0)
		if err != nil && err != badger.ErrVerifNoFill {
			return &mismatch{"env.compactL0.error", err.Error()}
		}
	case "compactL0L0":
		r.ageTables()
		err := r.db.VerifDoCompact(0, 0, 1.0, 0.5)
		if err != nil && err != badger.ErrVerifNoFill {
			return &mismatch{"env.compactL0L0.error", err.Error()}
		}
	case "compactDown":
		tabs := r.db.VerifTables()
		for lvl := 1; lvl < len(tabs); lvl++ {
			if len(tabs[lvl]) == 0 {
				continue
			}
			if lvl == len(tabs)-1 {
				r.ageTables()
			}
			err := r.db.VerifDoCompact(1, lvl, 1.0, 1.0)
			if err != nil && err != badger.ErrVerifNoFill {
				return &mismatch{"env.compactDown.error", err.Error()}
			}
			break
		}
	case "gc":
		if r.c.inmem {
			return nil
		}
		fids, pending, maxFid := r.db.VerifVlogFids()
		isPending := map[uint32]bool{}
		for _, f := range pending {
			isPending[f] = true // rewritten while an iterator was open: deletion deferred
		}
		for _, f := range fids {
			if f < maxFid && !isPending[f] {
				r.nGC++
				if err := r.db.VerifRewrite(f); err != nil {
					return &mismatch{"env.gc.error", err.Error()}
				}
				break
			}
		}
	case "reopen":
		if r.c.inmem {
			return nil
		}
		before := r.dump(true)
		if m := r.collectIVs(); m != nil {
			return m
		}
		if err := r.db.Close(); err != nil {
			return &mismatch{"env.reopen.close", err.Error()}
		}
		r.db = nil
		if r.opt.wrongKey && r.c.encrypted {
			if m := r.tryWrongKey(); m != nil {
				return m
			}
		}
		if r.opt.rotate != "" && r.c.encrypted {
			if m := r.rotateMasterKey(); m != nil {
				return m
			}
		}
		if err := r.open(); err != nil {
			return &mismatch{"env.reopen.open", err.Error()}
		}
		after := r.dump(true)
		if before != after {
			return &mismatch{"env.reopen.contentChanged", map[string]string{"before": before, "after": after}}
		}
		if m := r.resync(); m != nil {
			return m
		}
	case "reopenRO":
		// close, open read-only, read everything, close: no file may change; then open read-write
		if r.c.inmem {
			return nil
		}
		before := r.dump(true)
		if err := r.db.Close(); err != nil {
			return &mismatch{"env.reopen.close", err.Error()}
		}
		r.db = nil
		h0 := hashTree(r.dir)
		var during string
		var muts []string
		nfs := 0
		if r.c.encrypted {
			// in a child process: a read-only open of an encrypted DB can terminate the
			// process (log.Fatal), which must be reported, not suffered
			res, m := r.roProbeChild()
			if m != nil {
				// put the DB back in service so that the rest of the run is meaningful
				return m
			}
			during, muts, nfs = res.Dump, res.Muts, res.Nfs
		} else {
			r.rec.Reset()
			var m *mismatch
			during, muts, nfs, m = r.roProbe()
			if m != nil {
				return m
			}
		}
		r.stats["ro.fsEventsSeen"] += nfs
		h1 := hashTree(r.dir)
		if during != before {
			return &mismatch{"env.reopenRO.contentChanged", map[string]string{"before": before, "after": during}}
		}
		if d := diffTree(h0, h1); d != "" {
			return &mismatch{"env.reopenRO.filesChanged", d}
		}
		if len(muts) > 0 {
			return &mismatch{"env.reopenRO.fsEvents", muts}
		}
		r.stats["ro.files"] += len(h0)
		if err := r.open(); err != nil {
			return &mismatch{"env.reopen.open", err.Error()}
		}
		if after := r.dump(true); after != before {
			return &mismatch{"env.reopen.contentChanged", map[string]string{"before": before, "after": after}}
		}
		if m := r.resync(); m != nil {
			return m
		}
	case "reopenCompact":
		// close, open with background compactors and aggressive level-0 settings, let them
		// work, close with CompactL0OnClose, open with the standard settings again. The
		// visible content (every key's newest version) must not change.
		if r.c.inmem {
			return nil
		}
		before := r.dump(false)
		if err := r.db.Close(); err != nil {
			return &mismatch{"env.reopen.close", err.Error()}
		}
		r.db = nil
		o := r.opts()
		o.NumCompactors = 2
		o.NumLevelZeroTables = 1
		o.NumLevelZeroTablesStall = 10
		o.CompactL0OnClose = true
		db, err := r.openWith(o)
		if err != nil {
			return &mismatch{"env.reopenCompact.open", err.Error()}
		}
		r.db = db
		if mid := r.dump(false); mid != before {
			return &mismatch{changedSig("env.reopenCompact", before, mid), map[string]string{"before": before, "after": mid}}
		}
		time.Sleep(60 * time.Millisecond) // compactors tick every 50ms
		if mid := r.dump(false); mid != before {
			return &mismatch{changedSig("env.reopenCompact", before, mid), map[string]string{"before": before, "after": mid}}
		}
		if err := r.db.Close(); err != nil {
			return &mismatch{"env.reopenCompact.close", err.Error()}
		}
		r.db = nil
		if err := r.open(); err != nil {
			return &mismatch{"env.reopen.open", err.Error()}
		}
		if after := r.dump(false); after != before {
			return &mismatch{changedSig("env.reopenCompact", before, after), map[string]string{"before": before, "after": after}}
		}
		if m := r.resync(); m != nil {
			return m
		}
	default:
		vh.Fatalf("unknown env step %q", what)
	}
	if err := r.db.VerifValidateLevels(); err != nil {
		return &mismatch{"structure.validate", err.Error()}
	}
	if os.Getenv("KVREPLAY_LAYOUT") != "" {
		ents, _ := r.db.VerifLayout()
		fmt.Fprintf(os.Stderr, "after %s (discardAtOrBelow=%d):", what, r.db.VerifOracleState().DiscardAtBelow)
		for _, e := range ents {
			fmt.Fprintf(os.Stderr, " %s[%q@%d m=%x exp=%d]", e.Source, e.Key, e.Version, e.Meta, e.ExpiresAt)
		}
		fmt.Fprintln(os.Stderr)
	}
	return nil
}

// changedSig names a difference between two visible-content dumps: "resurrectedKey" when the
// later dump only gained entries (a key that was invisible became visible), "contentChanged"
// otherwise.
func changedSig(prefix, before, after string) string {
	have := map[string]bool{}
	for _, e := range strings.Split(before, ";") {
		have[e] = true
	}
	gained, lost := 0, 0
	seen := map[string]bool{}
	for _, e := range strings.Split(after, ";") {
		seen[e] = true
		if !have[e] {
			gained++
		}
	}
	for e := range have {
		if !seen[e] {
			lost++
		}
	}
	if gained > 0 && lost == 0 {
		return prefix + ".resurrectedKey"
	}
	return prefix + ".contentChanged"
}

// dump renders the content at the maximal timestamp: every retained version (all=true) or
// every visible key with its newest version.
func (r *runner) dump(all bool) string {
	txn := r.latestTxn()
	defer txn.Discard()
	o := badger.DefaultIteratorOptions
	o.AllVersions = all
	it := txn.NewIterator(o)
	defer it.Close()
	var sb strings.Builder
	for it.Rewind(); it.Valid(); it.Next() {
		i := it.Item()
		v, err := i.ValueCopy(nil)
		fmt.Fprintf(&sb, "%q@%d m=%d del=%v exp=%d disc=%v v=%q e=%v;", i.Key(), i.Version(), i.UserMeta(), i.IsDeletedOrExpired(), i.ExpiresAt(), i.DiscardEarlierVersions(), trunc(v), err)
	}
	return sb.String()
}

// mutatingFsEvent tells whether a recorded persistence event creates, changes or removes a
// file (directory fsyncs, file fsyncs and closes without truncation do not).
func mutatingFsEvent(ev vh.Event) bool {
	switch ev.Point {
	case "fs.create", "fs.remove", "fs.append", "fs.rename", "fs.truncate":
		return true
	case "fs.close":
		if len(ev.Args) > 1 {
			if off, ok := ev.Args[1].(int64); ok && off >= 0 {
				return true
			}
		}
	}
	return false
}

// ---- file tree hashing (C07 read-only opens, C23 wrong key)
func hashTree(root string) map[string]string {
	out := map[string]string{}
	filepath.Walk(root, func(p string, info os.FileInfo, err error) error {
		if err != nil {
			return nil
		}
		rel, _ := filepath.Rel(root, p)
		if info.IsDir() {
			out[rel+"/"] = "dir"
			return nil
		}
		b, err := os.ReadFile(p)
		if err != nil {
			out[rel] = "unreadable: " + err.Error()
			return nil
		}
		s := sha256.Sum256(b)
		out[rel] = fmt.Sprintf("%d:%s", len(b), hex.EncodeToString(s[:8]))
		return nil
	})
	return out
}

func diffTree(a, b map[string]string) string {
	var d []string
	for k, v := range a {
		if w, ok := b[k]; !ok {
			d = append(d, "removed "+k)
		} else if w != v {
			d = append(d, fmt.Sprintf("changed %s (%s -> %s)", k, v, w))
		}
	}
	for k := range b {
		if _, ok := a[k]; !ok {
			d = append(d, "created "+k)
		}
	}
	sort.Strings(d)
	return strings.Join(d, "; ")
}

// ---- encryption (C23)
func (r *runner) tryWrongKey() *mismatch {
	h0 := hashTree(r.dir)
	o := r.opts()
	wrong := bytes.Repeat([]byte{'W'}, len(r.encKey))
	o.EncryptionKey = wrong
	db, err := r.openWith(o)
	if err == nil {
		db.Close()
		return &mismatch{"enc.wrongKeyAccepted", "Open with a different master key succeeded"}
	}
	if err != badger.ErrEncryptionKeyMismatch && !strings.Contains(err.Error(), badger.ErrEncryptionKeyMismatch.Error()) {
		return &mismatch{"enc.wrongKeyError", err.Error()}
	}
	r.stats["enc.wrongKeyRejected"]++
	if d := diffTree(h0, hashTree(r.dir)); d != "" {
		return &mismatch{"enc.wrongKeyChangedFiles", d}
	}
	return nil
}

// rotateMasterKey runs the production `badger rotate` command and switches to the new key.
func (r *runner) rotateMasterKey() *mismatch {
	n := len(r.encKey)
	r.nrot++ // never reset: the master key of the previous case stays the current one
	newKey := []byte(fmt.Sprintf("R%06d%s", r.nrot%1000000, strings.Repeat("r", 40)))[:n]
	oldP := filepath.Join(r.dir, "..", fmt.Sprintf("old-%d.key", os.Getpid()))
	newP := filepath.Join(r.dir, "..", fmt.Sprintf("new-%d.key", os.Getpid()))
	os.WriteFile(oldP, r.encKey, 0600)
	os.WriteFile(newP, newKey, 0600)
	defer os.Remove(oldP)
	defer os.Remove(newP)
	cmd := exec.Command(r.opt.rotate, "rotate", "--dir", r.dir, "--old-key-path", oldP, "--new-key-path", newP)
	out, err := cmd.CombinedOutput()
	if err != nil {
		return &mismatch{"enc.rotate.error", fmt.Sprintf("%v: %s", err, out)}
	}
	// the old master key must no longer open the DB
	o := r.opts()
	if db, err := r.openWith(o); err == nil {
		db.Close()
		return &mismatch{"enc.rotate.oldKeyStillValid", "Open with the previous master key succeeded after rotation"}
	}
	r.encKey = newKey
	r.stats["enc.rotations"]++
	return nil
}

// collectIVs records the (data key id, IV) pair of every encrypted unit currently on disk
// and reports a pair used by two different units.
func (r *runner) collectIVs() *mismatch {
	if !r.opt.ivs || !r.c.encrypted || r.db == nil {
		return nil
	}
	units, err := r.db.VerifKVEncUnits()
	if err != nil {
		return &mismatch{"enc.units.error", err.Error()}
	}
	known := map[uint64]bool{}
	for _, id := range r.db.VerifKVDataKeyIDs() {
		known[id] = true
	}
	cur := map[string]string{}
	for _, u := range units {
		if !known[u.KeyID] {
			return &mismatch{"enc.unknownDataKey", fmt.Sprintf("%s uses data key %d which the registry does not have", u.File, u.KeyID)}
		}
		if len(u.IV) != 16 {
			return &mismatch{"enc.badIV", fmt.Sprintf("%s %s: IV of %d bytes", u.File, u.Kind, len(u.IV))}
		}
		id := fmt.Sprintf("%d/%x", u.KeyID, u.IV)
		where := fmt.Sprintf("%s:%s", filepath.Base(u.File), u.Kind)
		if u.Kind == "rec" {
			where = fmt.Sprintf("%s:rec@%x", filepath.Base(u.File), u.IV[12:])
		}
		if prev, dup := cur[id]; dup {
			return &mismatch{"enc.ivReuse", fmt.Sprintf("data key %d, IV %x used by %s and %s", u.KeyID, u.IV, prev, where)}
		}
		cur[id] = where
		if prev, dup := r.encSeen[id]; dup && prev != where {
			return &mismatch{"enc.ivReuse", fmt.Sprintf("data key %d, IV %x used by %s and later by %s", u.KeyID, u.IV, prev, where)}
		}
		r.encSeen[id] = where
	}
	r.stats["enc.units"] += len(units)
	r.stats["enc.dataKeys"] = len(known)
	files := r.db.VerifKVFileKeyIDs()
	perKey := map[uint64]int{}
	for f, id := range files {
		if id == 0 {
			return &mismatch{"enc.plainFile", fmt.Sprintf("%s is not encrypted", f)}
		}
		perKey[id]++
	}
	r.stats["enc.files"] += len(files)
	return nil
}

// scanPlaintext searches every file of the DB directory for the >= 8-byte markers of the
// user keys and values written in this case.
func (r *runner) scanPlaintext(markers [][]byte) (hits []string, nfiles int, nbytes int64) {
	filepath.Walk(r.dir, func(p string, info os.FileInfo, err error) error {
		if err != nil || info.IsDir() {
			return nil
		}
		b, err := os.ReadFile(p)
		if err != nil {
			return nil
		}
		nfiles++
		nbytes += int64(len(b))
		for _, m := range markers {
			if bytes.Contains(b, m) {
				hits = append(hits, fmt.Sprintf("%s contains %q", filepath.Base(p), m))
				break
			}
		}
		return nil
	})
	return
}

// finish runs the end-of-case checks selected on the command line.
func (r *runner) finish() *mismatch {
	extra := map[string]interface{}{}
	if r.opt.fsaudit {
		var fs []string
		for _, ev := range r.rec.Events() {
			if strings.HasPrefix(ev.Point, "fs.") {
				fs = append(fs, ev.Point)
			}
		}
		extra["fsEvents"] = len(fs)
		if r.c.inmem && len(fs) > 0 {
			return &mismatch{"inmem.fsEvents", fs}
		}
	}
	if m := r.collectIVs(); m != nil {
		return m
	}
	if r.opt.final == "probe" && !r.c.inmem {
		for _, oi := range r.iters {
			oi.it.Close()
		}
		r.iters = map[int]*openIter{}
		for _, t := range r.txns {
			t.Discard()
		}
		r.txns = map[int]*badger.Txn{}
		if err := r.db.Close(); err != nil {
			return &mismatch{"env.reopen.close", err.Error()}
		}
		r.db = nil
		if err := r.open(); err != nil {
			return &mismatch{"env.reopen.open", err.Error()}
		}
		if !r.c.managed {
			if err := vh.AssertNextTsAboveAll(r.db); err != nil {
				return &mismatch{"reopen.nextTsNotAboveStored", err.Error()}
			}
			// the same two assertions after DB.Load of a full backup into a fresh directory (taken before the
			// probe commit below, so that the newest version of the backup may be a deletion marker)
			if m := r.loadProbe(); m != nil {
				return m
			}
			if err := vh.CommitProbeAboveAll(r.db, r.key(1), []byte("probe-value")); err != nil {
				return &mismatch{"reopen.probeCommit", err.Error()}
			}
			r.stats["probe"]++
		}
	}
	if r.opt.scan && !r.c.inmem {
		// close first so that everything is on disk
		for _, oi := range r.iters {
			oi.it.Close()
		}
		r.iters = map[int]*openIter{}
		for _, t := range r.txns {
			t.Discard()
		}
		r.txns = map[int]*badger.Txn{}
		if r.db != nil {
			if err := r.db.Close(); err != nil {
				return &mismatch{"env.close.error", err.Error()}
			}
			r.db = nil
		}
		var markers [][]byte
		for _, k := range r.keys {
			if len(k) >= 8 {
				markers = append(markers, []byte(k))
			}
		}
		for v := 1; v <= 40; v++ {
			markers = append(markers, []byte(fmt.Sprintf("v%06d.", v)))
		}
		hits, nf, nb := r.scanPlaintext(markers)
		extra["scanFiles"] = nf
		extra["scanBytes"] = nb
		extra["scanHits"] = len(hits)
		if r.c.encrypted && len(hits) > 0 {
			return &mismatch{"enc.plaintextOnDisk", hits}
		}
	}
	r.caseExtra = extra
	return nil
}

// loadProbe backs the database up, loads the backup into a fresh on-disk database and requires that
// the destination's next timestamp exceeds every loaded version and that a new commit reads back.
func (r *runner) loadProbe() *mismatch {
	var buf bytes.Buffer
	if _, err := r.db.Backup(&buf, 0); err != nil {
		return &mismatch{"load.backup", err.Error()}
	}
	dir, err := os.MkdirTemp("", "kvreplay-load-")
	if err != nil {
		vh.Fatalf("mkdtemp: %v", err)
	}
	defer os.RemoveAll(dir)
	dst, err := badger.Open(vh.SmallOptions(dir))
	if err != nil {
		return &mismatch{"load.open", err.Error()}
	}
	defer dst.Close()
	if err := dst.Load(&buf, 16); err != nil {
		return &mismatch{"load.load", err.Error()}
	}
	if err := vh.AssertNextTsAboveAll(dst); err != nil {
		return &mismatch{"load.nextTsNotAboveStored", err.Error()}
	}
	for i := range r.keys {
		if err := vh.CommitProbeAboveAll(dst, r.key(i+1), []byte("probe-value")); err != nil {
			return &mismatch{"load.probeCommit", err.Error()}
		}
	}
	r.stats["loadProbe"]++
	return nil
}
