package main

import (
	"bytes"
	"encoding/hex"
	"encoding/json"
	"fmt"
	"os"
	"os/exec"
	"strings"
)

// roResult is what a read-only open observed.
type roResult struct {
	Dump string   `json:"dump"`
	Muts []string `json:"muts"`
	Nfs  int      `json:"nfs"`
	Err  string   `json:"err"`
}

// roProbe opens the (closed) DB read-only in this process, reads everything, closes it, and
// returns the AllVersions dump plus the mutating persistence events the recorder saw.
func (r *runner) roProbe() (dump string, muts []string, nfs int, m *mismatch) {
	o := r.opts()
	o.ReadOnly = true
	db, err := r.openWith(o)
	if err != nil {
		return "", nil, 0, &mismatch{"env.reopenRO.open", err.Error()}
	}
	r.db = db
	dump = r.dump(true)
	for k := range r.keys {
		txn := r.latestTxn()
		if it, err := txn.Get(r.key(k + 1)); err == nil {
			_, _ = it.ValueCopy(nil)
		}
		txn.Discard()
	}
	if err := r.db.Close(); err != nil {
		r.db = nil
		return "", nil, 0, &mismatch{"env.reopenRO.close", err.Error()}
	}
	r.db = nil
	for _, ev := range r.rec.Events() {
		if strings.HasPrefix(ev.Point, "fs.") {
			nfs++
			if mutatingFsEvent(ev) {
				muts = append(muts, fmt.Sprintf("%s %v", ev.Point, ev.Args))
			}
		}
	}
	return dump, muts, nfs, nil
}

// roProbeChild runs roProbe in a child process (this binary with -roprobe).
func (r *runner) roProbeChild() (*roResult, *mismatch) {
	kf, err := os.CreateTemp("", "rokeys-*.json")
	if err != nil {
		return nil, &mismatch{"harness.tmp", err.Error()}
	}
	defer os.Remove(kf.Name())
	var ks []string
	for _, k := range r.keys {
		rs := make([]rune, 0, len(k))
		for i := 0; i < len(k); i++ {
			rs = append(rs, rune(k[i]))
		}
		ks = append(ks, string(rs))
	}
	json.NewEncoder(kf).Encode(ks)
	kf.Close()
	cmd := exec.Command(os.Args[0], "-roprobe", r.dir, "-config", r.c.name, "-keys", kf.Name(),
		"-enckey", hex.EncodeToString(r.encKey), "-clock", fmt.Sprint(clockBase+r.now))
	var stdout, stderr bytes.Buffer
	cmd.Stdout, cmd.Stderr = &stdout, &stderr
	if err := cmd.Run(); err != nil {
		return nil, &mismatch{"env.reopenRO.processDied", fmt.Sprintf("read-only open terminated the process (%v): %s", err, trunc2(stderr.String(), 400))}
	}
	var res roResult
	if err := json.Unmarshal(stdout.Bytes(), &res); err != nil {
		return nil, &mismatch{"harness.roprobe", fmt.Sprintf("%v: %s", err, trunc2(stdout.String(), 200))}
	}
	if res.Err != "" {
		return nil, &mismatch{"env.reopenRO.open", res.Err}
	}
	return &res, nil
}

func trunc2(s string, n int) string {
	if len(s) > n {
		return s[len(s)-n:]
	}
	return s
}

// roProbeMain is the child side.
func roProbeMain(r *runner, dir string) {
	r.dir = dir
	var res roResult
	dump, muts, nfs, m := r.roProbe()
	if m != nil {
		res.Err = fmt.Sprintf("%s: %v", m.Sig, m.Detail)
	}
	res.Dump, res.Muts, res.Nfs = dump, muts, nfs
	json.NewEncoder(os.Stdout).Encode(res)
}
