// kvreplay replays BadgerKVGen histories (TLC-generated) against the real badger DB and
// compares every observation with the one the specification predicted.
//
// input : NDJSON, one history (JSON array of steps) per line
// output: NDJSON on stdout, one line per case: {"case":i,"ok":bool,"step":j,"sig":..,"detail":..}
// exit  : 0 when all cases were executed (mismatches are reported in the output),
//
//	2 on harness trouble.
package main

import (
	"bytes"
	"encoding/json"
	"flag"
	"fmt"
	"math/rand"
	"os"
	"path/filepath"
	"sort"
	"strings"
	"time"

	badger "github.com/dgraph-io/badger/v4"
	"github.com/dgraph-io/badger/v4/options"
	"github.com/dgraph-io/badger/v4/y"
	"github.com/dgraph-io/ristretto/v2/z"

	"verifharness/vh"
)

type Res struct {
	Found bool   `json:"found"`
	Val   int    `json:"val"`
	Ts    uint64 `json:"ts"`
	Um    int    `json:"um"`
	Exp   uint64 `json:"exp"`
}

type KRes struct {
	K   int `json:"k"`
	Res Res `json:"res"`
}

type Step struct {
	Op     string          `json:"op"`
	T      int             `json:"t"`
	Upd    bool            `json:"upd"`
	ReadTs uint64          `json:"readTs"`
	K      int             `json:"k"`
	Val    int             `json:"val"`
	Um     int             `json:"um"`
	Exp    uint64          `json:"exp"`
	Disc   bool            `json:"disc"`
	Res    json.RawMessage `json:"res"`
	Cts    uint64          `json:"cts"`
	From   int             `json:"from"`
	Rev    bool            `json:"rev"`
	Now    uint64          `json:"now"`
	What   string          `json:"what"`
}

const clockBase = 4000000000

var keyTables = [][]string{
	{"a", "a\x00", "ab", "a\xff", "b", "b\x00\x00", "c"},
	{"k1", "k2", "k3", "k4", "k5", "k6", "k7"},
	{"\x00", "\x00\x00", "\x01", "\x7f\xff", "\xff", "\xff\x00", "\xff\xff"},
	{"key", "key0", "key00", "keya", "keyb", "kez", "l"},
}

type cfg struct {
	name      string
	managed   bool
	inmem     bool
	encrypted bool
	vlog      bool // low value threshold: odd values go to the value log
	compress  options.CompressionType
	levels    int
}

func parseConfig(name string) cfg {
	c := cfg{name: name, levels: 7}
	for _, p := range strings.Split(name, "+") {
		switch p {
		case "default", "":
		case "managed":
			c.managed = true
		case "inmem":
			c.inmem = true
		case "enc":
			c.encrypted = true
		case "vlog":
			c.vlog = true
		case "zstd":
			c.compress = options.ZSTD
		case "snappy":
			c.compress = options.Snappy
		case "l3":
			c.levels = 3
		default:
			vh.Fatalf("unknown config part %q", p)
		}
	}
	return c
}

type runner struct {
	c       cfg
	dir     string
	db      *badger.DB
	keys    []string
	rng     *rand.Rand
	txns    map[int]*badger.Txn
	rts     map[int]uint64 // real read ts per txn
	tsMap   map[uint64]uint64
	offset  uint64 // model ts - real ts for commits of the current epoch
	now     uint64
	prefetc bool
	psize   int
	valSize func(val int) int
	encKey  []byte
	nGC     int
	envDone map[string]int
}

type mismatch struct {
	Sig    string      `json:"sig"`
	Detail interface{} `json:"detail"`
}

func (r *runner) opts() badger.Options {
	var o badger.Options
	if r.c.inmem {
		o = vh.SmallOptions("").WithInMemory(true)
	} else {
		o = vh.SmallOptions(r.dir)
	}
	o.MaxLevels = r.c.levels
	o.Compression = r.c.compress
	if r.c.vlog {
		o.ValueThreshold = 32
		o.ValueLogMaxEntries = 3
	}
	if r.c.encrypted {
		o.EncryptionKey = r.encKey
		o.EncryptionKeyRotationDuration = time.Nanosecond // a new data key for every file
		o.IndexCacheSize = 1 << 20
	}
	o.NumVersionsToKeep = 1
	return o
}

func (r *runner) open() error {
	var err error
	if r.c.managed {
		r.db, err = badger.OpenManaged(r.opts())
	} else {
		r.db, err = badger.Open(r.opts())
	}
	return err
}

func (r *runner) key(k int) []byte { return []byte(r.keys[k-1]) }

func (r *runner) keyIndex(b []byte) int {
	for i, s := range r.keys {
		if s == string(b) {
			return i + 1
		}
	}
	return -1
}

func (r *runner) value(val int) []byte {
	n := r.valSize(val)
	s := fmt.Sprintf("v%06d.", val)
	for len(s) < n {
		s += "x"
	}
	return []byte(s)
}

func parseVal(b []byte) int {
	var v int
	if len(b) < 7 || b[0] != 'v' {
		return -1
	}
	fmt.Sscanf(string(b[1:7]), "%d", &v)
	return v
}

func (r *runner) realExp(e uint64) uint64 {
	if e == 0 {
		return 0
	}
	return clockBase + e
}

func (r *runner) mapTs(m uint64) (uint64, bool) {
	if m == 0 {
		return 0, true
	}
	v, ok := r.tsMap[m]
	return v, ok
}

// itemRes converts a real item into the model's observation (timestamps mapped back).
func (r *runner) itemObs(it *badger.Item) (Res, []byte, error) {
	v, err := it.ValueCopy(nil)
	if err != nil {
		return Res{}, nil, err
	}
	exp := it.ExpiresAt()
	if exp != 0 {
		exp -= clockBase
	}
	return Res{Found: true, Val: parseVal(v), Ts: it.Version(), Um: int(it.UserMeta()), Exp: exp}, v, nil
}

// cmpRes compares a real observation with the predicted one. The predicted timestamp is
// a model timestamp; own-write reads carry the transaction's read timestamp.
func (r *runner) cmpRes(want Res, got Res, gotRaw []byte, ownReadTs *uint64) string {
	if want.Found != got.Found {
		return fmt.Sprintf("found: want %v got %v", want.Found, got.Found)
	}
	if !want.Found {
		return ""
	}
	if want.Val != got.Val {
		return fmt.Sprintf("value: want v%d got %q", want.Val, trunc(gotRaw))
	}
	if !bytes.Equal(gotRaw, r.value(want.Val)) {
		return fmt.Sprintf("value bytes differ for v%d: got %q", want.Val, trunc(gotRaw))
	}
	if want.Um != got.Um {
		return fmt.Sprintf("userMeta: want %d got %d", want.Um, got.Um)
	}
	if want.Exp != got.Exp {
		return fmt.Sprintf("expiresAt: want %d got %d", want.Exp, got.Exp)
	}
	wantTs, ok := r.mapTs(want.Ts)
	if ownReadTs != nil && want.Ts == *ownReadTs {
		// item served from pending writes (or a committed version exactly at readTs)
		return ""
	}
	if !ok {
		return fmt.Sprintf("version: model ts %d never committed (got real %d)", want.Ts, got.Ts)
	}
	if wantTs != got.Ts {
		return fmt.Sprintf("version: want %d (model %d) got %d", wantTs, want.Ts, got.Ts)
	}
	return ""
}

func trunc(b []byte) string {
	if len(b) > 24 {
		return string(b[:24]) + "..."
	}
	return string(b)
}

func (r *runner) ageTables() {
	for _, lvl := range r.db.VerifTables() {
		for _, t := range lvl {
			r.db.VerifSetTableCreatedAt(t.ID, time.Now().Add(-2*time.Hour))
		}
	}
}

func (r *runner) env(what string) *mismatch {
	r.envDone[what]++
	switch what {
	case "flush":
		if err := r.db.VerifFlush(); err != nil {
			return &mismatch{"env.flush.error", err.Error()}
		}
	case "compactL0":
		err := r.db.VerifDoCompact(1, 0, 1.0, 1.0)
		if err != nil && err != badger.ErrVerifNoFill {
			return &mismatch{"env.compactL0.error", err.Error()}
		}
	case "compactL0L0":
		r.ageTables()
		err := r.db.VerifDoCompact(0, 0, 1.0, 0.5)
		if err != nil && err != badger.ErrVerifNoFill {
			return &mismatch{"env.compactL0L0.error", err.Error()}
		}
	case "compactDown":
		tabs := r.db.VerifTables()
		for lvl := 1; lvl < len(tabs); lvl++ {
			if len(tabs[lvl]) == 0 {
				continue
			}
			if lvl == len(tabs)-1 {
				r.ageTables()
			}
			err := r.db.VerifDoCompact(1, lvl, 1.0, 1.0)
			if err != nil && err != badger.ErrVerifNoFill {
				return &mismatch{"env.compactDown.error", err.Error()}
			}
			break
		}
	case "gc":
		if r.c.inmem {
			return nil
		}
		fids, _, maxFid := r.db.VerifVlogFids()
		for _, f := range fids {
			if f < maxFid {
				r.nGC++
				if err := r.db.VerifRewrite(f); err != nil {
					return &mismatch{"env.gc.error", err.Error()}
				}
				break
			}
		}
	case "reopen":
		if r.c.inmem {
			return nil
		}
		before := r.dump()
		if err := r.db.Close(); err != nil {
			return &mismatch{"env.reopen.close", err.Error()}
		}
		if err := r.open(); err != nil {
			return &mismatch{"env.reopen.open", err.Error()}
		}
		after := r.dump()
		if before != after {
			return &mismatch{"env.reopen.contentChanged", map[string]string{"before": before, "after": after}}
		}
	default:
		vh.Fatalf("unknown env step %q", what)
	}
	if err := r.db.VerifValidateLevels(); err != nil {
		return &mismatch{"structure.validate", err.Error()}
	}
	return nil
}

// dump renders every visible key with its newest value at the maximal timestamp.
func (r *runner) dump() string {
	var txn *badger.Txn
	if r.c.managed {
		txn = r.db.NewTransactionAt(^uint64(0), false)
	} else {
		txn = r.db.NewTransaction(false)
	}
	defer txn.Discard()
	o := badger.DefaultIteratorOptions
	o.AllVersions = true
	it := txn.NewIterator(o)
	defer it.Close()
	var sb strings.Builder
	for it.Rewind(); it.Valid(); it.Next() {
		i := it.Item()
		v, err := i.ValueCopy(nil)
		fmt.Fprintf(&sb, "%q@%d m=%d del=%v exp=%d v=%q e=%v;", i.Key(), i.Version(), i.UserMeta(), i.IsDeletedOrExpired(), i.ExpiresAt(), trunc(v), err)
	}
	return sb.String()
}

func (r *runner) runCase(steps []Step) (int, *mismatch) {
	r.txns = map[int]*badger.Txn{}
	r.rts = map[int]uint64{}
	r.tsMap = map[uint64]uint64{}
	r.offset = 0
	r.now = 1
	r.envDone = map[string]int{}
	y.VerifSetClock(int64(clockBase + r.now))
	defer y.VerifSetClock(0)
	if !r.c.inmem {
		var err error
		r.dir, err = os.MkdirTemp("", "kvreplay-")
		if err != nil {
			vh.Fatalf("mkdtemp: %v", err)
		}
		defer os.RemoveAll(r.dir)
	}
	if err := r.open(); err != nil {
		return 0, &mismatch{"open.error", err.Error()}
	}
	defer func() {
		for _, t := range r.txns {
			t.Discard()
		}
		if r.db != nil {
			r.db.Close()
		}
	}()
	modelReadTs := map[int]uint64{}
	for i, s := range steps {
		switch s.Op {
		case "begin":
			t := r.db.NewTransaction(s.Upd)
			r.txns[s.T] = t
			r.rts[s.T] = t.ReadTs()
			modelReadTs[s.T] = s.ReadTs
			// the model's read timestamp is nextTs-1 of the current epoch
			if want := s.ReadTs - r.offset; want != t.ReadTs() {
				return i, &mismatch{"begin.readTs", fmt.Sprintf("want %d (model %d, epoch offset %d) got %d", want, s.ReadTs, r.offset, t.ReadTs())}
			}
		case "beginAt":
			t := r.db.NewTransactionAt(s.ReadTs, s.Upd)
			r.txns[s.T] = t
			r.rts[s.T] = s.ReadTs
			modelReadTs[s.T] = s.ReadTs
		case "get":
			var want Res
			if err := json.Unmarshal(s.Res, &want); err != nil {
				vh.Fatalf("bad res: %v", err)
			}
			item, err := r.txns[s.T].Get(r.key(s.K))
			var got Res
			var raw []byte
			if err == badger.ErrKeyNotFound {
				got = Res{}
			} else if err != nil {
				return i, &mismatch{"get.error", err.Error()}
			} else {
				got, raw, err = r.itemObs(item)
				if err != nil {
					return i, &mismatch{"get.value.error", err.Error()}
				}
				if !bytes.Equal(item.Key(), r.key(s.K)) {
					return i, &mismatch{"get.key", fmt.Sprintf("asked %q got %q", r.key(s.K), item.Key())}
				}
			}
			mr := modelReadTs[s.T]
			if d := r.cmpRes(want, got, raw, &mr); d != "" {
				return i, &mismatch{"get." + strings.SplitN(d, ":", 2)[0], d}
			}
		case "set":
			e := badger.NewEntry(r.key(s.K), r.value(s.Val)).WithMeta(byte(s.Um))
			e.ExpiresAt = r.realExp(s.Exp)
			if s.Disc {
				e = e.WithDiscard()
			}
			if err := r.txns[s.T].SetEntry(e); err != nil {
				return i, &mismatch{"set.error", err.Error()}
			}
		case "del":
			if err := r.txns[s.T].Delete(r.key(s.K)); err != nil {
				return i, &mismatch{"del.error", err.Error()}
			}
		case "commit", "commitAt":
			var want string
			json.Unmarshal(s.Res, &want)
			var err error
			if s.Op == "commit" {
				err = r.txns[s.T].Commit()
			} else {
				err = r.txns[s.T].CommitAt(s.Cts, nil)
			}
			delete(r.txns, s.T)
			switch {
			case err == nil && want == "conflict":
				return i, &mismatch{"commit.missedConflict", "Commit returned nil, specification says ErrConflict"}
			case err == badger.ErrConflict && want != "conflict":
				return i, &mismatch{"commit.spuriousConflict", "Commit returned ErrConflict, specification says " + want}
			case err != nil && err != badger.ErrConflict:
				return i, &mismatch{"commit.error", err.Error()}
			}
			if want == "ok" {
				if s.Op == "commitAt" {
					r.tsMap[s.Cts] = s.Cts
				} else {
					r.tsMap[s.Cts] = s.Cts - r.offset
				}
			}
		case "discard":
			r.txns[s.T].Discard()
			delete(r.txns, s.T)
		case "iter":
			var want []KRes
			if err := json.Unmarshal(s.Res, &want); err != nil {
				vh.Fatalf("bad iter res: %v (%s)", err, s.Res)
			}
			o := badger.DefaultIteratorOptions
			o.Reverse = s.Rev
			o.PrefetchValues = r.prefetc
			o.PrefetchSize = r.psize
			it := r.txns[s.T].NewIterator(o)
			var got []KRes
			var raws [][]byte
			var prev []byte
			for it.Seek(r.key(s.From)); it.Valid(); it.Next() {
				item := it.Item()
				kb := item.KeyCopy(nil)
				if prev != nil {
					c := bytes.Compare(prev, kb)
					if (!s.Rev && c >= 0) || (s.Rev && c <= 0) {
						it.Close()
						return i, &mismatch{"iter.order", fmt.Sprintf("%q then %q (reverse=%v)", prev, kb, s.Rev)}
					}
				}
				prev = kb
				ki := r.keyIndex(kb)
				obs, raw, err := r.itemObs(item)
				if err != nil {
					it.Close()
					return i, &mismatch{"iter.value.error", err.Error()}
				}
				got = append(got, KRes{K: ki, Res: obs})
				raws = append(raws, raw)
			}
			it.Close()
			if len(got) != len(want) {
				return i, &mismatch{"iter.length", map[string]interface{}{"want": want, "got": got}}
			}
			mr := modelReadTs[s.T]
			for j := range want {
				if want[j].K != got[j].K {
					return i, &mismatch{"iter.key", map[string]interface{}{"want": want, "got": got}}
				}
				if d := r.cmpRes(want[j].Res, got[j].Res, raws[j], &mr); d != "" {
					return i, &mismatch{"iter." + strings.SplitN(d, ":", 2)[0], map[string]interface{}{"pos": j, "diff": d, "want": want, "got": got}}
				}
			}
		case "tick":
			r.now = s.Now
			y.VerifSetClock(int64(clockBase + r.now))
		case "env":
			if m := r.env(s.What); m != nil {
				return i, m
			}
			if s.What == "reopen" && !r.c.inmem && !r.c.managed {
				// C11: the next commit timestamp must exceed every stored version.
				st := r.db.VerifOracleState()
				ents, _ := r.db.VerifLayout()
				var maxV uint64
				for _, e := range ents {
					if e.Version > maxV {
						maxV = e.Version
					}
				}
				if st.NextTxnTs <= maxV {
					return i, &mismatch{"reopen.nextTsNotAboveStored", fmt.Sprintf("nextTxnTs=%d max stored version=%d", st.NextTxnTs, maxV)}
				}
				// model's next commit ts: largest model commit so far + 1
				var mmax uint64
				for m := range r.tsMap {
					if m > mmax {
						mmax = m
					}
				}
				r.offset = (mmax + 1) - st.NextTxnTs
			}
		default:
			vh.Fatalf("unknown op %q", s.Op)
		}
	}
	return -1, nil
}

func main() {
	in := flag.String("in", "", "cases NDJSON")
	config := flag.String("config", "default", "db configuration: parts joined by + (default, managed, inmem, enc, vlog, zstd, snappy, l3)")
	seed := flag.Int64("seed", 1, "seed")
	shard := flag.Int("shard", 0, "shard index")
	nshard := flag.Int("nshards", 1, "number of shards")
	flag.Parse()
	c := parseConfig(*config)
	rng := rand.New(rand.NewSource(*seed))
	r := &runner{c: c, rng: rng}
	r.encKey = []byte("0123456789abcdef0123456789abcdef")[:[]int{16, 24, 32}[int(*seed)%3]]
	r.keys = keyTables[int(*seed)%len(keyTables)]
	seen := map[uint64]string{}
	for _, k := range r.keys {
		h := z.MemHash([]byte(k))
		if o, dup := seen[h]; dup {
			vh.Fatalf("key fingerprint collision between %q and %q", o, k)
		}
		seen[h] = k
	}
	r.prefetc = *seed%2 == 0
	r.psize = []int{1, 2, 100}[int(*seed)%3]
	r.valSize = func(val int) int {
		if c.vlog && val%2 == 1 {
			return 100
		}
		return 8
	}
	enc := json.NewEncoder(os.Stdout)
	idx := 0
	nrun := 0
	err := vh.ReadNDJSON(*in, func(line []byte) error {
		i := idx
		idx++
		if i%*nshard != *shard {
			return nil
		}
		var steps []Step
		if err := json.Unmarshal(line, &steps); err != nil {
			return fmt.Errorf("case %d: %v", i, err)
		}
		nrun++
		at, m := r.runCase(steps)
		out := map[string]interface{}{"case": i, "ok": m == nil, "env": r.envDone, "gc": r.nGC}
		if m != nil {
			out["step"] = at
			out["sig"] = m.Sig
			out["detail"] = m.Detail
			if at >= 0 && at < len(steps) {
				out["op"] = steps[at].Op
			}
		}
		return enc.Encode(out)
	})
	if err != nil {
		vh.Fatalf("%v", err)
	}
	_ = filepath.Join
	_ = sort.Ints
}
