// kvreplay replays TLC-generated cases of the kv specification family against the real
// badger DB and compares every observation with the one the specification predicted.
//
//	-mode hist  : BadgerKVGen histories (JSON array of steps per line)
//	-mode store : KVIterGen cases (a store with placements, pending-write runs, iterator
//	              queries with predicted sequences), see store.go
//
// output: NDJSON on stdout, one line per case: {"case":i,"ok":bool,"step":j,"sig":..,"detail":..}
// exit  : 0 when all cases were executed (mismatches are reported in the output),
//
//	2 on harness trouble.
package main

import (
	"bytes"
	"crypto/sha256"
	"encoding/hex"
	"encoding/json"
	"flag"
	"fmt"
	"math/rand"
	"os"
	"sort"
	"strings"
	"time"

	badger "github.com/dgraph-io/badger/v4"
	"github.com/dgraph-io/badger/v4/options"
	"github.com/dgraph-io/badger/v4/y"
	"github.com/dgraph-io/ristretto/v2/z"

	"verifharness/vh"
)

// Res is one observed / predicted item.
type Res struct {
	Found bool   `json:"found"`
	Val   int    `json:"val"`
	Ts    uint64 `json:"ts"`
	Um    int    `json:"um"`
	Exp   uint64 `json:"exp"`
	Disc  bool   `json:"disc"`
	Del   bool   `json:"del"`
	Dead  bool   `json:"dead"`
}

type KRes struct {
	K   int `json:"k"`
	Res Res `json:"res"`
}

// Opts mirrors KVDefs!NoOpts.
type Opts struct {
	Rev      bool   `json:"rev"`
	All      bool   `json:"all"`
	Since    uint64 `json:"since"`
	Pfx      int    `json:"pfx"`
	Pmode    string `json:"pmode"`
	Seek     int    `json:"seek"`
	Internal bool   `json:"internal"`
}

type Step struct {
	Op     string          `json:"op"`
	T      int             `json:"t"`
	Upd    bool            `json:"upd"`
	ReadTs uint64          `json:"readTs"`
	K      int             `json:"k"`
	Val    int             `json:"val"`
	Um     int             `json:"um"`
	Exp    uint64          `json:"exp"`
	Disc   bool            `json:"disc"`
	Res    json.RawMessage `json:"res"`
	Cts    uint64          `json:"cts"`
	Cb     bool            `json:"cb"`
	From   int             `json:"from"`
	Rev    bool            `json:"rev"`
	O      *Opts           `json:"o"`
	Hw     uint64          `json:"hw"`
	Now    uint64          `json:"now"`
	What   string          `json:"what"`
	Via    string          `json:"via"`
	Ts     uint64          `json:"ts"`
}

const clockBase = 4000000000

var keyTables = [][]string{
	{"a", "a\x00", "ab", "a\xff", "b", "b\x00\x00", "c"},
	{"k1", "k2", "k3", "k4", "k5", "k6", "k7"},
	{"\x00", "\x00\x00", "\x01", "\x7f\xff", "\xff", "\xff\x00", "\xff\xff"},
	{"key", "key0", "key00", "keya", "keyb", "kez", "l"},
}

type cfg struct {
	name      string
	managed   bool
	inmem     bool
	encrypted bool
	encLen    int
	vlog      bool // low value threshold: odd values go to the value log
	thr       bool // low value threshold, value sizes around it
	vlogpct   bool // dynamic threshold (VLogPercentile)
	lsmonly   bool // value threshold at the transaction size limit: everything inline
	thrup     bool // value threshold 32, raised to 512 by the first re-open (like thr otherwise)
	lim       bool // value sizes 8, T-1 and T for the configured ValueThreshold T (T = the in-memory value limit, inclusive)
	compress  options.CompressionType
	levels    int
	sync      bool
}

func parseConfig(name string, seed int64) cfg {
	c := cfg{name: name, levels: 7, encLen: []int{16, 24, 32}[int(seed)%3]}
	for _, p := range strings.Split(name, "+") {
		switch p {
		case "default", "":
		case "managed":
			c.managed = true
		case "inmem":
			c.inmem = true
		case "enc":
			c.encrypted = true
		case "enc16", "enc24", "enc32":
			c.encrypted = true
			fmt.Sscanf(p[3:], "%d", &c.encLen)
		case "vlog":
			c.vlog = true
		case "thr":
			c.thr = true
		case "vlogpct":
			c.vlogpct = true
		case "lsmonly":
			c.lsmonly = true
		case "thrup":
			c.thr, c.thrup = true, true
		case "lim":
			c.lim = true
		case "zstd":
			c.compress = options.ZSTD
		case "snappy":
			c.compress = options.Snappy
		case "l3":
			c.levels = 3
		case "sync":
			c.sync = true
		default:
			vh.Fatalf("unknown config part %q", p)
		}
	}
	return c
}

type runner struct {
	c       cfg
	dir     string
	db      *badger.DB
	keys    []string
	rng     *rand.Rand
	txns    map[int]*badger.Txn
	iters   map[int]*openIter
	rts     map[int]uint64 // real read ts per txn
	mrts    map[int]uint64 // model read ts per txn
	tsMap   map[uint64]uint64
	offset  int64 // model ts - real ts for commits of the current epoch
	mnext   uint64 // the model's nextTs
	nrot    int    // master-key rotations performed by this process
	mute    bool   // observations with several allowed outcomes are left out of the digest
	opened  int    // successful read-write opens of the current case
	now     uint64
	prefetc bool
	psize   int
	valSize func(val int) int
	encKey  []byte
	nGC     int
	envDone map[string]int
	stats   map[string]int
	rec     *vh.Recorder
	digest  [32]byte
	trace   *traceWriter
	opt     runOpts
	caseIdx int
	encSeen map[string]string // (keyId, iv) -> file, across the re-opens of one case
	caseExtra map[string]interface{}
	ignoreDisc bool // the read path does not expose the discard flag (Stream.ToList)
}

type runOpts struct {
	final    string // "", "probe": re-open at the end and check C11 with one more commit
	scan     bool   // scan every file for plaintext markers at the end of the case
	ivs      bool   // collect (data key, IV) pairs at every re-open and at the end
	fsaudit  bool   // report every fs.* hook event of the case
	wrongKey bool   // at every plain re-open, first try a different master key
	rotate   string // path of the badger CLI: rotate the master key at every plain re-open
}

type mismatch struct {
	Sig    string      `json:"sig"`
	Detail interface{} `json:"detail"`
}

func (r *runner) opts() badger.Options {
	var o badger.Options
	if r.c.inmem {
		o = vh.SmallOptions("").WithInMemory(true)
	} else {
		o = vh.SmallOptions(r.dir)
	}
	o.MaxLevels = r.c.levels
	o.Compression = r.c.compress
	if r.c.vlog || r.c.thr || r.c.vlogpct {
		o.ValueThreshold = 32
		o.ValueLogMaxEntries = 3
	}
	if r.c.thrup && r.opened > 0 {
		o.ValueThreshold = 512 // the threshold rose after the first values were written
	}
	if r.c.vlogpct {
		o.VLogPercentile = 0.5
	}
	if r.c.lsmonly {
		o.ValueThreshold = int64(0.15 * float64(o.MemTableSize)) // = maxBatchSize computed by Open
	}
	if r.c.encrypted {
		o.EncryptionKey = r.encKey
		o.EncryptionKeyRotationDuration = time.Nanosecond // a new data key for every file
		o.IndexCacheSize = 1 << 20
	}
	o.SyncWrites = r.c.sync
	o.NumVersionsToKeep = 1
	return o
}

func (r *runner) openWith(o badger.Options) (*badger.DB, error) {
	if r.c.managed {
		return badger.OpenManaged(o)
	}
	return badger.Open(o)
}

func (r *runner) open() error {
	var err error
	r.db, err = r.openWith(r.opts())
	if err == nil {
		r.opened++
	}
	return err
}

func (r *runner) key(k int) []byte {
	if k < 1 || k > len(r.keys) {
		vh.Fatalf("key index %d outside the key table (%d keys)", k, len(r.keys))
	}
	return []byte(r.keys[k-1])
}

func (r *runner) keyIndex(b []byte) int {
	for i, s := range r.keys {
		if s == string(b) {
			return i + 1
		}
	}
	return -1
}

func (r *runner) value(val int) []byte {
	n := r.valSize(val)
	s := fmt.Sprintf("v%06d.", val)
	if len(s) < n {
		s += strings.Repeat("x", n-len(s))
	}
	return []byte(s)
}

func parseVal(b []byte) int {
	var v int
	if len(b) < 7 || b[0] != 'v' {
		return -1
	}
	fmt.Sscanf(string(b[1:7]), "%d", &v)
	return v
}

func (r *runner) realExp(e uint64) uint64 {
	if e == 0 {
		return 0
	}
	return clockBase + e
}

// realTs maps a model timestamp to the real one: commit timestamps through the map built
// at commit time; the read timestamp of transaction t (version of its pending writes)
// through the transaction's own pair.
func (r *runner) realTs(m uint64, t int) (uint64, bool) {
	if v, ok := r.tsMap[m]; ok {
		return v, true
	}
	if t >= 0 {
		if mr, ok := r.mrts[t]; ok && mr == m {
			return r.rts[t], true
		}
	}
	if m == 0 {
		return 0, true
	}
	return 0, false
}

// tsMatch tells whether the real version got is what model version m stands for: the
// commit with that model timestamp, or (pending writes) the read timestamp of transaction t.
func (r *runner) tsMatch(m uint64, t int, got uint64) bool {
	if v, ok := r.tsMap[m]; ok && v == got {
		return true
	}
	if t >= 0 {
		if mr, ok := r.mrts[t]; ok && mr == m && r.rts[t] == got {
			return true
		}
	}
	return m == 0 && got == 0
}

// realFloor maps a model timestamp used as a bound (SinceTs, discard bound) to the largest
// real timestamp of a commit at or below it.
func (r *runner) realFloor(m uint64) uint64 {
	if r.c.managed {
		return m
	}
	var best uint64
	for mm, rr := range r.tsMap {
		if mm <= m && rr > best {
			best = rr
		}
	}
	return best
}

// itemObs converts a real item into the model's observation and checks that every way of
// reading the value (ValueCopy, Value callback, ValueSize) agrees.
func (r *runner) itemObs(it *badger.Item) (Res, []byte, error) {
	v, err := it.ValueCopy(nil)
	if err != nil {
		return Res{}, nil, err
	}
	var v2 []byte
	if err := it.Value(func(b []byte) error { v2 = append([]byte{}, b...); return nil }); err != nil {
		return Res{}, nil, fmt.Errorf("Item.Value: %v", err)
	}
	if !bytes.Equal(v, v2) {
		return Res{}, nil, fmt.Errorf("Item.Value %q differs from Item.ValueCopy %q", trunc(v2), trunc(v))
	}
	exp := it.ExpiresAt()
	if exp != 0 {
		exp -= clockBase
	}
	return Res{Found: true, Val: parseVal(v), Ts: it.Version(), Um: int(it.UserMeta()), Exp: exp,
		Disc: it.DiscardEarlierVersions(), Dead: it.IsDeletedOrExpired()}, v, nil
}

// cmpRes compares a real observation with the predicted one (t = transaction, -1 none).
func (r *runner) cmpRes(want Res, got Res, gotRaw []byte, t int) string {
	if want.Found != got.Found {
		if got.Found {
			return fmt.Sprintf("resurrectedKey: predicted invisible, got v%d@%d", got.Val, got.Ts)
		}
		return fmt.Sprintf("found: want %v got %v", want.Found, got.Found)
	}
	if !want.Found {
		return ""
	}
	if want.Del {
		if len(gotRaw) != 0 {
			return fmt.Sprintf("value: delete marker carries a value %q", trunc(gotRaw))
		}
	} else if want.Dead && len(gotRaw) == 0 {
		// an expired version shown by AllVersions: value-log GC discards the values of expired
		// entries (value.go discardEntry), so the value may legitimately be gone
	} else {
		if want.Val != got.Val {
			return fmt.Sprintf("value: want v%d got %q", want.Val, trunc(gotRaw))
		}
		if !bytes.Equal(gotRaw, r.value(want.Val)) {
			return fmt.Sprintf("value bytes differ for v%d: got %q (len %d, want len %d)", want.Val, trunc(gotRaw), len(gotRaw), len(r.value(want.Val)))
		}
	}
	if want.Um != got.Um {
		return fmt.Sprintf("userMeta: want %d got %d", want.Um, got.Um)
	}
	if want.Exp != got.Exp {
		return fmt.Sprintf("expiresAt: want %d got %d", want.Exp, got.Exp)
	}
	if want.Disc != got.Disc && !r.ignoreDisc {
		return fmt.Sprintf("discardEarlierVersions: want %v got %v", want.Disc, got.Disc)
	}
	if want.Dead != got.Dead {
		return fmt.Sprintf("isDeletedOrExpired: want %v got %v", want.Dead, got.Dead)
	}
	wantTs, ok := r.realTs(want.Ts, t)
	if !ok {
		return fmt.Sprintf("version: model ts %d never committed (got real %d)", want.Ts, got.Ts)
	}
	if !r.tsMatch(want.Ts, t, got.Ts) {
		return fmt.Sprintf("version: want %d (model %d) got %d", wantTs, want.Ts, got.Ts)
	}
	return ""
}

func trunc(b []byte) string {
	if len(b) > 24 {
		return string(b[:24]) + "..."
	}
	return string(b)
}

func (r *runner) note(format string, a ...interface{}) {
	if r.mute {
		return
	}
	if os.Getenv("KVREPLAY_NOTES") != "" {
		fmt.Fprintf(os.Stderr, format+"\n", a...)
	}
	h := sha256.New()
	h.Write(r.digest[:])
	fmt.Fprintf(h, format, a...)
	copy(r.digest[:], h.Sum(nil))
}

func (r *runner) runCase(steps []Step) (at int, m *mismatch) {
	r.txns = map[int]*badger.Txn{}
	r.iters = map[int]*openIter{}
	r.rts = map[int]uint64{}
	r.mrts = map[int]uint64{}
	r.tsMap = map[uint64]uint64{}
	r.offset = 0
	r.opened = 0
	r.mnext = 1
	r.now = 1
	r.envDone = map[string]int{}
	r.digest = [32]byte{}
	r.encSeen = map[string]string{}
	r.rec.Reset()
	y.VerifSetClock(int64(clockBase + r.now))
	defer y.VerifSetClock(0)
	if !r.c.inmem {
		var err error
		r.dir, err = os.MkdirTemp("", "kvreplay-")
		if err != nil {
			vh.Fatalf("mkdtemp: %v", err)
		}
		defer os.RemoveAll(r.dir)
	}
	if err := r.open(); err != nil {
		return 0, &mismatch{"open.error", err.Error()}
	}
	defer func() {
		for _, oi := range r.iters {
			oi.it.Close()
		}
		for _, t := range r.txns {
			t.Discard()
		}
		if r.db != nil {
			r.db.Close()
			r.db = nil
		}
	}()
	if r.trace != nil {
		r.trace.reset(r)
	}
	for i, s := range steps {
		if m := r.step(i, s); m != nil {
			return i, m
		}
	}
	if m := r.finish(); m != nil {
		return len(steps), m
	}
	return -1, nil
}

func (r *runner) commitErr(s Step) error {
	txn := r.txns[s.T]
	if !s.Cb {
		if s.Op == "commit" {
			return txn.Commit()
		}
		return txn.CommitAt(s.Cts, nil)
	}
	ch := make(chan error, 1)
	cb := func(err error) { ch <- err }
	if s.Op == "commit" {
		txn.CommitWith(cb)
	} else if err := txn.CommitAt(s.Cts, cb); err != nil {
		return err
	}
	select {
	case err := <-ch:
		return err
	case <-time.After(60 * time.Second):
		vh.Fatalf("CommitWith callback not called within 60s")
	}
	return nil
}

func (r *runner) step(i int, s Step) *mismatch {
	switch s.Op {
	case "begin":
		t := r.db.NewTransaction(s.Upd)
		r.txns[s.T] = t
		r.rts[s.T] = t.ReadTs()
		r.mrts[s.T] = s.ReadTs
		// the model's read timestamp is nextTs-1 of the current epoch
		if want := int64(s.ReadTs) - r.offset; want != int64(t.ReadTs()) {
			return &mismatch{"begin.readTs", fmt.Sprintf("want %d (model %d, epoch offset %d) got %d", want, s.ReadTs, r.offset, t.ReadTs())}
		}
	case "beginAt":
		t := r.db.NewTransactionAt(s.ReadTs, s.Upd)
		r.txns[s.T] = t
		r.rts[s.T] = s.ReadTs
		r.mrts[s.T] = s.ReadTs
	case "get":
		var want Res
		if err := json.Unmarshal(s.Res, &want); err != nil {
			vh.Fatalf("bad res: %v", err)
		}
		item, err := r.txns[s.T].Get(r.key(s.K))
		var got Res
		var raw []byte
		if err == badger.ErrKeyNotFound {
			got = Res{}
		} else if err != nil {
			return &mismatch{"get.error", err.Error()}
		} else {
			got, raw, err = r.itemObs(item)
			if err != nil {
				return &mismatch{"get.value.error", err.Error()}
			}
			if !bytes.Equal(item.Key(), r.key(s.K)) {
				return &mismatch{"get.key", fmt.Sprintf("asked %q got %q", r.key(s.K), item.Key())}
			}
		}
		r.stats["get"]++
		r.note("get %d %v %d %d %d %d|", s.K, got.Found, got.Val, got.Um, got.Exp, got.Ts)
		if d := r.cmpRes(want, got, raw, s.T); d != "" {
			return &mismatch{"get." + strings.SplitN(d, ":", 2)[0], d}
		}
	case "set":
		e := badger.NewEntry(r.key(s.K), r.value(s.Val)).WithMeta(byte(s.Um))
		if s.Disc {
			e = e.WithDiscard()
		}
		e.ExpiresAt = r.realExp(s.Exp)
		if err := r.txns[s.T].SetEntry(e); err != nil {
			return &mismatch{"set.error", err.Error()}
		}
	case "setBig":
		// an inline value that alone exceeds the transaction size limit (15% of the
		// memtable): refused with ErrTxnTooBig, the transaction stays usable. Needs a
		// configuration whose value threshold is at the limit (lsmonly, inmem).
		n := int64(200000)
		if !r.c.inmem {
			n = r.db.VerifValueThreshold() - 1
		}
		if _, maxSize := r.db.VerifMaxBatch(); n+64 < maxSize {
			vh.Fatalf("setBig needs a configuration with ValueThreshold at the batch limit (lsmonly or inmem), threshold-1=%d limit=%d", n, maxSize)
		}
		err := r.txns[s.T].SetEntry(badger.NewEntry(r.key(s.K), bytes.Repeat([]byte("B"), int(n))))
		if err == nil {
			return &mismatch{"setBig.accepted", fmt.Sprintf("Set of a %d-byte inline value accepted, specification says ErrTxnTooBig", n)}
		}
		if err != badger.ErrTxnTooBig {
			return &mismatch{"setBig.error", err.Error()}
		}
		r.stats["setBig"]++
	case "del":
		if err := r.txns[s.T].Delete(r.key(s.K)); err != nil {
			return &mismatch{"del.error", err.Error()}
		}
	case "commit", "commitAt":
		var want string
		json.Unmarshal(s.Res, &want)
		if want == "blocked" {
			if err := r.db.VerifKVBlockWrites(); err != nil {
				return &mismatch{"env.block.error", err.Error()}
			}
		}
		if want == "closed" {
			if err := r.db.Close(); err != nil {
				return &mismatch{"env.close.error", err.Error()}
			}
		}
		err := r.commitErr(s)
		delete(r.txns, s.T)
		if want == "blocked" {
			r.db.VerifKVUnblockWrites()
			if !r.c.managed {
				r.mnext++ // the refused commit consumed a timestamp (the contract models it)
			}
		}
		if want == "closed" {
			r.db = nil
			if r.c.inmem {
				vh.Fatalf("closed-DB rejection in an in-memory configuration")
			}
			if e2 := r.open(); e2 != nil {
				return &mismatch{"env.reopen.open", e2.Error()}
			}
			r.resync()
		}
		r.stats["commit:"+want]++
		switch {
		case want == "blocked" || want == "closed":
			if err == nil {
				return &mismatch{"commit.notRejected", "Commit returned nil on a " + want + " DB"}
			}
			if err == badger.ErrConflict {
				// the specification sees no overlap for this transaction (GCommitRej requires it)
				return &mismatch{"commit.spuriousConflict", "Commit returned ErrConflict, specification says no conflicting commit exists (the commit is refused as " + want + ")"}
			}
			if err != badger.ErrBlockedWrites && err != badger.ErrDBClosed {
				return &mismatch{"commit.error", err.Error()}
			}
		case err == nil && want == "conflict":
			return &mismatch{"commit.missedConflict", "Commit returned nil, specification says ErrConflict"}
		case err == badger.ErrConflict && want != "conflict":
			return &mismatch{"commit.spuriousConflict", "Commit returned ErrConflict, specification says " + want}
		case err != nil && err != badger.ErrConflict:
			return &mismatch{"commit.error", err.Error()}
		}
		if want == "ok" {
			if s.Op == "commitAt" {
				r.tsMap[s.Cts] = s.Cts
			} else {
				r.tsMap[s.Cts] = uint64(int64(s.Cts) - r.offset)
				r.mnext = s.Cts + 1
			}
			if r.trace != nil {
				r.trace.afterCommit(r, r.tsMap[s.Cts])
			}
		}
	case "discard":
		r.txns[s.T].Discard()
		delete(r.txns, s.T)
	case "iter":
		var want []KRes
		if err := json.Unmarshal(s.Res, &want); err != nil {
			vh.Fatalf("bad iter res: %v (%s)", err, s.Res)
		}
		o := s.O
		if o == nil {
			o = &Opts{Rev: s.Rev, Seek: s.From, Pmode: "none"}
		}
		oi := r.newIter(r.txns[s.T], *o, s.T)
		r.mute = o.All && s.Hw > 0 // several outcomes are allowed: not part of the digest
		got, raws, m := oi.run(r)
		r.mute = false
		oi.it.Close()
		if m != nil {
			return m
		}
		r.stats["iter"]++
		if m := r.cmpSeq("iter", want, got, raws, s.T, o.All, s.Hw); m != nil {
			return m
		}
	case "iterOpen":
		r.iters[s.T] = r.newIter(r.txns[s.T], *s.O, s.T)
	case "iterRun":
		var want []KRes
		if err := json.Unmarshal(s.Res, &want); err != nil {
			vh.Fatalf("bad iter res: %v (%s)", err, s.Res)
		}
		oi := r.iters[s.T]
		delete(r.iters, s.T)
		r.mute = oi.o.All && s.Hw > 0
		got, raws, m := oi.run(r)
		r.mute = false
		oi.it.Close()
		if m != nil {
			return m
		}
		r.stats["iterRun"]++
		if m := r.cmpSeq("iterRun", want, got, raws, s.T, oi.o.All, s.Hw); m != nil {
			return m
		}
	case "scan":
		var want []KRes
		if err := json.Unmarshal(s.Res, &want); err != nil {
			vh.Fatalf("bad scan res: %v", err)
		}
		got, raws, m := r.scan(s.Via)
		if m != nil {
			return m
		}
		r.stats["scan:"+s.Via]++
		r.ignoreDisc = s.Via == "stream"
		m = r.cmpSeq("scan."+s.Via, want, got, raws, -1, false, 0)
		r.ignoreDisc = false
		if m != nil {
			return m
		}
	case "dump":
		var want []KRes
		if err := json.Unmarshal(s.Res, &want); err != nil {
			vh.Fatalf("bad dump res: %v", err)
		}
		txn := r.latestTxn()
		oi := r.newIter(txn, Opts{All: true, Pmode: "none"}, -1)
		r.mute = s.Hw > 0
		got, raws, m := oi.run(r)
		r.mute = false
		oi.it.Close()
		txn.Discard()
		if m != nil {
			return m
		}
		r.stats["dump"]++
		if m := r.cmpSeq("dump", want, got, raws, -1, true, s.Hw); m != nil {
			return m
		}
	case "tick":
		r.now = s.Now
		y.VerifSetClock(int64(clockBase + r.now))
	case "setDiscardTs":
		r.db.SetDiscardTs(s.Ts)
	case "env":
		if m := r.env(s.What); m != nil {
			return m
		}
	default:
		vh.Fatalf("unknown op %q", s.Op)
	}
	return nil
}

func (r *runner) latestTxn() *badger.Txn {
	if r.c.managed {
		return r.db.NewTransactionAt(^uint64(0), false)
	}
	return r.db.NewTransaction(false)
}

// resync recomputes the model-ts/real-ts offset after a re-open and asserts C11 on the way.
func (r *runner) resync() *mismatch {
	if r.trace != nil {
		r.trace.reopened(r)
	}
	if r.c.managed {
		return nil
	}
	st := r.db.VerifOracleState()
	if err := vh.AssertNextTsAboveAll(r.db); err != nil {
		return &mismatch{"reopen.nextTsNotAboveStored", err.Error()}
	}
	// the model's next commit timestamp keeps counting across the re-open
	r.offset = int64(r.mnext) - int64(st.NextTxnTs)
	// Real timestamps at or above the new nextTxnTs will be handed out again (compaction may
	// have dropped the newest versions, e.g. tombstones): the versions of the earlier epoch
	// that carried them are no longer stored (asserted just above), forget their mapping.
	for m, rr := range r.tsMap {
		if rr >= st.NextTxnTs {
			delete(r.tsMap, m)
		}
	}
	return nil
}

func main() {
	in := flag.String("in", "", "cases NDJSON")
	config := flag.String("config", "default", "db configuration: parts joined by + (default, managed, inmem, enc[16|24|32], vlog, thr, vlogpct, zstd, snappy, l3, sync)")
	seed := flag.Int64("seed", 1, "seed")
	shard := flag.Int("shard", 0, "shard index")
	nshard := flag.Int("nshards", 1, "number of shards")
	mode := flag.String("mode", "hist", "hist | store")
	keysFile := flag.String("keys", "", "JSON file with the key concretisation table (latin-1 strings)")
	final := flag.String("final", "", "probe: re-open at the end of every case and commit once more (C11)")
	scan := flag.Bool("scan", false, "scan all files for plaintext markers at the end of every case")
	ivs := flag.Bool("ivs", false, "collect (data key, IV) pairs")
	fsaudit := flag.Bool("fsaudit", false, "report fs.* hook events per case")
	wrongKey := flag.Bool("wrongkey", false, "try a wrong master key at every plain re-open")
	rotate := flag.String("rotate", "", "badger CLI binary: rotate the master key at every plain re-open")
	traceOut := flag.String("trace", "", "write the threshold-decision trace (NDJSON) here")
	prefetch := flag.String("prefetch", "", "override: on|off")
	psize := flag.Int("psize", 0, "override PrefetchSize")
	roprobe := flag.String("roprobe", "", "child mode: open this directory read-only, dump, close")
	encKeyHex := flag.String("enckey", "", "child mode: master key (hex)")
	clock := flag.Int64("clock", 0, "child mode: clock override")
	flag.Parse()
	c := parseConfig(*config, *seed)
	rng := rand.New(rand.NewSource(*seed))
	r := &runner{c: c, rng: rng, stats: map[string]int{}}
	r.opt = runOpts{final: *final, scan: *scan, ivs: *ivs, fsaudit: *fsaudit, wrongKey: *wrongKey, rotate: *rotate}
	r.encKey = []byte("0123456789abcdef0123456789abcdef")[:c.encLen]
	r.keys = keyTables[int(*seed)%len(keyTables)]
	if *keysFile != "" {
		b, err := os.ReadFile(*keysFile)
		if err != nil {
			vh.Fatalf("%v", err)
		}
		var ks []string
		if err := json.Unmarshal(b, &ks); err != nil {
			vh.Fatalf("keys file: %v", err)
		}
		r.keys = nil
		for _, k := range ks {
			// latin-1: one rune per byte
			bs := make([]byte, 0, len(k))
			for _, ru := range k {
				bs = append(bs, byte(ru))
			}
			r.keys = append(r.keys, string(bs))
		}
	}
	if !sort.StringsAreSorted(r.keys) {
		vh.Fatalf("key table is not sorted in byte order")
	}
	seen := map[uint64]string{}
	for _, k := range r.keys {
		h := z.MemHash([]byte(k))
		if o, dup := seen[h]; dup {
			vh.Fatalf("key fingerprint collision between %q and %q", o, k)
		}
		seen[h] = k
	}
	r.prefetc = *seed%2 == 0
	r.psize = []int{1, 2, 100}[int(*seed)%3]
	if *prefetch != "" {
		r.prefetc = *prefetch == "on"
	}
	if *psize > 0 {
		r.psize = *psize
	}
	thrSizes := []int{8, 31, 32, 33, 200}
	// the histogram of the dynamic threshold has 1024 buckets of ~153.6 bytes starting at 32:
	// sizes sit on both sides of the first bucket bounds (185.6, 339.1, 492.7, 646.2, 799.8)
	pctSizes := []int{8, 31, 33, 185, 186, 187, 339, 340, 493, 646, 647, 800, 1200, 3000}
	r.valSize = func(val int) int {
		switch {
		case c.lim:
			t := int(vh.SmallOptions("").ValueThreshold)
			return []int{8, t - 1, t}[val%3]
		case c.vlogpct:
			return pctSizes[val%len(pctSizes)]
		case c.thr:
			return thrSizes[val%len(thrSizes)]
		case c.vlog && val%2 == 1:
			return 100
		}
		return 8
	}
	r.rec = vh.Install(true)
	if *roprobe != "" {
		if *encKeyHex != "" {
			r.encKey, _ = hex.DecodeString(*encKeyHex)
		}
		if *clock != 0 {
			y.VerifSetClock(*clock)
		}
		roProbeMain(r, *roprobe)
		return
	}
	if *traceOut != "" {
		r.trace = newTraceWriter(*traceOut, r)
		defer r.trace.close()
	}
	enc := json.NewEncoder(os.Stdout)
	idx := 0
	err := vh.ReadNDJSON(*in, func(line []byte) error {
		i := idx
		idx++
		if i%*nshard != *shard {
			return nil
		}
		r.caseIdx = i
		r.stats = map[string]int{}
		var at int
		var m *mismatch
		var extra map[string]interface{}
		if *mode == "store" {
			var sc StoreCase
			if err := json.Unmarshal(line, &sc); err != nil {
				return fmt.Errorf("case %d: %v", i, err)
			}
			at, m, extra = r.runStore(&sc)
		} else {
			var steps []Step
			if err := json.Unmarshal(line, &steps); err != nil {
				return fmt.Errorf("case %d: %v", i, err)
			}
			at, m = r.runCase(steps)
			extra = r.caseExtra
			r.caseExtra = nil
			if m != nil && at >= 0 && at < len(steps) {
				if extra == nil {
					extra = map[string]interface{}{}
				}
				extra["op"] = steps[at].Op
				if steps[at].Op == "env" {
					extra["op"] = "env:" + steps[at].What
				}
			}
		}
		out := map[string]interface{}{"case": i, "ok": m == nil, "env": r.envDone, "gc": r.nGC,
			"stats": r.stats, "digest": hex.EncodeToString(r.digest[:8])}
		for k, v := range extra {
			out[k] = v
		}
		if m != nil {
			out["step"] = at
			out["sig"] = m.Sig
			out["detail"] = m.Detail
		}
		return enc.Encode(out)
	})
	if r.trace != nil {
		r.trace.close()
	}
	if err != nil {
		vh.Fatalf("%v", err)
	}
}
