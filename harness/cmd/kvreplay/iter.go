package main

import (
	"bytes"
	"context"
	"fmt"
	"sort"
	"strings"

	badger "github.com/dgraph-io/badger/v4"
	"github.com/dgraph-io/badger/v4/pb"
	"github.com/dgraph-io/ristretto/v2/z"

	"verifharness/vh"
)

type openIter struct {
	it *badger.Iterator
	o  Opts
	t  int
}

// newIter creates the real iterator for abstract options o (NewIterator / NewKeyIterator).
func (r *runner) newIter(txn *badger.Txn, o Opts, t int) *openIter {
	io := badger.DefaultIteratorOptions
	io.Reverse = o.Rev
	io.AllVersions = o.All
	io.InternalAccess = o.Internal
	io.PrefetchValues = r.prefetc
	io.PrefetchSize = r.psize
	if o.Since > 0 {
		io.SinceTs = r.realFloor(o.Since)
		if t >= 0 {
			if mr, ok := r.mrts[t]; ok && o.Since >= mr {
				// SinceTs at or above the read timestamp hides everything, pending writes
				// included; any real value >= the real read timestamp expresses that (0 would
				// switch the option off)
				if io.SinceTs < r.rts[t] {
					io.SinceTs = r.rts[t]
				}
				if io.SinceTs == 0 {
					io.SinceTs = 1
				}
			}
		}
	}
	var it *badger.Iterator
	switch o.Pmode {
	case "opt":
		io.Prefix = r.key(o.Pfx)
		it = txn.NewIterator(io)
	case "key":
		io.AllVersions = false // NewKeyIterator sets it
		it = txn.NewKeyIterator(r.key(o.Pfx), io)
	default:
		it = txn.NewIterator(io)
	}
	return &openIter{it: it, o: o, t: t}
}

// run performs Rewind/Seek and the loop, checking strict ordering on the way.
func (oi *openIter) run(r *runner) ([]KRes, [][]byte, *mismatch) {
	it, o := oi.it, oi.o
	var got []KRes
	var raws [][]byte
	var prevK []byte
	var prevTs uint64
	first := true
	valid := func() bool {
		if o.Pmode == "valid" {
			return it.ValidForPrefix(r.key(o.Pfx))
		}
		return it.Valid()
	}
	if o.Seek == 0 {
		it.Rewind()
	} else {
		it.Seek(r.key(o.Seek))
	}
	for ; valid(); it.Next() {
		item := it.Item()
		kb := item.KeyCopy(nil)
		if !first {
			c := bytes.Compare(prevK, kb)
			bad := false
			switch {
			case !o.All:
				bad = (!o.Rev && c >= 0) || (o.Rev && c <= 0)
			case !o.Rev:
				bad = c > 0 || (c == 0 && prevTs <= item.Version())
			default:
				bad = c < 0 || (c == 0 && prevTs >= item.Version())
			}
			if bad {
				return nil, nil, &mismatch{"iter.order", fmt.Sprintf("%q@%d then %q@%d (reverse=%v all=%v)", prevK, prevTs, kb, item.Version(), o.Rev, o.All)}
			}
		}
		first = false
		prevK, prevTs = kb, item.Version()
		obs, raw, err := r.itemObs(item)
		if err != nil {
			return nil, nil, &mismatch{"iter.value.error", err.Error()}
		}
		ki := r.keyIndex(kb)
		if ki < 0 {
			return nil, nil, &mismatch{"iter.unknownKey", fmt.Sprintf("iterator yielded %q which is not in the key table", kb)}
		}
		got = append(got, KRes{K: ki, Res: obs})
		raws = append(raws, raw)
		nv := obs.Val
		if obs.Dead {
			nv = 0 // the value of an expired version may or may not have been collected
		}
		r.note("it %d %d %d %d %d %v|", ki, nv, obs.Um, obs.Exp, obs.Ts, obs.Dead)
		if len(got) > 10000 {
			return nil, nil, &mismatch{"iter.endless", "more than 10000 items"}
		}
	}
	return got, raws, nil
}

// cmpSeq compares a yielded sequence with the predicted one. For AllVersions sequences
// after a compaction ran with discard bound hw > 0 the comparison accepts exactly the
// outcomes BadgerKV!Compact permits: versions above hw must all be present, below it a
// subsequence may be missing as long as every read at a timestamp >= hw is unchanged.
func (r *runner) cmpSeq(what string, want, got []KRes, raws [][]byte, t int, all bool, hw uint64) *mismatch {
	detail := func(extra string) map[string]interface{} {
		return map[string]interface{}{"diff": extra, "want": want, "got": got}
	}
	if !all || hw == 0 {
		if len(got) != len(want) {
			// a key the specification says is invisible (deleted, expired, never written) shows up
			wk := map[int]bool{}
			for _, w := range want {
				wk[w.K] = true
			}
			for _, g := range got {
				if !wk[g.K] {
					return &mismatch{what + ".resurrectedKey", detail(fmt.Sprintf("key %d is yielded but predicted invisible (want %d items got %d)", g.K, len(want), len(got)))}
				}
			}
			return &mismatch{what + ".length", detail(fmt.Sprintf("want %d items got %d", len(want), len(got)))}
		}
		for j := range want {
			if want[j].K != got[j].K {
				return &mismatch{what + ".key", detail(fmt.Sprintf("position %d", j))}
			}
			if d := r.cmpRes(want[j].Res, got[j].Res, raws[j], t); d != "" {
				return &mismatch{what + "." + strings.SplitN(d, ":", 2)[0], detail(fmt.Sprintf("position %d: %s", j, d))}
			}
		}
		return nil
	}
	realHw := hw // the comparison below runs on model timestamps (real ones repeat across re-opens)
	// got must be a subsequence of want
	j := 0
	present := make([]bool, len(want))
	for gi := range got {
		found := false
		for ; j < len(want); j++ {
			if want[j].K == got[gi].K && r.tsMatch(want[j].Res.Ts, t, got[gi].Res.Ts) {
				if d := r.cmpRes(want[j].Res, got[gi].Res, raws[gi], t); d != "" {
					return &mismatch{what + "." + strings.SplitN(d, ":", 2)[0], detail(fmt.Sprintf("got position %d: %s", gi, d))}
				}
				present[j] = true
				found = true
				j++
				break
			}
		}
		if !found {
			return &mismatch{what + ".extra", detail(fmt.Sprintf("got position %d is not a predicted version (or out of order)", gi))}
		}
	}
	// per key: versions above hw all present; the newest version at or below hw decides reads >= hw
	type top struct {
		have bool
		dead bool
		idx  int
	}
	wantTop, gotTop := map[int]top{}, map[int]top{}
	newer := func(a, b uint64) bool { return a > b }
	wantTopTs, gotTopTs := map[int]uint64{}, map[int]uint64{}
	for i, w := range want {
		wts := w.Res.Ts
		if wts > realHw {
			if !present[i] {
				return &mismatch{what + ".missingAboveDiscard", detail(fmt.Sprintf("predicted position %d (version above the discard bound %d) is missing", i, realHw))}
			}
			continue
		}
		if cur, ok := wantTop[w.K]; !ok || !cur.have || newer(wts, wantTopTs[w.K]) {
			wantTop[w.K] = top{true, w.Res.Dead, i}
			wantTopTs[w.K] = wts
		}
		if present[i] {
			if cur, ok := gotTop[w.K]; !ok || !cur.have || newer(wts, gotTopTs[w.K]) {
				gotTop[w.K] = top{true, w.Res.Dead, i}
				gotTopTs[w.K] = wts
			}
		}
	}
	for k, wt := range wantTop {
		gt := gotTop[k]
		if gt.have && gt.idx == wt.idx {
			continue
		}
		// the newest version at the bound is gone: allowed only if it was dead and what is
		// left below it (if anything) is dead too
		if !wt.dead {
			return &mismatch{what + ".droppedLiveVersion", detail(fmt.Sprintf("key %d: newest version at the discard bound %d (predicted position %d) is live but missing", k, realHw, wt.idx))}
		}
		if gt.have && !gt.dead {
			return &mismatch{what + ".resurrected", detail(fmt.Sprintf("key %d: tombstone at predicted position %d dropped while the older live version at position %d remains", k, wt.idx, gt.idx))}
		}
	}
	return nil
}

// scan reads the whole DB at the latest timestamp through the given read path.
func (r *runner) scan(via string) ([]KRes, [][]byte, *mismatch) {
	switch via {
	case "iter":
		txn := r.latestTxn()
		defer txn.Discard()
		oi := r.newIter(txn, Opts{Pmode: "none"}, -1)
		defer oi.it.Close()
		return oi.run(r)
	case "stream":
		var st *badger.Stream
		if r.c.managed {
			st = r.db.NewStreamAt(^uint64(0))
		} else {
			st = r.db.NewStream()
		}
		st.NumGo = 2
		st.LogPrefix = ""
		var kvs []*pb.KV
		st.Send = func(buf *z.Buffer) error {
			list, err := badger.BufferToKVList(buf)
			if err != nil {
				return err
			}
			for _, kv := range list.Kv {
				if kv.StreamDone {
					continue
				}
				kvs = append(kvs, kv)
			}
			return nil
		}
		if err := st.Orchestrate(context.Background()); err != nil {
			return nil, nil, &mismatch{"scan.stream.error", err.Error()}
		}
		sort.SliceStable(kvs, func(i, j int) bool { return bytes.Compare(kvs[i].Key, kvs[j].Key) < 0 })
		var got []KRes
		var raws [][]byte
		for _, kv := range kvs {
			ki := r.keyIndex(kv.Key)
			if ki < 0 {
				return nil, nil, &mismatch{"scan.stream.unknownKey", fmt.Sprintf("%q", kv.Key)}
			}
			exp := kv.ExpiresAt
			if exp != 0 {
				exp -= clockBase
			}
			um := 0
			if len(kv.UserMeta) > 0 {
				um = int(kv.UserMeta[0])
			}
			disc := len(kv.Meta) > 0 && kv.Meta[0]&badger.VerifBitDiscard > 0
			got = append(got, KRes{K: ki, Res: Res{Found: true, Val: parseVal(kv.Value), Ts: kv.Version, Um: um, Exp: exp, Disc: disc}})
			raws = append(raws, kv.Value)
		}
		return got, raws, nil
	case "backup":
		var buf bytes.Buffer
		if _, err := r.db.Backup(&buf, 0); err != nil {
			return nil, nil, &mismatch{"scan.backup.error", err.Error()}
		}
		db2, err := badger.Open(vh.SmallOptions("").WithInMemory(true))
		if err != nil {
			vh.Fatalf("scratch DB: %v", err)
		}
		defer db2.Close()
		if err := db2.Load(&buf, 16); err != nil {
			return nil, nil, &mismatch{"scan.backup.load.error", err.Error()}
		}
		r2 := *r
		r2.db = db2
		r2.c.managed = false
		txn := db2.NewTransaction(false)
		defer txn.Discard()
		oi := r2.newIter(txn, Opts{Pmode: "none"}, -1)
		defer oi.it.Close()
		got, raws, m := oi.run(&r2)
		r.digest = r2.digest
		return got, raws, m
	}
	vh.Fatalf("unknown scan path %q", via)
	return nil, nil, nil
}
