package main

import (
	"bufio"
	"encoding/json"
	"os"
	"sync"

	"github.com/dgraph-io/badger/v4/y"

	"verifharness/vh"
)

// traceWriter records, per case, the value-threshold decision events of the real run
// (hook events threshold.update and mem.put, optional vlog.decide) together with the
// harness' observation of how each entry was actually stored (lsm.entry: value pointer or
// inline), as NDJSON for specs/kv/ThresholdTrace.tla.
type traceWriter struct {
	mu    sync.Mutex
	f     *os.File
	w     *bufio.Writer
	lines []map[string]interface{}
	puts  []putRec
	thrs  map[int64]bool
	t0    int64
	r     *runner
	n     int
}

type putRec struct {
	k   int
	ts  uint64
	key []byte
}

func newTraceWriter(path string, r *runner) *traceWriter {
	f, err := os.Create(path)
	if err != nil {
		vh.Fatalf("trace: %v", err)
	}
	t := &traceWriter{f: f, w: bufio.NewWriter(f), r: r, thrs: map[int64]bool{}}
	r.rec.OnEvent = t.onEvent
	return t
}

func toInt64(a interface{}) int64 {
	switch v := a.(type) {
	case int:
		return int64(v)
	case int64:
		return v
	case uint64:
		return int64(v)
	case uint32:
		return int64(v)
	case byte:
		return int64(v)
	case float64:
		return int64(v)
	}
	return -1
}

func (t *traceWriter) onEvent(ev vh.Event) {
	switch ev.Point {
	case "threshold.update":
		t.mu.Lock()
		v := toInt64(ev.Args[0])
		t.thrs[v] = true
		t.lines = append(t.lines, map[string]interface{}{"ev": "update", "value": v})
		t.mu.Unlock()
	case "mem.put":
		ikey := ev.Args[0].([]byte)
		uk := y.ParseKey(ikey)
		k := t.r.keyIndex(uk)
		if k < 0 {
			k = 0
		}
		ts := y.ParseTs(ikey)
		t.mu.Lock()
		t.lines = append(t.lines, map[string]interface{}{"ev": "put", "k": k, "ts": ts,
			"meta": toInt64(ev.Args[1]), "threshold": toInt64(ev.Args[2]), "vlen": toInt64(ev.Args[3])})
		if k > 0 {
			t.puts = append(t.puts, putRec{k: k, ts: ts, key: append([]byte{}, uk...)})
		}
		t.mu.Unlock()
	case "vlog.decide":
		ikey := ev.Args[0].([]byte)
		k := t.r.keyIndex(y.ParseKey(ikey))
		if k < 0 {
			k = 0
		}
		skip, _ := ev.Args[1].(bool)
		t.mu.Lock()
		t.lines = append(t.lines, map[string]interface{}{"ev": "decide", "k": k, "ts": y.ParseTs(ikey),
			"skip": skip, "threshold": toInt64(ev.Args[2]), "vlen": toInt64(ev.Args[3])})
		t.mu.Unlock()
	}
}

// reset starts the segment of a new case (flushing the previous one).
func (t *traceWriter) reset(r *runner) {
	t.flush()
	t.t0 = r.db.VerifValueThreshold()
	t.thrs = map[int64]bool{t.t0: true}
}

// reopened notes that a re-open reset the dynamic threshold.
func (t *traceWriter) reopened(r *runner) {
	v := r.db.VerifValueThreshold()
	t.mu.Lock()
	t.thrs[v] = true
	t.lines = append(t.lines, map[string]interface{}{"ev": "update", "value": v})
	t.mu.Unlock()
}

// afterCommit observes how the entries the commit just wrote are stored in the LSM tree.
func (t *traceWriter) afterCommit(r *runner, realTs uint64) {
	t.mu.Lock()
	puts := t.puts
	t.puts = nil
	t.mu.Unlock()
	for _, p := range puts {
		e, ok, err := r.db.VerifRawGet(p.key, p.ts)
		if err != nil || !ok || e.Version != p.ts {
			continue
		}
		t.mu.Lock()
		t.lines = append(t.lines, map[string]interface{}{"ev": "stored", "k": p.k, "ts": p.ts, "ptr": e.IsPtr})
		t.mu.Unlock()
	}
}

func (t *traceWriter) flush() {
	t.mu.Lock()
	defer t.mu.Unlock()
	if len(t.lines) == 0 {
		return
	}
	var thrs []int64
	for v := range t.thrs {
		thrs = append(thrs, v)
	}
	hdr := map[string]interface{}{"ev": "reset", "thr": t.t0, "thrs": thrs, "k": 0, "ts": 0, "value": 0,
		"threshold": 0, "vlen": 0, "ptr": false, "skip": false, "meta": 0}
	b, _ := json.Marshal(hdr)
	t.w.Write(b)
	t.w.WriteByte('\n')
	for _, l := range t.lines {
		// every line carries every field so that the TLA+ side can access them uniformly
		for _, f := range []string{"k", "ts", "value", "threshold", "vlen", "meta", "thr"} {
			if _, ok := l[f]; !ok {
				l[f] = 0
			}
		}
		for _, f := range []string{"ptr", "skip"} {
			if _, ok := l[f]; !ok {
				l[f] = false
			}
		}
		if _, ok := l["thrs"]; !ok {
			l["thrs"] = []int64{}
		}
		b, _ := json.Marshal(l)
		t.w.Write(b)
		t.w.WriteByte('\n')
		t.n++
	}
	t.lines = nil
	t.puts = nil
}

func (t *traceWriter) close() {
	if t.f == nil {
		return
	}
	t.flush()
	t.w.Flush()
	t.f.Close()
	t.f = nil
}
