// lsmprobe: deterministic reproduction attempts for LSM hazards found by reasoning on LSM.tla
// (kept as regression scenarios of C12). Scenario "baseflip": the base level moves up to L1
// while the last level is large, a table stays in L1, the last level shrinks so that the base
// level is the last level again, and an L0->Lbase compaction then skips L1.
package main

import (
	"encoding/json"
	"flag"
	"fmt"
	"math/rand"
	"os"
	"sort"

	badger "github.com/dgraph-io/badger/v4"

	"verifharness/vh"
)

func pad(n int) []byte {
	b := make([]byte, n)
	x := uint32(2463534242)
	for i := range b {
		x ^= x << 13
		x ^= x >> 17
		x ^= x << 5
		b[i] = byte(x)
	}
	return b
}

func main() {
	flag.Parse()
	if *random > 0 {
		randomWalks()
		return
	}
	dir, _ := os.MkdirTemp("", "lsmprobe-")
	defer os.RemoveAll(dir)
	o := vh.SmallOptions(dir)
	o.MaxLevels = 3
	o.BaseLevelSize = 2 << 10
	o.LevelSizeMultiplier = 10
	o.ValueThreshold = 1 << 20 // keep values in the tree so that table sizes are controlled
	o.ValueThreshold = 100 << 10
	o.MemTableSize = 1 << 20
	o.NumVersionsToKeep = 1
	o.NumLevelZeroTables = 1 // one L0 table is enough for the picker to list L0
	db, err := badger.OpenManaged(o)
	if err != nil {
		vh.Fatalf("%v", err)
	}
	defer db.Close()
	var log []string
	say := func(f string, a ...interface{}) { log = append(log, fmt.Sprintf(f, a...)) }
	put := func(k string, v []byte, ts uint64, del bool) {
		txn := db.NewTransactionAt(ts, true)
		if del {
			_ = txn.Delete([]byte(k))
		} else {
			_ = txn.Set([]byte(k), v)
		}
		if err := txn.CommitAt(ts, nil); err != nil {
			vh.Fatalf("commit: %v", err)
		}
	}
	layout := func() string {
		s := fmt.Sprintf("base=L%d", db.VerifBaseLevel())
		for lvl, ts := range db.VerifTables() {
			for _, t := range ts {
				es, _ := db.VerifTableEntries(t.ID)
				s += fmt.Sprintf(" L%d[", lvl)
				for _, e := range es {
					s += fmt.Sprintf("%s@%d/%d ", e.Key, e.Version, e.Meta)
				}
				s += fmt.Sprintf("%dB]", t.Size)
			}
		}
		return s
	}
	get := func(k string, ts uint64) uint64 {
		txn := db.NewTransactionAt(ts, false)
		defer txn.Discard()
		it, err := txn.Get([]byte(k))
		if err != nil {
			return 0
		}
		return it.Version()
	}
	eligible := true
	compact := func(level int) {
		// only compactions the production picker lists with a score the background compactors act on
		var pr *[3]float64
		for _, p := range db.VerifPickLevels() {
			p := p
			if int(p[0]) == level {
				pr = &p
			}
		}
		if pr == nil || pr[1] < 1.0 {
			eligible = false
			say("compact L%d: NOT eligible (%v)", level, db.VerifPickLevels())
			return
		}
		err := db.VerifDoCompact(1, level, pr[1], pr[2])
		say("compact L%d (score %.2f adjusted %.2f): %v -> %s", level, pr[1], pr[2], err, layout())
	}
	// 1. a large value reaches the last level: the base level moves up to L1
	put("zz", pad(30<<10), 1, false)
	db.VerifFlush()
	compact(0)
	// 2. the large key is deleted; the tombstone goes to L1
	put("zz", nil, 2, true)
	db.VerifFlush()
	compact(0)
	// 3. ka is written and reaches L1 as well
	put("ka", pad(3600), 3, false)
	db.VerifFlush()
	compact(0)
	db.SetDiscardTs(3)
	// 4. L1 is over its target: its oldest table (the tombstone) is compacted down; the last level
	// becomes empty and the base level is the last level again, while L1 still holds ka@3
	compact(1)
	// 5. ka is deleted; the L0->Lbase compaction goes straight to the last level
	put("ka", nil, 4, true)
	db.VerifFlush()
	db.SetDiscardTs(4)
	before := get("ka", 4)
	say("before: Get(ka)@4 = %d  %s", before, layout())
	compact(0)
	after := get("ka", 4)
	say("after: Get(ka)@4 = %d", after)
	out := map[string]interface{}{"scenario": "baseflip", "before": before, "after": after, "ok": before == after, "eligible": eligible, "log": log}
	json.NewEncoder(os.Stdout).Encode(out)
}

var (
	random = flag.Int("random", 0, "number of random walks with real sizes (0: the baseflip scenario)")
	seed   = flag.Int64("seed", 1, "seed of the random walks")
	steps  = flag.Int("steps", 120, "steps per walk")
)

// randomWalks drives the real DB with writes of real sizes, flushes and only those compactions
// the production picker lists (pickCompactLevels: score >= 1, with its own score/adjusted values),
// and evaluates the invariants of LSM.tla on the real state after every step:
// ReadStable (reads at or above the watermark equal the ideal store), AgeOrdered (per key, higher
// containers are newer) and Structure (levelsController.validate).
func randomWalks() {
	type viol struct {
		Walk int      `json:"walk"`
		Sig  string   `json:"sig"`
		Log  []string `json:"log"`
	}
	out := struct {
		Walks       int            `json:"walks"`
		Steps       int            `json:"steps"`
		Compactions map[string]int `json:"compactions"`
		BaseMoves   int            `json:"base_moves"`
		Clamped     int            `json:"base_kept_at_nonempty_level"`
		Reads       int            `json:"reads"`
		Inversions  int            `json:"age_order_inversions"`
		InvSample   []string       `json:"age_order_inversion_sample,omitempty"`
		Violations  []viol         `json:"violations"`
	}{Compactions: map[string]int{}}
	for w := 0; w < *random; w++ {
		rnd := rand.New(rand.NewSource(*seed*100003 + int64(w)))
		dir, _ := os.MkdirTemp("", "lsmwalk-")
		o := vh.SmallOptions(dir)
		o.MaxLevels = 3 + rnd.Intn(2)
		o.BaseLevelSize = 2 << 10
		o.LevelSizeMultiplier = []int{2, 4, 10}[rnd.Intn(3)]
		o.ValueThreshold = 100 << 10
		o.MemTableSize = 1 << 20
		o.BaseTableSize = int64([]int{2 << 10, 8 << 10, 1 << 20}[rnd.Intn(3)])
		o.NumVersionsToKeep = 1
		o.NumLevelZeroTables = 1 + rnd.Intn(2)
		db, err := badger.OpenManaged(o)
		if err != nil {
			vh.Fatalf("%v", err)
		}
		var log []string
		say := func(f string, a ...interface{}) { log = append(log, fmt.Sprintf(f, a...)) }
		type ver struct {
			ts  uint64
			del bool
		}
		written := map[string][]ver{}
		keys := []string{"ka", "kb", "kc", "kd", "ke", "kf", "zz"}
		var ts, discard uint64
		bad := func(sig string) {
			if len(out.Violations) < 5 {
				out.Violations = append(out.Violations, viol{w, sig, append([]string{}, log...)})
			}
		}
		ideal := func(k string, at uint64) uint64 {
			vs := written[k]
			for i := len(vs) - 1; i >= 0; i-- {
				if vs[i].ts <= at {
					if vs[i].del {
						return 0
					}
					return vs[i].ts
				}
			}
			return 0
		}
		get := func(k string, at uint64) uint64 {
			txn := db.NewTransactionAt(at, false)
			defer txn.Discard()
			it, err := txn.Get([]byte(k))
			if err != nil {
				return 0
			}
			return it.Version()
		}
		checkReads := func(what string) bool {
			lo := discard
			if ts > 10 && lo < ts-10 {
				lo = ts - 10
			}
			for _, k := range keys {
				for at := lo; at <= ts; at++ {
					if at == 0 {
						continue
					}
					out.Reads++
					if g, want := get(k, at), ideal(k, at); g != want {
						say("READ %s@%d = %d, ideal store says %d (discardTs %d)", k, at, g, want, discard)
						kind := "lost"
						if want == 0 {
							kind = "resurrected"
						} else if g != 0 {
							kind = "changed"
						}
						bad("walk " + what + " readChanged." + kind)
						return false
					}
				}
			}
			return true
		}
		chase, chased := "", false
		checkAge := func(what string) bool {
			// rank per key: -1 memtables, 0 level 0, i level i; lowest version per key in rank i must be
			// greater than the highest version of the key in any rank below
			type mm struct{ min, max uint64 }
			ranks := map[int]map[string]*mm{}
			add := func(r int, k string, v uint64) {
				if ranks[r] == nil {
					ranks[r] = map[string]*mm{}
				}
				m := ranks[r][k]
				if m == nil {
					ranks[r][k] = &mm{v, v}
					return
				}
				if v < m.min {
					m.min = v
				}
				if v > m.max {
					m.max = v
				}
			}
			lv := db.VerifTables()
			for _, e := range db.VerifMemEntries() {
				if !e.Internal {
					add(-1, string(e.Key), e.Version)
				}
			}
			for l, tabs := range lv {
				for _, t := range tabs {
					es, _ := db.VerifTableEntries(t.ID)
					for _, e := range es {
						if !e.Internal {
							add(l, string(e.Key), e.Version)
						}
					}
				}
			}
			var rs []int
			for r := range ranks {
				rs = append(rs, r)
			}
			sort.Ints(rs)
			for i, a := range rs {
				for _, b := range rs[i+1:] {
					for k, ma := range ranks[a] {
						if mb := ranks[b][k]; mb != nil && ma.min <= mb.max {
							// not a read deviation by itself: counted, and the walk then tries to turn it
							// into one (delete the key, raise the watermark, flush, compact level 0)
							out.Inversions++
							if out.InvSample == nil {
								out.InvSample = append(append([]string{}, log...), fmt.Sprintf("AGE %s after %s: version %d in rank %d, version %d in rank %d", k, what, ma.min, a, mb.max, b))
							}
							if chase == "" {
								chase = k
							}
							return true
						}
					}
				}
			}
			return true
		}
		_ = chase
		sizes := []int{10, 10, 1500, 4000, 30 << 10}
		lastBase := db.VerifBaseLevel()
		ok := true
		for st := 0; st < *steps && ok; st++ {
			out.Steps++
			if chase != "" && !chased {
				chased = true
				ts++
				txn := db.NewTransactionAt(ts, true)
				_ = txn.Delete([]byte(chase))
				if err := txn.CommitAt(ts, nil); err != nil {
					vh.Fatalf("commit: %v", err)
				}
				written[chase] = append(written[chase], ver{ts, true})
				discard = ts
				db.SetDiscardTs(discard)
				if err := db.VerifFlush(); err != nil {
					vh.Fatalf("flush: %v", err)
				}
				say("del %s@%d; discardTs=%d; flush", chase, ts, ts)
				for try := 0; try < 3; try++ {
					done := false
					for _, p := range db.VerifPickLevels() {
						if int(p[0]) == 0 && !done {
							base := db.VerifBaseLevel()
							if err := db.VerifDoCompact(1, 0, p[1], p[2]); err == nil {
								fam := fmt.Sprintf("L0->L%d", base)
								out.Compactions[fam]++
								say("compact %s by 1 (score %.2f adjusted %.2f)", fam, p[1], p[2])
								ok = checkReads(fam)
								done = true
							}
						}
					}
					if done || !ok {
						break
					}
					// level 0 is not listed yet: one more small table
					ts++
					txn := db.NewTransactionAt(ts, true)
					_ = txn.Set([]byte("zy"), pad(10))
					if err := txn.CommitAt(ts, nil); err != nil {
						vh.Fatalf("commit: %v", err)
					}
					written["zy"] = append(written["zy"], ver{ts, false})
					if err := db.VerifFlush(); err != nil {
						vh.Fatalf("flush: %v", err)
					}
					say("put zy@%d; flush", ts)
				}
				continue
			}
			switch r := rnd.Intn(100); {
			case r < 35:
				k := keys[rnd.Intn(len(keys))]
				n := sizes[rnd.Intn(len(sizes))]
				ts++
				txn := db.NewTransactionAt(ts, true)
				_ = txn.Set([]byte(k), pad(n))
				if err := txn.CommitAt(ts, nil); err != nil {
					vh.Fatalf("commit: %v", err)
				}
				written[k] = append(written[k], ver{ts, false})
				say("put %s@%d %dB", k, ts, n)
			case r < 55:
				k := keys[rnd.Intn(len(keys))]
				ts++
				txn := db.NewTransactionAt(ts, true)
				_ = txn.Delete([]byte(k))
				if err := txn.CommitAt(ts, nil); err != nil {
					vh.Fatalf("commit: %v", err)
				}
				written[k] = append(written[k], ver{ts, true})
				say("del %s@%d", k, ts)
			case r < 70:
				if len(db.VerifMemEntries()) == 0 {
					continue
				}
				if err := db.VerifFlush(); err != nil {
					vh.Fatalf("flush: %v", err)
				}
				say("flush")
				ok = checkReads("Flush") && checkAge("Flush")
			case r < 78:
				discard = ts
				db.SetDiscardTs(discard)
				say("discardTs=%d", discard)
			default:
				prios := db.VerifPickLevels()
				if len(prios) == 0 {
					continue
				}
				p := prios[rnd.Intn(len(prios))]
				cid := rnd.Intn(2)
				base := db.VerifBaseLevel()
				err := db.VerifDoCompact(cid, int(p[0]), p[1], p[2])
				if err == badger.ErrVerifNoFill {
					say("compact L%d: nothing to do", int(p[0]))
					continue
				}
				if err != nil {
					vh.Fatalf("compact: %v", err)
				}
				to := int(p[0]) + 1
				if int(p[0]) == 0 {
					to = base
				}
				if int(p[0]) == o.MaxLevels-1 {
					to = int(p[0])
				}
				fam := fmt.Sprintf("L%d->L%d", int(p[0]), to)
				out.Compactions[fam]++
				say("compact %s by %d (score %.2f adjusted %.2f)", fam, cid, p[1], p[2])
				ok = checkReads(fam) && checkAge(fam)
				if err := db.VerifValidateLevels(); err != nil {
					say("validate: %v", err)
					bad("walk " + fam + " structure.validate")
					ok = false
				}
			}
			if b := db.VerifBaseLevel(); b != lastBase {
				out.BaseMoves++
				lastBase = b
			}
			// the base level is at a non-empty level although a lower level would fit by size
			if b := db.VerifBaseLevel(); b < o.MaxLevels-1 {
				for l, tabs := range db.VerifTables() {
					if l == b && len(tabs) > 0 {
						out.Clamped++
					}
				}
			}
		}
		if chase != "" && os.Getenv("LSMPROBE_DEBUG") != "" {
			fmt.Fprintf(os.Stderr, "walk %d maxlevels %d chase %s\n", w, o.MaxLevels, chase)
			for _, l := range log {
				fmt.Fprintln(os.Stderr, "  ", l)
			}
		}
		out.Walks++
		db.Close()
		os.RemoveAll(dir)
	}
	json.NewEncoder(os.Stdout).Encode(out)
}
