// sm1seq replays SequenceGen cases (C30) against DB.GetSequence / Sequence.Next / Release.
//
// Calls that run a lease transaction are started on their own goroutine and parked at the
// "commit.start" gate (txn.go commitAndSend, before the oracle is asked for a commit
// timestamp); the ...Commit step of the case lets exactly that transaction through.  This
// forces the interleaving of lease transactions of different Sequence objects that the
// specification's behaviour describes, deterministically.
//
// output: one JSON line per case (vh.CaseResult).
package main

import (
	"encoding/json"
	"flag"
	"fmt"
	"os"
	"time"

	badger "github.com/dgraph-io/badger/v4"

	"verifharness/vh"
)

type Step struct {
	Op  string `json:"op"`
	O   int    `json:"o"`
	Res string `json:"res"`
	V   uint64 `json:"v"`
}

var bw = flag.Uint64("bw", 2, "bandwidth")

type result struct {
	seq *badger.Sequence
	val uint64
	err error
}

type call struct {
	done chan result
	txn  interface{}
}

var rec *vh.Recorder

var (
	gdb    *badger.DB
	gdir   string
	ncases int
)

func open() *badger.DB {
	db, err := badger.Open(vh.SmallOptions(gdir))
	if err != nil {
		vh.Fatalf("open: %v", err)
	}
	return db
}

func closeDB() {
	if gdb != nil {
		gdb.Close()
		gdb = nil
	}
	if gdir != "" {
		os.RemoveAll(gdir)
		gdir = ""
	}
}

func fail(sig string, detail interface{}) vh.CaseResult {
	return vh.CaseResult{OK: false, Sig: sig, Detail: detail}
}

func errClass(err error) string {
	switch err {
	case nil:
		return "ok"
	case badger.ErrConflict:
		return "conflict"
	case badger.ErrKeyNotFound:
		return "notfound"
	}
	return "error:" + err.Error()
}

// waits until the call has returned or a new goroutine is parked at the gate
func waitParkOrDone(g *vh.Gate, c *call, before int) (parked bool, r result, ok bool) {
	deadline := time.Now().Add(20 * time.Second)
	for time.Now().Before(deadline) {
		select {
		case r = <-c.done:
			return false, r, true
		default:
		}
		if g.NumParked() > before {
			c.txn = g.ParkedArgs(g.NumParked() - 1)[0]
			return true, r, true
		}
		time.Sleep(50 * time.Microsecond)
	}
	return false, r, false
}

func run(idx int, line []byte) vh.CaseResult {
	var steps []Step
	if err := json.Unmarshal(line, &steps); err != nil {
		vh.Fatalf("bad case %d: %v", idx, err)
	}
	// one DB per replayer process, one key per case (sequences of different keys are
	// independent); a fresh directory every 300 cases
	if gdb == nil || ncases%300 == 0 {
		closeDB()
		d, err := os.MkdirTemp("", "sm1seq-")
		if err != nil {
			vh.Fatalf("mkdtemp: %v", err)
		}
		gdir = d
		gdb = open()
	}
	ncases++
	db := gdb
	gate := rec.Arm("commit.start", nil)
	objs := map[int]*badger.Sequence{}
	inflight := map[int]*call{}
	queued := map[int]*call{} // Next calls issued while their object was busy (waiting for Sequence.lock)
	given := map[uint64]bool{}
	conflictedRenewal := map[int]bool{}
	info := map[string]int{}
	key := []byte(fmt.Sprintf("seq-key-%d", idx))
	finish := func() {
		gate.Disarm()
		for _, m := range []map[int]*call{inflight, queued} {
			for _, c := range m {
				select {
				case <-c.done:
				case <-time.After(20 * time.Second):
					vh.Fatalf("call still running after the gate was disarmed")
				}
			}
		}
	}
	start := func(o int, f func() result) (*call, bool, result, bool) {
		c := &call{done: make(chan result, 1)}
		before := gate.NumParked()
		go func() { c.done <- f() }()
		parked, r, ok := waitParkOrDone(gate, c, before)
		return c, parked, r, ok
	}
	commit := func(o int) (result, string) {
		c := inflight[o]
		if c == nil {
			return result{}, "harness:no call in flight"
		}
		if !gate.Release(func(a []interface{}) bool { return a[0] == c.txn }) {
			return result{}, "harness:parked transaction not found"
		}
		delete(inflight, o)
		select {
		case r := <-c.done:
			return r, ""
		case <-time.After(20 * time.Second):
			return result{}, "harness:call did not return after release"
		}
	}
	hand := func(v uint64) string {
		if given[v] {
			return fmt.Sprintf(" (number %d handed out twice)", v)
		}
		given[v] = true
		return ""
	}
	for j, s := range steps {
		det := map[string]interface{}{"step": j, "op": s.Op, "o": s.O, "want": s.Res, "wantV": s.V}
		switch s.Op {
		case "getBegin":
			c, parked, r, ok := start(s.O, func() result {
				seq, err := db.GetSequence(key, *bw)
				return result{seq: seq, err: err}
			})
			if !ok {
				finish()
				return fail("harness:timeout", det)
			}
			if !parked {
				finish()
				det["err"] = errClass(r.err)
				return fail("sm1:seq GetSequence returned without a lease transaction", det)
			}
			inflight[s.O] = c
		case "getCommit":
			r, h := commit(s.O)
			if h != "" {
				finish()
				return fail(h, det)
			}
			if got := errClass(r.err); got != s.Res {
				finish()
				det["got"] = got
				return fail("sm1:seq GetSequence want="+s.Res+" got="+got, det)
			}
			if r.err == nil {
				objs[s.O] = r.seq
			} else {
				info["conflicts"]++
			}
		case "next", "nextBegin":
			seq := objs[s.O]
			c, parked, r, ok := start(s.O, func() result {
				v, err := seq.Next()
				return result{val: v, err: err}
			})
			if !ok {
				finish()
				return fail("harness:timeout", det)
			}
			if s.Op == "next" {
				if parked {
					inflight[s.O] = c
					finish()
					return fail("sm1:seq Next renews the lease although numbers are left", det)
				}
				if r.err != nil || r.val != s.V {
					finish()
					det["got"] = fmt.Sprintf("%d %v", r.val, r.err)
					return fail("sm1:seq Next returned a wrong number", det)
				}
				if d := hand(r.val); d != "" {
					finish()
					return fail("sm1:seq Next"+d, det)
				}
				info["numbers"]++
			} else {
				if !parked {
					finish()
					det["got"] = fmt.Sprintf("%d %v", r.val, r.err)
					if r.err == nil && conflictedRenewal[s.O] {
						return fail("sm1:seq Next after a conflicted lease renewal is served from the uncommitted lease"+hand(r.val), det)
					}
					return fail("sm1:seq Next returned without renewing an exhausted lease", det)
				}
				inflight[s.O] = c
			}
		case "nextCommit":
			r, h := commit(s.O)
			if h != "" {
				finish()
				return fail(h, det)
			}
			got := errClass(r.err)
			if got == "ok" {
				got = "value"
			}
			if got != s.Res || (got == "value" && r.val != s.V) {
				finish()
				det["got"] = fmt.Sprintf("%s %d", got, r.val)
				return fail("sm1:seq Next (renewal) want="+s.Res+" got="+got, det)
			}
			conflictedRenewal[s.O] = got == "conflict"
			if got == "value" {
				if d := hand(r.val); d != "" {
					finish()
					return fail("sm1:seq Next"+d, det)
				}
				info["numbers"]++
			} else {
				info["conflicts"]++
			}
		case "releaseBegin":
			seq := objs[s.O]
			c, parked, r, ok := start(s.O, func() result { return result{err: seq.Release()} })
			if !ok {
				finish()
				return fail("harness:timeout", det)
			}
			if parked != (s.Res == "parked") {
				if parked {
					inflight[s.O] = c
				}
				finish()
				det["parked"] = parked
				if conflictedRenewal[s.O] {
					// stored == seq.leased is evaluated with the lease of the failed renewal: the loser's
					// next is written over the winner's lease, or a due write-back is skipped
					return fail("sm1:seq Release after a conflicted lease renewal uses the uncommitted lease", det)
				}
				return fail("sm1:seq Release transaction writes="+fmt.Sprint(parked)+" want="+s.Res, det)
			}
			if parked {
				inflight[s.O] = c
			} else if got := errClass(r.err); got != s.Res {
				finish()
				det["got"] = got
				return fail("sm1:seq Release want="+s.Res+" got="+got, det)
			}
			conflictedRenewal[s.O] = false
			info["releases"]++
		case "releaseCommit":
			r, h := commit(s.O)
			if h != "" {
				finish()
				return fail(h, det)
			}
			if got := errClass(r.err); got != s.Res {
				finish()
				det["got"] = got
				return fail("sm1:seq Release want="+s.Res+" got="+got, det)
			}
			if r.err != nil {
				info["conflicts"]++
			}
		case "nextQueued":
			// a second goroutine calls Next while a call of the same object is inside its
			// transaction (parked at the gate, holding Sequence.lock): it must wait
			seq := objs[s.O]
			c := &call{done: make(chan result, 1)}
			before := gate.NumParked()
			go func() {
				v, err := seq.Next()
				c.done <- result{val: v, err: err}
			}()
			queued[s.O] = c
			deadline := time.Now().Add(40 * time.Millisecond)
			for time.Now().Before(deadline) {
				select {
				case r := <-c.done:
					delete(queued, s.O)
					finish()
					det["got"] = fmt.Sprintf("%d %v", r.val, r.err)
					d := ""
					if r.err == nil {
						d = hand(r.val)
					}
					return fail("sm1:seq Next did not wait for the call of the same Sequence that is inside its transaction"+d, det)
				default:
				}
				if gate.NumParked() > before {
					finish()
					return fail("sm1:seq Next started a lease transaction while a call of the same Sequence is inside its transaction", det)
				}
				time.Sleep(200 * time.Microsecond)
			}
			info["queued_next"]++
		case "resume":
			c := queued[s.O]
			if c == nil {
				vh.Fatalf("resume without queued call")
			}
			delete(queued, s.O)
			var r result
			parked, done := false, false
			deadline := time.Now().Add(20 * time.Second)
			for time.Now().Before(deadline) && !parked && !done {
				select {
				case r = <-c.done:
					done = true
				default:
					if gate.NumParked() > len(inflight) {
						c.txn = gate.ParkedArgs(gate.NumParked() - 1)[0]
						parked = true
					} else {
						time.Sleep(50 * time.Microsecond)
					}
				}
			}
			switch {
			case !parked && !done:
				queued[s.O] = c
				finish()
				return fail("harness:timeout", det)
			case parked:
				inflight[s.O] = c
				if s.Res != "parked" {
					finish()
					return fail("sm1:seq waiting Next renews the lease although numbers are left", det)
				}
			default:
				if s.Res != "value" || r.err != nil || r.val != s.V {
					finish()
					det["got"] = fmt.Sprintf("%d %v", r.val, r.err)
					return fail("sm1:seq waiting Next returned a wrong result", det)
				}
				if d := hand(r.val); d != "" {
					finish()
					return fail("sm1:seq Next"+d, det)
				}
				info["numbers"]++
			}
		case "restart":
			if len(inflight) != 0 {
				vh.Fatalf("restart with calls in flight")
			}
			if err := db.Close(); err != nil {
				finish()
				return fail("harness:close", err.Error())
			}
			db = open()
			gdb = db
			objs = map[int]*badger.Sequence{}
			conflictedRenewal = map[int]bool{}
			info["restarts"]++
		default:
			vh.Fatalf("unknown op %q", s.Op)
		}
	}
	finish()
	return vh.CaseResult{OK: true, Info: info}
}

func main() {
	f := vh.RegisterCaseFlags()
	flag.Parse()
	rec = vh.Install(false)
	vh.RunCases(f, run)
	closeDB()
}
