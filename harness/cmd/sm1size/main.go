// sm1size replays the C28 cases (TxnSizeGen, TxnValidGen) against the real transaction API.
//
//	-probe            print the limits of a DB opened with the given options as JSON
//	-mode size        byte/count accounting: every write's answer (ok / ErrTxnTooBig) and the
//	                  budget after it (Txn.size/count through VerifTxnSize) are compared with
//	                  the prediction; Commit at a timestamp with the wanted number of digits
//	                  must succeed; accepted entries must read back
//	-mode valid       validation rules: error class of every write, contents afterwards
//
// output: one JSON line per case (vh.CaseResult).
package main

import (
	"bytes"
	"encoding/binary"
	"encoding/json"
	"flag"
	"fmt"
	"math"
	"os"
	"sort"
	"strconv"
	"strings"

	badger "github.com/dgraph-io/badger/v4"

	"verifharness/vh"
)

var (
	probe    = flag.Bool("probe", false, "print limits and exit")
	mode     = flag.String("mode", "size", "size | valid")
	managed  = flag.Bool("managed", false, "managed DB: CommitAt with a timestamp of the wanted number of digits")
	memtable = flag.Int64("memtable", 1<<20, "MemTableSize")
	vthresh  = flag.Int64("vthreshold", 0, "ValueThreshold (0 = maxBatchSize)")
	inmem    = flag.Bool("inmem", false, "in-memory DB")
	nsOffset = flag.Int("nsoffset", -1, "NamespaceOffset")
	reopenN  = flag.Int("reopen", 500, "size mode: fresh DB every N cases")
)

type Step struct {
	Op    string `json:"op"`
	K     int    `json:"k"`
	V     int    `json:"v"`
	Res   string `json:"res"`
	Size  int64  `json:"size"`
	Count int64  `json:"count"`
	D     int    `json:"d"`
	N     int    `json:"n"`
	Tight bool   `json:"tight"`
	// valid mode
	Kc   string `json:"kc"`
	Vc   string `json:"vc"`
	Klen int    `json:"klen"`
	Vlen int    `json:"vlen"`
	Val  int    `json:"val"`
	Ns   uint64 `json:"ns"`
	Gets map[string]struct {
		Res string `json:"res"`
		Val int    `json:"val"`
	} `json:"gets"`
	Iter []struct {
		Kc  string `json:"kc"`
		Val int    `json:"val"`
	} `json:"iter"`
}

func options(dir string) badger.Options {
	var o badger.Options
	if *inmem {
		o = vh.SmallOptions("").WithInMemory(true)
	} else {
		o = vh.SmallOptions(dir)
	}
	o.MemTableSize = *memtable
	maxBatch := (15 * o.MemTableSize) / 100
	if *vthresh == 0 {
		o.ValueThreshold = maxBatch
	} else {
		o.ValueThreshold = *vthresh
	}
	o.NumLevelZeroTables = 100000
	o.NumLevelZeroTablesStall = 200000
	o.NumMemtables = 50
	o.NamespaceOffset = *nsOffset
	return o
}

type runner struct {
	db  *badger.DB
	dir string
	n   int
	seq uint64
}

func (r *runner) close() {
	if r.db != nil {
		r.db.Close()
		r.db = nil
	}
	if r.dir != "" {
		os.RemoveAll(r.dir)
		r.dir = ""
	}
}

func (r *runner) open() {
	r.close()
	dir := ""
	if !*inmem {
		d, err := os.MkdirTemp("", "sm1size-")
		if err != nil {
			vh.Fatalf("mkdtemp: %v", err)
		}
		dir = d
	}
	r.dir = dir
	var err error
	if *managed {
		r.db, err = badger.OpenManaged(options(dir))
	} else {
		r.db, err = badger.Open(options(dir))
	}
	if err != nil {
		vh.Fatalf("open: %v", err)
	}
}

func digits(x uint64) int { return len(strconv.FormatUint(x, 10)) }

func pow10(d int) uint64 {
	x := uint64(1)
	for i := 1; i < d; i++ {
		x *= 10
	}
	return x
}

func fail(sig string, detail interface{}) vh.CaseResult {
	return vh.CaseResult{OK: false, Sig: sig, Detail: detail}
}

func classify(err error) string {
	switch {
	case err == nil:
		return "ok"
	case err == badger.ErrEmptyKey:
		return "empty"
	case err == badger.ErrInvalidKey:
		return "invalid"
	case err == badger.ErrBannedKey:
		return "banned"
	case err == badger.ErrTxnTooBig:
		return "toobig"
	case err == badger.ErrKeyNotFound:
		return "notfound"
	case strings.HasPrefix(err.Error(), "Key with size"):
		return "keysize"
	case strings.HasPrefix(err.Error(), "Value with size"):
		return "valsize"
	}
	return "other:" + err.Error()
}

// guarded runs f and turns a panic into an error class.
func guarded(f func() error) (class string) {
	defer func() {
		if p := recover(); p != nil {
			class = "panic"
		}
	}()
	return classify(f())
}

// ---------------------------------------------------------------- size mode

func sizeKey(j, l int) []byte {
	b := bytes.Repeat([]byte{'x'}, l)
	b[0] = byte('a' + j)
	return b
}

func sizeVal(j, l int) []byte { return bytes.Repeat([]byte{byte('A' + j)}, l) }

func (r *runner) ensureDigits(d int) bool {
	for tries := 0; tries < 3; tries++ {
		next := r.db.VerifOracleState().NextTxnTs
		if digits(next) > d {
			r.open()
			continue
		}
		for digits(next) < d {
			if err := r.db.Update(func(txn *badger.Txn) error { return txn.Set([]byte("filler"), nil) }); err != nil {
				vh.Fatalf("filler commit: %v", err)
			}
			next = r.db.VerifOracleState().NextTxnTs
		}
		return true
	}
	return false
}

func (r *runner) runSize(idx int, line []byte) vh.CaseResult {
	var steps []Step
	if err := json.Unmarshal(line, &steps); err != nil {
		vh.Fatalf("bad case %d: %v", idx, err)
	}
	if r.db == nil || r.n%*reopenN == 0 {
		r.open()
	}
	r.n++
	commit := steps[len(steps)-1]
	if commit.Op != "commit" {
		vh.Fatalf("case %d does not end with commit", idx)
	}
	var ts uint64
	var txn *badger.Txn
	if *managed {
		r.seq++
		lo := pow10(commit.D)
		span := lo * 8
		if commit.D == 20 {
			span = math.MaxUint64 - lo
		}
		if commit.D == 1 {
			lo, span = 1, 9
		}
		ts = lo + (r.seq*7919)%span
		if digits(ts) != commit.D {
			vh.Fatalf("ts %d has not %d digits", ts, commit.D)
		}
		txn = r.db.NewTransactionAt(ts, true)
	} else {
		if !r.ensureDigits(commit.D) {
			return fail("harness:digits", commit.D)
		}
		txn = r.db.NewTransaction(true)
	}
	defer txn.Discard()
	type acc struct {
		k, v []byte
	}
	var accepted []acc
	info := map[string]int{}
	for j, s := range steps[:len(steps)-1] {
		k, v := sizeKey(j, s.K), sizeVal(j, s.V)
		got := guarded(func() error { return txn.SetEntry(badger.NewEntry(k, v)) })
		cnt, sz := badger.VerifTxnSize(txn)
		if got != s.Res {
			return fail(fmt.Sprintf("sm1:size add-answer want=%s got=%s", s.Res, got),
				map[string]interface{}{"step": j, "k": s.K, "v": s.V, "size": sz, "count": cnt, "wantSize": s.Size})
		}
		if cnt != s.Count || sz != s.Size {
			return fail("sm1:size budget-differs", map[string]interface{}{"step": j, "k": s.K, "v": s.V,
				"size": sz, "count": cnt, "wantSize": s.Size, "wantCount": s.Count})
		}
		if got == "ok" {
			accepted = append(accepted, acc{k, v})
		} else {
			info["adds_refused"]++
		}
	}
	var err error
	if *managed {
		err = txn.CommitAt(ts, nil)
	} else {
		next := r.db.VerifOracleState().NextTxnTs
		if digits(next) != commit.D {
			return fail("harness:digits", fmt.Sprintf("next ts %d, wanted %d digits", next, commit.D))
		}
		err = txn.Commit()
	}
	if commit.Tight {
		info["tight_commits"]++
	}
	if err != nil {
		c := classify(err)
		if c == "toobig" {
			_, _, reserve := limits(r.db)
			return fail(fmt.Sprintf("sm1:size commit-toobig-after-accept reserve=%d excess=%d", reserve, commit.D-2*len(accepted)),
				map[string]interface{}{"entries": len(accepted), "digits": commit.D, "steps": steps})
		}
		return fail("sm1:size commit-error "+c, err.Error())
	}
	// round trip
	var rt *badger.Txn
	if *managed {
		rt = r.db.NewTransactionAt(ts, false)
	} else {
		rt = r.db.NewTransaction(false)
	}
	defer rt.Discard()
	for _, a := range accepted {
		item, err := rt.Get(a.k)
		if err != nil {
			return fail("sm1:size accepted-entry-not-readable", err.Error())
		}
		val, err := item.ValueCopy(nil)
		if err != nil || !bytes.Equal(val, a.v) {
			return fail("sm1:size accepted-entry-value-differs", fmt.Sprintf("len %d want %d err %v", len(val), len(a.v), err))
		}
	}
	info["entries_committed"] += len(accepted)
	return vh.CaseResult{OK: true, Info: info}
}

func limits(db *badger.DB) (count, size, reserve int64) {
	count, size = db.VerifMaxBatch()
	var txn *badger.Txn
	if *managed {
		txn = db.NewTransactionAt(1, true)
	} else {
		txn = db.NewTransaction(true)
	}
	_, reserve = badger.VerifTxnSize(txn)
	txn.Discard()
	return
}

// ---------------------------------------------------------------- valid mode

const vlogFileSize = 1 << 20

func nsBytes(ns uint64) []byte {
	var b [8]byte
	binary.BigEndian.PutUint64(b[:], ns)
	return b[:]
}

// concrete key of a key class; keys that can carry a namespace are laid out as
// <off filler bytes><8 bytes namespace><tail>.
func validKey(kc string, klen int) []byte {
	off := *nsOffset
	if off < 0 {
		off = 0
	}
	withNs := func(ns uint64, fill byte) []byte {
		b := bytes.Repeat([]byte{fill}, klen)
		if *nsOffset >= 0 && klen >= off+8 {
			copy(b[off:], nsBytes(ns))
		}
		return b
	}
	switch kc {
	case "empty":
		return []byte{}
	case "reserved":
		return []byte("!badger!foo")
	case "reservedExact":
		return []byte("!badger!")
	case "nearReserved":
		b := []byte("!badger?" + strings.Repeat("n", klen-8))
		if *nsOffset >= 0 {
			copy(b[off:], nsBytes(3))
		}
		if bytes.HasPrefix(b, []byte("!badger!")) {
			vh.Fatalf("nearReserved key became reserved")
		}
		return b
	case "max", "over":
		return withNs(2, 'm')
	case "plain":
		return withNs(2, 'p')
	case "short":
		return bytes.Repeat([]byte{'s'}, klen)
	case "bannedLong":
		return withNs(1, 'b')
	case "bannedExact":
		return withNs(1, 'e')
	}
	vh.Fatalf("unknown key class %q", kc)
	return nil
}

func validVal(id, vlen int) []byte {
	b := bytes.Repeat([]byte{'.'}, vlen)
	copy(b, []byte("v"+strconv.Itoa(id)+"."))
	return b
}

func valID(b []byte) int {
	if len(b) < 3 || b[0] != 'v' {
		return 0
	}
	j := bytes.IndexByte(b, '.')
	if j < 0 {
		return 0
	}
	v, _ := strconv.Atoi(string(b[1:j]))
	return v
}

func (r *runner) runValid(idx int, line []byte) vh.CaseResult {
	var steps []Step
	if err := json.Unmarshal(line, &steps); err != nil {
		vh.Fatalf("bad case %d: %v", idx, err)
	}
	r.open()
	defer r.close()
	db := r.db
	pre := fmt.Sprintf("sm1:valid inmem=%v", *inmem)
	var txn *badger.Txn
	defer func() {
		if txn != nil {
			txn.Discard()
		}
	}()
	klens := map[string]int{}
	vlens := map[int]int{}
	info := map[string]int{}
	for j, s := range steps {
		switch s.Op {
		case "ban":
			if err := db.BanNamespace(s.Ns); err != nil {
				return fail("harness:ban", err.Error())
			}
		case "set", "del":
			if txn == nil {
				txn = db.NewTransaction(true)
			}
			k := validKey(s.Kc, s.Klen)
			if len(k) != s.Klen {
				vh.Fatalf("key class %s: len %d want %d", s.Kc, len(k), s.Klen)
			}
			klens[s.Kc] = s.Klen
			cntB, szB := badger.VerifTxnSize(txn)
			var got string
			if s.Op == "set" {
				v := validVal(s.Val, s.Vlen)
				vlens[s.Val] = s.Vlen
				got = guarded(func() error { return txn.Set(k, v) })
			} else {
				got = guarded(func() error { return txn.Delete(k) })
			}
			if got != s.Res {
				return fail(fmt.Sprintf("%s op=%s kc=%s vc=%s want=%s got=%s", pre, s.Op, s.Kc, s.Vc, s.Res, got),
					map[string]interface{}{"step": j, "klen": s.Klen, "vlen": s.Vlen})
			}
			if got != "ok" {
				info["writes_refused"]++
				cntA, szA := badger.VerifTxnSize(txn)
				if cntA != cntB || szA != szB {
					return fail(pre+" refused-write-changed-budget", map[string]interface{}{"step": j, "kc": s.Kc, "vc": s.Vc})
				}
			} else {
				info["writes_accepted"]++
			}
		case "commit":
			if txn == nil {
				txn = db.NewTransaction(true)
			}
			err := txn.Commit()
			txn = nil
			if c := classify(err); c != s.Res {
				return fail(fmt.Sprintf("%s commit want=%s got=%s", pre, s.Res, c), nil)
			}
		case "readall":
			rt := db.NewTransaction(false)
			defer rt.Discard()
			conc := map[string]string{}
			var kcs []string
			for kc := range s.Gets {
				kcs = append(kcs, kc)
			}
			sort.Strings(kcs)
			for _, kc := range kcs {
				want := s.Gets[kc]
				kl, ok := klens[kc]
				if !ok {
					kl = defaultKlen(kc)
				}
				k := validKey(kc, kl)
				conc[string(k)] = kc
				var item *badger.Item
				got := guarded(func() error {
					var err error
					item, err = rt.Get(k)
					return err
				})
				if got == "ok" {
					got = "found"
				}
				if got != want.Res {
					return fail(fmt.Sprintf("%s op=get kc=%s want=%s got=%s", pre, kc, want.Res, got), nil)
				}
				if got == "found" {
					val, err := item.ValueCopy(nil)
					if err != nil {
						return fail(pre+" op=get value-error", err.Error())
					}
					if len(val) != vlens[want.Val] || (len(val) >= 4 && valID(val) != want.Val) {
						return fail(fmt.Sprintf("%s op=get kc=%s wrong-value", pre, kc),
							fmt.Sprintf("len %d id %d, want len %d id %d", len(val), valID(val), vlens[want.Val], want.Val))
					}
					info["reads_found"]++
				}
			}
			// one full iteration: exactly the visible keys
			it := rt.NewIterator(badger.DefaultIteratorOptions)
			seen := map[string]int{}
			for it.Rewind(); it.Valid(); it.Next() {
				item := it.Item()
				kc, ok := conc[string(item.Key())]
				if !ok {
					kc = "?" + strconv.Itoa(len(item.Key()))
				}
				val, _ := item.ValueCopy(nil)
				seen[kc] = valID(val)
				if len(val) < 4 {
					seen[kc] = -len(val) - 1
				}
			}
			it.Close()
			wantSeen := map[string]int{}
			for _, e := range s.Iter {
				if vlens[e.Val] < 4 {
					wantSeen[e.Kc] = -vlens[e.Val] - 1
				} else {
					wantSeen[e.Kc] = e.Val
				}
			}
			if fmt.Sprint(seen) != fmt.Sprint(wantSeen) {
				return fail(pre+" op=iterate contents-differ", fmt.Sprintf("got %v want %v", seen, wantSeen))
			}
		}
	}
	return vh.CaseResult{OK: true, Info: info}
}

func defaultKlen(kc string) int {
	off := *nsOffset
	if off < 0 {
		off = 0
	}
	switch kc {
	case "empty":
		return 0
	case "reserved":
		return 11
	case "reservedExact":
		return 8
	case "nearReserved":
		return 20
	case "max":
		return 65000
	case "over":
		return 65001
	case "plain", "bannedLong":
		return off + 12
	case "short":
		return off + 7
	case "bannedExact":
		return off + 8
	}
	return 1
}

func main() {
	f := vh.RegisterCaseFlags()
	flag.Parse()
	r := &runner{}
	if *probe {
		r.open()
		cnt, size, reserve := limits(r.db)
		out := map[string]interface{}{"maxBatchCount": cnt, "maxBatchSize": size, "reserve": reserve,
			"threshold": r.db.VerifValueThreshold(), "valueLogFileSize": vlogFileSize}
		b, _ := json.Marshal(out)
		fmt.Println(string(b))
		r.close()
		return
	}
	switch *mode {
	case "size":
		vh.RunCases(f, r.runSize)
	case "valid":
		vh.RunCases(f, r.runValid)
	default:
		vh.Fatalf("unknown mode %q", *mode)
	}
	r.close()
}
