// sm1pub replays PublisherGen cases (C32) against DB.Subscribe.
//
// Every subscriber of the case runs DB.Subscribe on its own goroutine with the case's
// patterns (pb.Match{Prefix, IgnoreBytes}); transactions commit the case's key sets; the
// deliveries each subscriber's callback received are compared, commit by commit and in
// order, with the sequence the specification demands.  A control subscriber with the empty
// prefix (registered first) tells the replayer when the publisher has handed a commit on.
// Keys with the reserved "!badger!" prefix (the transaction end marker reaches subscribers
// whose pattern matches it) are counted but not judged: the property speaks about user keys.
//
// output: one JSON line per case (vh.CaseResult).
package main

import (
	"bytes"
	"context"
	"encoding/json"
	"flag"
	"fmt"
	"sort"
	"strings"
	"sync"
	"time"

	badger "github.com/dgraph-io/badger/v4"
	"github.com/dgraph-io/badger/v4/pb"

	"verifharness/vh"
)

type Pat struct {
	Prefix []int `json:"prefix"`
	Ig     []int `json:"ig"`
}

type Deliv struct {
	Ver  uint64  `json:"ver"`
	Keys [][]int `json:"keys"`
}

type Step struct {
	Op       string    `json:"op"`
	S        int       `json:"s"`
	Pats     []Pat     `json:"pats"`
	Ver      uint64    `json:"ver"`
	Keys     [][]int   `json:"keys"`
	Expected [][]Deliv `json:"expected"`
}

type kv struct {
	key     string
	val     string
	ver     uint64
	meta    byte
	expires uint64
}

type sub struct {
	mu      sync.Mutex
	got     []kv
	intern  int
	cancel  context.CancelFunc
	done    chan error
	stopped bool
}

func (s *sub) count() int {
	s.mu.Lock()
	defer s.mu.Unlock()
	return len(s.got)
}

func bytesOf(xs []int) []byte {
	b := make([]byte, len(xs))
	for i, x := range xs {
		switch x {
		case 255:
			b[i] = 0xff
		default:
			b[i] = byte('a' + x - 1)
		}
	}
	return b
}

func ignoreString(ig []int, ranges bool) string {
	sort.Ints(ig)
	var parts []string
	for i := 0; i < len(ig); i++ {
		j := i
		for ranges && j+1 < len(ig) && ig[j+1] == ig[j]+1 {
			j++
		}
		if j > i {
			parts = append(parts, fmt.Sprintf("%d-%d", ig[i], ig[j]))
			i = j
		} else {
			parts = append(parts, fmt.Sprint(ig[i]))
		}
	}
	return strings.Join(parts, ", ")
}

// matchWith reports whether the pattern matches key extended by ext (classification of a
// spurious delivery only).
func matchWith(p Pat, key []byte) bool {
	pre := bytesOf(p.Prefix)
	if len(key) < len(pre) {
		return false
	}
	ig := map[int]bool{}
	for _, i := range p.Ig {
		ig[i] = true
	}
	for i := range pre {
		if !ig[i] && key[i] != pre[i] {
			return false
		}
	}
	return true
}

func fail(sig string, detail interface{}) vh.CaseResult {
	return vh.CaseResult{OK: false, Sig: sig, Detail: detail}
}

var db *badger.DB

func startSub(matches []pb.Match) (*sub, bool) {
	s := &sub{done: make(chan error, 1)}
	ctx, cancel := context.WithCancel(context.Background())
	s.cancel = cancel
	before := db.VerifNumSubscribers()
	go func() {
		s.done <- db.Subscribe(ctx, func(l *badger.KVList) error {
			s.mu.Lock()
			defer s.mu.Unlock()
			for _, k := range l.Kv {
				if bytes.HasPrefix(k.Key, []byte("!badger!")) {
					s.intern++
					continue
				}
				if len(k.Key) > 0 && k.Key[0] == 0 {
					s.got = append(s.got, kv{key: string(k.Key), ver: k.Version})
					continue
				}
				var m byte
				if len(k.Meta) > 0 {
					m = k.Meta[0]
				}
				s.got = append(s.got, kv{key: string(k.Key), val: string(k.Value), ver: k.Version, meta: m, expires: k.ExpiresAt})
			}
			return nil
		}, matches)
	}()
	deadline := time.Now().Add(10 * time.Second)
	for db.VerifNumSubscribers() <= before {
		if time.Now().After(deadline) {
			return s, false
		}
		time.Sleep(50 * time.Microsecond)
	}
	return s, true
}

func (s *sub) stop() bool {
	if s.stopped {
		return true
	}
	s.stopped = true
	s.cancel()
	select {
	case <-s.done:
		return true
	case <-time.After(10 * time.Second):
		return false
	}
}

// user-visible deliveries (sentinel keys start with a zero byte)
func (s *sub) user() []kv {
	s.mu.Lock()
	defer s.mu.Unlock()
	var out []kv
	for _, k := range s.got {
		if k.key[0] != 0 {
			out = append(out, k)
		}
	}
	return out
}

func (s *sub) sentinels() int {
	s.mu.Lock()
	defer s.mu.Unlock()
	n := 0
	for _, k := range s.got {
		if k.key[0] == 0 {
			n++
		}
	}
	return n
}

func waitFor(cond func() bool, d time.Duration) bool {
	deadline := time.Now().Add(d)
	for !cond() {
		if time.Now().After(deadline) {
			return false
		}
		time.Sleep(50 * time.Microsecond)
	}
	return true
}

func run(idx int, line []byte) vh.CaseResult {
	var steps []Step
	if err := json.Unmarshal(line, &steps); err != nil {
		vh.Fatalf("bad case %d: %v", idx, err)
	}
	end := steps[len(steps)-1]
	if end.Op != "end" {
		vh.Fatalf("case %d has no end record", idx)
	}
	control, ok := startSub([]pb.Match{{Prefix: nil}})
	if !ok {
		return fail("harness:subscribe", "control subscriber did not register")
	}
	subs := map[int]*sub{}
	pats := map[int][]Pat{}
	stopAll := func() {
		for _, s := range subs {
			s.stop()
		}
		control.stop()
	}
	realVer := map[uint64]uint64{} // model version -> commit timestamp
	type want struct {
		val     string
		meta    byte
		expires bool
	}
	wants := map[string]want{} // "<real ver>/<key>"
	nwrites, nsent := 0, 0
	info := map[string]int{}
	// settle: everything committed so far has been handed to every subscriber's channel
	settle := func() string {
		if !waitFor(func() bool { return len(control.user()) >= nwrites }, 10*time.Second) {
			return fmt.Sprintf("sm1:pub subscriber with the empty prefix received %d of %d writes", len(control.user()), nwrites)
		}
		nsent++
		if err := db.Update(func(txn *badger.Txn) error { return txn.Set([]byte(fmt.Sprintf("\x00sync%d", nsent)), nil) }); err != nil {
			return "harness:sentinel " + err.Error()
		}
		if !waitFor(func() bool { return control.sentinels() >= nsent }, 10*time.Second) {
			return "harness:sentinel not delivered to the control subscriber"
		}
		return ""
	}
	expectedCount := func(sid int, upto uint64) int {
		n := 0
		for _, d := range end.Expected[sid-1] {
			if d.Ver <= upto {
				n += len(d.Keys)
			}
		}
		return n
	}
	var lastVer uint64
	for j, st := range steps {
		switch st.Op {
		case "subscribe":
			var ms []pb.Match
			for i, p := range st.Pats {
				ms = append(ms, pb.Match{Prefix: bytesOf(p.Prefix), IgnoreBytes: ignoreString(append([]int{}, p.Ig...), (idx+i)%2 == 0)})
			}
			s, ok := startSub(ms)
			subs[st.S] = s
			pats[st.S] = st.Pats
			if !ok {
				stopAll()
				return fail("sm1:pub Subscribe did not register", map[string]interface{}{"step": j})
			}
		case "unsubscribe":
			if m := settle(); m != "" {
				stopAll()
				return fail(m, map[string]interface{}{"step": j})
			}
			s := subs[st.S]
			n := expectedCount(st.S, lastVer)
			waitFor(func() bool { return len(s.user()) >= n }, 300*time.Millisecond)
			if !s.stop() {
				stopAll()
				return fail("sm1:pub Subscribe did not return after its context was cancelled", map[string]interface{}{"step": j})
			}
			info["unsubscribes"]++
		case "commit":
			err := db.Update(func(txn *badger.Txn) error {
				for i, k := range st.Keys {
					kb := bytesOf(k)
					switch (int(st.Ver) + i + len(k)) % 4 {
					case 3:
						if err := txn.Delete(kb); err != nil {
							return err
						}
					case 2:
						e := badger.NewEntry(kb, []byte(fmt.Sprintf("c%d.%d", st.Ver, i))).WithMeta(byte(st.Ver)).WithTTL(time.Hour)
						if err := txn.SetEntry(e); err != nil {
							return err
						}
					default:
						e := badger.NewEntry(kb, []byte(fmt.Sprintf("c%d.%d", st.Ver, i))).WithMeta(byte(16 + i))
						if err := txn.SetEntry(e); err != nil {
							return err
						}
					}
				}
				return nil
			})
			if err != nil {
				stopAll()
				return fail("harness:commit", err.Error())
			}
			rv := db.MaxVersion()
			realVer[st.Ver] = rv
			lastVer = st.Ver
			for i, k := range st.Keys {
				w := want{}
				switch (int(st.Ver) + i + len(k)) % 4 {
				case 3:
				case 2:
					w = want{val: fmt.Sprintf("c%d.%d", st.Ver, i), meta: byte(st.Ver), expires: true}
				default:
					w = want{val: fmt.Sprintf("c%d.%d", st.Ver, i), meta: byte(16 + i)}
				}
				wants[fmt.Sprintf("%d/%s", rv, bytesOf(k))] = w
			}
			nwrites += len(st.Keys)
			info["writes"] += len(st.Keys)
		case "end":
		}
	}
	if m := settle(); m != "" {
		stopAll()
		return fail(m, nil)
	}
	// every subscriber has everything in its channel; wait for the callbacks
	for sid, s := range subs {
		n := expectedCount(sid, lastVer)
		waitFor(func() bool { return len(s.user()) >= n }, 300*time.Millisecond)
	}
	time.Sleep(2 * time.Millisecond)
	defer stopAll()
	var sids []int
	for sid := range subs {
		sids = append(sids, sid)
	}
	sort.Ints(sids)
	for _, sid := range sids {
		got := subs[sid].user()
		info["internal_keys_delivered"] += subs[sid].intern
		// expected flat list in order: commit by commit; inside a commit any order
		var groups []map[string]bool
		var vers []uint64
		for _, d := range end.Expected[sid-1] {
			g := map[string]bool{}
			for _, k := range d.Keys {
				g[string(bytesOf(k))] = true
			}
			groups = append(groups, g)
			vers = append(vers, realVer[d.Ver])
		}
		gi := 0
		seenInGroup := map[string]bool{}
		det := func(i int, msg string) map[string]interface{} {
			return map[string]interface{}{"subscriber": sid, "patterns": pats[sid], "delivery": i, "what": msg,
				"key": fmt.Sprintf("%q", got[i].key), "version": got[i].ver}
		}
		for i, k := range got {
			for gi < len(groups) && len(seenInGroup) == len(groups[gi]) {
				gi++
				seenInGroup = map[string]bool{}
			}
			expectedHere := gi < len(groups) && vers[gi] == k.ver && groups[gi][k.key]
			if !expectedHere {
				// classify
				matches := false
				viaSuffix := false
				for _, p := range pats[sid] {
					if matchWith(p, []byte(k.key)) {
						matches = true
					}
					if matchWith(p, append([]byte(k.key), bytes.Repeat([]byte{0xff}, 7)...)) {
						viaSuffix = true
					}
				}
				switch {
				case !matches && viaSuffix:
					return fail("sm1:pub delivered a user key that matches no pattern (the prefix runs into the version suffix of the internal key)", det(i, "spurious"))
				case !matches:
					return fail("sm1:pub delivered a user key that matches no pattern", det(i, "spurious"))
				case seenInGroup[k.key] && gi < len(groups) && vers[gi] == k.ver:
					return fail("sm1:pub write delivered twice", det(i, "duplicate"))
				default:
					return fail("sm1:pub delivery out of commit order or repeated", det(i, fmt.Sprintf("expected group %d of versions %v", gi, vers)))
				}
			}
			if seenInGroup[k.key] {
				return fail("sm1:pub write delivered twice", det(i, "duplicate"))
			}
			seenInGroup[k.key] = true
			w := wants[fmt.Sprintf("%d/%s", k.ver, k.key)]
			if k.val != w.val || k.meta != w.meta || (k.expires != 0) != w.expires {
				return fail("sm1:pub delivered KV differs from the committed write", det(i, fmt.Sprintf("got val=%q meta=%d exp=%d want %+v", k.val, k.meta, k.expires, w)))
			}
			info["deliveries"]++
		}
		for gi < len(groups) && len(seenInGroup) == len(groups[gi]) {
			gi++
			seenInGroup = map[string]bool{}
		}
		if gi < len(groups) {
			return fail("sm1:pub matching write not delivered", map[string]interface{}{"subscriber": sid, "patterns": pats[sid],
				"missingFromCommitVersion": vers[gi], "received": len(got)})
		}
	}
	info["internal_keys_delivered_to_control"] += control.intern
	return vh.CaseResult{OK: true, Info: info}
}

func main() {
	f := vh.RegisterCaseFlags()
	flag.Parse()
	var err error
	db, err = badger.Open(vh.SmallOptions("").WithInMemory(true))
	if err != nil {
		vh.Fatalf("open: %v", err)
	}
	vh.RunCases(f, run)
	db.Close()
}
