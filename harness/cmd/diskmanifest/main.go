// diskmanifest is the C17 harness: it feeds TLC-generated sequences of change sets
// (ManifestGen) to the real manifestFile.addChanges (opened through the production
// constructor with a lowered rewrite threshold), and reports after every call the error, the
// in-memory copy, the result of ReplayManifestFile on the file, and at the end the replay of
// the file truncated at EVERY byte. Comparison with the specification's predictions happens
// in checks/lib_disk.py.
//
//	diskmanifest -cases cases.ndjson [-shard s -nshards n]
package main

import (
	"encoding/binary"
	"encoding/json"
	"flag"
	"fmt"
	"os"
	"path/filepath"

	badger "github.com/dgraph-io/badger/v4"

	"verifharness/vh"
)

type Change struct {
	Op  string `json:"op"`
	ID  uint64 `json:"id"`
	Lvl int    `json:"lvl"`
}

type Step struct {
	Cs []Change `json:"cs"`
}

type Case struct {
	Threshold int    `json:"threshold"`
	Steps     []Step `json:"steps"`
}

type Man struct {
	Lvl []int `json:"lvl"` // per id 1..3: level or -1
	Cre int   `json:"cre"`
	Del int   `json:"del"`
}

const nIds = 3

func proj(s badger.VerifDiskManifestState) (Man, string) {
	m := Man{Lvl: make([]int, nIds), Cre: s.Creations, Del: s.Deletions}
	for i := range m.Lvl {
		m.Lvl[i] = -1
	}
	bad := ""
	for id, t := range s.Tables {
		if id < 1 || id > nIds {
			bad += fmt.Sprintf("foreign table %d;", id)
			continue
		}
		m.Lvl[id-1] = t.Level
		if l, ok := s.Levels[id]; !ok || l != t.Level {
			bad += fmt.Sprintf("table %d: Tables says level %d, Levels says %d (present %v);", id, t.Level, l, ok)
		}
		if t.KeyID != 7 || t.Comp != 1 {
			bad += fmt.Sprintf("table %d: keyID %d compression %d;", id, t.KeyID, t.Comp)
		}
	}
	for id := range s.Levels {
		if _, ok := s.Tables[id]; !ok {
			bad += fmt.Sprintf("table %d in Levels but not in Tables;", id)
		}
	}
	return m, bad
}

type StepObs struct {
	Err       string `json:"err"`
	Live      Man    `json:"live"`
	LiveBad   string `json:"liveBad"`
	Replay    Man    `json:"replay"`
	ReplayErr string `json:"replayErr"`
	ReplayBad string `json:"replayBad"`
	Size      int64  `json:"size"`
	Rewritten bool   `json:"rewritten"`
}

type TruncObs struct {
	X     int64  `json:"x"`
	Man   Man    `json:"man"`
	Err   string `json:"err"`
	Trunc int64  `json:"trunc"`
	Fill  string `json:"fill"`
	// the truncated file re-opened read-write, one more change set (delete table 1) added,
	// closed, replayed again
	After    Man    `json:"after"`
	AfterErr string `json:"afterErr"`
	AfterRun bool   `json:"afterRun"`
}

func runCase(c Case, tmp string, everyByte bool) (map[string]interface{}, error) {
	dir, err := os.MkdirTemp(tmp, "manifest-")
	if err != nil {
		return nil, err
	}
	defer os.RemoveAll(dir)
	mf, _, err := badger.VerifDiskOpenManifest(dir, c.Threshold)
	if err != nil {
		return nil, err
	}
	path := filepath.Join(dir, "MANIFEST")
	var steps []StepObs
	var prevSize int64 = 8
	if fi, err := os.Stat(path); err == nil {
		prevSize = fi.Size()
	}
	for _, st := range c.Steps {
		var cs []badger.VerifDiskChange
		for _, ch := range st.Cs {
			cs = append(cs, badger.VerifDiskChange{Create: ch.Op == "create", ID: ch.ID, Level: ch.Lvl, KeyID: 7, Comp: 1})
		}
		var o StepObs
		if err := mf.AddChanges(cs); err != nil {
			o.Err = err.Error()
		}
		o.Live, o.LiveBad = proj(mf.Live())
		rs, _, rerr := badger.VerifDiskReplayManifest(path)
		if rerr != nil {
			o.ReplayErr = rerr.Error()
		} else {
			o.Replay, o.ReplayBad = proj(rs)
		}
		fi, err := os.Stat(path)
		if err != nil {
			return nil, err
		}
		o.Size = fi.Size()
		b, _ := os.ReadFile(path)
		o.Rewritten = o.Err == "" && !(o.Size > prevSize && recordsFrom(b, prevSize) == 1)
		prevSize = o.Size
		steps = append(steps, o)
	}
	mf.Close()
	// close / re-open through the production constructor: the in-memory copy is rebuilt
	mf2, opened, err := badger.VerifDiskOpenManifest(dir, c.Threshold)
	var reopen Man
	reopenBad := ""
	if err != nil {
		reopenBad = "open: " + err.Error()
	} else {
		reopen, reopenBad = proj(opened)
		l2, b2 := proj(mf2.Live())
		if fmt.Sprint(l2) != fmt.Sprint(reopen) {
			reopenBad += fmt.Sprintf("manifestFile copy %v differs from returned copy %v;", l2, reopen)
		}
		reopenBad += b2
		mf2.Close()
	}
	// truncation at every byte (and zero-filled remainder)
	b, err := os.ReadFile(path)
	if err != nil {
		return nil, err
	}
	bounds := []int64{8}
	for off := int64(8); off+8 <= int64(len(b)); {
		n := int64(binary.BigEndian.Uint32(b[off : off+4]))
		if off+8+n > int64(len(b)) {
			break
		}
		off += 8 + n
		bounds = append(bounds, off)
	}
	var truncs []TruncObs
	tp := filepath.Join(dir, "MANIFEST-CUT")
	for x := int64(8); x <= int64(len(b)); x++ {
		if !everyByte && x != int64(len(b)) {
			isB := false
			for _, bb := range bounds {
				if x == bb || x == bb+3 || x == bb+9 {
					isB = true
				}
			}
			if !isB {
				continue
			}
		}
		for _, fill := range []string{"trunc", "zero"} {
			cut := append([]byte{}, b[:x]...)
			if fill == "zero" {
				if x == int64(len(b)) {
					continue
				}
				cut = append(cut, make([]byte, int64(len(b))-x)...)
			}
			if err := os.WriteFile(tp, cut, 0o644); err != nil {
				return nil, err
			}
			t := TruncObs{X: x, Fill: fill}
			rs, off, rerr := badger.VerifDiskReplayManifest(tp)
			if rerr != nil {
				t.Err = rerr.Error()
			} else {
				var bad string
				t.Man, bad = proj(rs)
				t.Trunc = off
				if bad != "" {
					t.Err = "inconsistent: " + bad
				}
			}
			if fill == "trunc" && rerr == nil {
				t.AfterRun = true
				ad, err := os.MkdirTemp(tmp, "manafter-")
				if err != nil {
					return nil, err
				}
				if err := os.WriteFile(filepath.Join(ad, "MANIFEST"), cut, 0o644); err != nil {
					return nil, err
				}
				m3, _, err := badger.VerifDiskOpenManifest(ad, 1000000)
				if err != nil {
					t.AfterErr = "open: " + err.Error()
				} else {
					if err := m3.AddChanges([]badger.VerifDiskChange{{Create: false, ID: 1}}); err != nil {
						t.AfterErr = "addChanges: " + err.Error()
					}
					m3.Close()
					rs2, _, rerr2 := badger.VerifDiskReplayManifest(filepath.Join(ad, "MANIFEST"))
					if rerr2 != nil {
						t.AfterErr += "replay: " + rerr2.Error()
					} else {
						var bad string
						t.After, bad = proj(rs2)
						if bad != "" {
							t.AfterErr += "inconsistent: " + bad
						}
					}
				}
				os.RemoveAll(ad)
			}
			truncs = append(truncs, t)
		}
	}
	return map[string]interface{}{"steps": steps, "reopen": reopen, "reopenBad": reopenBad, "bounds": bounds,
		"truncs": truncs, "size": len(b)}, nil
}

// recordsFrom counts whole records in b starting at off.
func recordsFrom(b []byte, off int64) int {
	n := 0
	for off+8 <= int64(len(b)) {
		l := int64(binary.BigEndian.Uint32(b[off : off+4]))
		if off+8+l > int64(len(b)) {
			break
		}
		off += 8 + l
		n++
	}
	return n
}

func main() {
	casesPath := flag.String("cases", "", "NDJSON of ManifestGen cases")
	shard := flag.Int("shard", 0, "shard")
	nshards := flag.Int("nshards", 1, "shards")
	every := flag.Int("everybyte", 1, "truncate at every byte for every n-th case (others: record boundaries only)")
	flag.Parse()
	out := json.NewEncoder(os.Stdout)
	i := -1
	err := vh.ReadNDJSON(*casesPath, func(line []byte) error {
		i++
		if i%*nshards != *shard {
			return nil
		}
		var c Case
		if err := json.Unmarshal(line, &c); err != nil {
			return err
		}
		res, err := runCase(c, os.TempDir(), *every > 0 && (i / *nshards)%*every == 0)
		if err != nil {
			return fmt.Errorf("case %d: %v", i, err)
		}
		res["case"] = i
		return out.Encode(res)
	})
	if err != nil {
		vh.Fatalf("diskmanifest: %v", err)
	}
}
