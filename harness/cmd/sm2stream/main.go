// sm2stream replays StreamGen schedules (TLC-generated) against the real Stream framework
// (stream.go) and Backup/Load (backup.go).
//
// A schedule is a sequence of steps commit / start / pstart / produce / finish (see
// specs/sm2/StreamGen.tla).  The harness forces it in the real code with
//   - the gate "stream.producer" (before a producer creates its transaction),
//   - the event "stream.txn" (thread id, read timestamp; identifies the producer goroutine),
//   - the event "orc.doneRead" on a producer goroutine (its transaction was discarded: it returned),
//   - the user callback ChooseKey, in which a producer is parked at the first key of every
//     range it takes (the callback is part of the public API and runs on the producer goroutine),
//   - the user Logger ("Number of ranges found", "Sent range i for iteration: [l, r)").
//
// The observed output of every run (and, in backup mode, the returned version and a dump of
// the database restored with DB.Load) is compared with the outputs the specification allows
// ("alts") and with what the model of the code as it is predicts ("asis").
//
// input : NDJSON, one case per line {steps, asis, alts, vers}
// output: NDJSON on stdout, one line per case
// exit  : 0 when all cases were executed (mismatches are in the output), 2 on harness trouble.
package main

import (
	"bytes"
	"context"
	"encoding/binary"
	"encoding/hex"
	"encoding/json"
	"flag"
	"fmt"
	"os"
	"path/filepath"
	"regexp"
	"runtime/debug"
	"runtime/pprof"
	"sort"
	"strconv"
	"strings"
	"sync"
	"sync/atomic"
	"time"

	badger "github.com/dgraph-io/badger/v4"
	"github.com/dgraph-io/badger/v4/pb"
	"github.com/dgraph-io/ristretto/v2/z"

	"verifharness/vh"
)

// ---------------------------------------------------------------- model-side types
type Item struct {
	K    int    `json:"k"`
	Ts   int    `json:"ts"`
	Kind string `json:"kind"`
}

type MRun struct {
	Since int    `json:"since"`
	T     int    `json:"T"`
	Items []Item `json:"items"`
	Ret   int    `json:"ret"`
	Pts   []int  `json:"pts"`
}

type Vis struct {
	K  int `json:"k"`
	Ts int `json:"ts"`
}

type Alt struct {
	Runs     []MRun `json:"runs"`
	Restored []Item `json:"restored"`
	Visible  []Vis  `json:"visible"`
}

type Step struct {
	Op      string `json:"op"`
	Ts      int    `json:"ts"`
	Keys    []int  `json:"keys"`
	Kind    string `json:"kind"`
	Since   int    `json:"since"`
	StartTs int    `json:"startTs"`
	P       int    `json:"p"`
	Takes   int    `json:"takes"`
	R       int    `json:"r"`
}

type Case struct {
	Steps []Step `json:"steps"`
	AsIs  Alt    `json:"asis"`
	Alts  []Alt  `json:"alts"`
	Vers  []Item `json:"vers"`
}

type Result struct {
	Case     int         `json:"case"`
	Ok       bool        `json:"ok"`
	Sig      string      `json:"sig,omitempty"`
	Detail   interface{} `json:"detail,omitempty"`
	Alt      int         `json:"alt"`      // index of the allowed alternative that matched (0 = snapshot at entry), -1 none
	Mixed    bool        `json:"mixed"`    // producers of some run had different read timestamps
	Diverged string      `json:"diverged"` // schedule could not be forced as generated (no verdict)
	ReadTs   [][]uint64  `json:"readTs"`
	NRanges  int         `json:"nranges"`
	Sends    int         `json:"sends"`
	// most KVLoader batches a single DB.Load of this case needed
	LoadBatches int `json:"loadBatches"`
}

// ---------------------------------------------------------------- layouts
type layout struct {
	tables  [][]string
	mem     []string
	compact bool
}

const ff8 = "\xff\xff\xff\xff\xff\xff\xff\xff"

var layouts = map[string]layout{
	"l0x3": {tables: [][]string{{"k00", "k01", "k02"}, {"k03", "k03\x00", "k04", "k05"}, {"k06", "k06" + ff8, "k07"}},
		mem: []string{"a", "k08"}},
	"lmax": {tables: [][]string{{"k00", "k01", "k02"}, {"k03", "k03\x00", "k04", "k05"}, {"k06", "k06" + ff8, "k07"}},
		mem: []string{"a", "k08"}, compact: true},
	"l0x2": {tables: [][]string{{"k00", "k01", "k02", "k03"}, {"k04", "k04\x00", "k05"}}, mem: []string{"a", "k06"}},
	"mem":  {mem: []string{"a", "k00", "k01", "k02", "k03"}},
}

// ---------------------------------------------------------------- logger
type capLogger struct {
	mu     sync.Mutex
	lines  []string
	nfound int32
}

func (l *capLogger) Errorf(f string, a ...interface{})   {}
func (l *capLogger) Warningf(f string, a ...interface{}) {}
func (l *capLogger) Debugf(f string, a ...interface{})   {}
func (l *capLogger) Infof(f string, a ...interface{}) {
	s := fmt.Sprintf(f, a...)
	if strings.Contains(s, "Sent range") {
		l.mu.Lock()
		l.lines = append(l.lines, s)
		l.mu.Unlock()
	} else if strings.Contains(s, "Number of ranges found") {
		atomic.AddInt32(&l.nfound, 1)
	}
}
func (l *capLogger) take() []string {
	l.mu.Lock()
	defer l.mu.Unlock()
	out := l.lines
	l.lines = nil
	return out
}

var sentRe = regexp.MustCompile(`Sent range (\d+) for iteration: \[([0-9a-f]*), ([0-9a-f]*)\)`)

type krange struct {
	left, right []byte
	keys        []string // pool keys (inside the prefix) in this range, sorted
	model       int      // 1-based model range index, 0 if the range holds no pool key
}

func parseRanges(lines []string) ([]krange, error) {
	var out []krange
	for i, s := range lines {
		m := sentRe.FindStringSubmatch(s)
		if m == nil {
			return nil, fmt.Errorf("cannot parse %q", s)
		}
		if n, _ := strconv.Atoi(m[1]); n != i {
			return nil, fmt.Errorf("range lines out of order: %q at %d", s, i)
		}
		l, _ := hex.DecodeString(m[2])
		r, _ := hex.DecodeString(m[3])
		out = append(out, krange{left: l, right: r})
	}
	return out, nil
}

func (r *krange) contains(key []byte) bool {
	if len(r.left) > 0 && bytes.Compare(key, r.left) < 0 {
		return false
	}
	if len(r.right) > 0 && bytes.Compare(key, r.right) >= 0 {
		return false
	}
	return true
}

// ---------------------------------------------------------------- concretisation
const expFar = 4102444800 // 2100-01-01

// MemTableSize of the database the backups are loaded into
var restoreMemTable int64 = 2048

func valOf(k, ts int) []byte {
	s := fmt.Sprintf("v.%d.%d.", k, ts)
	if (k+2*ts)%3 == 0 {
		s += strings.Repeat("x", 120-len(s)) // above ValueThreshold: lives in the value log
	}
	return []byte(s)
}
func umOf(k, ts int) byte { return byte(16 + (k*5+ts)%200) }
func expOf(k, ts int) uint64 {
	if (k+ts)%4 == 0 {
		return expFar
	}
	return 0
}

// ---------------------------------------------------------------- world
type commitRec struct {
	key string
	ver uint64
}

type world struct {
	name    string
	numGo   int
	prefix  string
	mode    string
	nvk     int
	dir     string
	db      *badger.DB
	lg      *capLogger
	rec     *vh.Recorder
	pool    []string
	ranges  []krange
	mkey    []string // model key (1-based) -> key
	kidx    map[string]int
	rangeOf []int
	initTs  []int
	firstTs int
	commits []commitRec
	chosen  map[int]bool
	// output of the quiescent dry run
	dry          bool           // the next launch is the dry run
	keyRange     map[string]int // key -> index of the range whose iteration emitted it in the dry run
	dryItems     []realItem
	dryConc      bool
	partitionErr string
}

func fatalf(f string, a ...interface{}) { vh.Fatalf(f, a...) }

func (w *world) open() {
	o := vh.SmallOptions(w.dir)
	w.lg = &capLogger{}
	o.Logger = w.lg
	o.ValueThreshold = 64
	o.NumVersionsToKeep = 100
	if w.nvk == 1 {
		o.NumVersionsToKeep = 1
	}
	db, err := badger.Open(o)
	if err != nil {
		fatalf("open: %v", err)
	}
	w.db = db
}

func (w *world) rawCommit(keys []string, kind string, val func(key string, ver int) ([]byte, byte, uint64)) uint64 {
	ver := int(w.db.VerifOracleState().NextTxnTs)
	txn := w.db.NewTransaction(true)
	for _, k := range keys {
		var err error
		switch kind {
		case "del":
			err = txn.Delete([]byte(k))
		default:
			v, um, exp := val(k, ver)
			e := badger.NewEntry([]byte(k), v).WithMeta(um)
			e.ExpiresAt = exp
			if kind == "disc" {
				e = e.WithDiscard()
			}
			err = txn.SetEntry(e)
		}
		if err != nil {
			fatalf("set: %v", err)
		}
	}
	if err := txn.Commit(); err != nil {
		fatalf("commit: %v", err)
	}
	got := w.db.VerifOracleState().NextTxnTs - 1
	if int(got) != ver {
		fatalf("commit version %d, expected %d", got, ver)
	}
	for _, k := range keys {
		w.commits = append(w.commits, commitRec{k, got})
	}
	return got
}

// initial values are concretised by (position in the sorted pool, version); model key numbers
// are only known after the dry run, so the payload of initial versions uses the pool position
func (w *world) poolPos(key string) int { return sort.SearchStrings(w.pool, key) }

func (w *world) initVal(key string, ver int) ([]byte, byte, uint64) {
	p := 100 + w.poolPos(key)
	return valOf(p, ver), umOf(p, ver), expOf(p, ver)
}

// template: the tables of the layout, built once per process in its own directory and closed;
// every case works on a copy of it (identical files, hence identical ranges).
type template struct {
	dir     string
	pool    []string
	initVer map[string]int
	commits []commitRec
	// learnt in the first case's dry run
	learnt *world
}

func (w *world) buildTemplate(l layout, t *template) {
	for _, tb := range l.tables {
		w.pool = append(w.pool, tb...)
	}
	w.pool = append(w.pool, l.mem...)
	sort.Strings(w.pool)
	t.pool = w.pool
	t.initVer = map[string]int{}
	for _, tb := range l.tables {
		v := w.rawCommit(tb, "set", w.initVal)
		for _, k := range tb {
			t.initVer[k] = int(v)
		}
		if err := w.db.VerifFlush(); err != nil {
			fatalf("flush: %v", err)
		}
	}
	if l.compact {
		for i := 0; i < 4; i++ {
			err := w.db.VerifDoCompact(0, 0, 10, 10)
			if err == badger.ErrVerifNoFill {
				break
			}
			if err != nil {
				fatalf("compact: %v", err)
			}
		}
	}
	t.commits = w.commits
	if err := w.db.Close(); err != nil {
		fatalf("close template: %v", err)
	}
}

func copyDir(src, dst string) {
	ents, err := os.ReadDir(src)
	if err != nil {
		fatalf("%v", err)
	}
	if err := os.MkdirAll(dst, 0o755); err != nil {
		fatalf("%v", err)
	}
	for _, e := range ents {
		if e.IsDir() || e.Name() == "LOCK" {
			continue
		}
		b, err := os.ReadFile(filepath.Join(src, e.Name()))
		if err != nil {
			fatalf("%v", err)
		}
		if err := os.WriteFile(filepath.Join(dst, e.Name()), b, 0o644); err != nil {
			fatalf("%v", err)
		}
	}
}

// build completes a copy of the template: the memtable-resident initial data is committed,
// ranges and model key numbering are learnt in a quiescent dry run (first case of the process)
// or taken over from it.
func (w *world) build(l layout, t *template) {
	w.pool = t.pool
	w.commits = append([]commitRec(nil), t.commits...)
	initVer := map[string]int{}
	for k, v := range t.initVer {
		initVer[k] = v
	}
	v := w.rawCommit(l.mem, "set", w.initVal)
	for _, k := range l.mem {
		initVer[k] = int(v)
	}
	w.firstTs = int(v) + 1
	if lw := t.learnt; lw != nil {
		w.ranges, w.kidx, w.mkey, w.rangeOf, w.initTs, w.keyRange = lw.ranges, lw.kidx, lw.mkey, lw.rangeOf, lw.initTs, lw.keyRange
		w.dryItems, w.dryConc = lw.dryItems, lw.dryConc
		if w.firstTs != lw.firstTs {
			fatalf("copy of the template starts at version %d, first case at %d", w.firstTs, lw.firstTs)
		}
		return
	}
	// dry run on the quiescent database: learn ranges and hand-out order, check the output
	items, conc, err := w.dryRun()
	if err != nil {
		fatalf("dry run: %v", err)
	}
	rs, err := parseRanges(w.lg.take())
	if err != nil {
		fatalf("dry run: %v", err)
	}
	w.ranges = rs
	w.kidx = map[string]int{}
	w.mkey = []string{""}
	w.rangeOf = nil
	w.initTs = nil
	nm := 0
	placed := map[string]bool{}
	w.keyRange = map[string]int{}
	for _, it := range items {
		ri := int(it.streamID) - 1
		if ri < 0 || ri >= len(w.ranges) {
			w.partitionErr = fmt.Sprintf("quiescent run: key %q carries stream id %d, %d ranges were handed out", it.key, it.streamID, len(w.ranges))
			continue
		}
		if old, dup := w.keyRange[it.key]; dup && old != ri {
			w.partitionErr = fmt.Sprintf("quiescent run: key %q emitted by the iterations of ranges %d and %d", it.key, old, ri)
			continue
		}
		w.keyRange[it.key] = ri
	}
	for i := range w.ranges {
		r := &w.ranges[i]
		for _, k := range w.pool {
			if ri, ok := w.keyRange[k]; ok && ri == i && strings.HasPrefix(k, w.prefix) {
				if _, dup := placed[k]; dup {
					continue
				}
				placed[k] = true
				r.keys = append(r.keys, k)
			}
		}
		if len(r.keys) > 0 {
			nm++
			r.model = nm
			for _, k := range r.keys {
				w.mkey = append(w.mkey, k)
				w.kidx[k] = len(w.mkey) - 1
				w.rangeOf = append(w.rangeOf, nm)
				w.initTs = append(w.initTs, initVer[k])
			}
		}
	}
	n := 0
	for _, k := range w.pool {
		if strings.HasPrefix(k, w.prefix) {
			n++
		}
	}
	if len(w.mkey)-1 != n {
		w.partitionErr = fmt.Sprintf("the ranges handed out do not partition the key space: %d of %d keys fall into exactly one range", len(w.mkey)-1, n)
	}
	w.dryItems, w.dryConc = items, conc
	t.learnt = w
}

// ---------------------------------------------------------------- running one stream / backup
type prod struct {
	thread   int
	g        int64
	readTs   uint64
	started  bool
	exited   bool
	park     chan struct{}
	parkedAt int // real range index, valid while park != nil
	cur      int // real range index of the range being iterated, -1 none
}

type runCtl struct {
	mu      sync.Mutex
	w       *world
	prods   []*prod
	byG     map[int64]*prod
	notify  chan struct{}
	drain   bool
	queue   []int
	since   uint64
	nSend   int32
	conc    int32
	sends   int32
	kvs     []*pb.KV
	gate    *vh.Gate
	doneCh  chan error
	retVer  uint64
	backup  bytes.Buffer
	control bool
	dry     bool
}

func (rc *runCtl) signal() {
	select {
	case rc.notify <- struct{}{}:
	default:
	}
}

func (rc *runCtl) onEvent(ev vh.Event) {
	switch ev.Point {
	case "stream.txn":
		th := ev.Args[0].(int)
		rc.mu.Lock()
		if th < len(rc.prods) {
			p := rc.prods[th]
			p.g, p.readTs, p.started = ev.G, ev.Args[1].(uint64), true
			rc.byG[ev.G] = p
		}
		rc.mu.Unlock()
		rc.signal()
	case "orc.doneRead":
		rc.mu.Lock()
		if p := rc.byG[ev.G]; p != nil {
			p.exited = true
			delete(rc.byG, ev.G)
		}
		rc.mu.Unlock()
		rc.signal()
	}
}

func (rc *runCtl) chooseKey(item *badger.Item) bool {
	key := item.KeyCopy(nil)
	w := rc.w
	if rc.control {
		g := vh.GoID()
		ri, ok := w.keyRange[string(key)]
		if !ok {
			ri = -1
		}
		rc.mu.Lock()
		p := rc.byG[g]
		if p != nil && p.cur != ri && !rc.drain {
			p.cur = ri
			ch := make(chan struct{})
			p.park, p.parkedAt = ch, ri
			rc.mu.Unlock()
			rc.signal()
			<-ch
		} else {
			if p != nil {
				p.cur = ri
			}
			rc.mu.Unlock()
		}
	}
	if w.chosen == nil || rc.dry {
		return true
	}
	k, ok := w.kidx[string(key)]
	return !ok || w.chosen[k]
}

func (rc *runCtl) enterSend() {
	if atomic.AddInt32(&rc.nSend, 1) > 1 {
		atomic.StoreInt32(&rc.conc, 1)
	}
	atomic.AddInt32(&rc.sends, 1)
	time.Sleep(200 * time.Microsecond)
}
func (rc *runCtl) leaveSend() { atomic.AddInt32(&rc.nSend, -1) }

// Write implements io.Writer for Stream.Backup (called from its Send)
func (rc *runCtl) Write(b []byte) (int, error) {
	rc.enterSend()
	defer rc.leaveSend()
	return rc.backup.Write(b)
}

func (rc *runCtl) waitFor(what string, cond func() bool) error {
	deadline := time.Now().Add(20 * time.Second)
	for {
		rc.mu.Lock()
		ok := cond()
		rc.mu.Unlock()
		if ok {
			return nil
		}
		if time.Now().After(deadline) {
			return fmt.Errorf("timeout waiting for %s", what)
		}
		select {
		case <-rc.notify:
		case <-time.After(time.Millisecond):
		}
	}
}

// launch starts Orchestrate / Backup with all producers parked at the gate.
func (w *world) launch(since uint64, control bool) (*runCtl, error) {
	rc := &runCtl{w: w, byG: map[int64]*prod{}, notify: make(chan struct{}, 1), since: since,
		doneCh: make(chan error, 1), control: control, dry: w.dry, drain: w.dry}
	for i := 0; i < w.numGo; i++ {
		rc.prods = append(rc.prods, &prod{thread: i, cur: -1})
	}
	for i := range w.ranges {
		rc.queue = append(rc.queue, i)
	}
	w.rec.OnEvent = rc.onEvent
	if control {
		rc.gate = w.rec.Arm("stream.producer", nil)
	}
	found := atomic.LoadInt32(&w.lg.nfound)
	st := w.db.NewStream()
	st.NumGo = w.numGo
	st.Prefix = []byte(w.prefix)
	st.SinceTs = since
	st.LogPrefix = "sm2"
	st.ChooseKey = rc.chooseKey
	if w.mode == "backup" {
		go func() {
			v, err := st.Backup(rc, since)
			rc.retVer = v
			rc.doneCh <- err
		}()
	} else {
		st.Send = func(buf *z.Buffer) error {
			rc.enterSend()
			defer rc.leaveSend()
			list, err := badger.BufferToKVList(buf)
			if err != nil {
				return err
			}
			rc.kvs = append(rc.kvs, list.Kv...)
			return nil
		}
		go func() { rc.doneCh <- st.Orchestrate(context.Background()) }()
	}
	if control {
		if !rc.gate.WaitParked(w.numGo, 20*time.Second) {
			return rc, fmt.Errorf("producers did not reach gate stream.producer")
		}
		if err := rc.waitFor("db.Ranges", func() bool { return atomic.LoadInt32(&w.lg.nfound) > found }); err != nil {
			return rc, err
		}
	}
	return rc, nil
}

// visible: does an iterator reading at readTs with SinceTs since see any key in real range ri?
func (w *world) visible(ri int, readTs, since uint64) bool {
	for _, c := range w.commits {
		if c.ver <= readTs && c.ver > since && strings.HasPrefix(c.key, w.prefix) {
			if r, ok := w.keyRange[c.key]; ok && r == ri {
				return true
			}
		}
	}
	return false
}

// settle waits until producer p is parked at the next range it can see, or has returned.
func (rc *runCtl) settle(p *prod) error {
	next := -1
	for len(rc.queue) > 0 {
		r := rc.queue[0]
		rc.queue = rc.queue[1:]
		if rc.w.visible(r, p.readTs, rc.since) {
			next = r
			break
		}
	}
	if next < 0 {
		return rc.waitFor(fmt.Sprintf("producer %d to return", p.thread), func() bool { return p.exited })
	}
	if err := rc.waitFor(fmt.Sprintf("producer %d to take range %d", p.thread, next), func() bool { return p.park != nil || p.exited }); err != nil {
		return err
	}
	if p.exited || p.parkedAt != next {
		return fmt.Errorf("producer %d expected at range %d, is at %d (exited=%v)", p.thread, next, p.parkedAt, p.exited)
	}
	return nil
}

func (rc *runCtl) pstart(thread int) error {
	if thread >= len(rc.prods) {
		return fmt.Errorf("no producer %d", thread)
	}
	p := rc.prods[thread]
	if !rc.gate.Release(func(a []interface{}) bool { return a[0].(int) == thread }) {
		return fmt.Errorf("producer %d not parked at gate", thread)
	}
	if err := rc.waitFor(fmt.Sprintf("stream.txn of producer %d", thread), func() bool { return p.started }); err != nil {
		return err
	}
	return rc.settle(p)
}

func (rc *runCtl) produce(thread int) error {
	p := rc.prods[thread]
	rc.mu.Lock()
	ch := p.park
	p.park = nil
	rc.mu.Unlock()
	if ch == nil {
		return nil // nothing to release (the real producer passed through or returned already)
	}
	close(ch)
	return rc.settle(p)
}

// finish releases everything and waits for Orchestrate to return.
func (rc *runCtl) finish() error {
	rc.mu.Lock()
	rc.drain = true
	rc.mu.Unlock()
	if rc.gate != nil {
		rc.gate.Disarm()
	}
	deadline := time.After(30 * time.Second)
	for {
		rc.mu.Lock()
		for _, p := range rc.prods {
			if p.park != nil {
				close(p.park)
				p.park = nil
			}
		}
		rc.mu.Unlock()
		select {
		case err := <-rc.doneCh:
			rc.w.rec.OnEvent = nil
			return err
		case <-deadline:
			fatalf("Orchestrate did not return within 30s")
		case <-time.After(time.Millisecond):
		}
	}
}

// realItem is one emitted KV in harness terms
type realItem struct {
	key      string
	ver      uint64
	kind     string
	value    []byte
	um       byte
	exp      uint64
	streamID uint32
}

func (rc *runCtl) output() ([]realItem, error) {
	var out []realItem
	conv := func(kv *pb.KV) {
		if kv.StreamDone {
			return
		}
		it := realItem{key: string(kv.Key), ver: kv.Version, kind: "set", value: kv.Value, exp: kv.ExpiresAt, streamID: kv.StreamId}
		if len(kv.UserMeta) > 0 {
			it.um = kv.UserMeta[0]
		}
		if len(kv.Meta) > 0 {
			if kv.Meta[0]&badger.VerifBitDelete != 0 {
				it.kind = "del"
			} else if kv.Meta[0]&badger.VerifBitDiscard != 0 {
				it.kind = "disc"
			}
		}
		out = append(out, it)
	}
	if rc.w.mode != "backup" {
		for _, kv := range rc.kvs {
			conv(kv)
		}
		return out, nil
	}
	kvs, err := decodeBackup(rc.backup.Bytes())
	if err != nil {
		return nil, err
	}
	for _, kv := range kvs {
		conv(kv)
	}
	return out, nil
}

// dryRun runs one uncontrolled stream over everything and returns its output.
// Only producer 0 is released until it returned, so it iterates every range in hand-out order and
// the stream id of an emitted KV (one id per range iteration) tells which range its key belongs to.
func (w *world) dryRun() ([]realItem, bool, error) {
	w.dry = true
	rc, err := w.launch(0, true)
	w.dry = false
	if err != nil {
		return nil, false, err
	}
	rc.mu.Lock()
	rc.drain = true // no parking in ChooseKey
	rc.mu.Unlock()
	p := rc.prods[0]
	if !rc.gate.Release(func(a []interface{}) bool { return a[0].(int) == 0 }) {
		return nil, false, fmt.Errorf("producer 0 not parked at gate")
	}
	if err := rc.waitFor("producer 0 to return", func() bool { return p.exited }); err != nil {
		return nil, false, err
	}
	if err := rc.finish(); err != nil {
		return nil, false, err
	}
	items, err := rc.output()
	return items, rc.conc != 0, err
}

// ---------------------------------------------------------------- backup wire format
// [uint64 little endian size][pb.KVList]; KVList = repeated KV kv = 1.
func decodeBackup(b []byte) ([]*pb.KV, error) {
	var out []*pb.KV
	for len(b) > 0 {
		if len(b) < 8 {
			return nil, fmt.Errorf("backup: short header")
		}
		sz := binary.LittleEndian.Uint64(b[:8])
		b = b[8:]
		if uint64(len(b)) < sz {
			return nil, fmt.Errorf("backup: short list")
		}
		list := b[:sz]
		b = b[sz:]
		for len(list) > 0 {
			tag, n := binary.Uvarint(list)
			if n <= 0 {
				return nil, fmt.Errorf("backup: bad tag")
			}
			list = list[n:]
			if tag != (1<<3 | 2) {
				return nil, fmt.Errorf("backup: unexpected field %d in KVList", tag)
			}
			l, n := binary.Uvarint(list)
			if n <= 0 || uint64(len(list)-n) < l {
				return nil, fmt.Errorf("backup: bad length")
			}
			kvb := list[n : n+int(l)]
			list = list[n+int(l):]
			kv := &pb.KV{}
			for len(kvb) > 0 {
				tag, n := binary.Uvarint(kvb)
				if n <= 0 {
					return nil, fmt.Errorf("backup: bad kv tag")
				}
				kvb = kvb[n:]
				field, wt := tag>>3, tag&7
				switch wt {
				case 0:
					v, n := binary.Uvarint(kvb)
					if n <= 0 {
						return nil, fmt.Errorf("backup: bad varint")
					}
					kvb = kvb[n:]
					switch field {
					case 4:
						kv.Version = v
					case 5:
						kv.ExpiresAt = v
					case 10:
						kv.StreamId = uint32(v)
					case 11:
						kv.StreamDone = v != 0
					}
				case 2:
					l, n := binary.Uvarint(kvb)
					if n <= 0 || uint64(len(kvb)-n) < l {
						return nil, fmt.Errorf("backup: bad bytes")
					}
					v := append([]byte(nil), kvb[n:n+int(l)]...)
					kvb = kvb[n+int(l):]
					switch field {
					case 1:
						kv.Key = v
					case 2:
						kv.Value = v
					case 3:
						kv.UserMeta = v
					case 6:
						kv.Meta = v
					}
				default:
					return nil, fmt.Errorf("backup: wire type %d", wt)
				}
			}
			out = append(out, kv)
		}
	}
	return out, nil
}

// ---------------------------------------------------------------- comparison
type mset map[Item]bool

func toSet(items []Item, tolist bool) mset {
	s := mset{}
	for _, it := range items {
		if tolist {
			it.Kind = "set" // Stream.ToList carries no meta: only (key, version) is observable
		}
		s[it] = true
	}
	return s
}

func sameSet(a, b mset) bool {
	if len(a) != len(b) {
		return false
	}
	for k := range a {
		if !b[k] {
			return false
		}
	}
	return true
}

func sortedItems(s mset) []Item {
	out := make([]Item, 0, len(s))
	for it := range s {
		out = append(out, it)
	}
	sort.Slice(out, func(i, j int) bool {
		if out[i].K != out[j].K {
			return out[i].K < out[j].K
		}
		return out[i].Ts > out[j].Ts
	})
	return out
}

type realRun struct {
	since  uint64
	items  mset
	ret    int
	readTs []uint64
}

type observed struct {
	runs     []realRun
	restored mset
	visible  map[int]int
}

func (w *world) matches(o *observed, a *Alt) bool {
	tolist := w.mode != "backup"
	if len(a.Runs) != len(o.runs) {
		return false
	}
	for i, r := range a.Runs {
		if !sameSet(toSet(r.Items, tolist), o.runs[i].items) {
			return false
		}
		if !tolist && (r.Ret != o.runs[i].ret || uint64(r.Since) != o.runs[i].since) {
			return false
		}
	}
	if tolist {
		return true
	}
	if !sameSet(toSet(a.Restored, false), o.restored) {
		return false
	}
	for _, v := range a.Visible {
		if o.visible[v.K] != v.Ts {
			return false
		}
	}
	return true
}

// payload check of an emitted / restored entry against the concretisation
func (w *world) checkPayload(it realItem, initOf map[string]int) string {
	k, ok := w.kidx[it.key]
	if !ok {
		return fmt.Sprintf("unknown key %q", it.key)
	}
	if it.kind == "del" {
		if len(it.value) != 0 {
			return fmt.Sprintf("delete marker of key %d@%d carries a value", k, it.ver)
		}
		return ""
	}
	var v []byte
	var um byte
	var exp uint64
	if int(it.ver) == initOf[it.key] {
		v, um, exp = w.initVal(it.key, int(it.ver))
	} else {
		v, um, exp = valOf(k, int(it.ver)), umOf(k, int(it.ver)), expOf(k, int(it.ver))
	}
	if !bytes.Equal(v, it.value) || um != it.um || exp != it.exp {
		return fmt.Sprintf("key %d@%d: value/userMeta/expiresAt = %q/%d/%d, written %q/%d/%d", k, it.ver, it.value, it.um, it.exp, v, um, exp)
	}
	return ""
}

// ---------------------------------------------------------------- one case
func (w *world) initOf() map[string]int {
	m := map[string]int{}
	for i := 1; i < len(w.mkey); i++ {
		m[w.mkey[i]] = w.initTs[i-1]
	}
	return m
}

func (w *world) convert(items []realItem, res *Result, what string) mset {
	s := mset{}
	initOf := w.initOf()
	seen := map[string]uint32{}
	for _, it := range items {
		k, ok := w.kidx[it.key]
		if !ok {
			res.fail("sm2:"+w.name+" unknown-key", fmt.Sprintf("%s: key %q was never written", what, it.key))
			continue
		}
		if msg := w.checkPayload(it, initOf); msg != "" {
			res.fail("sm2:"+w.name+" payload-mismatch", what+": "+msg)
		}
		kind := it.kind
		mi := Item{K: k, Ts: int(it.ver), Kind: kind}
		if w.mode != "backup" {
			mi.Kind = "set"
		}
		if s[mi] {
			res.fail("sm2:"+w.name+" key-emitted-twice", fmt.Sprintf("%s: key %d version %d emitted twice", what, k, it.ver))
		}
		if sid, ok := seen[it.key]; ok && sid != it.streamID && it.streamID != 0 {
			res.fail("sm2:"+w.name+" key-emitted-twice", fmt.Sprintf("%s: key %d emitted by two range iterations (stream ids %d, %d)", what, k, sid, it.streamID))
		}
		seen[it.key] = it.streamID
		s[mi] = true
	}
	return s
}

func (r *Result) fail(sig string, detail interface{}) {
	if r.Ok {
		r.Ok = false
		r.Sig = sig
		r.Detail = detail
	}
}

func (w *world) runCase(c *Case, res *Result) {
	res.Ok = true
	res.Alt = -1
	res.NRanges = len(w.ranges)
	tolist := w.mode != "backup"
	// the quiescent dry run must have produced exactly the initial snapshot, every key once
	{
		dry := w.convert(w.dryItems, res, "quiescent run")
		want := mset{}
		for i := 1; i < len(w.mkey); i++ {
			want[Item{K: i, Ts: w.initTs[i-1], Kind: "set"}] = true
		}
		if !sameSet(dry, want) {
			res.fail("sm2:"+w.name+" quiescent-output-mismatch", map[string]interface{}{"got": sortedItems(dry), "want": sortedItems(want)})
		}
		if w.dryConc {
			res.fail("sm2:"+w.name+" send-concurrent", "Send was entered while another Send call was in progress (quiescent run)")
		}
	}
	obs := &observed{}
	var rc *runCtl
	var lastRet uint64
	var backups [][]byte
	chained := !tolist
	diverge := func(err error) {
		if res.Diverged == "" {
			res.Diverged = err.Error()
		}
	}
	for si, s := range c.Steps {
		switch s.Op {
		case "commit":
			var keys []string
			for _, k := range s.Keys {
				keys = append(keys, w.mkey[k])
			}
			got := w.rawCommit(keys, s.Kind, func(key string, ver int) ([]byte, byte, uint64) {
				k := w.kidx[key]
				return valOf(k, ver), umOf(k, ver), expOf(k, ver)
			})
			if int(got) != s.Ts {
				fatalf("step %d: commit got version %d, model %d", si, got, s.Ts)
			}
		case "start":
			since := uint64(s.Since)
			if chained {
				since = lastRet
			}
			if int(w.db.VerifOracleState().NextTxnTs)-1 != s.StartTs {
				fatalf("step %d: start at %d, model %d", si, w.db.VerifOracleState().NextTxnTs-1, s.StartTs)
			}
			var err error
			rc, err = w.launch(since, true)
			if err != nil {
				fatalf("step %d: %v", si, err)
			}
		case "pstart":
			if res.Diverged != "" {
				continue
			}
			if err := rc.pstart(s.P - 1); err != nil {
				diverge(fmt.Errorf("step %d pstart: %v", si, err))
			}
		case "produce":
			if res.Diverged != "" {
				continue
			}
			if err := rc.produce(s.P - 1); err != nil {
				diverge(fmt.Errorf("step %d produce: %v", si, err))
			}
		case "finish":
			if err := rc.finish(); err != nil {
				res.fail("sm2:"+w.name+" run-error", err.Error())
				return
			}
			items, err := rc.output()
			if err != nil {
				res.fail("sm2:"+w.name+" undecodable-output", err.Error())
				return
			}
			rr := realRun{since: rc.since, ret: int(rc.retVer)}
			rr.items = w.convert(items, res, fmt.Sprintf("run %d", len(obs.runs)+1))
			for _, p := range rc.prods {
				rr.readTs = append(rr.readTs, p.readTs)
				if p.readTs != rc.prods[0].readTs {
					res.Mixed = true
				}
			}
			res.ReadTs = append(res.ReadTs, rr.readTs)
			res.Sends += int(rc.sends)
			if rc.conc != 0 {
				res.fail("sm2:"+w.name+" send-concurrent", "Send was entered while another Send call was in progress")
			}
			// the ranges handed out must partition the keys as learnt in the dry run (the bytes of
			// a split taken from the memtable change when its first key gets a new version)
			rs, err := parseRanges(w.lg.take())
			if err != nil || len(rs) != len(w.ranges) {
				diverge(fmt.Errorf("ranges of the run differ from the dry run"))
			} else {
				for i := range rs {
					for _, k := range w.pool {
						if strings.HasPrefix(k, w.prefix) && rs[i].contains([]byte(k)) != w.ranges[i].contains([]byte(k)) {
							diverge(fmt.Errorf("ranges of the run differ from the dry run (key %q, range %d)", k, i))
						}
					}
				}
			}
			obs.runs = append(obs.runs, rr)
			lastRet = rc.retVer
			if !tolist {
				backups = append(backups, append([]byte(nil), rc.backup.Bytes()...))
			}
			rc = nil
		default:
			fatalf("unknown step %q", s.Op)
		}
	}
	if rc != nil {
		_ = rc.finish()
	}
	if res.Diverged != "" || !res.Ok {
		return
	}
	if !tolist {
		obs.restored, obs.visible = w.restore(backups, res)
		if !res.Ok {
			return
		}
	}
	for i := range c.Alts {
		if w.matches(obs, &c.Alts[i]) {
			res.Alt = i
			return
		}
	}
	detail := map[string]interface{}{"readTs": res.ReadTs}
	var runs []interface{}
	for i, r := range obs.runs {
		m := map[string]interface{}{"since": r.since, "got": sortedItems(r.items), "ret": r.ret}
		if i < len(c.Alts[0].Runs) {
			m["want_at_entry"] = c.Alts[0].Runs[i]
		}
		runs = append(runs, m)
	}
	detail["runs"] = runs
	if !tolist {
		detail["restored"] = sortedItems(obs.restored)
		detail["want_restored_at_entry"] = c.Alts[0].Restored
	}
	if w.matches(obs, &c.AsIs) {
		res.fail("sm2:"+w.name+" mixed-snapshot output=per-producer-readTs-model", detail)
		return
	}
	res.fail("sm2:"+w.name+" output-mismatch unexplained", detail)
}

// restore loads the backups in order into a fresh database and dumps it.
func (w *world) restore(backups [][]byte, res *Result) (mset, map[int]int) {
	dir := filepath.Join(w.dir, "restore")
	o := vh.SmallOptions(dir)
	o.ValueThreshold = 64
	o.NumVersionsToKeep = 100
	// a tiny memtable makes maxBatchCount / maxBatchSize tiny (0.15 * MemTableSize bytes, / skl.MaxNodeSize
	// entries), so that the KVLoader needs several batches for a backup of a dozen entries
	o.MemTableSize = restoreMemTable
	db, err := badger.Open(o)
	if err != nil {
		fatalf("open restore: %v", err)
	}
	defer db.Close()
	for i, b := range backups {
		// The writer goroutine is held at gate writer.batch (it has taken the first request off
		// writeCh but not looked at its entries yet) until the loader has queued all its batches:
		// requests that are still pending must not be affected by what the loader does next.
		var sends int32
		w.rec.OnEvent = func(ev vh.Event) {
			if ev.Point == "send.beforeChan" {
				atomic.AddInt32(&sends, 1)
			}
		}
		gate := w.rec.Arm("writer.batch", nil)
		done := make(chan error, 1)
		go func() { done <- db.Load(bytes.NewReader(b), 16) }()
		var err error
		finished := false
		deadline := time.Now().Add(2 * time.Second)
		for gate.NumParked() == 0 && time.Now().Before(deadline) {
			select {
			case err = <-done:
				finished = true
			case <-time.After(200 * time.Microsecond):
			}
			if finished {
				break
			}
		}
		if !finished {
			last, stable := int32(-1), 0
			for t0 := time.Now(); time.Since(t0) < 300*time.Millisecond && stable < 4; {
				time.Sleep(time.Millisecond)
				if n := atomic.LoadInt32(&sends); n == last {
					stable++
				} else {
					last, stable = n, 0
				}
			}
		}
		gate.Disarm()
		if !finished {
			select {
			case err = <-done:
			case <-time.After(30 * time.Second):
				fatalf("DB.Load did not return within 30s")
			}
		}
		w.rec.OnEvent = nil
		if n := int(atomic.LoadInt32(&sends)); n > res.LoadBatches {
			res.LoadBatches = n
		}
		if err != nil {
			res.fail("sm2:backup load-error", fmt.Sprintf("Load of backup %d: %v", i+1, err))
			return nil, nil
		}
	}
	var all []realItem
	vis := map[int]int{}
	err = db.View(func(txn *badger.Txn) error {
		io := badger.DefaultIteratorOptions
		io.AllVersions = true
		it := txn.NewIterator(io)
		defer it.Close()
		for it.Rewind(); it.Valid(); it.Next() {
			item := it.Item()
			ri := realItem{key: string(item.KeyCopy(nil)), ver: item.Version(), kind: "set", um: item.UserMeta(), exp: item.ExpiresAt()}
			if item.IsDeletedOrExpired() {
				ri.kind = "del"
			} else {
				if item.DiscardEarlierVersions() {
					ri.kind = "disc"
				}
				v, err := item.ValueCopy(nil)
				if err != nil {
					return err
				}
				ri.value = v
			}
			all = append(all, ri)
		}
		for i := 1; i < len(w.mkey); i++ {
			item, err := txn.Get([]byte(w.mkey[i]))
			if err == badger.ErrKeyNotFound {
				vis[i] = 0
			} else if err != nil {
				return err
			} else {
				vis[i] = int(item.Version())
			}
		}
		return nil
	})
	if err != nil {
		res.fail("sm2:backup restored-db-unreadable", err.Error())
		return nil, nil
	}
	return w.convert(all, res, "restored database"), vis
}

// ---------------------------------------------------------------- main
func main() {
	in := flag.String("in", "", "cases (NDJSON)")
	lay := flag.String("layout", "l0x3", "data layout")
	numGo := flag.Int("numgo", 2, "Stream.NumGo")
	prefix := flag.String("prefix", "k", "Stream.Prefix")
	mode := flag.String("mode", "tolist", "tolist | backup")
	nvk := flag.Int("nvk", 2, "1: NumVersionsToKeep=1")
	rangeOf := flag.String("rangeof", "", "expected RangeOf (comma separated), checked against the dry run")
	chosen := flag.String("chosen", "", "model keys accepted by ChooseKey (comma separated; empty = all)")
	shard := flag.Int("shard", 0, "")
	nshards := flag.Int("nshards", 1, "")
	probe := flag.Bool("probe", false, "print the ranges of the layout and exit")
	flag.Parse()
	// Stream allocates 32 MiB buffers per producer and per batch; zeroing recycled spans (page
	// faults on scavenged memory) dominates the run time, so the collector is switched off and
	// the caller gives each process a bounded number of cases (untouched pages cost nothing).
	debug.SetGCPercent(-1)
	if pf := os.Getenv("SM2_PROF"); pf != "" {
		f, _ := os.Create(pf)
		pprof.StartCPUProfile(f)
		defer pprof.StopCPUProfile()
	}
	l, ok := layouts[*lay]
	if !ok {
		fatalf("unknown layout %q", *lay)
	}
	base, err := os.MkdirTemp("", "sm2stream-")
	if err != nil {
		fatalf("%v", err)
	}
	defer os.RemoveAll(base)
	rec := vh.Install(false)
	name := "stream"
	if *mode == "backup" {
		name = "backup"
	}
	tmpl := &template{dir: filepath.Join(base, "template")}
	{
		w := &world{name: name, numGo: *numGo, prefix: *prefix, mode: *mode, nvk: *nvk, rec: rec, dir: tmpl.dir}
		if err := os.MkdirAll(w.dir, 0o755); err != nil {
			fatalf("%v", err)
		}
		w.open()
		w.buildTemplate(l, tmpl)
	}
	newWorld := func(i int) *world {
		w := &world{name: name, numGo: *numGo, prefix: *prefix, mode: *mode, nvk: *nvk, rec: rec,
			dir: filepath.Join(base, fmt.Sprintf("c%d", i))}
		if *chosen != "" {
			w.chosen = map[int]bool{}
			for _, s := range strings.Split(*chosen, ",") {
				n, _ := strconv.Atoi(s)
				w.chosen[n] = true
			}
		}
		copyDir(tmpl.dir, w.dir)
		w.open()
		w.build(l, tmpl)
		return w
	}
	enc := json.NewEncoder(os.Stdout)
	if *probe {
		w := newWorld(0)
		var keys []string
		for _, k := range w.mkey[1:] {
			keys = append(keys, hex.EncodeToString([]byte(k)))
		}
		var rr []string
		for _, r := range w.ranges {
			rr = append(rr, fmt.Sprintf("[%x,%x) model=%d keys=%q", r.left, r.right, r.model, r.keys))
		}
		nr := 0
		for _, r := range w.ranges {
			if r.model > nr {
				nr = r.model
			}
		}
		// the quiescent run must have emitted every key of the prefix exactly once
		cnt := map[string]int{}
		for _, it := range w.dryItems {
			cnt[it.key]++
		}
		var missing, dups []string
		for _, k := range w.pool {
			if strings.HasPrefix(k, w.prefix) {
				if cnt[k] == 0 {
					missing = append(missing, fmt.Sprintf("%q", k))
				} else if cnt[k] > 1 {
					dups = append(dups, fmt.Sprintf("%q", k))
				}
			}
		}
		// model keys whose user key is the user-key part of a range boundary (boundaries are internal
		// keys: user key + 8 byte version suffix); commits to them put a newer version "before" the split
		splitKeys := []int{}
		for _, r := range w.ranges {
			for _, b := range [][]byte{r.left, r.right} {
				if len(b) > 8 {
					if k, ok := w.kidx[string(b[:len(b)-8])]; ok {
						dup := false
						for _, x := range splitKeys {
							dup = dup || x == k
						}
						if !dup {
							splitKeys = append(splitKeys, k)
						}
					}
				}
			}
		}
		_ = enc.Encode(map[string]interface{}{"splitKeys": splitKeys, "keys": keys, "rangeOf": w.rangeOf, "initTs": w.initTs, "firstTs": w.firstTs,
			"nranges": nr, "realRanges": rr, "quiescentMissing": missing, "quiescentTwice": dups,
			"partitionErr": w.partitionErr, "sendConcurrent": w.dryConc})
		w.db.Close()
		return
	}
	var want []int
	if *rangeOf != "" {
		for _, s := range strings.Split(*rangeOf, ",") {
			n, _ := strconv.Atoi(s)
			want = append(want, n)
		}
	}
	idx := -1
	err = vh.ReadNDJSON(*in, func(line []byte) error {
		idx++
		if idx%*nshards != *shard {
			return nil
		}
		var c Case
		if err := json.Unmarshal(line, &c); err != nil {
			return fmt.Errorf("case %d: %v", idx, err)
		}
		t0 := time.Now()
		w := newWorld(idx)
		if w.partitionErr != "" {
			fatalf("%s", w.partitionErr)
		}
		if os.Getenv("SM2_TIMING") != "" {
			fmt.Fprintf(os.Stderr, "build %v\n", time.Since(t0))
		}
		if want != nil && fmt.Sprint(want) != fmt.Sprint(w.rangeOf) {
			fatalf("ranges of the real database %v differ from the model's RangeOf %v", w.rangeOf, want)
		}
		res := Result{Case: idx}
		t1 := time.Now()
		w.runCase(&c, &res)
		t2 := time.Now()
		if err := w.db.Close(); err != nil {
			fatalf("close: %v", err)
		}
		os.RemoveAll(w.dir)
		if os.Getenv("SM2_TIMING") != "" {
			fmt.Fprintf(os.Stderr, "run %v close %v\n", t2.Sub(t1), time.Since(t2))
		}
		return enc.Encode(res)
	})
	if err != nil {
		fatalf("%v", err)
	}
	rec.Uninstall()
}
