// lsmreplay: "state injection" replay of LSM.tla transitions. Each case is one compaction
// transition of the specification: the layout before (memtable, level 0 in slice order,
// deeper levels), the compaction family, the set of layouts the specification allows
// afterwards (one per enabled instance of the family) and the reads it predicts. The
// harness builds the layout with the production table builder (db.VerifInjectTable), runs
// ONE production compaction (db.VerifDoCompact -> levelsController.doCompact) and compares
// the resulting layout, every read, the level validation and the MANIFEST.
package main

import (
	"encoding/json"
	"flag"
	"fmt"
	"os"
	"sort"
	"strings"
	"sync/atomic"
	"time"

	badger "github.com/dgraph-io/badger/v4"
	"github.com/dgraph-io/badger/v4/options"

	"verifharness/vh"
)

type Ent struct {
	K    int    `json:"k"`
	Ts   uint64 `json:"ts"`
	Kind string `json:"kind"`
}

type Tab struct {
	ID   int   `json:"id"`
	Ents []Ent `json:"ents"`
	Big  bool  `json:"big"`
	Aged bool  `json:"aged"`
}

type Layout struct {
	Mt        []Ent   `json:"mt"`
	L0        []Tab   `json:"L0"`
	Lv        [][]Tab `json:"lv"`
	DiscardTs uint64  `json:"discardTs"`
}

type ReadRow struct {
	K  int      `json:"k"`
	At []uint64 `json:"at"` // at[ts] = version read at timestamp ts-1+... (index ts+1 in TLA+ => at[ts] here is ts)
}

type Post struct {
	Post  Layout    `json:"post"`
	Reads []ReadRow `json:"reads"`
}

type Case struct {
	Fam   string `json:"fam"`
	Pre   Layout `json:"pre"`
	Posts []Post `json:"posts"`
	NVK   int    `json:"nvk"`
	Tiny  bool   `json:"tiny"` // tiny BaseTableSize: every key of a compaction output starts a new table
}

var keyNames = []string{"", "ka", "kb", "kc", "kd", "ke", "kf", "kg", "kh", "ki"}

func keyOf(k int) []byte { return []byte(keyNames[k]) }

func kIndex(b []byte) int {
	for i, s := range keyNames {
		if s == string(b) && i > 0 {
			return i
		}
	}
	return -1
}

func metaOf(kind string) byte {
	switch kind {
	case "del":
		return badger.VerifBitDelete
	case "disc":
		return badger.VerifBitDiscard
	case "merge":
		return badger.VerifBitMerge
	}
	return 0
}

func kindOf(meta byte, expiresAt uint64) string {
	switch {
	case expiresAt > 0:
		return "exp" // the harness only writes expiry times in the past
	case meta&badger.VerifBitDelete != 0:
		return "del"
	case meta&badger.VerifBitDiscard != 0:
		return "disc"
	case meta&badger.VerifBitMerge != 0:
		return "merge"
	}
	return "val"
}

func sortEnts(es []Ent) {
	sort.Slice(es, func(i, j int) bool {
		if es[i].K != es[j].K {
			return es[i].K < es[j].K
		}
		return es[i].Ts > es[j].Ts
	})
}

func entsKey(es []Ent) string {
	c := append([]Ent(nil), es...)
	sortEnts(c)
	var sb strings.Builder
	for _, e := range c {
		fmt.Fprintf(&sb, "%d@%d:%s ", e.K, e.Ts, e.Kind)
	}
	return sb.String()
}

// layoutKey renders a layout in the form both sides are compared in: memtable entries,
// level 0 as the ordered list of tables, deeper levels as the union of their entries.
func layoutKey(l Layout) string {
	var sb strings.Builder
	sb.WriteString("mt[" + entsKey(l.Mt) + "] L0[")
	for _, t := range l.L0 {
		sb.WriteString("{" + entsKey(t.Ents) + "}")
	}
	sb.WriteString("]")
	for i, lvl := range l.Lv {
		var all []Ent
		for _, t := range lvl {
			all = append(all, t.Ents...)
		}
		fmt.Fprintf(&sb, " L%d[%s]", i+1, entsKey(all))
	}
	return sb.String()
}

func unorderedKey(l Layout) string {
	c := l
	c.L0 = append([]Tab(nil), l.L0...)
	sort.Slice(c.L0, func(i, j int) bool { return entsKey(c.L0[i].Ents) < entsKey(c.L0[j].Ents) })
	return layoutKey(c)
}

type mismatch struct {
	Sig    string      `json:"sig"`
	Detail interface{} `json:"detail"`
}

func toVerif(es []Ent, big bool) []badger.VerifEntry {
	c := append([]Ent(nil), es...)
	sortEnts(c)
	out := make([]badger.VerifEntry, 0, len(c))
	padAt := -1
	for i, e := range c {
		if e.Kind != "del" {
			padAt = i
			break
		}
	}
	for i, e := range c {
		v := []byte(fmt.Sprintf("v-%d@%d", e.K, e.Ts))
		if big && i == padAt {
			// incompressible padding: the table must exceed 2 x MemTableSize on disk
			pad := make([]byte, 200<<10)
			x := uint32(2463534242)
			for j := range pad {
				x ^= x << 13
				x ^= x >> 17
				x ^= x << 5
				pad[j] = byte(x)
			}
			v = append(v, pad...)
		}
		if e.Kind == "del" {
			v = nil
		}
		var exp uint64
		if e.Kind == "exp" {
			exp = 1 // expired long ago: invisible to reads, treated like a deletion marker by compaction
		}
		out = append(out, badger.VerifEntry{Key: keyOf(e.K), Version: e.Ts, Meta: metaOf(e.Kind), Value: v, ExpiresAt: exp})
	}
	return out
}

func realLayout(db *badger.DB, nlevels int) (Layout, string) {
	var l Layout
	for _, e := range db.VerifMemEntries() {
		if e.Internal {
			continue
		}
		l.Mt = append(l.Mt, Ent{K: kIndex(e.Key), Ts: e.Version, Kind: kindOf(e.Meta, e.ExpiresAt)})
	}
	tabs := db.VerifTables()
	l.Lv = make([][]Tab, nlevels-1)
	structural := ""
	for lvl, ts := range tabs {
		var prevBig []byte
		for _, t := range ts {
			es, err := db.VerifTableEntries(t.ID)
			if err != nil {
				structural = err.Error()
				continue
			}
			tab := Tab{ID: int(t.ID)}
			for _, e := range es {
				if e.Internal {
					continue
				}
				tab.Ents = append(tab.Ents, Ent{K: kIndex(e.Key), Ts: e.Version, Kind: kindOf(e.Meta, e.ExpiresAt)})
			}
			if lvl == 0 {
				l.L0 = append(l.L0, tab)
			} else {
				l.Lv[lvl-1] = append(l.Lv[lvl-1], tab)
				if prevBig != nil && string(prevBig) >= string(t.Smallest) && structural == "" {
					structural = fmt.Sprintf("level %d: table %d overlaps its predecessor", lvl, t.ID)
				}
				prevBig = t.Biggest
			}
		}
	}
	return l, structural
}

func unbuildable(c Case) bool {
	for _, t := range c.Pre.L0 {
		if !t.Big {
			continue
		}
		all := true
		for _, e := range t.Ents {
			if e.Kind != "del" {
				all = false
			}
		}
		if all {
			return true // a "big" table needs at least one entry that can carry a large value
		}
	}
	return false
}

// buildPre opens a fresh managed DB and injects the case's pre-layout.
func buildPre(c Case, inmem bool) (*badger.DB, badger.Options, string, func(), *mismatch) {
	nlevels := len(c.Pre.Lv) + 1
	var dir string
	var o badger.Options
	cleanup := func() {}
	if inmem {
		o = vh.SmallOptions("").WithInMemory(true)
	} else {
		var err error
		dir, err = os.MkdirTemp("", "lsmreplay-")
		if err != nil {
			vh.Fatalf("%v", err)
		}
		cleanup = func() { os.RemoveAll(dir) }
		o = vh.SmallOptions(dir)
	}
	o.MaxLevels = nlevels
	o.MemTableSize = 64 << 10
	o.NumVersionsToKeep = c.NVK
	if c.Tiny {
		// an empty table builder already estimates 20 bytes; with a capacity of 22 (0.95 * 24) every
		// entry after the first one of a table finds the capacity reached, so every key of the output
		// starts a new table (a capacity below 20 would make subcompact spin on empty builders)
		o.BaseTableSize = 24
		o.TableSizeMultiplier = 1
		o.Compression = options.None
	}
	o.NumLevelZeroTables = 100
	o.NumLevelZeroTablesStall = 200
	db, err := badger.OpenManaged(o)
	if err != nil {
		return nil, o, dir, cleanup, &mismatch{"open.error", err.Error()}
	}
	now := time.Now()
	inject := func(level int, t Tab) *mismatch {
		id, err := db.VerifInjectTable(level, toVerif(t.Ents, t.Big))
		if err != nil {
			return &mismatch{"inject.error", err.Error()}
		}
		if t.Aged {
			db.VerifSetTableCreatedAt(id, now.Add(-3*time.Hour))
		} else {
			db.VerifSetTableCreatedAt(id, now.Add(time.Hour))
		}
		return nil
	}
	for _, t := range c.Pre.L0 {
		if m := inject(0, t); m != nil {
			return db, o, dir, cleanup, m
		}
	}
	for i, lvl := range c.Pre.Lv {
		// inject in key order so that the level slice is ordered
		ts := append([]Tab(nil), lvl...)
		sort.Slice(ts, func(a, b int) bool { return minK(ts[a]) < minK(ts[b]) })
		for _, t := range ts {
			if m := inject(i+1, t); m != nil {
				return db, o, dir, cleanup, m
			}
		}
	}
	if len(c.Pre.Mt) > 0 {
		mt := append([]Ent(nil), c.Pre.Mt...)
		sort.Slice(mt, func(i, j int) bool { return mt[i].Ts < mt[j].Ts })
		if err := db.VerifBatchSet(toVerif(mt, false)); err != nil {
			return db, o, dir, cleanup, &mismatch{"mt.write.error", err.Error()}
		}
	}
	db.SetDiscardTs(c.Pre.DiscardTs)
	// sanity: the injected layout is the specification's pre-state
	pre, _ := realLayout(db, nlevels)
	if layoutKey(pre) != layoutKey(c.Pre) {
		vh.Fatalf("harness: injected layout differs from the case: %s vs %s", layoutKey(pre), layoutKey(c.Pre))
	}
	return db, o, dir, cleanup, nil
}

func compactFor(db *badger.DB, c Case, nlevels int) error {
	switch c.Fam {
	case "L0ToBase":
		return db.VerifDoCompact(1, 0, 1.0, 1.0)
	case "L0ToL0":
		return db.VerifDoCompact(0, 0, 1.0, 0.5)
	case "LevelDown":
		for i, l := range c.Pre.Lv {
			if len(l) > 0 && i+1 < nlevels-1 {
				return db.VerifDoCompact(1, i+1, 1.0, 1.0)
			}
		}
	}
	vh.Fatalf("unknown family %q", c.Fam)
	return nil
}

// runInstall: LSMInstall.tla - one point read interleaved, level by level (gate get.level), with
// the two installation steps of the case's compaction (gates compact.beforeReplace /
// compact.beforeDelete). Every interleaving position is enumerated; the read must return what it
// returns without any compaction running.
func runInstall(c Case) *mismatch {
	nlevels := len(c.Pre.Lv) + 1
	maxTs, nkeys := 0, 0
	for _, p := range c.Posts {
		for _, row := range p.Reads {
			if len(row.At)-1 > maxTs {
				maxTs = len(row.At) - 1
			}
		}
		if len(p.Reads) > nkeys {
			nkeys = len(p.Reads)
		}
	}
	const wait = 10 * time.Second
	for k := 1; k <= nkeys; k++ {
		for ts := int(c.Pre.DiscardTs); ts <= maxTs; ts++ {
			if ts == 0 {
				continue
			}
			for p1 := 0; p1 <= nlevels; p1++ { // levels the read has consulted when the first install step runs
				for p2 := p1; p2 <= nlevels; p2++ { // ... when the second step runs
					db, _, _, cleanup, m := buildPre(c, true)
					if m != nil {
						if db != nil {
							db.Close()
						}
						cleanup()
						return m
					}
					get := func() (uint64, error) {
						txn := db.NewTransactionAt(uint64(ts), false)
						defer txn.Discard()
						item, err := txn.Get(keyOf(k))
						if err == badger.ErrKeyNotFound {
							return 0, nil
						}
						if err != nil {
							return 0, err
						}
						return item.Version(), nil
					}
					want, err := get()
					if err != nil {
						db.Close()
						cleanup()
						return &mismatch{"read.error", err.Error()}
					}
					rec := vh.Install(false)
					gLevel := rec.Arm("get.level", nil)
					gRepl := rec.Arm("compact.beforeReplace", nil)
					gDel := rec.Arm("compact.beforeDelete", nil)
					cdone := make(chan error, 1)
					go func() { cdone <- compactFor(db, c, nlevels) }()
					fail := func(sig string, d interface{}) *mismatch {
						gLevel.Disarm()
						gRepl.Disarm()
						gDel.Disarm()
						rec.Uninstall()
						select {
						case <-cdone:
						case <-time.After(wait):
						}
						db.Close()
						cleanup()
						return &mismatch{sig, d}
					}
					if !gRepl.WaitParked(1, wait) {
						select {
						case err := <-cdone:
							cdone <- err
							if err == badger.ErrVerifNoFill {
								return fail("compaction.notPicked", "the specification enables this compaction, the production picker selected nothing")
							}
							return fail("compaction.error", fmt.Sprint(err))
						default:
						}
						return fail("harness.compactionNotParked", nil)
					}
					type rres struct {
						v   uint64
						err error
					}
					rdone := make(chan rres, 1)
					var finished atomic.Bool
					go func() { v, err := get(); finished.Store(true); rdone <- rres{v, err} }()
					// wait until the read is parked before its next level, or has returned (it returns
					// early when it finds exactly the version it asked for)
					parkedOrDone := func() bool {
						deadline := time.Now().Add(wait)
						for time.Now().Before(deadline) {
							if gLevel.NumParked() >= 1 || finished.Load() {
								return true
							}
							time.Sleep(20 * time.Microsecond)
						}
						return false
					}
					advance := func(n int) bool { // let the read consult n more levels
						for i := 0; i < n; i++ {
							if !parkedOrDone() {
								return false
							}
							if finished.Load() {
								return true
							}
							gLevel.Release(nil)
						}
						return true
					}
					// the read is parked before level 0; consult p1 levels, then the first install step
					if !parkedOrDone() {
						return fail("harness.readNotParked", nil)
					}
					if !advance(p1) {
						return fail("harness.readAdvance", nil)
					}
					gRepl.Release(nil)
					if !gDel.WaitParked(1, wait) {
						return fail("install.stuck", "compaction did not reach the point between replaceTables and deleteTables")
					}
					if p2 > p1 {
						if !advance(p2 - p1) {
							return fail("harness.readAdvance2", nil)
						}
					}
					gDel.Release(nil)
					select {
					case err := <-cdone:
						if err != nil {
							cdone <- err
							return fail("compaction.error", err.Error())
						}
					case <-time.After(wait):
						return fail("install.hang", nil)
					}
					gLevel.Disarm()
					var r rres
					select {
					case r = <-rdone:
					case <-time.After(wait):
						cdone <- nil
						return fail("read.hang", nil)
					}
					rec.Uninstall()
					db.Close()
					cleanup()
					if r.err != nil {
						return &mismatch{"read.error", r.err.Error()}
					}
					if r.v != want {
						kind := "changed"
						if want == 0 {
							kind = "resurrected"
						} else if r.v == 0 {
							kind = "lost"
						}
						return &mismatch{"install.read" + kind, fmt.Sprintf("Get(k%d)@%d returns version %d without a compaction and %d when %d levels were consulted before replaceTables and %d before deleteTables (%s, pre %s)", k, ts, want, r.v, p1, p2, c.Fam, layoutKey(c.Pre))}
					}
				}
			}
		}
	}
	return nil
}

func runCase(c Case, inmem bool) *mismatch {
	nlevels := len(c.Pre.Lv) + 1
	db, o, dir, cleanup, m0 := buildPre(c, inmem)
	defer cleanup()
	if db != nil {
		defer db.Close()
	}
	if m0 != nil {
		return m0
	}
	var err error
	// the property itself, judged on the real DB only: every read at or above the discard
	// watermark must be the same before and after the compaction (C12)
	maxTs := 0
	for _, p := range c.Posts {
		for _, row := range p.Reads {
			if len(row.At)-1 > maxTs {
				maxTs = len(row.At) - 1
			}
		}
	}
	nkeys := 0
	for _, p := range c.Posts {
		if len(p.Reads) > nkeys {
			nkeys = len(p.Reads)
		}
	}
	readAll := func() (map[[2]int]uint64, *mismatch) {
		out := map[[2]int]uint64{}
		for k := 1; k <= nkeys; k++ {
			for ts := int(c.Pre.DiscardTs); ts <= maxTs; ts++ {
				if ts == 0 {
					continue
				}
				txn := db.NewTransactionAt(uint64(ts), false)
				item, err := txn.Get(keyOf(k))
				if err == nil {
					out[[2]int{k, ts}] = item.Version()
				} else if err != badger.ErrKeyNotFound {
					txn.Discard()
					return nil, &mismatch{"read.error", err.Error()}
				}
				txn.Discard()
			}
		}
		return out, nil
	}
	before, m := readAll()
	if m != nil {
		return m
	}
	err = compactFor(db, c, nlevels)
	if err != nil {
		if err == badger.ErrVerifNoFill {
			return &mismatch{"compaction.notPicked", "the specification enables this compaction, the production picker selected nothing"}
		}
		return &mismatch{"compaction.error", err.Error()}
	}
	after, m := readAll()
	if m != nil {
		return m
	}
	for kt, v := range before {
		if after[kt] != v {
			what := "changed"
			if after[kt] == 0 {
				what = "lost"
			}
			return &mismatch{"readChanged." + what, fmt.Sprintf("Get(k%d)@%d returned version %d before the compaction and %d after it (discardTs=%d, pre %s)", kt[0], kt[1], v, after[kt], c.Pre.DiscardTs, layoutKey(c.Pre))}
		}
	}
	for kt, v := range after {
		if _, ok := before[kt]; !ok {
			return &mismatch{"readChanged.resurrected", fmt.Sprintf("Get(k%d)@%d was not found before the compaction and returns version %d after it (discardTs=%d, pre %s)", kt[0], kt[1], v, c.Pre.DiscardTs, layoutKey(c.Pre))}
		}
	}
	got, structural := realLayout(db, nlevels)
	if structural != "" {
		return &mismatch{"structure.levels", structural}
	}
	if err := db.VerifValidateLevels(); err != nil {
		return &mismatch{"structure.validate", err.Error()}
	}
	if !inmem {
		mf := db.VerifManifestTables()
		n := 0
		for lvl, ts := range db.VerifTables() {
			for _, t := range ts {
				n++
				if l, ok := mf[t.ID]; !ok || l != lvl {
					return &mismatch{"structure.manifest", fmt.Sprintf("table %d at level %d, MANIFEST says %v (present %v)", t.ID, lvl, l, ok)}
				}
				if _, err := os.Stat(fmt.Sprintf("%s/%06d.sst", dir, t.ID)); err != nil {
					return &mismatch{"structure.fileMissing", err.Error()}
				}
			}
		}
		if n != len(mf) {
			return &mismatch{"structure.manifest", fmt.Sprintf("%d live tables, MANIFEST lists %d", n, len(mf))}
		}
	}
	gk := layoutKey(got)
	var match *Post
	var allowed []string
	for i := range c.Posts {
		pk := layoutKey(c.Posts[i].Post)
		allowed = append(allowed, pk)
		if pk == gk {
			match = &c.Posts[i]
			break
		}
	}
	if match == nil {
		// classify: lost tombstone / lost version / extra / order
		return &mismatch{"layout." + classify(c, got), map[string]interface{}{"got": gk, "allowed": allowed, "pre": layoutKey(c.Pre)}}
	}
	for _, row := range match.Reads {
		for ts := 1; ts < len(row.At); ts++ {
			txn := db.NewTransactionAt(uint64(ts), false)
			item, err := txn.Get(keyOf(row.K))
			var v uint64
			if err == nil {
				v = item.Version()
				if _, err := item.ValueCopy(nil); err != nil {
					txn.Discard()
					return &mismatch{"read.value.error", err.Error()}
				}
			} else if err != badger.ErrKeyNotFound {
				txn.Discard()
				return &mismatch{"read.error", err.Error()}
			}
			txn.Discard()
			if v != row.At[ts] {
				return &mismatch{"read.mismatch", fmt.Sprintf("Get(k%d)@%d: want version %d got %d (layout %s)", row.K, ts, row.At[ts], v, gk)}
			}
		}
	}
	if !inmem {
		// C14/C07: close and re-open; Open's revertToManifest and level validation must
		// succeed and the tables must be exactly the same (memtable content moves to level 0)
		tablesBefore := fmt.Sprint(tableIDs(db))
		hadMem := len(got.Mt) > 0
		if err := db.Close(); err != nil {
			return &mismatch{"reopen.close", err.Error()}
		}
		db2, err := badger.OpenManaged(o)
		if err != nil {
			return &mismatch{"reopen.open", err.Error()}
		}
		defer db2.Close()
		if err := db2.VerifValidateLevels(); err != nil {
			return &mismatch{"reopen.validate", err.Error()}
		}
		if !hadMem {
			if after := fmt.Sprint(tableIDs(db2)); after != tablesBefore {
				return &mismatch{"reopen.tablesChanged", fmt.Sprintf("before %s after %s", tablesBefore, after)}
			}
		}
		g2, structural := realLayout(db2, nlevels)
		if structural != "" {
			return &mismatch{"reopen.structure", structural}
		}
		// level 0 is ordered by file id after a re-open (levelHandler.initTables): compare it as a set
		if !hadMem && unorderedKey(g2) != unorderedKey(got) {
			return &mismatch{"reopen.layoutChanged", fmt.Sprintf("before %s after %s", gk, layoutKey(g2))}
		}
	}
	return nil
}

func tableIDs(db *badger.DB) [][]uint64 {
	var out [][]uint64
	for _, lvl := range db.VerifTables() {
		var ids []uint64
		for _, t := range lvl {
			ids = append(ids, t.ID)
		}
		sort.Slice(ids, func(i, j int) bool { return ids[i] < ids[j] })
		out = append(out, ids)
	}
	return out
}

func minK(t Tab) int {
	m := 1 << 30
	for _, e := range t.Ents {
		if e.K < m {
			m = e.K
		}
	}
	return m
}

func classify(c Case, got Layout) string {
	// compare entry multisets of the whole tree with the first allowed post
	count := func(l Layout) map[string]int {
		m := map[string]int{}
		add := func(es []Ent) {
			for _, e := range es {
				m[fmt.Sprintf("%d@%d:%s", e.K, e.Ts, e.Kind)]++
			}
		}
		add(l.Mt)
		for _, t := range l.L0 {
			add(t.Ents)
		}
		for _, lv := range l.Lv {
			for _, t := range lv {
				add(t.Ents)
			}
		}
		return m
	}
	g := count(got)
	w := count(c.Posts[0].Post)
	for k, n := range w {
		if g[k] < n {
			if strings.HasSuffix(k, ":del") {
				return "tombstoneDropped"
			}
			return "versionDropped"
		}
	}
	for k, n := range g {
		if w[k] < n {
			return "versionKept"
		}
	}
	return "placement"
}

func main() {
	in := flag.String("in", "", "cases NDJSON")
	shard := flag.Int("shard", 0, "")
	nshard := flag.Int("nshards", 1, "")
	inmem := flag.Bool("inmem", false, "in-memory mode")
	install := flag.Bool("install", false, "interleave one read with the two installation steps (LSMInstall.tla)")
	flag.Parse()
	enc := json.NewEncoder(os.Stdout)
	idx := 0
	err := vh.ReadNDJSON(*in, func(line []byte) error {
		i := idx
		idx++
		if i%*nshard != *shard {
			return nil
		}
		var c Case
		if err := json.Unmarshal(line, &c); err != nil {
			return err
		}
		if c.NVK == 0 {
			c.NVK = 1
		}
		if unbuildable(c) {
			return enc.Encode(map[string]interface{}{"case": i, "ok": true, "fam": c.Fam, "skipped": true})
		}
		var m *mismatch
		if *install {
			m = runInstall(c)
		} else {
			m = runCase(c, *inmem)
		}
		out := map[string]interface{}{"case": i, "ok": m == nil, "fam": c.Fam}
		if m != nil {
			out["sig"], out["detail"] = m.Sig, m.Detail
		}
		return enc.Encode(out)
	})
	if err != nil {
		vh.Fatalf("%v", err)
	}
}
