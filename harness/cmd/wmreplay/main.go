// wmreplay drives the real y.WaterMark through TLC-generated interleavings (WaterMarkGen):
// caller steps are issued directly, the process goroutine is stepped one mark at a time
// through the verif gate "wm.process"; after every step DoneUntil/LastIndex and the set of
// released waiters are compared with the specification's prediction.
package main

import (
	"context"
	"encoding/json"
	"flag"
	"fmt"
	"os"
	"sort"
	"sync"
	"time"

	"github.com/dgraph-io/badger/v4/y"
	"github.com/dgraph-io/ristretto/v2/z"

	"verifharness/vh"
)

type Step struct {
	Act       string `json:"act"`
	Idx       uint64 `json:"idx"`
	W         int    `json:"w"`
	DoneUntil uint64 `json:"doneUntil"`
	LastIndex uint64 `json:"lastIndex"`
	Released  []int  `json:"released"`
}

type result struct {
	Case   int         `json:"case"`
	Ok     bool        `json:"ok"`
	Step   int         `json:"step,omitempty"`
	Sig    string      `json:"sig,omitempty"`
	Detail interface{} `json:"detail,omitempty"`
}

const stepTimeout = 5 * time.Second

func runCase(steps []Step) (int, string, interface{}) {
	var mu sync.Mutex
	processed := make(chan struct{}, 64)
	waitEv := make(chan string, 64)
	rec := vh.Install(false)
	defer rec.Uninstall()
	rec.OnEvent = func(ev vh.Event) {
		switch ev.Point {
		case "wm.processed":
			processed <- struct{}{}
		case "wm.waitFast":
			waitEv <- "fast"
		case "wm.waitEnq":
			waitEv <- "enq"
		}
	}
	gate := rec.Arm("wm.process", nil)
	closer := z.NewCloser(1)
	w := &y.WaterMark{Name: "verif"}
	w.Init(closer)
	defer func() {
		gate.Disarm()
		closer.SignalAndWait()
	}()
	if !gate.WaitParked(1, stepTimeout) {
		return 0, "harness.noProcessGoroutine", nil
	}
	released := map[int]bool{}
	early := ""
	ctx, cancel := context.WithCancel(context.Background())
	defer cancel()
	var wg sync.WaitGroup
	startWaiter := func(id int, idx uint64) {
		wg.Add(1)
		go func() {
			defer wg.Done()
			if err := w.WaitForMark(ctx, idx); err != nil {
				return
			}
			du := w.DoneUntil()
			mu.Lock()
			released[id] = true
			if du < idx && early == "" {
				early = fmt.Sprintf("waiter %d for index %d returned while DoneUntil=%d", id, idx, du)
			}
			mu.Unlock()
		}()
	}
	waitReleased := func(want []int) bool {
		deadline := time.Now().Add(stepTimeout)
		for {
			mu.Lock()
			ok := true
			for _, id := range want {
				if !released[id] {
					ok = false
				}
			}
			mu.Unlock()
			if ok {
				return true
			}
			if time.Now().After(deadline) {
				return false
			}
			time.Sleep(20 * time.Microsecond)
		}
	}
	unexpected := func(want []int) []int {
		ws := map[int]bool{}
		for _, id := range want {
			ws[id] = true
		}
		var out []int
		mu.Lock()
		for id := range released {
			if !ws[id] {
				out = append(out, id)
			}
		}
		mu.Unlock()
		sort.Ints(out)
		return out
	}
	for i, s := range steps {
		switch s.Act {
		case "begin":
			w.Begin(s.Idx)
		case "done":
			w.Done(s.Idx)
		case "waitfast", "waitenq":
			startWaiter(s.W, s.Idx)
			select {
			case kind := <-waitEv:
				if (kind == "fast") != (s.Act == "waitfast") {
					return i, "wm.waitPath", fmt.Sprintf("specification says %s, code took the %s path (index %d)", s.Act, kind, s.Idx)
				}
			case <-time.After(stepTimeout):
				return i, "harness.waitTimeout", nil
			}
		case "process":
			if !gate.Release(nil) {
				return i, "harness.processNotParked", nil
			}
			select {
			case <-processed:
			case <-time.After(stepTimeout):
				return i, "wm.processStuck", "process goroutine did not finish handling a mark"
			}
			if !gate.WaitParked(1, stepTimeout) {
				return i, "harness.processNotBack", nil
			}
		}
		if got := w.DoneUntil(); got != s.DoneUntil {
			return i, "wm.doneUntil", fmt.Sprintf("after %s(%d): want %d got %d", s.Act, s.Idx, s.DoneUntil, got)
		}
		if got := w.LastIndex(); got != s.LastIndex {
			return i, "wm.lastIndex", fmt.Sprintf("after %s(%d): want %d got %d", s.Act, s.Idx, s.LastIndex, got)
		}
		if !waitReleased(s.Released) {
			return i, "wm.lostWakeup", fmt.Sprintf("after %s(%d): waiters %v should be released", s.Act, s.Idx, s.Released)
		}
		if u := unexpected(s.Released); len(u) > 0 {
			return i, "wm.earlyRelease", fmt.Sprintf("after %s(%d): waiters %v released, specification releases only %v", s.Act, s.Idx, u, s.Released)
		}
		mu.Lock()
		e := early
		mu.Unlock()
		if e != "" {
			return i, "wm.releasedBelowMark", e
		}
	}
	// final grace: nobody else may be released
	time.Sleep(200 * time.Microsecond)
	last := steps[len(steps)-1]
	if u := unexpected(last.Released); len(u) > 0 {
		return len(steps) - 1, "wm.earlyRelease", fmt.Sprintf("at end: waiters %v released, specification releases only %v", u, last.Released)
	}
	cancel()
	wg.Wait()
	return -1, "", nil
}

func main() {
	in := flag.String("in", "", "cases NDJSON")
	shard := flag.Int("shard", 0, "")
	nshard := flag.Int("nshards", 1, "")
	flag.Parse()
	enc := json.NewEncoder(os.Stdout)
	idx := 0
	err := vh.ReadNDJSON(*in, func(line []byte) error {
		i := idx
		idx++
		if i%*nshard != *shard {
			return nil
		}
		var steps []Step
		if err := json.Unmarshal(line, &steps); err != nil {
			return err
		}
		at, sig, det := runCase(steps)
		r := result{Case: i, Ok: sig == ""}
		if sig != "" {
			r.Step, r.Sig, r.Detail = at, sig, det
		}
		return enc.Encode(r)
	})
	if err != nil {
		vh.Fatalf("%v", err)
	}
}
