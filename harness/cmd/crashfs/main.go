// crashfs is the E-CRASH engine of the "disk" family.
//
//	crashfs run      -case case.json -out DIR [-enc]      run a DiskGen workload with the fs recorder,
//	                                                      materialise kill / power-loss images at every
//	                                                      hook event (DIR/images.gob, DIR/trace.ndjson,
//	                                                      DIR/run.json)
//	crashfs check    -images DIR/images.gob -list L       re-open the listed images with the real Open
//	                                                      and print one observation per image (NDJSON)
//	crashfs killrun  -case case.json -dbdir D -acklog F -killat N
//	                                                      run the workload for real and os.Exit(137)
//	                                                      inside the hook of event N
//	crashfs checkdir -dir D [-enc]                        observation of an existing directory
//
// The harness only observes; the allowed outcomes come from the Disk specification (the
// "vis" predictions TLC attaches to every generated workload) and are compared in
// checks/lib_disk.py. Exit status 0 = ran, 2 = harness trouble (never 1).
package main

import (
	"bytes"
	"crypto/sha1"
	"encoding/gob"
	"encoding/json"
	"flag"
	"fmt"
	"os"
	"path/filepath"
	"sort"
	"strconv"
	"strings"
	"sync"
	"time"

	badger "github.com/dgraph-io/badger/v4"
	"github.com/dgraph-io/badger/v4/options"
	"github.com/dgraph-io/badger/v4/pb"
	"google.golang.org/protobuf/proto"

	"verifharness/vh"
)

// ---------------------------------------------------------------------------- case format

type Write struct {
	K   int  `json:"k"`
	V   int  `json:"v"`
	Big bool `json:"big"`
	Del bool `json:"del"`
}

type Op struct {
	Op string  `json:"op"`
	W  []Write `json:"w"`
	G  int     `json:"g"` // key group for dropPrefix
	// multi: transactions issued by concurrent committers, written by the writer as one batch
	Txs [][]Write `json:"txs"`
}

type Case struct {
	Sync bool `json:"sync"`
	Ops  []Op `json:"ops"`
	// Heavy: "big" values are 3000 bytes and stay INLINE (value threshold 4096), so that a
	// handful of multi-entry transactions fills the 64 KiB memtable and the production code
	// rotates memtable and WAL by itself (ensureRoomForWrite) while the flusher is parked.
	Heavy bool `json:"heavy"`
}

var heavy bool

// concretisation: model keys 1..6, groups: 1 = {1,2}, 2 = {3,4}, 3 = {5,6}
var keyNames = []string{"", "a/1", "a/2\x00", "b/1", "b/\xff", "c", "c/0"}
var groupPrefix = []string{"", "a/", "b/", "c"}

func keyOf(k int) []byte { return []byte(keyNames[k]) }
func keyIndex(b []byte) int {
	for i, s := range keyNames {
		if i > 0 && s == string(b) {
			return i
		}
	}
	return -1
}

const probeKey = "zz-probe"

func valueOf(v int, big bool) []byte {
	n := 9
	if big {
		n = 80
		if heavy {
			n = 3000
		}
	}
	s := fmt.Sprintf("v%06d.", v)
	for len(s) < n {
		s += "x"
	}
	return []byte(s)
}

// parseVal returns the value id and whether the bytes are exactly a generated value.
func parseVal(b []byte) (int, bool) {
	if len(b) < 8 || b[0] != 'v' {
		return -1, false
	}
	v, err := strconv.Atoi(string(b[1:7]))
	if err != nil {
		return -1, false
	}
	return v, bytes.Equal(b, valueOf(v, false)) || bytes.Equal(b, valueOf(v, true))
}

var encKey = []byte("0123456789abcdef0123456789abcdef")

func dbOptions(dir string, syncWrites, enc bool) badger.Options {
	o := vh.SmallOptions(dir)
	o.MemTableSize = 64 << 10
	o.ValueThreshold = 32
	if heavy {
		o.ValueThreshold = 4096
	}
	o.ValueLogMaxEntries = 2
	o.SyncWrites = syncWrites
	o.Compression = options.None
	o.BlockCacheSize = 0
	o.NumMemtables = 8
	if enc {
		o.EncryptionKey = encKey
		o.EncryptionKeyRotationDuration = time.Hour
		o.IndexCacheSize = 1 << 20
		o.BlockCacheSize = 1 << 20
	}
	return o
}

// ---------------------------------------------------------------------------- images

type Blob struct {
	Size int64
	Data []byte // content without trailing zero bytes
}

type FileRef struct {
	Name string
	Blob int
}

type Image struct {
	Evs    []int    // event indexes that produced exactly this image (same tags)
	Points []string // their hook points
	Kinds  []string // kill, kill-trunc0, pl-zero, pl-empty, pl-content, pl-zero-L, pl-content-L
	Op     int      // index of the operation in flight (or just completed), -1 = initial Open
	InOp   bool     // crash inside the operation (not yet acknowledged)
	Done   int      // number of completed (acknowledged) operations
	Files  []FileRef
	Note   string
	ManApp int // MANIFEST appends deleting tables seen since the operation began
	Torn   int // > 0: taken at an fs.append of the MANIFEST; length of the record just appended
}

type ImageSet struct {
	Enc    bool
	Sync   bool
	Heavy  bool
	Blobs  []Blob
	Images []Image
}

type blobStore struct {
	blobs []Blob
	index map[[20]byte]int
}

func (s *blobStore) put(size int64, data []byte) int {
	h := sha1.New()
	fmt.Fprintf(h, "%d:", size)
	h.Write(data)
	var k [20]byte
	copy(k[:], h.Sum(nil))
	if i, ok := s.index[k]; ok {
		return i
	}
	s.blobs = append(s.blobs, Blob{Size: size, Data: append([]byte(nil), data...)})
	s.index[k] = len(s.blobs) - 1
	return len(s.blobs) - 1
}

func trimZeros(b []byte) []byte {
	n := len(b)
	for n > 0 && b[n-1] == 0 {
		n--
	}
	return b[:n]
}

// ---------------------------------------------------------------------------- recorder

type runner struct {
	c    Case
	enc  bool
	dir  string
	db   *badger.DB
	rec  *vh.Recorder
	gate *vh.Gate

	mu       sync.Mutex
	on       bool
	n        int // event counter
	op       int
	inop     bool
	done     int
	store    blobStore
	images   []Image
	imgIndex map[string]int
	trace    []map[string]interface{}
	prev     map[string]int // previous scan: name -> blob

	// two-layer file system model (power loss)
	nameObj map[string]int
	nextObj int
	objSize map[int]int64
	durCont map[int]int
	durDir  map[string]int
	durDirL map[string]int

	enq    chan struct{} // signalled by the hook commit.enqueued (multi)
	occ    map[string]int // occurrences of each hook point since the current operation began
	occOp  int
	manApp int // MANIFEST appends (or rewrites) since the current operation began
	killAt int
	ackLog *os.File
	commTs []uint64 // real commit ts per op (0 = none)
	live   [][]int  // visible state of the running DB after each op (no crash involved)
	nkinds map[string]int
}

func (r *runner) scan() (map[string]int, map[string]int64) {
	ents, err := os.ReadDir(r.dir)
	if err != nil {
		vh.Fatalf("readdir: %v", err)
	}
	cur := map[string]int{}
	sizes := map[string]int64{}
	for _, e := range ents {
		if !e.Type().IsRegular() {
			continue
		}
		b, err := os.ReadFile(filepath.Join(r.dir, e.Name()))
		if err != nil {
			if os.IsNotExist(err) {
				continue
			}
			vh.Fatalf("read %s: %v", e.Name(), err)
		}
		cur[e.Name()] = r.store.put(int64(len(b)), trimZeros(b))
		sizes[e.Name()] = int64(len(b))
	}
	return cur, sizes
}

func copyMap(m map[string]int) map[string]int {
	o := make(map[string]int, len(m))
	for k, v := range m {
		o[k] = v
	}
	return o
}

func base(a interface{}) string {
	if s, ok := a.(string); ok {
		return filepath.Base(s)
	}
	return ""
}

func (r *runner) addImage(kind, point string, files map[string]int, note string) {
	r.addImageT(kind, point, files, note, 0)
}

func (r *runner) addImageT(kind, point string, files map[string]int, note string, torn int) {
	names := make([]string, 0, len(files))
	for n := range files {
		names = append(names, n)
	}
	sort.Strings(names)
	var sb strings.Builder
	fmt.Fprintf(&sb, "%d|%v|%d|%d|%d|", r.op, r.inop, r.done, r.manApp, torn)
	refs := make([]FileRef, 0, len(names))
	for _, n := range names {
		fmt.Fprintf(&sb, "%s=%d;", n, files[n])
		refs = append(refs, FileRef{n, files[n]})
	}
	r.nkinds[kind]++
	key := sb.String()
	if i, ok := r.imgIndex[key]; ok {
		im := &r.images[i]
		im.Evs = append(im.Evs, r.n)
		im.Points = append(im.Points, point)
		im.Kinds = append(im.Kinds, kind)
		return
	}
	r.imgIndex[key] = len(r.images)
	r.images = append(r.images, Image{Evs: []int{r.n}, Points: []string{point}, Kinds: []string{kind},
		Op: r.op, InOp: r.inop, Done: r.done, Files: refs, Note: note, ManApp: r.manApp, Torn: torn})
}

func kindOfFile(name string) string {
	switch {
	case strings.HasSuffix(name, ".mem"):
		return "mem"
	case strings.HasSuffix(name, ".vlog"):
		return "vlog"
	case strings.HasSuffix(name, ".sst"):
		return "sst"
	case name == "MANIFEST":
		return "manifest"
	case name == "MANIFEST-REWRITE":
		return "rewrite"
	}
	return "other"
}

func fileID(name string) int {
	i := strings.IndexByte(name, '.')
	if i <= 0 {
		return 0
	}
	n, _ := strconv.Atoi(name[:i])
	return n
}

// onEvent is called synchronously inside every hook (event or gate) of the DB under test.
func (r *runner) onEvent(ev vh.Event) {
	if ev.Point == "commit.enqueued" && r.enq != nil {
		select {
		case r.enq <- struct{}{}:
		default:
		}
	}
	r.mu.Lock()
	defer r.mu.Unlock()
	if !r.on || !relevant(ev.Point) {
		return
	}
	r.n++
	point := ev.Point
	cur, sizes := r.scan()
	if point == "op.start" {
		r.manApp = 0
	}
	if r.occ == nil || r.occOp != r.op || point == "op.start" {
		r.occ, r.occOp = map[string]int{}, r.op
	}
	r.occ[point]++
	// MANIFEST appends that delete tables (the dropTree change set of DropAll, compactions)
	if point == "fs.append" && len(ev.Args) > 1 && base(ev.Args[0]) == "MANIFEST" {
		if b, ok := cur["MANIFEST"]; ok {
			data := r.store.blobs[b].Data
			if n, ok := ev.Args[1].(int); ok && n <= len(data) {
				for _, ch := range decodeChangeSets(data[len(data)-n:]) {
					if ch["op"] == "delete" {
						r.manApp++
						break
					}
				}
			}
		}
	}

	// ---- trace line for DiskTrace
	opname := "open"
	if r.op >= 0 && r.op < len(r.c.Ops) {
		opname = r.c.Ops[r.op].Op
	}
	lens := []map[string]interface{}{}
	for n, b := range cur {
		if k := kindOfFile(n); k == "mem" || k == "vlog" {
			lens = append(lens, map[string]interface{}{"k": k, "id": fileID(n), "n": len(r.store.blobs[b].Data)})
		}
	}
	sort.Slice(lens, func(i, j int) bool {
		return fmt.Sprint(lens[i]["k"], lens[i]["id"]) < fmt.Sprint(lens[j]["k"], lens[j]["id"])
	})
	line := map[string]interface{}{"i": r.n, "ev": point, "op": r.op, "opname": opname, "inop": r.inop, "done": r.done,
		"file": "", "kind": "", "id": 0, "to": "", "ids": []uint64{}, "ids2": []uint64{}, "sync": r.c.Sync,
		"cs": []map[string]interface{}{}, "lens": lens}
	if strings.HasPrefix(point, "fs.") && len(ev.Args) > 0 {
		f := base(ev.Args[0])
		line["file"], line["kind"], line["id"] = f, kindOfFile(f), fileID(f)
		if point == "fs.rename" && len(ev.Args) > 1 {
			line["to"] = base(ev.Args[1])
		}
		if point == "fs.syncdir" {
			line["file"], line["kind"] = "", "dir"
		}
		// the change set a MANIFEST append carries / the snapshot a rewrite writes, decoded
		// from the bytes of the file
		if b, ok := cur[f]; ok {
			data := r.store.blobs[b].Data
			if point == "fs.append" && kindOfFile(f) == "manifest" && len(ev.Args) > 1 {
				if n, ok := ev.Args[1].(int); ok && n <= len(data) {
					line["cs"] = decodeChangeSets(data[len(data)-n:])
				}
			}
			if point == "fs.create" && kindOfFile(f) == "rewrite" && len(data) >= 8 {
				line["cs"] = decodeChangeSets(data[8:])
			}
		}
	}
	switch point {
	case "flush.table", "flush.published":
		if id, ok := ev.Args[0].(uint64); ok {
			line["id"] = int(id)
		}
	case "compact.manifest":
		nw, _ := ev.Args[2].([]uint64)
		top, _ := ev.Args[3].([]uint64)
		bot, _ := ev.Args[4].([]uint64)
		line["ids"] = append([]uint64{}, nw...)
		line["ids2"] = append(append([]uint64{}, top...), bot...)
	case "mem.put":
		if k, ok := ev.Args[0].([]byte); ok && len(k) >= 8 {
			line["kind"] = "put"
			if ev.Args[1].(byte)&badger.VerifBitFinTxn != 0 {
				line["kind"] = "fin"
			}
		}
	}
	r.trace = append(r.trace, line)

	// ---- cache layer bookkeeping (object identities)
	switch point {
	case "fs.create":
		f := base(ev.Args[0])
		if _, ok := cur[f]; ok {
			r.nextObj++
			r.nameObj[f] = r.nextObj
			r.durDirL[f] = r.nextObj
		}
	case "fs.rename":
		a, b := base(ev.Args[0]), base(ev.Args[1])
		if o, ok := r.nameObj[a]; ok {
			r.nameObj[b] = o
			delete(r.nameObj, a)
		}
	}
	for n := range cur {
		if _, ok := r.nameObj[n]; !ok { // creation without a hook (LOCK, DISCARD, ...)
			r.nextObj++
			r.nameObj[n] = r.nextObj
			r.durDirL[n] = r.nextObj
		}
	}
	for n := range r.nameObj {
		if _, ok := cur[n]; !ok {
			delete(r.nameObj, n)
		}
	}
	for n, o := range r.nameObj {
		r.objSize[o] = sizes[n]
	}
	switch point {
	case "fs.sync", "fs.close": // MmapFile.Close msyncs before unmapping
		f := base(ev.Args[0])
		if o, ok := r.nameObj[f]; ok {
			r.durCont[o] = cur[f]
		}
	case "fs.syncdir":
		r.durDir = copyMap(r.nameObj)
		r.durDirL = copyMap(r.nameObj)
	}

	if r.killAt > 0 {
		if r.n == r.killAt {
			fmt.Fprintf(r.ackLog, "kill %d %s %d %v %d %d\n", r.n, point, r.op, r.inop, r.done, r.occ[point])
			r.ackLog.Sync()
			os.Exit(137)
		}
		return
	}

	// ---- kill image: the directory as it is (page cache survives a process kill)
	torn := 0
	if point == "fs.append" && len(ev.Args) > 1 && base(ev.Args[0]) == "MANIFEST" {
		if n, ok := ev.Args[1].(int); ok {
			torn = n
		}
	}
	r.addImageT("kill", point, cur, "", torn)
	// MmapFile.Delete is ftruncate(0) followed by unlink with no hook in between (the code
	// lives in ristretto): synthesise the intermediate state.
	if point == "fs.remove" && r.prev != nil {
		f := base(ev.Args[0])
		if _, had := r.prev[f]; had {
			if _, still := cur[f]; !still && kindOfFile(f) != "other" {
				m := copyMap(cur)
				m[f] = r.store.put(0, nil)
				r.addImage("kill-trunc0", point, m, "state between ftruncate(0) and unlink of "+f)
			}
		}
	}
	r.prev = cur

	// ---- power-loss images (only meaningful with SyncWrites)
	if r.c.Sync {
		objName := map[int]string{}
		for n, o := range r.nameObj {
			objName[o] = n
		}
		build := func(dir map[string]int, mode string) map[string]int {
			m := map[string]int{}
			for n, o := range dir {
				// files outside the modelled protocol (KEYREGISTRY is written with O_DSYNC,
				// LOCK and DISCARD carry no data the properties talk about): current content
				if kindOfFile(n) == "other" {
					if cn, ok := objName[o]; ok {
						m[n] = cur[cn]
					} else {
						m[n] = r.store.put(0, nil)
					}
					continue
				}
				if b, ok := r.durCont[o]; ok && mode != "content" {
					m[n] = b
					continue
				}
				switch mode {
				case "content":
					if cn, ok := objName[o]; ok {
						m[n] = cur[cn]
					} else if b, ok := r.durCont[o]; ok {
						m[n] = b
					} else {
						m[n] = r.store.put(r.objSize[o], nil)
					}
				case "zero":
					m[n] = r.store.put(r.objSize[o], nil)
				case "empty":
					m[n] = r.store.put(0, nil)
				}
			}
			return m
		}
		r.addImage("pl-zero", point, build(r.durDir, "zero"), "")
		r.addImage("pl-empty", point, build(r.durDir, "empty"), "")
		r.addImage("pl-content", point, build(r.durDir, "content"), "")
		r.addImage("pl-zero-L", point, build(r.durDirL, "zero"), "")
		r.addImage("pl-empty-L", point, build(r.durDirL, "empty"), "")
		r.addImage("pl-content-L", point, build(r.durDirL, "content"), "")
	}
}

// decodeChangeSets parses [len crc payload]* records into a flat list of changes.
func decodeChangeSets(b []byte) []map[string]interface{} {
	out := []map[string]interface{}{}
	for len(b) >= 8 {
		n := int(uint32(b[0])<<24 | uint32(b[1])<<16 | uint32(b[2])<<8 | uint32(b[3]))
		if 8+n > len(b) {
			break
		}
		var cs pb.ManifestChangeSet
		if err := proto.Unmarshal(b[8:8+n], &cs); err != nil {
			break
		}
		for _, c := range cs.Changes {
			op := "delete"
			if c.Op == pb.ManifestChange_CREATE {
				op = "create"
			}
			out = append(out, map[string]interface{}{"op": op, "id": int(c.Id), "lvl": int(c.Level)})
		}
		b = b[8+n:]
	}
	return out
}

// relevant selects the hook points that belong to the persistence procedures. Oracle and
// watermark hooks fire on other goroutines (the watermark processors) and touch no file;
// leaving them out keeps the event numbering deterministic.
func relevant(point string) bool {
	for _, p := range []string{"fs.", "mem.", "writer.", "flush.", "compact.", "gc.", "vlog.", "dropAll.",
		"dropPrefix.", "drop.", "close.", "level.", "op.", "reopen."} {
		if strings.HasPrefix(point, p) {
			return true
		}
	}
	return false
}

func (r *runner) pseudo(point string) {
	r.onEvent(vh.Event{Kind: 'E', Point: point})
}

// ---------------------------------------------------------------------------- workload driver

func (r *runner) open() error {
	db, err := badger.Open(dbOptions(r.dir, r.c.Sync, r.enc))
	if err != nil {
		return err
	}
	r.db = db
	return nil
}

func (r *runner) drainFlusher() error {
	deadline := time.Now().Add(300 * time.Second)
	for r.db.VerifNumImm() > 0 {
		n := r.db.VerifNumImm()
		if !r.gate.WaitParked(1, 120*time.Second) {
			return fmt.Errorf("flusher did not reach flush.start")
		}
		r.gate.Release(nil)
		for r.db.VerifNumImm() >= n {
			if time.Now().After(deadline) {
				return fmt.Errorf("flush did not finish")
			}
			time.Sleep(200 * time.Microsecond)
		}
	}
	return nil
}

func (r *runner) exec(o Op) (uint64, error) {
	db := r.db
	switch o.Op {
	case "commit":
		txn := db.NewTransaction(true)
		defer txn.Discard()
		for _, w := range o.W {
			var err error
			if w.Del {
				err = txn.Delete(keyOf(w.K))
			} else {
				err = txn.Set(keyOf(w.K), valueOf(w.V, w.Big))
			}
			if err != nil {
				return 0, err
			}
		}
		if err := txn.Commit(); err != nil {
			return 0, err
		}
		return db.MaxVersion(), nil
	case "multi":
		// The first transaction is held in the writer (gate writer.batch) while the others are
		// enqueued one after the other by their own goroutines; when the gate opens the writer
		// finds them all in writeCh and writes them as ONE batch (writeRequests(reqs), len > 1).
		wb := r.rec.Arm("writer.batch", nil)
		r.enq = make(chan struct{}, len(o.Txs))
		errs := make(chan error, len(o.Txs))
		// all transactions start before the first one commits (a transaction started later would
		// wait in readTs for the commit that is being held in the writer)
		txns := make([]*badger.Txn, len(o.Txs))
		for i, ws := range o.Txs {
			txns[i] = db.NewTransaction(true)
			defer txns[i].Discard()
			for _, w := range ws {
				if err := txns[i].Set(keyOf(w.K), valueOf(w.V, w.Big)); err != nil {
					return 0, err
				}
			}
		}
		commit := func(i int) { errs <- txns[i].Commit() }
		for i := range o.Txs {
			go commit(i)
			select {
			case <-r.enq:
			case <-time.After(120 * time.Second):
				return 0, fmt.Errorf("multi: transaction %d was not enqueued", i)
			}
			if i == 0 && !wb.WaitParked(1, 120*time.Second) {
				return 0, fmt.Errorf("multi: writer did not reach writer.batch")
			}
		}
		wb.Disarm()
		for range o.Txs {
			if err := <-errs; err != nil {
				return 0, err
			}
		}
		r.enq = nil
		return db.MaxVersion(), nil
	case "batch":
		wb := db.NewWriteBatch()
		defer wb.Cancel()
		for _, w := range o.W {
			var err error
			if w.Del {
				err = wb.Delete(keyOf(w.K))
			} else {
				err = wb.Set(keyOf(w.K), valueOf(w.V, w.Big))
			}
			if err != nil {
				return 0, err
			}
		}
		if err := wb.Flush(); err != nil {
			return 0, err
		}
		return db.MaxVersion(), nil
	case "rotate":
		n := r.gate.NumParked()
		ok, err := db.VerifRotate()
		if ok && err == nil {
			// the flusher picks the memtable up at once and parks at its gate: wait for it, so
			// that its flush.start event always falls inside this operation
			r.gate.WaitParked(n+1, 120*time.Second)
		}
		return 0, err
	case "flush":
		if _, err := db.VerifRotate(); err != nil {
			return 0, err
		}
		return 0, r.drainFlusher()
	case "compactL0":
		err := db.VerifDoCompact(1, 0, 1.0, 1.0)
		if err == badger.ErrVerifNoFill {
			err = nil
		}
		return 0, err
	case "compactDown":
		tabs := db.VerifTables()
		for lvl := 1; lvl < len(tabs)-1; lvl++ {
			if len(tabs[lvl]) == 0 {
				continue
			}
			err := db.VerifDoCompact(1, lvl, 1.0, 1.0)
			if err == badger.ErrVerifNoFill {
				err = nil
			}
			return 0, err
		}
		return 0, nil
	case "gc":
		fids, _, maxFid := db.VerifVlogFids()
		for _, f := range fids {
			if f < maxFid {
				return 0, db.VerifRewrite(f)
			}
		}
		return 0, nil
	case "dropAll":
		r.gate.Disarm()
		err := db.DropAll()
		r.gate = r.rec.Arm("flush.start", nil)
		return 0, err
	case "dropPrefix":
		r.gate.Disarm()
		err := db.DropPrefix([]byte(groupPrefix[o.G]))
		r.gate = r.rec.Arm("flush.start", nil)
		return 0, err
	case "reopen":
		r.gate.Disarm()
		if err := db.Close(); err != nil {
			return 0, fmt.Errorf("close: %v", err)
		}
		r.pseudo("reopen.closed")
		r.gate = r.rec.Arm("flush.start", nil)
		if err := r.open(); err != nil {
			return 0, fmt.Errorf("open: %v", err)
		}
		return 0, r.drainFlusher()
	}
	return 0, fmt.Errorf("unknown op %q", o.Op)
}

func (r *runner) run() error {
	r.rec = vh.Install(false)
	r.rec.OnEvent = r.onEvent
	r.gate = r.rec.Arm("flush.start", nil)
	r.on = true
	r.op, r.inop, r.done = -1, true, 0
	if err := r.open(); err != nil {
		return fmt.Errorf("initial open: %v", err)
	}
	r.mu.Lock()
	r.inop = false
	r.mu.Unlock()
	r.pseudo("op.done")
	for i, o := range r.c.Ops {
		r.mu.Lock()
		r.op, r.inop = i, true
		r.mu.Unlock()
		r.pseudo("op.start")
		ts, err := r.exec(o)
		if err != nil {
			return fmt.Errorf("op %d (%s): %v", i, o.Op, err)
		}
		lv := visibleOf(r.db, 6)
		r.mu.Lock()
		r.inop = false
		r.done = i + 1
		r.commTs = append(r.commTs, ts)
		r.live = append(r.live, lv)
		if r.ackLog != nil {
			fmt.Fprintf(r.ackLog, "done %d %d\n", i, ts)
		}
		r.mu.Unlock()
		r.pseudo("op.done")
	}
	r.mu.Lock()
	r.on = false
	r.mu.Unlock()
	return nil
}

func newRunner(c Case, dir string, enc bool) *runner {
	return &runner{c: c, enc: enc, dir: dir, store: blobStore{index: map[[20]byte]int{}},
		imgIndex: map[string]int{}, nameObj: map[string]int{}, objSize: map[int]int64{},
		durCont: map[int]int{}, durDir: map[string]int{}, durDirL: map[string]int{}, nkinds: map[string]int{}}
}

func readCase(path string) Case {
	b, err := os.ReadFile(path)
	if err != nil {
		vh.Fatalf("read case: %v", err)
	}
	var c Case
	if err := json.Unmarshal(b, &c); err != nil {
		vh.Fatalf("parse case: %v", err)
	}
	heavy = c.Heavy
	return c
}

func cmdRun(args []string) {
	fs := flag.NewFlagSet("run", flag.ExitOnError)
	casePath := fs.String("case", "", "case file")
	out := fs.String("out", "", "output directory")
	enc := fs.Bool("enc", false, "encrypted DB")
	fs.Parse(args)
	c := readCase(*casePath)
	dir := filepath.Join(*out, "db")
	if err := os.MkdirAll(dir, 0o755); err != nil {
		vh.Fatalf("mkdir: %v", err)
	}
	r := newRunner(c, dir, *enc)
	t0 := time.Now()
	if err := r.run(); err != nil {
		vh.Fatalf("workload: %v", err)
	}
	set := ImageSet{Enc: *enc, Sync: c.Sync, Heavy: c.Heavy, Blobs: r.store.blobs, Images: r.images}
	f, err := os.Create(filepath.Join(*out, "images.gob"))
	if err != nil {
		vh.Fatalf("create: %v", err)
	}
	if err := gob.NewEncoder(f).Encode(&set); err != nil {
		vh.Fatalf("gob: %v", err)
	}
	f.Close()
	if err := vh.WriteNDJSON(filepath.Join(*out, "trace.ndjson"), r.trace); err != nil {
		vh.Fatalf("trace: %v", err)
	}
	type imgMeta struct {
		Evs    []int    `json:"evs"`
		Points []string `json:"points"`
		Kinds  []string `json:"kinds"`
		Op     int      `json:"op"`
		InOp   bool     `json:"inop"`
		Done   int      `json:"done"`
		ManApp int      `json:"manApp"`
		Torn   int      `json:"torn"`
		Note   string   `json:"note"`
		Files  []string `json:"files"`
	}
	metas := make([]imgMeta, len(r.images))
	for i, im := range r.images {
		var fl []string
		for _, fr := range im.Files {
			fl = append(fl, fmt.Sprintf("%s:%d", fr.Name, r.store.blobs[fr.Blob].Size))
		}
		metas[i] = imgMeta{im.Evs, im.Points, im.Kinds, im.Op, im.InOp, im.Done, im.ManApp, im.Torn, im.Note, fl}
	}
	meta := map[string]interface{}{"events": r.n, "images": metas, "commitTs": r.commTs, "live": r.live,
		"kinds": r.nkinds, "wall_ms": time.Since(t0).Milliseconds(), "blobs": len(r.store.blobs)}
	b, _ := json.Marshal(meta)
	if err := os.WriteFile(filepath.Join(*out, "run.json"), b, 0o644); err != nil {
		vh.Fatalf("run.json: %v", err)
	}
	os.Exit(0) // the DB is deliberately not closed
}

func cmdKillRun(args []string) {
	fs := flag.NewFlagSet("killrun", flag.ExitOnError)
	casePath := fs.String("case", "", "case file")
	dbdir := fs.String("dbdir", "", "database directory")
	acklog := fs.String("acklog", "", "acknowledgement log (outside the DB directory)")
	killAt := fs.Int("killat", 0, "event number at which the process exits")
	enc := fs.Bool("enc", false, "encrypted DB")
	fs.Parse(args)
	c := readCase(*casePath)
	if err := os.MkdirAll(*dbdir, 0o755); err != nil {
		vh.Fatalf("mkdir: %v", err)
	}
	r := newRunner(c, *dbdir, *enc)
	r.killAt = *killAt
	f, err := os.Create(*acklog)
	if err != nil {
		vh.Fatalf("acklog: %v", err)
	}
	r.ackLog = f
	if err := r.run(); err != nil {
		vh.Fatalf("workload: %v", err)
	}
	fmt.Fprintf(f, "end %d\n", r.n)
	f.Close()
	os.Exit(0)
}

// ---------------------------------------------------------------------------- observation

type Ver struct {
	K    int    `json:"k"` // model key index, -1 = foreign key
	Key  string `json:"key"`
	Ts   uint64 `json:"ts"`
	Del  bool   `json:"del"`
	V    int    `json:"v"`
	Ok   bool   `json:"ok"` // value bytes are exactly a generated value
	Err  string `json:"err"`
	Meta byte   `json:"meta"`
}

type Obs struct {
	Img        int      `json:"img"`
	OpenErr    string   `json:"openErr"`
	Dump       []Ver    `json:"dump"`
	GetDiff    []string `json:"getDiff"`   // point reads that disagree with the iterator
	Manifest   []uint64 `json:"manifest"`  // table ids of the MANIFEST after Open
	Ssts       []uint64 `json:"ssts"`      // .sst files in the directory after Open
	Validate   string   `json:"validate"`  // error of the level validation
	MaxTs      uint64   `json:"maxTs"`     // largest version in the dump
	ProbeTs    uint64   `json:"probeTs"`   // version of one more committed write
	ProbeErr   string   `json:"probeErr"`
	CloseErr   string   `json:"closeErr"`
	Reopen2Err string   `json:"reopen2Err"`
	Reopen2Eq  bool     `json:"reopen2Eq"`
	OpenMs     int64    `json:"openMs"`
}

func dumpAll(db *badger.DB) ([]Ver, uint64) {
	txn := db.NewTransaction(false)
	defer txn.Discard()
	o := badger.DefaultIteratorOptions
	o.AllVersions = true
	it := txn.NewIterator(o)
	defer it.Close()
	var out []Ver
	var max uint64
	for it.Rewind(); it.Valid(); it.Next() {
		i := it.Item()
		v := Ver{K: keyIndex(i.Key()), Key: string(i.Key()), Ts: i.Version(), Del: i.IsDeletedOrExpired(), Meta: i.UserMeta()}
		if !v.Del {
			b, err := i.ValueCopy(nil)
			if err != nil {
				v.Err = err.Error()
			} else {
				v.V, v.Ok = parseVal(b)
				if !v.Ok {
					v.Err = fmt.Sprintf("unexpected value bytes %q", trunc(b))
				}
			}
		}
		if v.Ts > max {
			max = v.Ts
		}
		out = append(out, v)
	}
	return out, max
}

func trunc(b []byte) string {
	if len(b) > 40 {
		return string(b[:40]) + "..."
	}
	return string(b)
}

func dumpKey(vs []Ver) string {
	var sb strings.Builder
	for _, v := range vs {
		if v.Key == probeKey {
			continue
		}
		fmt.Fprintf(&sb, "%q@%d del=%v v=%d e=%s;", v.Key, v.Ts, v.Del, v.V, v.Err)
	}
	return sb.String()
}

func observe(dir string, enc, reopen2 bool) (o Obs) {
	defer func() {
		if p := recover(); p != nil {
			o.OpenErr = fmt.Sprintf("PANIC: %v", p)
		}
	}()
	t0 := time.Now()
	db, err := badger.Open(dbOptions(dir, false, enc))
	o.OpenMs = time.Since(t0).Milliseconds()
	if err != nil {
		o.OpenErr = err.Error()
		return
	}
	// let the flusher drain recovered memtables (as a real restart would)
	for i := 0; db.VerifNumImm() > 0 && i < 20000; i++ {
		time.Sleep(200 * time.Microsecond)
	}
	o.Dump, o.MaxTs = dumpAll(db)
	// point reads must agree with the iterator
	top := map[string]Ver{}
	for _, v := range o.Dump {
		if _, ok := top[v.Key]; !ok {
			top[v.Key] = v
		}
	}
	txn := db.NewTransaction(false)
	for k, v := range top {
		it, err := txn.Get([]byte(k))
		switch {
		case err == badger.ErrKeyNotFound:
			if !v.Del {
				o.GetDiff = append(o.GetDiff, fmt.Sprintf("%q: iterator has version %d, Get says not found", k, v.Ts))
			}
		case err != nil:
			o.GetDiff = append(o.GetDiff, fmt.Sprintf("%q: Get error %v", k, err))
		default:
			if v.Del || it.Version() != v.Ts {
				o.GetDiff = append(o.GetDiff, fmt.Sprintf("%q: iterator top %d del=%v, Get version %d", k, v.Ts, v.Del, it.Version()))
			}
		}
	}
	txn.Discard()
	// C14: MANIFEST table set == .sst files; level validation
	for id := range db.VerifManifestTables() {
		o.Manifest = append(o.Manifest, id)
	}
	sort.Slice(o.Manifest, func(i, j int) bool { return o.Manifest[i] < o.Manifest[j] })
	ents, _ := os.ReadDir(dir)
	for _, e := range ents {
		if strings.HasSuffix(e.Name(), ".sst") {
			o.Ssts = append(o.Ssts, uint64(fileID(e.Name())))
		}
	}
	sort.Slice(o.Ssts, func(i, j int) bool { return o.Ssts[i] < o.Ssts[j] })
	if err := db.VerifValidateLevels(); err != nil {
		o.Validate = err.Error()
	}
	// C11: one more commit gets a version above everything stored, and is readable
	err = db.Update(func(t *badger.Txn) error { return t.Set([]byte(probeKey), []byte("probe")) })
	if err != nil {
		o.ProbeErr = err.Error()
	} else {
		err = db.View(func(t *badger.Txn) error {
			it, err := t.Get([]byte(probeKey))
			if err != nil {
				return err
			}
			o.ProbeTs = it.Version()
			b, err := it.ValueCopy(nil)
			if err == nil && string(b) != "probe" {
				err = fmt.Errorf("probe value %q", b)
			}
			return err
		})
		if err != nil {
			o.ProbeErr = err.Error()
		}
	}
	if reopen2 {
		// keep using the recovered files: flush (a MANIFEST append lands behind whatever Open
		// left in the MANIFEST) before closing, then open once more
		if err := db.VerifFlush(); err != nil {
			o.Reopen2Err = "flush: " + err.Error()
		}
	}
	if err := db.Close(); err != nil {
		o.CloseErr = err.Error()
	}
	if reopen2 {
		db2, err := badger.Open(dbOptions(dir, false, enc))
		if err != nil {
			o.Reopen2Err = err.Error()
			return
		}
		d2, _ := dumpAll(db2)
		o.Reopen2Eq = dumpKey(d2) == dumpKey(o.Dump)
		if !o.Reopen2Eq && o.Reopen2Err == "" {
			o.Reopen2Err = "state after a further flush, close and re-open differs: " + trunc([]byte(dumpKey(d2))) + " vs " + trunc([]byte(dumpKey(o.Dump)))
		}
		if err := db2.Close(); err != nil {
			o.Reopen2Err = "close: " + err.Error()
		}
	}
	return
}

func materialise(set *ImageSet, im *Image, dir string) error {
	for _, fr := range im.Files {
		b := set.Blobs[fr.Blob]
		f, err := os.Create(filepath.Join(dir, fr.Name))
		if err != nil {
			return err
		}
		if len(b.Data) > 0 {
			if _, err := f.Write(b.Data); err != nil {
				return err
			}
		}
		if err := f.Truncate(b.Size); err != nil {
			return err
		}
		if err := f.Close(); err != nil {
			return err
		}
	}
	return nil
}

func cmdCheck(args []string) {
	fs := flag.NewFlagSet("check", flag.ExitOnError)
	images := fs.String("images", "", "images.gob")
	list := fs.String("list", "", "comma separated image indexes (default all)")
	reopen2 := fs.Bool("reopen2", false, "close and re-open once more, compare dumps")
	keep := fs.String("keep", "", "materialise the single listed image here and keep it")
	fs.Parse(args)
	f, err := os.Open(*images)
	if err != nil {
		vh.Fatalf("open images: %v", err)
	}
	var set ImageSet
	if err := gob.NewDecoder(f).Decode(&set); err != nil {
		vh.Fatalf("decode: %v", err)
	}
	f.Close()
	heavy = set.Heavy
	var idx []int
	if *list == "" {
		for i := range set.Images {
			idx = append(idx, i)
		}
	} else {
		for _, s := range strings.Split(*list, ",") {
			n, err := strconv.Atoi(s)
			if err != nil || n < 0 || n >= len(set.Images) {
				vh.Fatalf("bad image index %q", s)
			}
			idx = append(idx, n)
		}
	}
	enc := json.NewEncoder(os.Stdout)
	for _, i := range idx {
		fmt.Printf("{\"begin\":%d}\n", i)
		var dir string
		if *keep != "" {
			dir = *keep
			os.MkdirAll(dir, 0o755)
		} else {
			dir, err = os.MkdirTemp("", "crashimg-")
			if err != nil {
				vh.Fatalf("mkdtemp: %v", err)
			}
		}
		if err := materialise(&set, &set.Images[i], dir); err != nil {
			vh.Fatalf("materialise: %v", err)
		}
		if *keep != "" {
			return
		}
		o := observe(dir, set.Enc, *reopen2)
		o.Img = i
		enc.Encode(o)
		os.RemoveAll(dir)
	}
}

// cmdTorn: C09 for the MANIFEST. For a kill image taken at an fs.append of the MANIFEST (the
// directory exactly as it is when that change set has just been written), cut the appended
// record at EVERY byte (rest missing / zero-filled to the original length), re-open.
func cmdTorn(args []string) {
	fs := flag.NewFlagSet("torn", flag.ExitOnError)
	images := fs.String("images", "", "images.gob")
	list := fs.String("list", "", "comma separated image indexes")
	fs.Parse(args)
	f, err := os.Open(*images)
	if err != nil {
		vh.Fatalf("open images: %v", err)
	}
	var set ImageSet
	if err := gob.NewDecoder(f).Decode(&set); err != nil {
		vh.Fatalf("decode: %v", err)
	}
	f.Close()
	heavy = set.Heavy
	enc := json.NewEncoder(os.Stdout)
	for _, s := range strings.Split(*list, ",") {
		i, err := strconv.Atoi(s)
		if err != nil || i < 0 || i >= len(set.Images) || set.Images[i].Torn == 0 {
			vh.Fatalf("bad image index %q", s)
		}
		im := set.Images[i]
		var files []vh.FileImage
		var man vh.FileImage
		for _, fr := range im.Files {
			b := set.Blobs[fr.Blob]
			fi := vh.FileImage{Name: fr.Name, Size: b.Size, Data: b.Data}
			if fr.Name == "MANIFEST" {
				man = fi
			} else if fr.Name != "LOCK" {
				files = append(files, fi)
			}
		}
		start := man.Size - int64(im.Torn)
		for x := start; x < man.Size; x++ {
			for _, fill := range []string{"trunc", "zero"} {
				dir, err := os.MkdirTemp("", "torn-")
				if err != nil {
					vh.Fatalf("mkdtemp: %v", err)
				}
				if err := vh.WriteDirImage(dir, append(append([]vh.FileImage{}, files...), vh.CutFile(man, x, man.Size, fill))); err != nil {
					vh.Fatalf("write: %v", err)
				}
				o := observe(dir, set.Enc, true)
				o.Img = i
				os.RemoveAll(dir)
				enc.Encode(map[string]interface{}{"obs": o, "x": x, "rel": x - start, "fill": fill, "len": im.Torn})
			}
		}
	}
}

func cmdCheckDir(args []string) {
	fs := flag.NewFlagSet("checkdir", flag.ExitOnError)
	dir := fs.String("dir", "", "directory")
	enc := fs.Bool("enc", false, "encrypted")
	hv := fs.Bool("heavy", false, "heavy workload (3000-byte inline values)")
	fs.Parse(args)
	heavy = *hv
	o := observe(*dir, *enc, false)
	json.NewEncoder(os.Stdout).Encode(o)
}

// cmdGCRace replays the counterexample TLC finds for Disk with GCSafe = FALSE: value-log GC
// scans a just-rotated file while the request that filled it sits between vlog.write and
// writeToLSM; its entries are not yet in the LSM tree, look like garbage, the file is deleted
// and the acknowledged commit's values are gone.
func cmdGCRace(args []string) {
	dir, err := os.MkdirTemp("", "gcrace-")
	if err != nil {
		vh.Fatalf("mkdtemp: %v", err)
	}
	defer os.RemoveAll(dir)
	rec := vh.Install(false)
	db, err := badger.Open(dbOptions(dir, false, false))
	if err != nil {
		vh.Fatalf("open: %v", err)
	}
	gate := rec.Arm("mem.beforePut", nil)
	done := make(chan error, 1)
	go func() {
		txn := db.NewTransaction(true)
		defer txn.Discard()
		for k := 1; k <= 3; k++ { // 3 big values > ValueLogMaxEntries = 2: the request rotates the value log
			if err := txn.Set(keyOf(k), valueOf(1, true)); err != nil {
				done <- err
				return
			}
		}
		done <- txn.Commit()
	}()
	if !gate.WaitParked(1, 10*time.Second) {
		vh.Fatalf("writer did not reach mem.beforePut")
	}
	fids, _, maxFid := db.VerifVlogFids()
	res := map[string]interface{}{"fidsBefore": fids, "maxFid": maxFid}
	var gcErr error
	if len(fids) > 1 {
		gcErr = db.VerifRewrite(fids[0])
	}
	res["gcErr"] = fmt.Sprint(gcErr)
	gate.Disarm()
	err = <-done
	res["commitErr"] = fmt.Sprint(err)
	fids, _, _ = db.VerifVlogFids()
	res["fidsAfter"] = fids
	var reads []string
	db.View(func(txn *badger.Txn) error {
		for k := 1; k <= 3; k++ {
			it, err := txn.Get(keyOf(k))
			if err != nil {
				reads = append(reads, fmt.Sprintf("k%d: Get error %v", k, err))
				continue
			}
			b, err := it.ValueCopy(nil)
			_, ok := parseVal(b)
			reads = append(reads, fmt.Sprintf("k%d: len=%d ok=%v err=%v", k, len(b), ok, err))
		}
		return nil
	})
	res["reads"] = reads
	json.NewEncoder(os.Stdout).Encode(res)
	db.Close()
}

// cmdDropWriters replays "race" cases of DiskGen: the workload prefix is executed, then one
// transaction passes the blockWrites test of sendToWriteCh and is parked at the gate
// send.beforeChan; DropAll / DropPrefix is started and the transaction is released at a
// chosen step of the drop. Observations (commit / drop results, visible state, state after a
// further write and after re-open) are printed; the allowed outcomes (the two
// serialisations) come with the case.
func cmdDropWriters(args []string) {
	fs := flag.NewFlagSet("dropwriters", flag.ExitOnError)
	casesPath := fs.String("cases", "", "NDJSON of race cases")
	only := fs.String("only", "", "run just <case index>:<release point> (one schedule per process)")
	list := fs.Bool("list", false, "print the schedules (case:release), run nothing")
	fs.Parse(args)
	releases := map[string][]string{
		"raceAll":    {"immediately", "drop.blocked", "drop.prepared", "dropAll.memtablesRemoved", "dropAll.treeDropped", "dropAll.vlogDropped", "afterReturn"},
		// DropPrefix opens a read transaction (filterPrefixesToDrop) right after prepareToDrop: it
		// waits for the parked transaction's commit timestamp, so later release points do not exist
		"racePrefix": {"immediately", "drop.blocked", "drop.prepared"},
	}
	enc := json.NewEncoder(os.Stdout)
	ci := -1
	err := vh.ReadNDJSON(*casesPath, func(line []byte) error {
		ci++
		var c Case
		if err := json.Unmarshal(line, &c); err != nil {
			return err
		}
		last := c.Ops[len(c.Ops)-1]
		for _, rel := range releases[last.Op] {
			id := fmt.Sprintf("%d:%s", ci, rel)
			if *list {
				fmt.Println(id)
				continue
			}
			if *only != "" && *only != id {
				continue
			}
			res := runRace(c, rel)
			res["case"], res["release"], res["drop"] = ci, rel, last.Op
			enc.Encode(res)
		}
		return nil
	})
	if err != nil {
		vh.Fatalf("dropwriters: %v", err)
	}
}

func visibleOf(db *badger.DB, nkeys int) []int {
	dump, _ := dumpAll(db)
	rv := make([]int, nkeys)
	seen := map[int]bool{}
	for _, v := range dump {
		if v.K < 1 || v.K > nkeys || seen[v.K] {
			continue
		}
		seen[v.K] = true
		switch {
		case v.Del:
			rv[v.K-1] = 0
		case v.Err != "":
			rv[v.K-1] = -1
		default:
			rv[v.K-1] = v.V
		}
	}
	return rv
}

func runRace(c Case, release string) map[string]interface{} {
	res := map[string]interface{}{}
	dir, err := os.MkdirTemp("", "race-")
	if err != nil {
		vh.Fatalf("mkdtemp: %v", err)
	}
	defer os.RemoveAll(dir)
	r := newRunner(Case{Sync: c.Sync, Ops: c.Ops[:len(c.Ops)-1]}, dir, false)
	r.rec = vh.Install(false)
	r.gate = r.rec.Arm("flush.start", nil)
	if err := r.open(); err != nil {
		vh.Fatalf("open: %v", err)
	}
	for i, o := range r.c.Ops {
		if _, err := r.exec(o); err != nil {
			vh.Fatalf("op %d (%s): %v", i, o.Op, err)
		}
	}
	r.gate.Disarm()
	db := r.db
	race := c.Ops[len(c.Ops)-1]
	nkeys := 4
	wg := r.rec.Arm("send.beforeChan", nil)
	commitDone := make(chan error, 1)
	go func() {
		txn := db.NewTransaction(true)
		defer txn.Discard()
		for _, w := range race.W {
			if err := txn.Set(keyOf(w.K), valueOf(w.V, w.Big)); err != nil {
				commitDone <- err
				return
			}
		}
		commitDone <- txn.Commit()
	}()
	if !wg.WaitParked(1, 10*time.Second) {
		vh.Fatalf("writer did not reach send.beforeChan")
	}
	var once sync.Once
	fire := func() { once.Do(func() { wg.Disarm() }) }
	r.rec.OnEvent = func(ev vh.Event) {
		if ev.Point == release {
			fire()
		}
	}
	if release == "immediately" {
		fire()
		time.Sleep(2 * time.Millisecond)
	}
	var dropErr error
	dropDone := make(chan error, 1)
	go func() {
		if race.Op == "raceAll" {
			dropDone <- db.DropAll()
		} else {
			dropDone <- db.DropPrefix([]byte(groupPrefix[race.G]))
		}
	}()
	select {
	case dropErr = <-dropDone:
	case <-time.After(8 * time.Second):
		// neither the drop nor (necessarily) the commit return: report and leave the process
		res["bad"] = "deadlock"
		select {
		case e := <-commitDone:
			res["commitErr"] = errStr(e)
			res["commitReturned"] = true
		default:
			res["commitReturned"] = false
		}
		return res
	}
	fire() // afterReturn (and safety net)
	var commitErr error
	select {
	case commitErr = <-commitDone:
	case <-time.After(8 * time.Second):
		res["bad"] = "commit-never-returned"
		return res
	}
	r.rec.OnEvent = nil
	res["dropErr"], res["commitErr"] = errStr(dropErr), errStr(commitErr)
	res["rv"] = visibleOf(db, nkeys)
	// the database keeps accepting writes
	perr := db.Update(func(t *badger.Txn) error { return t.Set([]byte(probeKey), []byte("probe")) })
	res["postWriteErr"] = errStr(perr)
	if err := db.Close(); err != nil {
		res["closeErr"] = err.Error()
		return res
	}
	y := vh.Install(false)
	_ = y
	db2, err := badger.Open(dbOptions(dir, false, false))
	if err != nil {
		res["reopenErr"] = err.Error()
		return res
	}
	res["reopenRv"] = visibleOf(db2, nkeys)
	db2.Close()
	return res
}

func errStr(err error) string {
	if err == nil {
		return ""
	}
	return err.Error()
}

func main() {
	if len(os.Args) < 2 {
		vh.Fatalf("usage: crashfs run|check|killrun|checkdir ...")
	}
	switch os.Args[1] {
	case "run":
		cmdRun(os.Args[2:])
	case "check":
		cmdCheck(os.Args[2:])
	case "killrun":
		cmdKillRun(os.Args[2:])
	case "checkdir":
		cmdCheckDir(os.Args[2:])
	case "torn":
		cmdTorn(os.Args[2:])
	case "gcrace":
		cmdGCRace(os.Args[2:])
	case "dropwriters":
		cmdDropWriters(os.Args[2:])
	default:
		vh.Fatalf("unknown mode %q", os.Args[1])
	}
}
