// drive runs a seeded concurrent workload on a real DB (with background flush,
// compaction and optional value-log GC) with the verif recorder installed and writes the
// recorded events as NDJSON traces for TLC trace validation:
//
//	-oracle <file>   commit-pipeline events enriched with each transaction's read/write sets
//	                 and observed reads (validated by specs/oracle/OracleTrace.tla)
//	-wm <file>       watermark processing events (validated by specs/oracle/WaterMarkTrace.tla)
package main

import (
	"flag"
	"fmt"
	"math/rand"
	"os"
	"sync"
	"time"

	badger "github.com/dgraph-io/badger/v4"
	"github.com/dgraph-io/badger/v4/y"

	"verifharness/vh"
)

type obs struct {
	K     int    `json:"k"`
	Found bool   `json:"found"`
	Ts    uint64 `json:"ts"`
}

type txnInfo struct {
	reads, writes, dels []int
	obs                 []obs
}

func main() {
	oracleOut := flag.String("oracle", "", "oracle trace output")
	wmOut := flag.String("wm", "", "watermark trace output")
	seed := flag.Int64("seed", 1, "seed")
	ng := flag.Int("g", 8, "goroutines")
	ntx := flag.Int("txns", 100, "transactions per goroutine")
	nkeys := flag.Int("keys", 8, "keys")
	compactors := flag.Int("compactors", 3, "background compactors")
	vlog := flag.Bool("vlog", false, "small value threshold + periodic value log GC")
	flag.Parse()

	dir, err := os.MkdirTemp("", "drive-")
	if err != nil {
		vh.Fatalf("%v", err)
	}
	defer os.RemoveAll(dir)
	o := vh.SmallOptions(dir)
	o.MemTableSize = 48 << 10
	o.BaseTableSize = 32 << 10
	o.BaseLevelSize = 128 << 10
	o.NumCompactors = *compactors
	o.NumLevelZeroTables = 2
	o.NumLevelZeroTablesStall = 6
	o.NumMemtables = 3
	o.ValueThreshold = 1 << 10
	if *vlog {
		o.ValueThreshold = 64
		o.ValueLogMaxEntries = 200
	}
	rec := vh.Install(true)
	db, err := badger.Open(o)
	if err != nil {
		vh.Fatalf("open: %v", err)
	}
	keys := make([][]byte, *nkeys)
	for i := range keys {
		keys[i] = []byte(fmt.Sprintf("key-%02d", i+1))
	}
	kidx := map[string]int{}
	for i, k := range keys {
		kidx[string(k)] = i + 1
	}
	var mu sync.Mutex
	infos := map[int]*txnInfo{}
	var wg sync.WaitGroup
	stopGC := make(chan struct{})
	if *vlog {
		go func() {
			for {
				select {
				case <-stopGC:
					return
				case <-time.After(20 * time.Millisecond):
					_ = db.RunValueLogGC(0.1)
				}
			}
		}()
	}
	for g := 0; g < *ng; g++ {
		wg.Add(1)
		go func(g int) {
			defer wg.Done()
			rng := rand.New(rand.NewSource(*seed*1000 + int64(g)))
			for n := 0; n < *ntx; n++ {
				upd := rng.Intn(10) < 7
				txn := db.NewTransaction(upd)
				id := rec.TxnID(txn)
				info := &txnInfo{}
				nr := rng.Intn(4)
				for i := 0; i < nr; i++ {
					k := rng.Intn(*nkeys)
					item, err := txn.Get(keys[k])
					ob := obs{K: k + 1}
					if err == nil {
						ob.Found, ob.Ts = true, item.Version()
						if _, err := item.ValueCopy(nil); err != nil {
							vh.Fatalf("value: %v", err)
						}
					} else if err != badger.ErrKeyNotFound {
						vh.Fatalf("get: %v", err)
					}
					info.obs = append(info.obs, ob)
					info.reads = append(info.reads, k+1)
					if rng.Intn(8) == 0 {
						time.Sleep(time.Duration(rng.Intn(300)) * time.Microsecond)
					}
				}
				if upd {
					nw := rng.Intn(3)
					seen := map[int]bool{}
					for i := 0; i < nw; i++ {
						k := rng.Intn(*nkeys)
						if seen[k] {
							continue
						}
						seen[k] = true
						if rng.Intn(5) == 0 {
							if err := txn.Delete(keys[k]); err != nil {
								vh.Fatalf("delete: %v", err)
							}
							info.dels = append(info.dels, k+1)
						} else {
							sz := 16 + rng.Intn(200)
							val := make([]byte, sz)
							copy(val, fmt.Sprintf("g%d-n%d-k%d", g, n, k))
							if err := txn.Set(keys[k], val); err != nil {
								vh.Fatalf("set: %v", err)
							}
						}
						info.writes = append(info.writes, k+1)
					}
				}
				mu.Lock()
				infos[id] = info
				mu.Unlock()
				if upd && rng.Intn(10) > 0 {
					if err := txn.Commit(); err != nil && err != badger.ErrConflict {
						vh.Fatalf("commit: %v", err)
					}
				} else {
					txn.Discard()
				}
			}
		}(g)
	}
	wg.Wait()
	close(stopGC)
	if err := db.Close(); err != nil {
		vh.Fatalf("close: %v", err)
	}
	rec.Uninstall()
	evs := rec.Events()
	ints := func(a []int) []int {
		if a == nil {
			return []int{}
		}
		return a
	}
	if *oracleOut != "" {
		want := map[string]bool{"orc.readTs.alloc": true, "orc.readTs.ready": true, "orc.commit.ts": true,
			"orc.commit.conflict": true, "commit.enqueued": true, "commit.rejected": true, "mem.put": true,
			"orc.doneCommit": true, "orc.doneRead": true}
		lines := []map[string]interface{}{{"ev": "reset", "seed": *seed}}
		for _, ev := range evs {
			if !want[ev.Point] {
				continue
			}
			m := map[string]interface{}{"ev": ev.Point, "seq": ev.Seq}
			switch ev.Point {
			case "orc.readTs.alloc", "orc.readTs.ready":
				m["readTs"] = ev.Args[0]
			case "orc.commit.ts", "orc.commit.conflict":
				id := rec.TxnID(ev.Args[0].(*badger.Txn))
				info := infos[id]
				if info == nil {
					continue // internal transaction (not issued by the driver)
				}
				m["txn"], m["readTs"] = id, ev.Args[1]
				m["reads"], m["writes"], m["dels"] = ints(info.reads), ints(info.writes), ints(info.dels)
				if ev.Point == "orc.commit.ts" {
					m["ts"] = ev.Args[2]
				}
			case "commit.enqueued":
				m["ts"] = ev.Args[1]
			case "commit.rejected":
				m["ts"] = ev.Args[1]
			case "mem.put":
				ik := ev.Args[0].([]byte)
				m["k"], m["ts"] = kidx[string(y.ParseKey(ik))], y.ParseTs(ik)
			case "orc.doneCommit":
				m["ts"] = ev.Args[0]
			case "orc.doneRead":
				id := rec.TxnID(ev.Args[0].(*badger.Txn))
				m["txn"], m["readTs"] = id, ev.Args[1]
				if info := infos[id]; info != nil && len(info.obs) > 0 {
					m["obs"] = info.obs
				}
			}
			lines = append(lines, m)
		}
		if err := vh.WriteNDJSON(*oracleOut, lines); err != nil {
			vh.Fatalf("%v", err)
		}
	}
	if *wmOut != "" {
		lines := []map[string]interface{}{{"ev": "reset", "seed": *seed}}
		for _, ev := range evs {
			if ev.Point != "wm.processed" {
				continue
			}
			lines = append(lines, map[string]interface{}{"ev": ev.Point, "name": ev.Args[0], "index": ev.Args[1],
				"done": ev.Args[2], "waiter": ev.Args[3], "doneUntil": ev.Args[4], "nwaiters": ev.Args[5]})
		}
		if err := vh.WriteNDJSON(*wmOut, lines); err != nil {
			vh.Fatalf("%v", err)
		}
	}
}
