// sm1merge replays MergeOpGen cases (C31) against the real MergeOperator.
//
// Steps: add (MergeOperator.Add), merge (MergeOperator.compact through VerifMergeCompact, made
// visible by a later synchronous write: the write channel is FIFO), flush (VerifFlush),
// compact (one production L0 -> Lbase compaction through VerifDoCompact), reopen
// (MergeOperator.Stop, DB.Close, Open, GetMergeOperator).  After every step Get is compared
// with the value the specification predicts; for merge steps the write-back itself is
// observed through the mem.put hook (version = newest operand, discard bit, no merge bit).
//
// output: one JSON line per case (vh.CaseResult).
package main

import (
	"bytes"
	"encoding/json"
	"flag"
	"fmt"
	"os"
	"sync"
	"time"

	badger "github.com/dgraph-io/badger/v4"
	"github.com/dgraph-io/badger/v4/y"

	"verifharness/vh"
)

type Step struct {
	Op     string `json:"op"`
	X      int    `json:"x"`
	Writes bool   `json:"writes"`
	Get    []int  `json:"get"`
}

var (
	vthresh = flag.Int64("vthreshold", 1024, "ValueThreshold")
	vlen    = flag.Int("vlen", 3, "length of an operand")
	nvk     = flag.Int("nvk", 1, "NumVersionsToKeep")
)

var mergeKey = []byte("merge-key")

type put struct {
	ts   uint64
	meta byte
}

var (
	mu   sync.Mutex
	puts []put
)

func operand(x int) []byte { return bytes.Repeat([]byte{byte('a' + x - 1)}, *vlen) }

func expected(xs []int) []byte {
	var b []byte
	for _, x := range xs {
		b = append(b, operand(x)...)
	}
	return b
}

func concat(old, nw []byte) []byte {
	out := make([]byte, 0, len(old)+len(nw))
	out = append(out, old...)
	return append(out, nw...)
}

func fail(sig string, detail interface{}) vh.CaseResult {
	return vh.CaseResult{OK: false, Sig: sig, Detail: detail}
}

func run(idx int, line []byte) vh.CaseResult {
	var steps []Step
	if err := json.Unmarshal(line, &steps); err != nil {
		vh.Fatalf("bad case %d: %v", idx, err)
	}
	dir, err := os.MkdirTemp("", "sm1merge-")
	if err != nil {
		vh.Fatalf("mkdtemp: %v", err)
	}
	defer os.RemoveAll(dir)
	open := func() *badger.DB {
		o := vh.SmallOptions(dir)
		o.ValueThreshold = *vthresh
		o.NumVersionsToKeep = *nvk
		db, err := badger.Open(o)
		if err != nil {
			vh.Fatalf("open: %v", err)
		}
		return db
	}
	db := open()
	op := db.GetMergeOperator(mergeKey, concat, time.Hour)
	defer func() {
		op.Stop()
		db.Close()
	}()
	barrier := func() error {
		return db.Update(func(txn *badger.Txn) error { return txn.Set([]byte("zz-barrier"), nil) })
	}
	var lastAddVersion uint64
	info := map[string]int{}
	checkWriteBack := func(j int, s Step, got []put) *vh.CaseResult {
		if !s.Writes {
			if len(got) != 0 {
				r := fail("sm1:merge unexpected write-back", map[string]interface{}{"step": j, "puts": fmt.Sprint(got)})
				return &r
			}
			return nil
		}
		if len(got) != 1 {
			r := fail("sm1:merge write-back missing", map[string]interface{}{"step": j, "puts": fmt.Sprint(got)})
			return &r
		}
		p := got[0]
		if p.ts != lastAddVersion || p.meta&badger.VerifBitDiscard == 0 || p.meta&badger.VerifBitMerge != 0 {
			r := fail("sm1:merge write-back has wrong version or bits", map[string]interface{}{"step": j, "ts": p.ts,
				"meta": p.meta, "newestOperandVersion": lastAddVersion})
			return &r
		}
		info["write_backs"]++
		return nil
	}
	for j, s := range steps {
		switch s.Op {
		case "add":
			if err := op.Add(operand(s.X)); err != nil {
				return fail("sm1:merge Add error", err.Error())
			}
			lastAddVersion = db.MaxVersion()
		case "merge":
			mu.Lock()
			puts = nil
			mu.Unlock()
			if err := op.VerifMergeCompact(); err != nil {
				return fail("sm1:merge compact error", err.Error())
			}
			if err := barrier(); err != nil {
				return fail("harness:barrier", err.Error())
			}
			mu.Lock()
			got := append([]put(nil), puts...)
			mu.Unlock()
			if r := checkWriteBack(j, s, got); r != nil {
				return *r
			}
		case "flush":
			if err := db.VerifFlush(); err != nil {
				return fail("harness:flush", err.Error())
			}
			info["flushes"]++
		case "compact":
			if err := db.VerifDoCompact(1, 0, 10, 10); err != nil {
				return fail("harness:compact", err.Error())
			}
			info["compactions"]++
		case "reopen":
			mu.Lock()
			puts = nil
			mu.Unlock()
			op.Stop()
			if err := db.Close(); err != nil {
				return fail("harness:close", err.Error())
			}
			mu.Lock()
			got := append([]put(nil), puts...)
			mu.Unlock()
			if r := checkWriteBack(j, s, got); r != nil {
				return *r
			}
			db = open()
			op = db.GetMergeOperator(mergeKey, concat, time.Hour)
			info["reopens"]++
		default:
			vh.Fatalf("unknown op %q", s.Op)
		}
		val, err := op.Get()
		want := expected(s.Get)
		switch {
		case len(s.Get) == 0:
			if err != badger.ErrKeyNotFound {
				return fail("sm1:merge Get before the first Add", fmt.Sprintf("val=%q err=%v", val, err))
			}
		case err != nil:
			return fail("sm1:merge Get error after "+s.Op, map[string]interface{}{"step": j, "err": err.Error()})
		case !bytes.Equal(val, want):
			return fail("sm1:merge Get is not the fold after "+s.Op, map[string]interface{}{"step": j, "got": string(val), "want": string(want)})
		}
		info["gets"]++
	}
	return vh.CaseResult{OK: true, Info: info}
}

func main() {
	f := vh.RegisterCaseFlags()
	flag.Parse()
	rec := vh.Install(false)
	rec.OnEvent = func(ev vh.Event) {
		if ev.Point != "mem.put" || len(ev.Args) < 2 {
			return
		}
		k, ok := ev.Args[0].([]byte)
		if !ok || !bytes.Equal(y.ParseKey(k), mergeKey) {
			return
		}
		m, _ := ev.Args[1].(byte)
		mu.Lock()
		puts = append(puts, put{ts: y.ParseTs(k), meta: m})
		mu.Unlock()
	}
	vh.RunCases(f, run)
}
