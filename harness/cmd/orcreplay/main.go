// orcreplay forces OracleGen schedules (specs/oracle/OracleGen.tla) on the real commit
// pipeline with the verif gates and compares after every step: which readers have been
// released by the oracle and which are still blocked, read/commit timestamps, commit
// outcomes and what each released reader sees.
package main

import (
	"encoding/json"
	"flag"
	"fmt"
	"os"
	"sync"
	"sync/atomic"
	"time"

	badger "github.com/dgraph-io/badger/v4"

	"verifharness/vh"
)

type Prog struct {
	Upd    bool  `json:"upd"`
	Reads  []int `json:"reads"`
	Writes []int `json:"writes"`
}

type Obs struct {
	Ready   []int    `json:"ready"`
	Blocked []int    `json:"blocked"`
	Sees    [][]int  `json:"sees"`
	ReadTs  []uint64 `json:"readTs"`
	Cts     []uint64 `json:"cts"`
	Result  []string `json:"result"`
}

type Step struct {
	Act string `json:"act"`
	T   int    `json:"t"`
	U   int    `json:"u"`
	Obs Obs    `json:"obs"`
}

type Case struct {
	Prog  []Prog `json:"prog"`
	Keys  int    `json:"keys"`
	Steps []Step `json:"steps"`
}

type mismatch struct {
	Sig    string      `json:"sig"`
	Detail interface{} `json:"detail"`
}

const wait = 5 * time.Second
const grace = 15 * time.Millisecond

var keyNames = []string{"", "ka", "kb", "kc"}

type client struct {
	id      int
	g       atomic.Int64
	txn     atomic.Pointer[badger.Txn]
	ready   atomic.Bool
	readTs  atomic.Uint64
	seen    map[int]uint64
	cmd     chan string
	result  chan string
	readErr atomic.Value
	done    chan struct{}
}

func runCase(c Case) (int, *mismatch) {
	rec := vh.Install(false)
	defer rec.Uninstall()
	o := vh.SmallOptions("").WithInMemory(true)
	db, err := badger.Open(o)
	if err != nil {
		return 0, &mismatch{"open.error", err.Error()}
	}
	var mu sync.Mutex
	stamped := map[*badger.Txn]uint64{} // commit ts per txn (0 = conflict)
	stampSeen := map[*badger.Txn]bool{}
	enq := map[*badger.Txn]bool{}
	doneTs := map[uint64]bool{}
	rejectedTxn := map[*badger.Txn]bool{}
	nput := 0
	napplied := 0
	rec.OnEvent = func(ev vh.Event) {
		mu.Lock()
		defer mu.Unlock()
		switch ev.Point {
		case "orc.commit.ts":
			t := ev.Args[0].(*badger.Txn)
			stamped[t], stampSeen[t] = ev.Args[2].(uint64), true
		case "orc.commit.conflict":
			t := ev.Args[0].(*badger.Txn)
			stamped[t], stampSeen[t] = 0, true
		case "commit.rejected":
			rejectedTxn[ev.Args[0].(*badger.Txn)] = true
		case "commit.enqueued":
			enq[ev.Args[0].(*badger.Txn)] = true
		case "orc.doneCommit":
			doneTs[ev.Args[0].(uint64)] = true
		case "mem.put":
			nput++
		case "writer.applied":
			napplied++
		}
	}
	gWait := rec.Arm("orc.readTs.wait", nil)
	gStart := rec.Arm("commit.start", nil)
	gEnq := rec.Arm("commit.beforeEnqueue", nil)
	gBatch := rec.Arm("writer.batch", nil)
	gPut := rec.Arm("mem.beforePut", nil)
	gDone := rec.Arm("commit.beforeDone", nil)
	gates := []*vh.Gate{gWait, gStart, gEnq, gBatch, gPut, gDone}
	clients := make([]*client, len(c.Prog)+1)
	var wg sync.WaitGroup
	defer func() {
		for _, g := range gates {
			g.Disarm()
		}
		for _, cl := range clients {
			if cl != nil {
				select {
				case cl.cmd <- "discard":
				default:
				}
			}
		}
		waitDone := make(chan struct{})
		go func() { wg.Wait(); close(waitDone) }()
		select {
		case <-waitDone:
		case <-time.After(wait):
		}
		db.Close()
	}()
	until := func(cond func() bool) bool {
		deadline := time.Now().Add(wait)
		for !cond() {
			if time.Now().After(deadline) {
				return false
			}
			time.Sleep(50 * time.Microsecond)
		}
		return true
	}
	start := func(t int) {
		cl := &client{id: t, cmd: make(chan string, 2), result: make(chan string, 1), seen: map[int]uint64{}, done: make(chan struct{})}
		clients[t] = cl
		p := c.Prog[t-1]
		wg.Add(1)
		go func() {
			defer wg.Done()
			defer close(cl.done)
			cl.g.Store(vh.GoID())
			txn := db.NewTransaction(p.Upd) // parks at orc.readTs.wait, returns when the oracle releases it
			cl.txn.Store(txn)
			cl.readTs.Store(txn.ReadTs())
			keys := p.Reads
			if !p.Upd {
				keys = nil
				for k := 1; k <= c.Keys; k++ {
					keys = append(keys, k)
				}
			}
			for _, k := range keys {
				item, err := txn.Get([]byte(keyNames[k]))
				if err == nil {
					cl.seen[k] = item.Version()
				} else if err != badger.ErrKeyNotFound {
					cl.readErr.Store(err.Error())
				}
			}
			cl.ready.Store(true)
			switch <-cl.cmd {
			case "commit":
				for _, k := range p.Writes {
					if err := txn.Set([]byte(keyNames[k]), []byte(fmt.Sprintf("t%d", t))); err != nil {
						cl.result <- "set error: " + err.Error()
						return
					}
				}
				err := txn.Commit()
				switch err {
				case nil:
					cl.result <- "ok"
				case badger.ErrConflict:
					cl.result <- "conflict"
				default:
					cl.result <- "error: " + err.Error()
				}
			default:
				txn.Discard()
				cl.result <- "discarded"
			}
		}()
	}
	batchStarted := false
	writerBusy, queued := false, 0 // mirrors doWrites: a batch in progress, requests waiting for the next one
	checkReaders := func(i int, s Step) *mismatch {
		for _, t := range s.Obs.Ready {
			cl := clients[t]
			if !until(func() bool { return cl.ready.Load() }) {
				return &mismatch{"oracle.lostWakeup", fmt.Sprintf("after step %d (%s %d): reader %d (readTs %d) should have been released: every commit at or below its read timestamp has finished", i, s.Act, s.T, t, s.Obs.ReadTs[t-1])}
			}
		}
		if len(s.Obs.Blocked) > 0 {
			time.Sleep(grace)
		}
		for _, t := range s.Obs.Blocked {
			if clients[t].ready.Load() {
				return &mismatch{"oracle.readerBeforeApply", fmt.Sprintf("after step %d (%s %d): reader %d with readTs %d was released although a commit at or below it is still being applied", i, s.Act, s.T, t, s.Obs.ReadTs[t-1])}
			}
		}
		return nil
	}
	checkStamp := func(i int, s Step, t int) *mismatch {
		cl := clients[t]
		txn := cl.txn.Load()
		if !until(func() bool { mu.Lock(); defer mu.Unlock(); return stampSeen[txn] }) {
			return &mismatch{"oracle.stampHang", fmt.Sprintf("step %d: transaction %d never reached newCommitTs", i, t)}
		}
		mu.Lock()
		ts := stamped[txn]
		mu.Unlock()
		want := s.Obs.Cts[t-1]
		wantConflict := s.Obs.Result[t-1] == "conflict"
		if wantConflict != (ts == 0) {
			return &mismatch{"oracle.conflictDecision", fmt.Sprintf("transaction %d: conflict=%v, specification conflict=%v", t, ts == 0, wantConflict)}
		}
		if !wantConflict && ts != want {
			return &mismatch{"oracle.commitTs", fmt.Sprintf("transaction %d: commit ts %d, specification %d", t, ts, want)}
		}
		if wantConflict {
			select {
			case r := <-cl.result:
				if r != "conflict" {
					return &mismatch{"oracle.conflictResult", r}
				}
			case <-time.After(wait):
				return &mismatch{"oracle.conflictHang", nil}
			}
		} else if !until(func() bool { return gEnq.ParkedG(cl.g.Load()) }) {
			return &mismatch{"harness.beforeEnqueue", nil}
		}
		return nil
	}
	for i, s := range c.Steps {
		switch s.Act {
		case "alloc":
			n := gWait.NumParked()
			start(s.T)
			if !gWait.WaitParked(n+1, wait) {
				return i, &mismatch{"harness.allocNotParked", nil}
			}
		case "enter":
			if !until(func() bool { return clients[s.T].g.Load() != 0 }) || !gWait.ReleaseG(clients[s.T].g.Load()) {
				return i, &mismatch{"harness.enterRelease", nil}
			}
		case "ready":
			cl := clients[s.T]
			if !until(func() bool { return cl.ready.Load() }) {
				return i, &mismatch{"oracle.lostWakeup", fmt.Sprintf("step %d: reader %d (readTs %d) never released", i, s.T, s.Obs.ReadTs[s.T-1])}
			}
			if e := cl.readErr.Load(); e != nil {
				return i, &mismatch{"read.error", e}
			}
			if cl.readTs.Load() != s.Obs.ReadTs[s.T-1] {
				return i, &mismatch{"oracle.readTs", fmt.Sprintf("reader %d: readTs %d, specification %d", s.T, cl.readTs.Load(), s.Obs.ReadTs[s.T-1])}
			}
			for k, v := range cl.seen {
				if want := uint64(s.Obs.Sees[s.T-1][k-1]); v != want {
					return i, &mismatch{"oracle.snapshot", fmt.Sprintf("reader %d at readTs %d read %s at version %d, specification %d", s.T, cl.readTs.Load(), keyNames[k], v, want)}
				}
			}
			p := c.Prog[s.T-1]
			keys := p.Reads
			if !p.Upd {
				keys = nil
				for k := 1; k <= c.Keys; k++ {
					keys = append(keys, k)
				}
			}
			for _, k := range keys {
				if want := uint64(s.Obs.Sees[s.T-1][k-1]); cl.seen[k] != want {
					return i, &mismatch{"oracle.snapshot", fmt.Sprintf("reader %d at readTs %d read %s at version %d, specification %d", s.T, cl.readTs.Load(), keyNames[k], cl.seen[k], want)}
				}
			}
		case "discard":
			clients[s.T].cmd <- "discard"
			select {
			case <-clients[s.T].result:
			case <-time.After(wait):
				return i, &mismatch{"harness.discardHang", nil}
			}
		case "stamp", "trystamp":
			cl := clients[s.T]
			n := gStart.NumParked()
			cl.cmd <- "commit"
			if !gStart.WaitParked(n+1, wait) || !gStart.ReleaseG(cl.g.Load()) {
				return i, &mismatch{"harness.commitStart", nil}
			}
			txn := cl.txn.Load()
			if s.Act == "trystamp" {
				time.Sleep(grace)
				mu.Lock()
				got := stampSeen[txn]
				mu.Unlock()
				if got {
					return i, &mismatch{"oracle.commitOrder", fmt.Sprintf("step %d: transaction %d obtained a commit timestamp while another transaction holds the write-channel lock (stamped, not yet enqueued)", i, s.T)}
				}
				break
			}
			if m := checkStamp(i, s, s.T); m != nil {
				return i, m
			}
		case "enqueue", "enqueue+stamp":
			cl := clients[s.T]
			txn := cl.txn.Load()
			if !gEnq.ReleaseG(cl.g.Load()) {
				return i, &mismatch{"harness.enqueueRelease", nil}
			}
			if !until(func() bool { mu.Lock(); defer mu.Unlock(); return enq[txn] }) {
				return i, &mismatch{"oracle.enqueueHang", nil}
			}
			if !writerBusy {
				// doWrites hands this request to writeRequests at once; wait until it has, so that
				// the next enqueue is not batched with it by a scheduling accident
				if !gBatch.WaitParked(1, wait) {
					return i, &mismatch{"harness.writerBatch", nil}
				}
				writerBusy = true
			} else {
				queued++
			}
			if s.Act == "enqueue+stamp" {
				if m := checkStamp(i, s, s.U); m != nil {
					return i, m
				}
			}
		case "reject":
			cl := clients[s.T]
			txn := cl.txn.Load()
			db.VerifSetBlockWrites(true)
			if !gEnq.ReleaseG(cl.g.Load()) {
				db.VerifSetBlockWrites(false)
				return i, &mismatch{"harness.rejectRelease", nil}
			}
			ok := until(func() bool { mu.Lock(); defer mu.Unlock(); return rejectedTxn[txn] })
			db.VerifSetBlockWrites(false)
			if !ok {
				return i, &mismatch{"oracle.rejectHang", nil}
			}
			select {
			case r := <-cl.result:
				if r == "ok" || r == "conflict" {
					return i, &mismatch{"oracle.rejectResult", r}
				}
			case <-time.After(wait):
				return i, &mismatch{"oracle.rejectHang", "Commit did not return after sendToWriteCh refused the request"}
			}
		case "put", "lastput":
			if !batchStarted {
				if !gBatch.WaitParked(1, wait) {
					return i, &mismatch{"harness.writerBatch", nil}
				}
				gBatch.Release(nil)
				batchStarted = true
			}
			if !gPut.WaitParked(1, wait) {
				return i, &mismatch{"pipeline.putMissing", fmt.Sprintf("step %d: the specification expects another memtable put in this batch", i)}
			}
			mu.Lock()
			before, appliedBefore := nput, napplied
			mu.Unlock()
			gPut.Release(nil)
			if !until(func() bool { mu.Lock(); defer mu.Unlock(); return nput > before }) {
				return i, &mismatch{"harness.putEvent", nil}
			}
			if s.Act == "lastput" {
				if !until(func() bool { mu.Lock(); defer mu.Unlock(); return napplied > appliedBefore }) {
					return i, &mismatch{"pipeline.extraPut", fmt.Sprintf("step %d: the writer did not finish the batch where the specification does", i)}
				}
				batchStarted = false
				if queued > 0 {
					queued = 0
					if !gBatch.WaitParked(1, wait) {
						return i, &mismatch{"harness.writerBatch", nil}
					}
				} else {
					writerBusy = false
				}
			} else {
				time.Sleep(200 * time.Microsecond)
				mu.Lock()
				fin := napplied > appliedBefore
				mu.Unlock()
				if fin {
					return i, &mismatch{"pipeline.putMissing", fmt.Sprintf("step %d: the writer finished the batch, the specification expects more puts", i)}
				}
			}
		case "done":
			cl := clients[s.T]
			ts := s.Obs.Cts[s.T-1]
			if !until(func() bool { return gDone.ParkedG(cl.g.Load()) }) {
				return i, &mismatch{"pipeline.notApplied", fmt.Sprintf("step %d: transaction %d did not reach the point after req.Wait", i, s.T)}
			}
			gDone.ReleaseG(cl.g.Load())
			if !until(func() bool { mu.Lock(); defer mu.Unlock(); return doneTs[ts] }) {
				return i, &mismatch{"harness.doneCommit", nil}
			}
			select {
			case r := <-cl.result:
				if r != "ok" {
					return i, &mismatch{"oracle.commitResult", r}
				}
			case <-time.After(wait):
				return i, &mismatch{"oracle.commitHang", nil}
			}
		default:
			vh.Fatalf("unknown act %q", s.Act)
		}
		if m := checkReaders(i, s); m != nil {
			return i, m
		}
	}
	return -1, nil
}

func main() {
	in := flag.String("in", "", "cases NDJSON")
	shard := flag.Int("shard", 0, "")
	nshard := flag.Int("nshards", 1, "")
	flag.Parse()
	enc := json.NewEncoder(os.Stdout)
	idx := 0
	err := vh.ReadNDJSON(*in, func(line []byte) error {
		i := idx
		idx++
		if i%*nshard != *shard {
			return nil
		}
		var c Case
		if err := json.Unmarshal(line, &c); err != nil {
			return err
		}
		at, m := runCase(c)
		out := map[string]interface{}{"case": i, "ok": m == nil}
		if m != nil {
			out["step"], out["sig"], out["detail"] = at, m.Sig, m.Detail
		}
		return enc.Encode(out)
	})
	if err != nil {
		vh.Fatalf("%v", err)
	}
}
