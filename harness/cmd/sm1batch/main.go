// sm1batch replays WriteBatchGen cases (C27) against the real WriteBatch API.
//
// A case is an operation sequence over (key, version) with the database contents the
// specification predicts after Flush.  The replayer issues the operations through
// NewWriteBatch / NewWriteBatchAt / NewManagedWriteBatch, forces the internal transaction
// splits the case asks for (either by filling the current internal transaction up to its
// byte budget with a pad entry, or by running with a memtable so small that the entry
// count limit cuts the batch), checks through the "commit.start" hook that the splits
// really happened where intended, and compares a full AllVersions dump with the prediction.
//
// output: one JSON line per case (vh.CaseResult). exit 0 unless the harness itself failed (2).
package main

import (
	"bytes"
	"encoding/json"
	"flag"
	"fmt"
	"math"
	"os"
	"sort"
	"strconv"
	"strings"

	badger "github.com/dgraph-io/badger/v4"

	"verifharness/vh"
)

type Op struct {
	Op  string `json:"op"`
	K   int    `json:"k"`
	Ver uint64 `json:"ver"`
	I   int    `json:"i"`
}

type Cell struct {
	K  int    `json:"k"`
	Ts uint64 `json:"ts"`
	V  int    `json:"v"` // op index; <0 (or 0 in observations) = delete marker
}

type Case struct {
	Mode   string `json:"mode"`
	AtTs   uint64 `json:"atTs"`
	Ops    []Op   `json:"ops"`
	Splits []int  `json:"splits"` // an internal commit happens after this many operations
	Via    string `json:"via"`    // "pad" | "cap" | "none"
	Expect []Cell `json:"expect"`
}

var (
	managed   = flag.Bool("managed", false, "open the DB in managed mode (modes at/managed)")
	memtable  = flag.Int64("memtable", 64<<10, "MemTableSize")
	vthresh   = flag.Int64("vthreshold", 0, "ValueThreshold (0 = maxBatchSize)")
	inmem     = flag.Bool("inmem", false, "in-memory DB")
	reopenN   = flag.Int("reopen", 400, "use a fresh DB every N cases")
	bigValues = flag.Bool("bigvalues", false, "odd operations carry 40-byte values (value log when vthreshold is small)")
)

type runner struct {
	db      *badger.DB
	dir     string
	n       int
	rec     *vh.Recorder
	issued  int
	commits []int
}

func (r *runner) open() {
	if r.db != nil {
		r.db.Close()
		if r.dir != "" {
			os.RemoveAll(r.dir)
		}
	}
	var o badger.Options
	if *inmem {
		o = vh.SmallOptions("").WithInMemory(true)
		r.dir = ""
	} else {
		d, err := os.MkdirTemp("", "sm1batch-")
		if err != nil {
			vh.Fatalf("mkdtemp: %v", err)
		}
		r.dir = d
		o = vh.SmallOptions(d)
	}
	o.MemTableSize = *memtable
	o.NumLevelZeroTables = 100000
	o.NumLevelZeroTablesStall = 200000
	o.NumMemtables = 50
	maxBatch := (15 * o.MemTableSize) / 100
	if *vthresh == 0 {
		o.ValueThreshold = maxBatch
	} else {
		o.ValueThreshold = *vthresh
	}
	o.NumVersionsToKeep = math.MaxInt32
	var err error
	if *managed {
		r.db, err = badger.OpenManaged(o)
	} else {
		r.db, err = badger.Open(o)
	}
	if err != nil {
		vh.Fatalf("open: %v", err)
	}
}

func key(idx, k int) []byte { return []byte(fmt.Sprintf("c%07d.k%d", idx, k)) }
func padKey(idx int) []byte { return []byte(fmt.Sprintf("c%07d.pad", idx)) }

func value(i int) []byte {
	s := "v" + strconv.Itoa(i) + "."
	if *bigValues && i%2 == 1 {
		s += strings.Repeat("x", 40-len(s))
	}
	return []byte(s)
}

func parseValue(b []byte) int {
	if len(b) < 2 || b[0] != 'v' {
		return -9999
	}
	j := bytes.IndexByte(b, '.')
	if j < 0 {
		return -9999
	}
	v, err := strconv.Atoi(string(b[1:j]))
	if err != nil {
		return -9999
	}
	return v
}

func fail(sig string, detail interface{}) vh.CaseResult {
	return vh.CaseResult{OK: false, Sig: sig, Detail: detail}
}

// xverDup reports whether, inside one internal transaction, an operation on (key, effective
// version) is followed by an operation on the same key with a different version field and
// then (or thereby) by another operation on the same (key, effective version): the situation
// in which Txn.modify moves the older entry to duplicateWrites.
func xverDup(c *Case, k int, ts uint64) bool {
	eff := func(o Op) uint64 {
		if o.Ver == 0 {
			return c.AtTs
		}
		return o.Ver
	}
	bounds := append([]int{0}, c.Splits...)
	bounds = append(bounds, len(c.Ops))
	for s := 0; s+1 < len(bounds); s++ {
		seg := c.Ops[bounds[s]:bounds[s+1]]
		for a := 0; a < len(seg); a++ {
			if seg[a].K != k || eff(seg[a]) != ts {
				continue
			}
			moved := false
			for b := a + 1; b < len(seg); b++ {
				if seg[b].K != k {
					continue
				}
				if seg[b].Ver != seg[a].Ver {
					moved = true
				}
				if moved && eff(seg[b]) == ts {
					return true
				}
			}
		}
	}
	return false
}

func (r *runner) run(idx int, line []byte) vh.CaseResult {
	var c Case
	if err := json.Unmarshal(line, &c); err != nil {
		vh.Fatalf("bad case %d: %v", idx, err)
	}
	if r.n%*reopenN == 0 {
		r.open()
	}
	r.n++
	db := r.db
	var wb *badger.WriteBatch
	switch c.Mode {
	case "plain":
		wb = db.NewWriteBatch()
	case "at":
		wb = db.NewWriteBatchAt(c.AtTs)
	case "managed":
		wb = db.NewManagedWriteBatch()
	default:
		vh.Fatalf("bad mode %q", c.Mode)
	}
	defer wb.Cancel()
	_, maxSize := db.VerifMaxBatch()
	r.issued, r.commits = 0, nil
	splitAfter := map[int]bool{}
	for _, s := range c.Splits {
		splitAfter[s] = true
	}
	info := map[string]int{}
	for n, op := range c.Ops {
		var err error
		k := key(idx, op.K)
		switch {
		case op.Op == "set" && op.Ver == 0:
			if n%2 == 0 {
				err = wb.Set(k, value(op.I))
			} else {
				err = wb.SetEntry(badger.NewEntry(k, value(op.I)))
			}
		case op.Op == "set":
			err = wb.SetEntryAt(badger.NewEntry(k, value(op.I)), op.Ver)
		case op.Op == "del" && op.Ver == 0:
			err = wb.Delete(k)
		case op.Op == "del":
			err = wb.DeleteAt(k, op.Ver)
		default:
			vh.Fatalf("bad op %q", op.Op)
		}
		if err != nil {
			return fail("sm1:batch mode="+c.Mode+" op-error", map[string]interface{}{"op": op, "err": err.Error()})
		}
		r.issued = n + 1
		if c.Via == "pad" && splitAfter[n+1] {
			// fill the current internal transaction so that the next operation cannot fit
			_, size := wb.VerifBatchTxnSize()
			pk := padKey(idx)
			l := maxSize - 21 - size - int64(len(pk)+2+10)
			if l < 0 {
				return fail("harness:pad", fmt.Sprintf("no room for pad: size=%d max=%d", size, maxSize))
			}
			pv := bytes.Repeat([]byte{'p'}, int(l))
			if c.Mode == "managed" {
				err = wb.SetEntryAt(badger.NewEntry(pk, pv), 9)
			} else {
				err = wb.Set(pk, pv)
			}
			if err != nil {
				return fail("harness:pad", err.Error())
			}
			info["pads"]++
		}
	}
	if err := wb.Flush(); err != nil {
		return fail("sm1:batch mode="+c.Mode+" flush-error", err.Error())
	}
	want := append(append([]int{}, c.Splits...), len(c.Ops))
	splitsOK := fmt.Sprint(want) == fmt.Sprint(r.commits)
	splitMsg := fmt.Sprintf("internal commits after %v operations, wanted %v", r.commits, want)
	info["internal_txns"] = len(r.commits)

	// full dump of the case's keys
	var txn *badger.Txn
	if *managed {
		txn = db.NewTransactionAt(math.MaxUint64, false)
	} else {
		txn = db.NewTransaction(false)
	}
	defer txn.Discard()
	io := badger.DefaultIteratorOptions
	io.AllVersions = true
	io.Prefix = []byte(fmt.Sprintf("c%07d.", idx))
	it := txn.NewIterator(io)
	type raw struct {
		key string
		ts  uint64
		v   int
	}
	var got []raw
	versions := map[uint64]bool{}
	for it.Rewind(); it.Valid(); it.Next() {
		item := it.Item()
		versions[item.Version()] = true
		g := raw{key: string(item.Key()), ts: item.Version()}
		if item.IsDeletedOrExpired() {
			g.v = 0
		} else {
			val, err := item.ValueCopy(nil)
			if err != nil {
				it.Close()
				return fail("sm1:batch mode="+c.Mode+" value-error", err.Error())
			}
			if strings.HasSuffix(g.key, ".pad") {
				continue
			}
			g.v = parseValue(val)
		}
		if strings.HasSuffix(g.key, ".pad") {
			continue
		}
		got = append(got, g)
	}
	it.Close()
	rank := map[uint64]uint64{}
	if c.Mode == "plain" {
		var vs []uint64
		for v := range versions {
			vs = append(vs, v)
		}
		sort.Slice(vs, func(i, j int) bool { return vs[i] < vs[j] })
		for i, v := range vs {
			rank[v] = uint64(i + 1)
		}
	}
	obs := map[string]int{}
	for _, g := range got {
		ts := g.ts
		if c.Mode == "plain" {
			ts = rank[ts]
		}
		kk := -1
		for k := 1; k <= 9; k++ {
			if g.key == string(key(idx, k)) {
				kk = k
			}
		}
		ck := fmt.Sprintf("%d@%d", kk, ts)
		if _, dup := obs[ck]; dup {
			return fail("sm1:batch mode="+c.Mode+" duplicate-version-in-iteration", ck)
		}
		obs[ck] = g.v
	}
	exp := map[string]int{}
	norm := func(v int) int {
		if v < 0 {
			return 0
		}
		return v
	}
	abs := func(v int) int {
		if v < 0 {
			return -v
		}
		return v
	}
	for _, e := range c.Expect {
		exp[fmt.Sprintf("%d@%d", e.K, e.Ts)] = e.V
	}
	var diffs []string
	class := ""
	for ck, ev := range exp {
		ov, ok := obs[ck]
		if !ok {
			diffs = append(diffs, fmt.Sprintf("%s: missing (want %d)", ck, ev))
			class += " missing"
		} else if ov != norm(ev) {
			diffs = append(diffs, fmt.Sprintf("%s: got %d want %d", ck, ov, ev))
			var k int
			var ts uint64
			fmt.Sscanf(ck, "%d@%d", &k, &ts)
			earlier := false
			for _, o := range c.Ops {
				if o.K == k && o.I < abs(ev) && ((o.Op == "set" && o.I == ov) || (o.Op == "del" && ov == 0)) {
					earlier = true
				}
			}
			if c.Mode != "plain" && earlier && xverDup(&c, k, ts) {
				class += " earlier-call-won/other-version-between-in-one-txn"
			} else {
				class += " wrong-value"
			}
		}
	}
	for ck, ov := range obs {
		if _, ok := exp[ck]; !ok {
			diffs = append(diffs, fmt.Sprintf("%s: unexpected %d", ck, ov))
			class += " unexpected"
		}
	}
	if !splitsOK && c.Mode == "plain" {
		// the predicted versions depend on the split points; only the visible values do not
		diffs, class = nil, ""
	}
	if len(diffs) > 0 {
		sort.Strings(diffs)
		cl := strings.Fields(class)
		sort.Strings(cl)
		uniq := cl[:0]
		for i, s := range cl {
			if i == 0 || s != cl[i-1] {
				uniq = append(uniq, s)
			}
		}
		return fail("sm1:batch mode="+c.Mode+" "+strings.Join(uniq, ","), map[string]interface{}{"diffs": diffs, "splits": c.Splits, "commits": r.commits})
	}
	// visible reads: the newest version of every key
	top := map[int]Cell{}
	for _, e := range c.Expect {
		if t, ok := top[e.K]; !ok || e.Ts > t.Ts {
			top[e.K] = e
		}
	}
	for k, e := range top {
		item, err := txn.Get(key(idx, k))
		if e.V < 0 {
			if err != badger.ErrKeyNotFound {
				return fail("sm1:batch mode="+c.Mode+" get-after-delete", fmt.Sprintf("k%d err=%v", k, err))
			}
			continue
		}
		if err != nil {
			return fail("sm1:batch mode="+c.Mode+" get-error", fmt.Sprintf("k%d err=%v", k, err))
		}
		val, _ := item.ValueCopy(nil)
		if parseValue(val) != e.V {
			return fail("sm1:batch mode="+c.Mode+" get-wrong-value", fmt.Sprintf("k%d got %d want %d", k, parseValue(val), e.V))
		}
	}
	if !splitsOK {
		// contents are as predicted but the batch was not cut where the case wanted it
		return fail("harness:split", splitMsg)
	}
	return vh.CaseResult{OK: true, Info: info}
}

func main() {
	f := vh.RegisterCaseFlags()
	flag.Parse()
	r := &runner{}
	r.rec = vh.Install(false)
	r.rec.OnEvent = func(ev vh.Event) {
		if ev.Point == "commit.start" {
			r.commits = append(r.commits, r.issued)
		}
	}
	vh.RunCases(f, r.run)
	if r.db != nil {
		r.db.Close()
		if r.dir != "" {
			os.RemoveAll(r.dir)
		}
	}
}
