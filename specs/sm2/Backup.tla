------------------------------- MODULE Backup -------------------------------
(***************************************************************************)
(* Backup / Load (backup.go) on top of the Stream module: a backup is a    *)
(* Stream run whose KeyToList emits every retained version and marker      *)
(* (Mode = "backup") and which returns the largest version it emitted;     *)
(* an incremental chain passes that version as the next run's SinceTs      *)
(* (Chained = TRUE).  DB.Load writes every emitted KV at its version into  *)
(* the target, in order; a later KV with the same key and version replaces *)
(* an earlier one.                                                         *)
(***************************************************************************)
EXTENDS Stream

\* (the properties below are meant for Mode = "backup", Chained = TRUE; the generator module
\* extends this one for both modes and only evaluates them in backup mode)

AllItemsOf(rs, n) == UNION {rs[i].items : i \in 1..n}
LastRunWith(rs, n, v) == MaxOf({i \in 1..n : v \in rs[i].items})

\* contents of a database into which the backups 1..n of the sequence rs were loaded in order
RestoredOf(rs, n) ==
    {v \in AllItemsOf(rs, n) :
        \A w \in AllItemsOf(rs, n) :
            (w.k = v.k /\ w.ts = v.ts /\ w.kind # v.kind) => LastRunWith(rs, n, w) < LastRunWith(rs, n, v)}
Restored(n) == RestoredOf(runs, n)

\* what a reader sees for key k in version set S: version of the newest entry, 0 if none or deleted
Visible(S, k) ==
    LET C == {v \in S : v.k = k}
        top == MaxOf({v.ts : v \in C})
    IN IF C = {} THEN 0
       ELSE IF \E v \in C : v.ts = top /\ v.kind = "del" THEN 0 ELSE top

UpTo(T) == {v \in vers : v.ts <= T}

\* Loading the chain 1..n reproduces the source as of the start of backup n: same visible
\* state, and every version / marker a full backup at that moment would contain.
\* (runs changes only in FinishRun, which makes run = "idle"; versions at or below a finished
\* run's timestamps never change: evaluating the property in idle states loses nothing)
RestoreEqualsSource ==
    run = "idle" => \A n \in 1..Len(runs) :
        LET T == runs[n].startTs IN
        \A k \in Chosen :
            /\ Visible(Restored(n), k) = Visible(UpTo(T), k)
            /\ BackupList(vers, k, T, 0) \subseteq Restored(n)

\* The version returned by backup n is a safe resume point: nothing retained at or below it
\* is missing from the backups 1..n (so the next incremental backup, which skips versions
\* <= ret, loses nothing).
ChainComplete ==
    run = "idle" => \A n \in 1..Len(runs) :
        \A k \in Chosen : BackupList(vers, k, runs[n].ret, 0) \subseteq Restored(n)
=============================================================================
