------------------------------- MODULE Stream -------------------------------
(***************************************************************************)
(* The Stream framework (stream.go): Orchestrate starts produceRanges, NumGo *)
(* producer goroutines (produceKVs) and one sender goroutine (streamKVs).   *)
(* Every producer creates a transaction, then repeatedly takes a key range  *)
(* from rangeCh, iterates it with KeyToList (ToList by default, the backup  *)
(* KeyToList of backup.go:54 in mode "backup") and puts the batch on kvChan;*)
(* the sender drains kvChan and calls Send.  Transactions commit            *)
(* concurrently.  Several runs may follow each other (Orchestrate "can be   *)
(* called multiple times, but in serial order"); in chained mode each run   *)
(* uses as SinceTs the version the previous run returned (Stream.Backup).   *)
(*                                                                         *)
(* SharedSnapshot = FALSE models the code as it is: each producer takes its *)
(* own read timestamp when it starts (stream.go produceKVs: NewTransaction).*)
(* SharedSnapshot = TRUE models the intended behaviour (one read timestamp  *)
(* taken when the run starts).  The properties are model-checked for the    *)
(* intended behaviour; the replay decides which of the two the code does.   *)
(*                                                                         *)
(* Code anchors: Commit = Txn.Commit; StartRun = Stream.Orchestrate entry + *)
(* produceRanges (db.Ranges, sorted hand-out order); PStart = produceKVs up *)
(* to the hook event "stream.txn"; PTake = receive from st.rangeCh;         *)
(* PProduce = iterate(kr) + sendIt; PExit = rangeCh closed; SendBegin /     *)
(* SendEnd = streamKVs slurp + st.Send; FinishRun = Orchestrate returns.    *)
(***************************************************************************)
EXTENDS Integers, Sequences, FiniteSets, TLC

CONSTANTS Keys,           \* finite set of naturals
          NRanges,        \* number of key ranges db.Ranges produced, handed out in order 1..NRanges
          RangeOf,        \* function Keys -> 1..NRanges (the ranges partition the key space)
          InitTs,         \* function Keys -> version of the key's initial value (layout building commits)
          FirstTs,        \* oracle.nextTxnTs when the schedule starts (> every InitTs)
          Producers,      \* set 1..NumGo
          MaxTs,          \* bound on commit timestamps
          WSets,          \* set of key sets a concurrent commit may write
          Kinds,          \* subset of {"set", "del", "disc"}: what a commit writes
          MaxRuns,        \* number of Orchestrate calls
          Mode,           \* "tolist" (Stream.ToList) or "backup" (Stream.Backup's KeyToList)
          NVK,            \* 1: NumVersionsToKeep = 1, 2: more than one version kept
          Sinces,         \* SinceTs values a run may use when not chained
          Chained,        \* BOOLEAN: SinceTs of run i+1 = version returned by run i
          Chosen,         \* subset of Keys accepted by ChooseKey
          SharedSnapshot  \* BOOLEAN, see above

VARIABLES vers,     \* committed versions: set of [k, ts, kind]
          nextTs,   \* oracle.nextTxnTs
          run,      \* "idle" | "running"
          since,    \* SinceTs of the current run
          startTs,  \* read timestamp a transaction created at Orchestrate entry would get
          queue,    \* ranges not yet handed out (rangeCh + the rest of produceRanges' loop)
          pst,      \* per producer [pc, ts, cur]
          chan,     \* kvChan: sequence of batches; a batch is a set of [k, items]
          inSend,   \* batches handed to the Send call in progress
          nSend,    \* number of Send calls in progress
          out,      \* batches sent so far in this run, in order
          done,     \* ranges iterated so far in this run, in order
          runs      \* finished runs

vars == <<vers, nextTs, run, since, startTs, queue, pst, chan, inSend, nSend, out, done, runs>>

Item(k, ts, kind) == [k |-> k, ts |-> ts, kind |-> kind]
MaxOf(S) == IF S = {} THEN 0 ELSE CHOOSE t \in S : \A u \in S : u <= t

\* ---- what KeyToList yields for key k in a transaction reading at T with SinceTs s
\* (iterator.go:634 hides versions > readTs and <= SinceTs; AllVersions iteration, newest first)
VersOf(V, k, T, s) == {v \in V : v.k = k /\ v.ts <= T /\ v.ts > s}
CutTs(V, k, T, s) == MaxOf({v.ts : v \in {w \in VersOf(V, k, T, s) : w.kind \in {"del", "disc"}}})
KindAt(V, k, ts) == (CHOOSE v \in V : v.k = k /\ v.ts = ts).kind

\* Stream.ToList: versions newest first; stops before a deleted version, after one version
\* when NumVersionsToKeep = 1, after a version carrying the discard-earlier bit.
ToList(V, k, T, s) ==
    LET C == VersOf(V, k, T, s)
        cut == CutTs(V, k, T, s)
        above == {v \in C : v.ts > cut}
        all == IF cut > 0 /\ KindAt(V, k, cut) = "disc" THEN above \cup {v \in C : v.ts = cut} ELSE above
    IN IF NVK = 1 THEN {v \in all : v.ts = MaxOf({w.ts : w \in C})} ELSE all

\* backup.go:54: every version newest first, including the first delete marker (then stop);
\* after a discard-earlier version a synthetic delete marker one version below (then stop).
BackupList(V, k, T, s) ==
    LET C == VersOf(V, k, T, s)
        cut == CutTs(V, k, T, s)
        base == {v \in C : v.ts >= cut}
    IN IF cut > 0 /\ KindAt(V, k, cut) = "disc" THEN base \cup {Item(k, cut - 1, "del")} ELSE base

List(V, k, T, s) == IF Mode = "backup" THEN BackupList(V, k, T, s) ELSE ToList(V, k, T, s)

\* what iterate(kr) puts on kvChan for range r
RangeBatch(V, r, T, s) ==
    {[k |-> k, items |-> List(V, k, T, s)] : k \in {x \in Chosen : RangeOf[x] = r /\ List(V, x, T, s) # {}}}

\* the complete output of a run that reads everything at T
SnapItems(V, T, s) == UNION {List(V, k, T, s) : k \in Chosen}

ItemsOf(batches) == UNION {UNION {l.items : l \in batches[i]} : i \in 1..Len(batches)}

InitP == [pc |-> "init", ts |-> 0, cur |-> 0]

Init ==
    /\ vers = {Item(k, InitTs[k], "set") : k \in Keys}
    /\ nextTs = FirstTs
    /\ run = "idle" /\ since = 0 /\ startTs = 0
    /\ queue = <<>>
    /\ pst = [p \in Producers |-> InitP]
    /\ chan = <<>> /\ inSend = <<>> /\ nSend = 0 /\ out = <<>> /\ done = <<>>
    /\ runs = <<>>

\* ---- a transaction commits (any time: before, during, between runs)
Commit(ks, kind) ==
    /\ nextTs <= MaxTs
    /\ ks \in WSets /\ kind \in Kinds
    /\ vers' = vers \cup {Item(k, nextTs, kind) : k \in ks}
    /\ nextTs' = nextTs + 1
    /\ UNCHANGED <<run, since, startTs, queue, pst, chan, inSend, nSend, out, done, runs>>

\* ---- Orchestrate is called
NextSince == IF runs = <<>> THEN 0 ELSE runs[Len(runs)].ret
StartRun(s) ==
    /\ run = "idle" /\ Len(runs) < MaxRuns
    /\ IF Chained THEN s = NextSince ELSE s \in Sinces /\ s < nextTs
    /\ run' = "running" /\ since' = s /\ startTs' = nextTs - 1
    /\ queue' = [i \in 1..NRanges |-> i]
    /\ pst' = [p \in Producers |-> InitP]
    /\ chan' = <<>> /\ inSend' = <<>> /\ out' = <<>> /\ done' = <<>>
    /\ UNCHANGED <<vers, nextTs, nSend, runs>>

\* ---- producer p creates its transaction
PStart(p) ==
    /\ run = "running" /\ pst[p].pc = "init"
    /\ pst' = [pst EXCEPT ![p] = [pc |-> "idle", ts |-> IF SharedSnapshot THEN startTs ELSE nextTs - 1, cur |-> 0]]
    /\ UNCHANGED <<vers, nextTs, run, since, startTs, queue, chan, inSend, nSend, out, done, runs>>

\* ---- producer p receives the next range
PTake(p) ==
    /\ run = "running" /\ pst[p].pc = "idle" /\ queue # <<>>
    /\ pst' = [pst EXCEPT ![p].pc = "busy", ![p].cur = Head(queue)]
    /\ queue' = Tail(queue)
    /\ UNCHANGED <<vers, nextTs, run, since, startTs, chan, inSend, nSend, out, done, runs>>

\* ---- producer p iterates its range at its own read timestamp and hands the batch over
PProduce(p) ==
    /\ run = "running" /\ pst[p].pc = "busy"
    /\ chan' = Append(chan, RangeBatch(vers, pst[p].cur, pst[p].ts, since))
    /\ done' = Append(done, pst[p].cur)
    /\ pst' = [pst EXCEPT ![p].pc = "idle", ![p].cur = 0]
    /\ UNCHANGED <<vers, nextTs, run, since, startTs, queue, inSend, nSend, out, runs>>

\* ---- rangeCh closed: producer p returns
PExit(p) ==
    /\ run = "running" /\ pst[p].pc = "idle" /\ queue = <<>>
    /\ pst' = [pst EXCEPT ![p].pc = "exit"]
    /\ UNCHANGED <<vers, nextTs, run, since, startTs, queue, chan, inSend, nSend, out, done, runs>>

\* ---- the sender goroutine: takes what is on kvChan now (slurp) and calls Send; it is one
\* thread of control, so it starts the next Send only after the previous one returned
SendBegin(n) ==
    /\ run = "running" /\ inSend = <<>> /\ n \in 1..Len(chan)
    /\ inSend' = SubSeq(chan, 1, n)
    /\ chan' = SubSeq(chan, n + 1, Len(chan))
    /\ nSend' = nSend + 1
    /\ UNCHANGED <<vers, nextTs, run, since, startTs, queue, pst, out, done, runs>>

SendEnd ==
    /\ inSend # <<>>
    /\ out' = out \o inSend
    /\ inSend' = <<>>
    /\ nSend' = nSend - 1
    /\ UNCHANGED <<vers, nextTs, run, since, startTs, queue, pst, chan, done, runs>>

\* ---- Orchestrate returns (wg.Wait, close(kvChan), sender drained)
FinishRun ==
    /\ run = "running"
    /\ \A p \in Producers : pst[p].pc = "exit"
    /\ chan = <<>> /\ inSend = <<>>
    /\ runs' = Append(runs, [since |-> since, startTs |-> startTs, endTs |-> nextTs - 1,
                             items |-> ItemsOf(out), done |-> done,
                             keys |-> [i \in 1..Len(out) |-> {l.k : l \in out[i]}],
                             ret |-> MaxOf({v.ts : v \in ItemsOf(out)}),
                             pts |-> {pst[p].ts : p \in Producers}])
    /\ run' = "idle"
    /\ UNCHANGED <<vers, nextTs, since, startTs, queue, pst, chan, inSend, nSend, out, done>>

Next ==
    \/ \E ks \in WSets, kind \in Kinds : Commit(ks, kind)
    \/ \E s \in Sinces \cup {NextSince} : StartRun(s)
    \/ \E p \in Producers : PStart(p) \/ PTake(p) \/ PProduce(p) \/ PExit(p)
    \/ \E n \in {1, Len(chan)} : SendBegin(n)
    \/ SendEnd
    \/ FinishRun

Spec == Init /\ [][Next]_vars

\* ------------------------------------------------------------------ properties
TypeOK ==
    /\ nextTs \in FirstTs..(MaxTs + 1)
    /\ run \in {"idle", "running"}
    /\ \A p \in Producers : pst[p].pc \in {"init", "idle", "busy", "exit"}
    /\ nSend \in 0..1

\* Send is never called concurrently
SendSerial == nSend <= 1

Occ(seq, x) == Cardinality({i \in 1..Len(seq) : seq[i] = x})

\* every range (hence every key) is iterated at most once while running, exactly once per
\* finished run, and a key never appears in two batches
EachKeyOnce ==
    /\ \A r \in 1..NRanges : Occ(done, r) <= 1
    /\ \A i \in 1..Len(runs) :
          /\ \A r \in 1..NRanges : Occ(runs[i].done, r) = 1
          /\ \A a, b \in 1..Len(runs[i].keys) : a # b => runs[i].keys[a] \cap runs[i].keys[b] = {}

\* the output of a finished run is what one transaction would have read ...
OneSnapshot ==
    \A i \in 1..Len(runs) :
        \E T \in runs[i].startTs..runs[i].endTs : runs[i].items = SnapItems(vers, T, runs[i].since)
\* ... namely one created when the run started
SnapshotAtStart ==
    \A i \in 1..Len(runs) : runs[i].items = SnapItems(vers, runs[i].startTs, runs[i].since)

\* all producers of a run read at the same timestamp
SameReadTs == \A i \in 1..Len(runs) : Cardinality(runs[i].pts) = 1
=============================================================================
