---------------------------- MODULE StreamWriter ----------------------------
(***************************************************************************)
(* StreamWriter (stream_writer.go): a session is Prepare (drop everything) *)
(* or PrepareIncremental (keep what is there), a number of Write calls     *)
(* whose buffers carry entries of several streams (each stream sorted,     *)
(* streams over disjoint key ranges) and done markers, and Flush.          *)
(* Per stream a sortedWriter appends to a table builder and cuts a table   *)
(* when the builder reached its capacity - but only between two different  *)
(* keys (stream_writer.go:417); tables of a session go to one level; Flush *)
(* finishes the open builders and restarts the oracle above every version  *)
(* seen.  Sessions may follow each other; ordinary commits and re-opens    *)
(* happen in between.                                                      *)
(*                                                                         *)
(* Code anchors: Commit = Txn.Commit; Reopen = DB.Close + Open (memtable   *)
(* flushed to L0, nextTxnTs = max version + 1); Prepare = sw.Prepare /     *)
(* sw.PrepareIncremental (level choice, Flatten when data sits in L0);     *)
(* Write = sw.Write (demux, newWriter, sortedWriter.Add, done markers);    *)
(* Flush = sw.Flush.                                                       *)
(***************************************************************************)
EXTENDS Integers, Sequences, FiniteSets, TLC

CONSTANTS Streams,      \* set of stream ids
          Keys,         \* finite set of naturals
          Owner,        \* function Keys -> Streams: streams cover disjoint key ranges
          Vers,         \* versions streamed entries may carry
          MaxLen,       \* at most this many entries per stream and session
          MaxBatch,     \* at most this many entries of one stream per Write call
          Cap,          \* builder capacity in size units (small entry 1, big entry 2)
          Modes,        \* subset of {"full", "incr"}: what the first session may use
          MaxSessions,  \* number of StreamWriter sessions
          MaxCommits,   \* ordinary commits (before / between / after sessions)
          MaxLevels,    \* Options.MaxLevels
          LevelFix      \* BOOLEAN. FALSE: the code as it is - after DB.Flatten an incremental session always
                        \* writes to level MaxLevels-2; TRUE: intended - it moves one level up when that level
                        \* holds the flattened data

VARIABLES db,        \* entries readable in the database: set of [k, ts, kind, big]
          nextTs,    \* oracle.nextTxnTs
          lv,        \* set of levels holding tables
          may,       \* entries a compaction was allowed to drop (invisible: at or below a delete marker)
          mem,       \* BOOLEAN: the memtable holds data (commits since the last re-open)
          phase,     \* "idle" | "choosing" (ghost: the session's streams are being fixed) | "writing"
          chosen,    \* streams whose content is fixed
          sess,      \* sessions started so far
          content,   \* per stream: the entries to be written in this session (sorted)
          pos,       \* per stream: how many of them were passed to Write
          wr,        \* per stream: "none" | "open" | "closed"  (sw.writers[id])
          cur,       \* per stream: entries in the open builder
          tables,    \* finished tables of all sessions: [sess, s, level, es]
          level,     \* level the current session writes to
          maxv,      \* sw.maxVersion
          ncommit,   \* ordinary commits so far
          expect     \* ghost: what the database must contain

vars == <<db, nextTs, lv, may, mem, phase, chosen, sess, content, pos, wr, cur, tables, level, maxv, ncommit, expect>>

MaxOf(S) == IF S = {} THEN 0 ELSE CHOOSE t \in S : \A u \in S : u <= t

\* attributes of a streamed entry are derived from (key, version) - the harness does the same
KindOf(k, ts) == IF (k + ts) % 5 = 0 THEN "del" ELSE "set"
BigOf(k, ts) == (k + 2 * ts) % 3 = 0
Entry(k, ts) == [k |-> k, ts |-> ts, kind |-> KindOf(k, ts), big |-> BigOf(k, ts)]
SizeOf(e) == IF e.big THEN 2 ELSE 1

\* internal key order: key ascending, version descending
Before(a, b) == a.k < b.k \/ (a.k = b.k /\ a.ts > b.ts)
RECURSIVE KeySort(_)
KeySort(S) == IF S = {} THEN <<>>
              ELSE LET m == CHOOSE x \in S : \A y \in S : x = y \/ Before(x, y)
                   IN <<m>> \o KeySort(S \ {m})

SeqSize(q) == LET RECURSIVE Sum(_) Sum(i) == IF i = 0 THEN 0 ELSE SizeOf(q[i]) + Sum(i - 1) IN Sum(Len(q))
SeqSet(q) == {q[i] : i \in 1..Len(q)}

\* sortedWriter.Add over a sequence of entries: state [cur, done]
RECURSIVE Feed(_, _)
Feed(st, es) ==
    IF es = <<>> THEN st
    ELSE LET e == Head(es)
             cut == st.cur # <<>> /\ st.cur[Len(st.cur)].k # e.k /\ SeqSize(st.cur) >= Cap
         IN Feed(IF cut THEN [cur |-> <<e>>, done |-> Append(st.done, st.cur)]
                        ELSE [cur |-> Append(st.cur, e), done |-> st.done], Tail(es))

Cands(s) == {Entry(k, ts) : k \in {x \in Keys : Owner[x] = s}, ts \in Vers}
\* an incremental stream carries newer versions than the database holds for the same key
\* (writing an older version of a key later is outside badger's contract, see C36)
Fresh(S) == \A e \in S : \A f \in db : f.k = e.k => f.ts < e.ts

\* top-most level holding tables (MaxLevels if there is none)
Top == IF lv = {} THEN MaxLevels ELSE CHOOSE l \in lv : \A m \in lv : l <= m
\* entries no reader can see any more: at or below a delete marker of their key
Dead(S) == {e \in S : \E d \in S : d.k = e.k /\ d.kind = "del" /\ d.ts >= e.ts}
\* DB.Flatten: nothing happens while a single level holds data; otherwise every level is compacted
\* into the next one holding data (L0 into the top-most non-empty level below it: levelTargets
\* never puts the base level below a non-empty level), so everything ends up in the deepest
\* level that held data - not necessarily the last level.  These compactions drop dead entries.
Flattens == Cardinality(lv) > 1
Flattened == IF Flattens THEN {MaxOf(lv)} ELSE lv

Init ==
    /\ db = {} /\ nextTs = 1 /\ lv = {} /\ may = {} /\ mem = FALSE
    /\ phase = "idle" /\ sess = 0 /\ chosen = {}
    /\ content = [s \in Streams |-> <<>>] /\ pos = [s \in Streams |-> 0]
    /\ wr = [s \in Streams |-> "none"] /\ cur = [s \in Streams |-> <<>>]
    /\ tables = {} /\ level = 0 /\ maxv = 0 /\ ncommit = 0
    /\ expect = {}

\* ---- an ordinary transaction sets key k (between sessions)
Commit(k) ==
    /\ phase = "idle" /\ ncommit < MaxCommits
    /\ LET e == [k |-> k, ts |-> nextTs, kind |-> "set", big |-> BigOf(k, nextTs)] IN
       /\ db' = db \cup {e} /\ expect' = expect \cup {e}
    /\ nextTs' = nextTs + 1 /\ mem' = TRUE /\ ncommit' = ncommit + 1
    /\ UNCHANGED <<lv, may, phase, chosen, sess, content, pos, wr, cur, tables, level, maxv>>

\* ---- Close + Open: the memtable becomes an L0 table; the oracle restarts above the largest version
\* found in the tables.  Entries a compaction was allowed to drop (may) are possibly not there any
\* more: X is the part that is really gone (a dropped delete marker may have carried the largest
\* version, so the next timestamp can be smaller than before the re-open).
Reopen(X) ==
    /\ phase = "idle"
    /\ X \subseteq may
    \* a compaction drops a delete marker only together with everything below it
    /\ \A e \in X : \A f \in db : (f.k = e.k /\ f.ts < e.ts) => f \in X
    /\ db' = db \ X /\ expect' = expect \ X /\ may' = may \ X
    /\ nextTs' = MaxOf({e.ts : e \in db'}) + 1
    /\ lv' = IF mem THEN lv \cup {0} ELSE lv
    /\ mem' = FALSE
    /\ UNCHANGED <<phase, chosen, sess, content, pos, wr, cur, tables, level, maxv, ncommit>>

\* ---- Prepare / PrepareIncremental
\* full: dropAll, tables go to the last level. incr: needs an empty memtable (stream_writer.go:107);
\* writes one level above the top-most level holding data; if that is L0 it calls DB.Flatten and
\* then assumes that everything sits in the last level: it writes to MaxLevels-2 (also when Flatten
\* left a lone L0 where it was, and - LevelFix = FALSE - also when MaxLevels-2 is where the data went)
Prepare(m) ==
    /\ phase = "idle" /\ sess < MaxSessions
    /\ m \in (IF sess = 0 THEN Modes ELSE {"incr"})
    /\ m = "incr" => ~mem
    /\ content' = [s \in Streams |-> <<>>] /\ chosen' = {}
    /\ pos' = [s \in Streams |-> 0] /\ wr' = [s \in Streams |-> "none"] /\ cur' = [s \in Streams |-> <<>>]
    /\ maxv' = 0 /\ sess' = sess + 1 /\ phase' = "choosing"
    /\ IF m = "full"
       THEN /\ db' = {} /\ expect' = {} /\ tables' = {} /\ mem' = FALSE
            /\ level' = MaxLevels - 1 /\ lv' = {} /\ may' = {}
       ELSE /\ UNCHANGED <<db, expect, tables, mem>>
            \* LevelFix: a lone L0 is compacted away too (into the last level of the otherwise empty tree)
            /\ lv' = IF Top # 0 THEN lv ELSE IF Flattens THEN Flattened ELSE IF LevelFix THEN {MaxLevels - 1} ELSE lv
            /\ level' = IF Top = MaxLevels THEN MaxLevels - 1
                        ELSE IF Top # 0 THEN Top - 1
                        ELSE IF LevelFix /\ (MaxLevels - 2) \in Flattened THEN MaxLevels - 3
                        ELSE MaxLevels - 2
            /\ may' = IF Top = 0 /\ (Flattens \/ LevelFix) THEN may \cup Dead(db) ELSE may
    /\ UNCHANGED <<nextTs, ncommit>>

\* ---- (ghost) the entries stream s is going to carry in this session: any sorted sequence of
\* distinct key@version pairs of its key range that are not in the database yet
Choose(s, S) ==
    /\ phase = "choosing" /\ s \notin chosen
    /\ \A t \in Streams : t < s => t \in chosen
    /\ S \subseteq Cands(s) /\ Cardinality(S) <= MaxLen /\ Fresh(S)
    /\ content' = [content EXCEPT ![s] = KeySort(S)]
    /\ chosen' = chosen \cup {s}
    /\ phase' = IF chosen' = Streams THEN "writing" ELSE "choosing"
    /\ UNCHANGED <<db, nextTs, lv, may, mem, sess, pos, wr, cur, tables, level, maxv, ncommit, expect>>

\* ---- one Write call: n[s] further entries of stream s, done markers for the streams in d
Remaining(s) == Len(content[s]) - pos[s]
Write(n, d) ==
    /\ phase = "writing"
    /\ \E s \in Streams : content[s] # <<>>
    /\ \A s \in Streams : n[s] \in 0..Remaining(s) /\ n[s] <= MaxBatch /\ (n[s] > 0 => wr[s] # "closed")
    /\ (\E s \in Streams : n[s] > 0) \/ d # {}
    /\ \A s \in d : Remaining(s) = n[s] /\ wr[s] # "closed"         \* a done marker ends its stream
    /\ LET fed == [s \in Streams |-> Feed([cur |-> cur[s], done |-> <<>>], SubSeq(content[s], pos[s] + 1, pos[s] + n[s]))]
           \* a done marker closes the writer if there is one (a stream that never wrote has none)
           closes == {s \in d : wr[s] = "open" \/ n[s] > 0}
           fin == [s \in Streams |-> IF s \in closes /\ fed[s].cur # <<>> THEN Append(fed[s].done, fed[s].cur) ELSE fed[s].done]
       IN /\ tables' = tables \cup UNION {{[sess |-> sess, s |-> s, level |-> level, es |-> fin[s][i]] : i \in 1..Len(fin[s])} : s \in Streams}
          /\ cur' = [s \in Streams |-> IF s \in closes THEN <<>> ELSE fed[s].cur]
          /\ wr' = [s \in Streams |-> IF s \in closes THEN "closed" ELSE IF n[s] > 0 THEN "open" ELSE wr[s]]
    /\ pos' = [s \in Streams |-> pos[s] + n[s]]
    /\ maxv' = MaxOf({maxv} \cup UNION {{content[s][i].ts : i \in (pos[s] + 1)..(pos[s] + n[s])} : s \in Streams})
    /\ UNCHANGED <<db, nextTs, lv, may, mem, phase, chosen, sess, content, level, ncommit, expect>>

\* ---- Flush, after every stream was written completely
Flush ==
    /\ phase = "writing"
    /\ \A s \in Streams : Remaining(s) = 0
    /\ LET last == {[sess |-> sess, s |-> s, level |-> level, es |-> cur[s]] : s \in {x \in Streams : wr[x] = "open" /\ cur[x] # <<>>}}
           all == tables \cup last
           mine == {t \in all : t.sess = sess}
       IN /\ tables' = all
          /\ db' = db \cup UNION {SeqSet(t.es) : t \in mine}
          /\ lv' = IF mine = {} THEN lv ELSE lv \cup {level}
    /\ expect' = expect \cup UNION {SeqSet(content[s]) : s \in Streams}
    /\ nextTs' = MaxOf({maxv, nextTs - 1}) + 1
    /\ cur' = [s \in Streams |-> <<>>] /\ wr' = [s \in Streams |-> "none"]
    /\ phase' = "idle"
    /\ UNCHANGED <<may, mem, chosen, sess, content, pos, level, maxv, ncommit>>

Batches == [Streams -> 0..MaxBatch]

Next ==
    \/ \E k \in Keys : Commit(k)
    \/ \E X \in SUBSET may : Reopen(X)
    \/ \E m \in {"full", "incr"} : Prepare(m)
    \/ \E s \in Streams : \E S \in SUBSET Cands(s) : Choose(s, S)
    \/ \E n \in Batches, d \in SUBSET Streams : Write(n, d)
    \/ Flush

Spec == Init /\ [][Next]_vars

\* ------------------------------------------------------------------ properties
TypeOK ==
    /\ phase \in {"idle", "choosing", "writing"}
    /\ \A s \in Streams : wr[s] \in {"none", "open", "closed"} /\ pos[s] \in 0..MaxLen
    /\ level \in 0..(MaxLevels - 1) /\ lv \subseteq 0..(MaxLevels - 1)

\* after Flush the database holds exactly the streamed entries (plus, in incremental mode, what
\* was there before, plus later commits): `db` is what the model's tables and commits put there,
\* `expect` what the user handed in.  A real database may additionally have lost entries of `may`.
ResultEqualsStreams == phase = "idle" => db = expect
\* what may be missing is invisible: same visible state with or without it
VisibleTs(S, k) == LET C == {e \in S : e.k = k} top == MaxOf({e.ts : e \in C}) IN
                   IF C = {} \/ \E e \in C : e.ts = top /\ e.kind = "del" THEN 0 ELSE top
DroppedInvisible == \A k \in Keys : VisibleTs(db \ may, k) = VisibleTs(db, k)

\* every transaction that follows gets a timestamp above every version in the database (a
\* delete marker that a compaction dropped is not in the database any more)
NextTsAboveAll == phase = "idle" => \A e \in db : e.ts < nextTs

\* no entry is lost or duplicated on its way through builders and table cuts
NothingLostInFlight ==
    phase = "writing" =>
        \A s \in Streams :
            LET mine == {t \in tables : t.sess = sess /\ t.s = s}
                parts == UNION {SeqSet(t.es) : t \in mine} \cup SeqSet(cur[s])
            IN /\ parts = SeqSet(SubSeq(content[s], 1, pos[s]))
               /\ \A t1, t2 \in mine : t1 # t2 => SeqSet(t1.es) \cap SeqSet(t2.es) = {}

\* all versions of a key are in one table (a table is cut only between two keys)
KeyInOneTable ==
    \A t1, t2 \in tables :
        (t1 # t2 /\ t1.sess = t2.sess) => {e.k : e \in SeqSet(t1.es)} \cap {e.k : e \in SeqSet(t2.es)} = {}

\* the level a session writes to holds no other tables (so its tables cannot overlap older ones)
WritesToFreeLevel == phase = "writing" => level \notin lv
=============================================================================
