------------------------------ MODULE StreamGen ------------------------------
(***************************************************************************)
(* Schedule generator for Stream / Backup.  The design actions are extended *)
(* with a history variable recording the steps the Go harness can force in  *)
(* the real code:                                                           *)
(*   commit  - harness commits a transaction                                 *)
(*   start   - harness calls Orchestrate / Stream.Backup; all producers park *)
(*             at gate "stream.producer"                                     *)
(*   pstart  - gate released for one producer: it creates its transaction    *)
(*             (event "stream.txn") and, if a range is left, takes it and    *)
(*             parks in the harness' ChooseKey callback at its first key     *)
(*   produce - that producer is released from ChooseKey: it iterates its     *)
(*             range, hands the batch over and takes the next range (parks   *)
(*             again) or returns                                             *)
(*   finish  - Orchestrate returns                                           *)
(* The generator runs the model of the code AS IT IS (SharedSnapshot =      *)
(* FALSE) so that hist also carries what that model predicts ("asis"), and  *)
(* computes the outputs the property allows ("alts": the run read one       *)
(* snapshot T taken between Orchestrate entry and the last producer start;  *)
(* alts[1] is the snapshot at entry).  Shaping guards (no effect on the     *)
(* design): a producer that may take a range takes it before anything else  *)
(* happens (the harness has no gate between transaction creation and the    *)
(* receive from rangeCh; the outcomes - read timestamp per producer and     *)
(* range-to-producer assignment - are the same), producers start in index   *)
(* order (thread ids are interchangeable), the sender sends everything when *)
(* all producers returned (Send order is not judged, only concurrency).     *)
(***************************************************************************)
EXTENDS Backup, Json

CONSTANTS MaxPre     \* commits allowed before the first run and between runs (each)

VARIABLE hist
gvars == <<vars, hist>>

H(rec) == hist' = Append(hist, rec)

\* a range in which the producer's iterator sees no key at all (every version above its read
\* timestamp or at/below SinceTs) is passed through without a ChooseKey call
RangeVisible(r, T) == \E k \in Keys : RangeOf[k] = r /\ VersOf(vers, k, T, since) # {}
EmptyFor(p) == pst[p].pc = "busy" /\ ~RangeVisible(pst[p].cur, pst[p].ts)
FirstVis(q, T) == LET S == {i \in 1..Len(q) : RangeVisible(q[i], T)} IN
                  IF S = {} THEN 0 ELSE q[CHOOSE i \in S : \A j \in S : i <= j]

MustTake == \E p \in Producers : pst[p].pc = "idle" /\ queue # <<>>
MustExit == \E p \in Producers : pst[p].pc = "idle" /\ queue = <<>>
MustSkip == \E p \in Producers : EmptyFor(p)
Forced == run = "running" /\ (MustTake \/ MustExit \/ MustSkip)
AllExited == \A p \in Producers : pst[p].pc = "exit"
Quiet == run = "idle"

IdleCommits == Cardinality({i \in 1..Len(hist) : hist[i].op = "commit" /\ hist[i].runs = Len(runs) /\ hist[i].idle})

GCommit(ks, kind) ==
    /\ ~Forced /\ Len(runs) < MaxRuns
    /\ (Quiet => IdleCommits < MaxPre)
    /\ ~(run = "running" /\ AllExited)
    /\ Commit(ks, kind)
    /\ H([op |-> "commit", ts |-> nextTs, keys |-> ks, kind |-> kind, runs |-> Len(runs), idle |-> Quiet])

GStartRun(s) ==
    /\ StartRun(s)
    /\ H([op |-> "start", since |-> s, startTs |-> nextTs - 1])

GPStart(p) ==
    /\ ~Forced
    /\ \A q \in Producers : q < p => pst[q].pc # "init"
    /\ PStart(p)
    /\ H([op |-> "pstart", p |-> p, ts |-> nextTs - 1, takes |-> FirstVis(queue, nextTs - 1)])

GPTake(p) == PTake(p) /\ UNCHANGED hist

GPProduce(p) ==
    /\ ~Forced
    /\ PProduce(p)
    /\ H([op |-> "produce", p |-> p, r |-> pst[p].cur, takes |-> FirstVis(queue, pst[p].ts)])

GPSkip(p) == EmptyFor(p) /\ PProduce(p) /\ UNCHANGED hist

GPExit(p) ==
    /\ ~MustTake /\ ~MustSkip
    /\ \A q \in Producers : (q < p /\ pst[q].pc = "idle") => FALSE      \* lowest index first
    /\ PExit(p) /\ UNCHANGED hist

GSend ==
    /\ run = "running" /\ AllExited /\ chan # <<>>
    /\ SendBegin(Len(chan)) /\ UNCHANGED hist
GSendEnd == SendEnd /\ UNCHANGED hist

GFinish == FinishRun /\ H([op |-> "finish"])

GenNext ==
    \/ \E ks \in WSets, kind \in Kinds : GCommit(ks, kind)
    \/ \E s \in Sinces \cup {NextSince} : GStartRun(s)
    \/ \E p \in Producers : GPStart(p) \/ GPTake(p) \/ GPProduce(p) \/ GPSkip(p) \/ GPExit(p)
    \/ GSend \/ GSendEnd \/ GFinish

GenInit == Init /\ hist = <<>>
GenSpec == GenInit /\ [][GenNext]_gvars

\* ---- the outputs the property allows: run i read exactly one snapshot Tv[i]
Window(i) == runs[i].startTs..MaxOf(runs[i].pts)
TVecs == {tv \in [1..Len(runs) -> 0..MaxTs] : \A i \in 1..Len(runs) : tv[i] \in Window(i)}

RECURSIVE IdealRuns(_, _)
IdealRuns(tv, n) ==
    IF n = 0 THEN <<>>
    ELSE LET prev == IdealRuns(tv, n - 1)
             s == IF Chained THEN (IF n = 1 THEN 0 ELSE prev[n - 1].ret) ELSE runs[n].since
             its == SnapItems(vers, tv[n], s)
         IN Append(prev, [since |-> s, T |-> tv[n], items |-> its, ret |-> MaxOf({v.ts : v \in its})])

VisMap(S) == {[k |-> k, ts |-> Visible(S, k)] : k \in Chosen}

Alt(tv) ==
    LET rs == IdealRuns(tv, Len(runs)) IN
    [runs |-> rs,
     restored |-> IF Mode = "backup" THEN RestoredOf(rs, Len(rs)) ELSE {},
     visible |-> IF Mode = "backup" THEN VisMap(RestoredOf(rs, Len(rs))) ELSE {}]

\* alternatives ordered so that the snapshot-at-entry one comes first
StartVec == [i \in 1..Len(runs) |-> runs[i].startTs]
AltSeq == <<Alt(StartVec)>> \o
          LET rest == TVecs \ {StartVec}
              RECURSIVE Ser(_)
              Ser(S) == IF S = {} THEN <<>> ELSE LET x == CHOOSE y \in S : TRUE IN <<Alt(x)>> \o Ser(S \ {x})
          IN Ser(rest)

AsIs ==
    [runs |-> [i \in 1..Len(runs) |-> [since |-> runs[i].since, items |-> runs[i].items, ret |-> runs[i].ret,
                                       pts |-> runs[i].pts]],
     restored |-> IF Mode = "backup" THEN Restored(Len(runs)) ELSE {},
     visible |-> IF Mode = "backup" THEN VisMap(Restored(Len(runs))) ELSE {}]

Complete == Len(runs) = MaxRuns /\ run = "idle"

Emit == Complete => PrintT(<<"CASE", ToJson([steps |-> hist, asis |-> AsIs, alts |-> AltSeq, vers |-> vers])>>)
=============================================================================
