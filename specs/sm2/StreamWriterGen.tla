--------------------------- MODULE StreamWriterGen ---------------------------
(***************************************************************************)
(* Case generator for StreamWriter: the design actions extended with a     *)
(* history variable.  A case is a sequence of API-level steps              *)
(*   commit / reopen / prepare / content / write / flush                   *)
(* with the observations the specification predicts (version of a commit,  *)
(* next timestamp, top-most level holding tables, database contents).      *)
(* The harness turns "content" into the KVs of the streams and every       *)
(* "write" into one StreamWriter.Write call (or, as a variant, one         *)
(* concurrent call per stream).  Shaping guards only restrict which cases  *)
(* are generated: a re-open needs something to flush or follows a Flush,   *)
(* a case ends with a re-open after the last Flush, optionally followed by *)
(* one more commit.                                                        *)
(***************************************************************************)
EXTENDS StreamWriter, Json

VARIABLE hist
gvars == <<vars, hist>>
H(rec) == hist' = Append(hist, rec)

LastIs(op) == hist # <<>> /\ hist[Len(hist)].op = op
LastFlush == IF \E i \in 1..Len(hist) : hist[i].op = "flush"
             THEN CHOOSE i \in 1..Len(hist) : hist[i].op = "flush" /\ \A j \in (i + 1)..Len(hist) : hist[j].op # "flush"
             ELSE 0
After(op) == {i \in (LastFlush + 1)..Len(hist) : hist[i].op = op}
Final == sess = MaxSessions /\ phase = "idle"
Complete == Final /\ After("reopen") # {}

GCommit(k) ==
    /\ Final => (After("reopen") = {} => After("commit") = {}) /\ Cardinality(After("commit")) < 2 /\ ~(After("reopen") # {} /\ LastIs("commit"))
    /\ Commit(k)
    /\ H([op |-> "commit", k |-> k, ts |-> nextTs, big |-> BigOf(k, nextTs)])

GReopen ==
    /\ ~LastIs("reopen")
    /\ mem \/ LastIs("flush") \/ LastIs("commit")
    /\ Final => After("reopen") = {}
    \* only when the next timestamp does not depend on what a compaction really dropped
    /\ MaxOf({e.ts : e \in db \ may}) = MaxOf({e.ts : e \in db})
    /\ Reopen({})
    /\ H([op |-> "reopen", nextTs |-> nextTs', lv |-> lv', db |-> db, may |-> may])

GPrepare(m) == Prepare(m) /\ H([op |-> "prepare", mode |-> m, level |-> level', lv |-> lv', flatten |-> (m = "incr" /\ Top = 0 /\ Flattens),
                                  moved |-> (m = "incr" /\ Top = 0 /\ level' # MaxLevels - 2)])
GChoose(s, S) == Choose(s, S) /\ H([op |-> "content", s |-> s, entries |-> KeySort(S)])
GWrite(n, d) == Write(n, d) /\ H([op |-> "write", n |-> n, done |-> d])
GFlush == Flush /\ H([op |-> "flush", nextTs |-> nextTs', lv |-> lv', db |-> db', may |-> may,
                      tables |-> Cardinality({t \in tables' : t.sess = sess})])

GenNext ==
    \/ \E k \in Keys : GCommit(k)
    \/ GReopen
    \/ \E m \in {"full", "incr"} : GPrepare(m)
    \/ \E s \in Streams : \E S \in SUBSET Cands(s) : GChoose(s, S)
    \/ \E n \in Batches, d \in SUBSET Streams : GWrite(n, d)
    \/ GFlush

GenInit == Init /\ hist = <<>>
GenSpec == GenInit /\ [][GenNext]_gvars

Emit == Complete => PrintT(<<"CASE", ToJson([steps |-> hist, db |-> db, may |-> may, nextTs |-> nextTs])>>)
=============================================================================
