------------------------------ MODULE Disk_MC ------------------------------
(* Model-checking wrapper of Disk: concrete key groups and commit shapes. *)
EXTENDS Disk
MCGroupOf(k) == IF k = 1 THEN 1 ELSE 2
MCGroups == {1, 2}
MCKeySets1 == {{1}, {1, 2}}
MCKeySets2 == {{1}, {2}, {1, 2}}
=============================================================================
