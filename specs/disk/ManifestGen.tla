----------------------------- MODULE ManifestGen -----------------------------
(***************************************************************************)
(* Model checking wrapper and case generator for Manifest (C17, and the    *)
(* MANIFEST part of C09).  A case is a sequence of addChanges calls with,  *)
(* after each call, the predicted error flag, in-memory copy, whether the  *)
(* file was rewritten, and at the end the predicted replay result of every *)
(* whole-record prefix of the file.                                        *)
(***************************************************************************)
EXTENDS Manifest, TLC, Json

VARIABLE hist
gvars == <<vars, hist>>

Cr(i, l) == [op |-> "create", id |-> i, lvl |-> l]
Dl(i) == [op |-> "delete", id |-> i, lvl |-> 0]
\* singletons; compaction-like pairs (create one, delete another / the same); double
\* creates (invalid: second create of the set fails); double deletes (second is unknown)
MenuSets ==
    {<<Cr(i, l)>> : i \in Ids, l \in Levels} \cup {<<Dl(i)>> : i \in Ids}
    \cup {<<Cr(i, 1), Dl(j)>> : i \in Ids, j \in Ids}
    \cup {<<Cr(i, 0), Cr(j, 1)>> : i \in Ids, j \in Ids}
    \cup {<<Dl(i), Dl(j)>> : i \in Ids, j \in Ids}
    \cup {<<Dl(i), Cr(i, 0)>> : i \in Ids}

Proj(m) == [lvl |-> [i \in Ids |-> m.lvl[i]], cre |-> m.cre, del |-> m.del]

GAdd(cs) ==
    /\ AddChanges(cs)
    /\ hist' = Append(hist, [cs |-> cs, err |-> lastErr', live |-> Proj(live'),
                              rewritten |-> (~lastErr' /\ file' # Append(file, cs)), nrec |-> Len(file')])
GenNext == \E cs \in ChangeSets : GAdd(cs)
GenInit == Init /\ hist = <<>>
GenSpec == GenInit /\ [][GenNext]_gvars
MCSpec == GenInit /\ [][GenNext \/ (Reopen /\ UNCHANGED hist)]_gvars

\* model-checking view: what happens next depends on the file only through its replay
MCView == <<live, ReplayFile(file), nsets, lastErr, reopened>>

Prefixes == [n \in 1..(Len(file) + 1) |-> Proj(ReplayFile(SubSeq(file, 1, n - 1)).m)]

\* a torn tail is cut off by the re-open (truncation at the last whole record); the next change
\* set must land right behind that record: replay of (prefix + one more set). The extra set is
\* the always-valid "delete table 1".
PrefixesThenDelete == [n \in 1..(Len(file) + 1) |->
                          Proj(ReplayFile(Append(SubSeq(file, 1, n - 1), <<Dl(1)>>)).m)]

Emit == nsets = MaxSets => PrintT(<<"CASE", ToJson([threshold |-> Threshold, steps |-> hist, prefixes |-> Prefixes, prefixesThenDelete |-> PrefixesThenDelete,
                                                      reopen |-> Proj(Cloned(ReplayFile(file).m))])>>)
=============================================================================
