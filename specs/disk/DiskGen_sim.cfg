SPECIFICATION GenSpec
CONSTANTS
  NKeys = 4
  HistLen = 12
  SyncModes = {FALSE, TRUE}
  KeySets = {{1}, {2}, {3}, {1, 3}, {1, 2}, {2, 3, 4}}
  Styles = {1, 2, 3, 4}
  EnvOps = {"rotate", "flush", "compactL0", "gc", "reopen"}
  Drops = {"dropAll", "dropPrefix"}
  DropAt = 0
  Races = {}
  MultiAt = 0
  MultiN = 0
  MaxEnv = 6
  MaxRow = 2
  VlogMaxEntries = 2
INVARIANTS Emit
