-------------------------------- MODULE Disk --------------------------------
(***************************************************************************)
(* Persistence, crash and recovery of badger.                              *)
(*                                                                         *)
(* The file system has two layers: the CACHE layer (directory entries and  *)
(* file contents as the running process and the OS page cache see them:    *)
(* this is what a killed process leaves behind) and the DURABLE layer      *)
(* (what survives power loss: contents as of the last msync/fsync of the   *)
(* file, directory entries as of the last fsync of the directory).         *)
(* Every persistence procedure of the code is a little program whose steps *)
(* are separate actions, in the order the code performs them, executed by  *)
(* three processes that interleave freely:                                 *)
(*   W  the writer goroutine (db.go doWrites/writeRequests)                *)
(*   F  the flusher goroutine (db.go flushMemtable/handleMemTableFlush)    *)
(*   B  one background procedure at a time: compaction (levels.go          *)
(*      runCompactDef), value-log GC (value.go rewrite), DropAll,          *)
(*      DropPrefix (db.go), Close (db.go close)                            *)
(* MANIFEST updates of all three go through manifestFile.addChanges        *)
(* (manifest.go), serialised by appendLock: the "mw" sub-procedure, which  *)
(* also performs the automatic rewrite.                                    *)
(* Environment: Crash(kind) (process kill, or power loss in several        *)
(* flavours) and Recover, the specification of Open.                       *)
(*                                                                         *)
(* Switches select between the INTENDED protocol (TRUE) and THE CODE AS IT *)
(* IS (FALSE):                                                             *)
(*   DirSyncOnCreate  fsync the directory after creating a .mem, .vlog or  *)
(*                    flush-time .sst file (code: only compaction outputs, *)
(*                    MANIFEST rewrite, Open and Close sync the directory) *)
(*   DropFlushFirst   DropAll first flushes the active memtable into a     *)
(*                    table, so that the single MANIFEST change set of     *)
(*                    dropTree is the atomic point of the drop (code: the  *)
(*                    memtable and its WAL are removed un-flushed before   *)
(*                    the MANIFEST deletions are written).  Writing the    *)
(*                    deletions first and removing the memtable afterwards *)
(*                    is NOT enough: a GC write-back can leave an older    *)
(*                    version of a key in the memtable than in the tables  *)
(*                    (TLC counterexample with GC + DropAll).              *)
(*   ZeroLenLogOK     Open treats a zero-length .mem/.vlog as empty (code: *)
(*                    z.NewFile is returned as an error)                   *)
(*   GCSafe           value-log GC does not run while a write request is     *)
(*                    between vlog.write and writeToLSM (code: nothing       *)
(*                    prevents rewrite() from scanning a just-rotated file   *)
(*                    whose last entries are not yet in the LSM tree: they   *)
(*                    look like garbage and the file is deleted)             *)
(* The invariants hold for the intended protocol; with a switch off TLC    *)
(* produces the counterexample that the crash harness reproduces on the    *)
(* real code.                                                              *)
(***************************************************************************)
EXTENDS Integers, Sequences, FiniteSets, TLC, LogIterate, DiskDefs, DiskFS

CONSTANTS Groups,          \* the prefix groups DropPrefix may be called with
          MaxCommits,      \* bound on issued transactions
          SyncWrites,      \* Options.SyncWrites
          BigVals,         \* subset of BOOLEAN: may a commit's values go to the value log
          Dels,            \* subset of BOOLEAN: may a commit be a delete
          KeySets,         \* the key sets a commit may write
          MaxRotate, MaxCompact, MaxGC, MaxDropAll, MaxDropPrefix, MaxClose, MaxCrash,
          CrashKinds,      \* subset of {"kill","power","power-empty","power-content","power-wal","power-vlog"}
          VlogMaxEntries,  \* Options.ValueLogMaxEntries
          RewriteDel, RewriteRatio,   \* manifestFile.deletionsRewriteThreshold, manifestDeletionsRatio
          ContinueAfterCrash,
          DirSyncOnCreate, DropFlushFirst, ZeroLenLogOK, GCSafe

VARIABLES fs, nobj,                                         \* file system (both layers)
          mt, imm, tabs, mman, vl, nextTs, nextMem, nextTbl, \* volatile state of the process
          pcW, wreq, pcF, fl, pcB, bg, mw, blocked, fstop,   \* control state
          oplog, acked, base, ncommit, cnt, status, rec      \* ghost: history, bounds, last recovery verdict

vars == <<fs, nobj, mt, imm, tabs, mman, vl, nextTs, nextMem, nextTbl,
          pcW, wreq, pcF, fl, pcB, bg, mw, blocked, fstop,
          oplog, acked, base, ncommit, cnt, status, rec>>

volatile == <<mt, imm, tabs, mman, vl, nextTs, nextMem, nextTbl>>
ghost == <<oplog, acked, base, ncommit>>

\* ------------------------------------------------------------------ file system layer: module DiskFS
MaybeDirSync(f) == IF DirSyncOnCreate THEN FsSyncDir(f) ELSE f

\* ------------------------------------------------------------------ entries, reads
NoPtr == [f |-> 0, i |-> 0]
\* entry: [k, c (version), u (unique id of the issuing commit = value id), del, ptr]
EntsOfMem(m) == m.ents
AllEnts == mt.ents \cup UNION {imm[i].ents : i \in 1..Len(imm)} \cup UNION {t.ents : t \in tabs}
MaxC(S) == IF S = {} THEN 0 ELSE CHOOSE c \in {e.c : e \in S} : \A e \in S : e.c <= c

\* a value pointer is readable iff the file is there and holds that record
PtrOK(f, e) == \/ e.ptr = NoPtr
               \/ /\ Exists(f, VlogName(e.ptr.f))
                  /\ ~Read(f, VlogName(e.ptr.f)).z
                  /\ Len(Read(f, VlogName(e.ptr.f)).d) >= e.ptr.i
                  /\ Read(f, VlogName(e.ptr.f)).d[e.ptr.i] = [k |-> e.k, c |-> e.c, u |-> e.u]

\* visible state: key -> 0 (absent) | u (value written by commit u) | -1 (unreadable)
VisibleOf(f, S) ==
    [k \in Keys |->
        LET ks == {e \in S : e.k = k} IN
        IF ks = {} THEN 0
        ELSE LET \* newest copy: largest version; among copies of one version (GC write-back) the
                 \* one pointing into the newest value-log file
                 top == CHOOSE e \in ks : \A e2 \in ks : e2.c < e.c \/ (e2.c = e.c /\ e2.ptr.f <= e.ptr.f)
             IN IF top.del THEN 0 ELSE IF PtrOK(f, top) THEN top.u ELSE -1]

\* ------------------------------------------------------------------ initial state: a freshly opened empty DB
\* (Open on an empty directory: MANIFEST created through helpRewrite with directory fsync,
\* 00001.mem created, directory fsync of newLevelsController, then 000001.vlog created.)
InitFs ==
    LET f0 == [cdir |-> <<>>, ccont |-> <<>>, ddir |-> <<>>, dcont |-> <<>>]
        f1 == FsSyncDir(FsSync(FsCreate(f0, MANIFEST, 1, Cont("man", <<>>)), MANIFEST))
        f2 == FsSyncDir(FsCreate(f1, MemName(1), 2, Cont("mem", <<>>)))
        f3 == MaybeDirSync(FsCreate(f2, VlogName(1), 3, Cont("vlog", <<>>)))
    IN f3

NoReq == [src |-> "none", ents |-> <<>>, i |-> 0, op |-> 0]
NoFl == [id |-> 0]
NoBg == [kind |-> "none"]
NoMw == [owner |-> "none", cs |-> {}, stage |-> "none"]
Cnt0 == [rot |-> 0, compact |-> 0, gc |-> 0, dropall |-> 0, dropprefix |-> 0, close |-> 0, crash |-> 0]
Rec0 == [n |-> 0, err |-> "none", kind |-> "none", prefix |-> TRUE, drop |-> TRUE, manifest |-> TRUE]

Init ==
    /\ fs = InitFs /\ nobj = 3
    /\ mt = [fid |-> 1, ents |-> {}] /\ imm = <<>> /\ tabs = {}
    /\ mman = [tbl |-> {}, cre |-> 0, del |-> 0]
    /\ vl = [head |-> 1, files |-> {1}, n |-> 0]
    /\ nextTs = 1 /\ nextMem = 2 /\ nextTbl = 1
    /\ pcW = "idle" /\ wreq = NoReq /\ pcF = "idle" /\ fl = NoFl /\ pcB = "idle" /\ bg = NoBg
    /\ mw = NoMw /\ blocked = FALSE /\ fstop = FALSE
    /\ oplog = <<>> /\ acked = 0 /\ base = Empty /\ ncommit = 0 /\ cnt = Cnt0
    /\ status = "up" /\ rec = Rec0

\* ContinueAfterCrash = FALSE stops the exploration of a behaviour at its last allowed crash
\* (the verdict of that recovery is still checked); TRUE explores what follows as well.
Up == status = "up" /\ (ContinueAfterCrash \/ MaxCrash = 0 \/ cnt.crash < MaxCrash)

\* ------------------------------------------------------------------ W: the writer
\* txn.go commitAndSend -> db.go writeRequests: vlog.write (all entries of the request, then
\* Sync when SyncWrites, rotation when the file is full), ensureRoomForWrite, writeToLSM
\* (memTable.Put = WAL writeEntry + skiplist per entry, end marker last), SyncWAL, done().
RECURSIVE SeqOfSet(_)
SeqOfSet(S) == IF S = {} THEN <<>>
               ELSE LET x == CHOOSE y \in S : \A z \in S : y <= z IN <<x>> \o SeqOfSet(S \ {x})

W_Begin(ks, big, del) ==
    /\ Up /\ pcW = "idle" /\ ~blocked /\ ncommit < MaxCommits
    /\ ks \in KeySets /\ big \in BigVals /\ del \in Dels /\ ~(big /\ del)
    /\ LET u == ncommit + 1
           es == [i \in 1..Cardinality(ks) |->
                    [k |-> SeqOfSet(ks)[i], c |-> nextTs, u |-> u, del |-> del, big |-> big, ptr |-> NoPtr]]
       IN /\ wreq' = [src |-> "txn", ents |-> es, i |-> 1, op |-> Len(oplog) + 1]
          /\ oplog' = Append(oplog, [t |-> "commit", ks |-> ks, dels |-> IF del THEN ks ELSE {}, u |-> u])
          /\ ncommit' = u
          /\ nextTs' = nextTs + 1
          /\ pcW' = IF big THEN "vlog" ELSE "room"
    /\ UNCHANGED <<fs, nobj, mt, imm, tabs, mman, vl, nextMem, nextTbl, pcF, fl, pcB, bg, mw,
                   blocked, fstop, acked, base, cnt, status, rec>>

\* the write-back request of value-log GC (db.batchSet from vlog.rewrite): plain entries
W_BeginGC ==
    /\ Up /\ pcW = "idle" /\ ~blocked /\ pcB = "gsubmit"
    /\ wreq' = [src |-> "gc", ents |-> bg.wb, i |-> 1, op |-> 0]
    /\ pcW' = "vlog" /\ pcB' = "gwait"
    /\ UNCHANGED <<fs, nobj, volatile, pcF, fl, bg, mw, blocked, fstop, ghost, cnt, status, rec>>

\* vlog.write: every big entry of the request is appended to the head file (unreferenced
\* bytes until the WAL holds the pointer, hence one step)
RECURSIVE VlogPut(_, _, _)
VlogPut(f, es, i) ==
    IF i > Len(es) THEN [f |-> f, es |-> es]
    ELSE IF ~es[i].big THEN VlogPut(f, es, i + 1)
    ELSE LET n == VlogName(vl.head)
             f2 == FsAppend(f, n, [k |-> es[i].k, c |-> es[i].c, u |-> es[i].u])
             p == [f |-> vl.head, i |-> Len(Read(f2, n).d)]
         IN VlogPut(f2, [es EXCEPT ![i].ptr = p], i + 1)

W_Vlog ==
    /\ Up /\ pcW = "vlog"
    /\ LET r == VlogPut(fs, wreq.ents, 1)
           nbig == Cardinality({i \in 1..Len(wreq.ents) : wreq.ents[i].big})
       IN /\ fs' = r.f /\ wreq' = [wreq EXCEPT !.ents = r.es]
          /\ vl' = [vl EXCEPT !.n = @ + nbig]
    /\ pcW' = IF SyncWrites THEN "vsync" ELSE "vrot"
    /\ UNCHANGED <<nobj, mt, imm, tabs, mman, nextTs, nextMem, nextTbl, pcF, fl, pcB, bg, mw,
                   blocked, fstop, ghost, cnt, status, rec>>

W_VSync ==
    /\ Up /\ pcW = "vsync"
    /\ fs' = FsSync(fs, VlogName(vl.head))
    /\ pcW' = "vrot"
    /\ UNCHANGED <<nobj, volatile, wreq, pcF, fl, pcB, bg, mw, blocked, fstop, ghost, cnt, status, rec>>

\* toDisk: rotation of the value log (doneWriting syncs the old file when SyncWrites;
\* createVlogFile)
W_VRot ==
    /\ Up /\ pcW = "vrot"
    /\ IF vl.n > VlogMaxEntries
       THEN /\ fs' = MaybeDirSync(FsCreate(fs, VlogName(vl.head + 1), nobj + 1, Cont("vlog", <<>>)))
            /\ nobj' = nobj + 1
            /\ vl' = [head |-> vl.head + 1, files |-> vl.files \cup {vl.head + 1}, n |-> 0]
       ELSE UNCHANGED <<fs, nobj, vl>>
    /\ pcW' = "room"
    /\ UNCHANGED <<mt, imm, tabs, mman, nextTs, nextMem, nextTbl, wreq, pcF, fl, pcB, bg, mw,
                   blocked, fstop, ghost, cnt, status, rec>>

\* ensureRoomForWrite: the memtable may be found full (any time it is non-empty)
W_Room ==
    /\ Up /\ pcW = "room"
    /\ \/ /\ mt.ents # {} /\ cnt.rot < MaxRotate /\ Len(imm) < 2 /\ ~fstop
          /\ imm' = Append(imm, mt)
          /\ fs' = MaybeDirSync(FsCreate(fs, MemName(nextMem), nobj + 1, Cont("mem", <<>>)))
          /\ nobj' = nobj + 1
          /\ mt' = [fid |-> nextMem, ents |-> {}]
          /\ nextMem' = nextMem + 1
          /\ cnt' = [cnt EXCEPT !.rot = @ + 1]
       \/ UNCHANGED <<imm, fs, nobj, mt, nextMem, cnt>>
    /\ pcW' = "wal"
    /\ UNCHANGED <<tabs, mman, vl, nextTs, nextTbl, wreq, pcF, fl, pcB, bg, mw, blocked, fstop,
                   ghost, status, rec>>

W_Wal ==
    /\ Up /\ pcW = "wal"
    /\ LET e == wreq.ents[wreq.i]
           ent == [k |-> e.k, c |-> e.c, u |-> e.u, del |-> e.del, ptr |-> e.ptr]
           r == [t |-> IF wreq.src = "txn" THEN "ent" ELSE "plain", c |-> e.c, st |-> "ok", e |-> ent]
       IN /\ fs' = FsAppend(fs, MemName(mt.fid), r)
          /\ mt' = [mt EXCEPT !.ents = @ \cup {ent}]
    /\ IF wreq.i < Len(wreq.ents)
       THEN /\ wreq' = [wreq EXCEPT !.i = @ + 1] /\ pcW' = "wal"
       ELSE /\ wreq' = wreq
            /\ pcW' = IF wreq.src = "txn" THEN "fin" ELSE IF SyncWrites THEN "wsync" ELSE "ack"
    /\ UNCHANGED <<nobj, imm, tabs, mman, vl, nextTs, nextMem, nextTbl, pcF, fl, pcB, bg, mw,
                   blocked, fstop, ghost, cnt, status, rec>>

W_Fin ==
    /\ Up /\ pcW = "fin"
    /\ fs' = FsAppend(fs, MemName(mt.fid), [t |-> "fin", c |-> wreq.ents[1].c, st |-> "ok", e |-> NoPtr])
    /\ pcW' = IF SyncWrites THEN "wsync" ELSE "ack"
    /\ UNCHANGED <<nobj, volatile, wreq, pcF, fl, pcB, bg, mw, blocked, fstop, ghost, cnt, status, rec>>

W_WSync ==
    /\ Up /\ pcW = "wsync"
    /\ fs' = FsSync(fs, MemName(mt.fid))
    /\ pcW' = "ack"
    /\ UNCHANGED <<nobj, volatile, wreq, pcF, fl, pcB, bg, mw, blocked, fstop, ghost, cnt, status, rec>>

\* done(nil): Commit returns to the caller
W_Ack ==
    /\ Up /\ pcW = "ack"
    /\ IF wreq.src = "txn"
       THEN /\ acked' = wreq.op /\ pcB' = pcB
       ELSE /\ acked' = acked /\ pcB' = "gdel"
    /\ pcW' = "idle" /\ wreq' = NoReq
    /\ UNCHANGED <<fs, nobj, volatile, pcF, fl, bg, mw, blocked, fstop, oplog, base, ncommit, cnt,
                   status, rec>>

\* ------------------------------------------------------------------ MANIFEST writer (manifestFile.addChanges)
ManFree == mw.stage = "none"
ManStart(owner, cs) == mw' = [owner |-> owner, cs |-> cs, stage |-> "apply"]
ManDone(owner) == mw.stage = "done" /\ mw.owner = owner

\* applyChangeSet on the in-memory copy, then either append to the file or start a rewrite
M_Apply ==
    /\ Up /\ mw.stage = "apply"
    /\ LET m2 == ApplyCS(mman, mw.cs) IN
       /\ mman' = m2
       /\ IF m2.del > RewriteDel /\ m2.del > RewriteRatio * (m2.cre - m2.del)
          THEN /\ mw' = [mw EXCEPT !.stage = "rwrite"] /\ fs' = fs
          ELSE /\ mw' = [mw EXCEPT !.stage = "fsync"]
               /\ fs' = FsAppend(fs, MANIFEST, mw.cs)
    /\ UNCHANGED <<nobj, mt, imm, tabs, vl, nextTs, nextMem, nextTbl, pcW, wreq, pcF, fl, pcB, bg,
                   blocked, fstop, ghost, cnt, status, rec>>

\* helpRewrite: write MANIFEST-REWRITE, fsync it, rename over MANIFEST, fsync the directory
M_RWrite ==
    /\ Up /\ mw.stage = "rwrite"
    /\ fs' = FsCreate(fs, REWRITE, nobj + 1, Cont("man", <<Snapshot(mman)>>))
    /\ nobj' = nobj + 1
    /\ mw' = [mw EXCEPT !.stage = "rsync"]
    /\ UNCHANGED <<volatile, pcW, wreq, pcF, fl, pcB, bg, blocked, fstop, ghost, cnt, status, rec>>
M_RSync ==
    /\ Up /\ mw.stage = "rsync"
    /\ fs' = FsSync(fs, REWRITE)
    /\ mw' = [mw EXCEPT !.stage = "rrename"]
    /\ UNCHANGED <<nobj, volatile, pcW, wreq, pcF, fl, pcB, bg, blocked, fstop, ghost, cnt, status, rec>>
M_RRename ==
    /\ Up /\ mw.stage = "rrename"
    /\ fs' = FsRename(fs, REWRITE, MANIFEST)
    /\ mman' = [mman EXCEPT !.cre = Cardinality(mman.tbl), !.del = 0]
    /\ mw' = [mw EXCEPT !.stage = "rdirsync"]
    /\ UNCHANGED <<nobj, mt, imm, tabs, vl, nextTs, nextMem, nextTbl, pcW, wreq, pcF, fl, pcB, bg,
                   blocked, fstop, ghost, cnt, status, rec>>
M_RDirSync ==
    /\ Up /\ mw.stage = "rdirsync"
    /\ fs' = FsSyncDir(fs)
    /\ mw' = [mw EXCEPT !.stage = "fsync"]
    /\ UNCHANGED <<nobj, volatile, pcW, wreq, pcF, fl, pcB, bg, blocked, fstop, ghost, cnt, status, rec>>
M_Fsync ==
    /\ Up /\ mw.stage = "fsync"
    /\ fs' = FsSync(fs, MANIFEST)
    /\ mw' = [mw EXCEPT !.stage = "done"]
    /\ UNCHANGED <<nobj, volatile, pcW, wreq, pcF, fl, pcB, bg, blocked, fstop, ghost, cnt, status, rec>>

\* ------------------------------------------------------------------ F: the flusher (handleMemTableFlush)
\* CreateTable (file + content, then msync), [directory fsync], addLevel0Table (MANIFEST
\* first, then the level), then the memtable is dropped and its WAL deleted
\* (MmapFile.Delete: ftruncate(0), then unlink).
F_Build ==
    /\ Up /\ pcF = "idle" /\ imm # <<>> /\ ~fstop
    /\ fs' = FsCreate(fs, SstName(nextTbl), nobj + 1, Cont("sst", imm[1].ents))
    /\ nobj' = nobj + 1
    /\ fl' = [id |-> nextTbl] /\ nextTbl' = nextTbl + 1
    /\ pcF' = "tsync"
    /\ UNCHANGED <<mt, imm, tabs, mman, vl, nextTs, nextMem, pcW, wreq, pcB, bg, mw, blocked, fstop,
                   ghost, cnt, status, rec>>
F_TSync ==
    /\ Up /\ pcF = "tsync"
    /\ fs' = MaybeDirSync(FsSync(fs, SstName(fl.id)))
    /\ pcF' = "man"
    /\ UNCHANGED <<nobj, volatile, pcW, wreq, fl, pcB, bg, mw, blocked, fstop, ghost, cnt, status, rec>>
F_Man ==
    /\ Up /\ pcF = "man" /\ ManFree
    /\ ManStart("F", {[op |-> "create", id |-> fl.id, lvl |-> 0]})
    /\ pcF' = "manwait"
    /\ UNCHANGED <<fs, nobj, volatile, pcW, wreq, fl, pcB, bg, blocked, fstop, ghost, cnt, status, rec>>
F_Publish ==
    /\ Up /\ pcF = "manwait" /\ ManDone("F")
    /\ mw' = NoMw
    /\ tabs' = tabs \cup {[id |-> fl.id, lvl |-> 0, ents |-> imm[1].ents]}
    /\ pcF' = "pop"
    /\ UNCHANGED <<fs, nobj, mt, imm, mman, vl, nextTs, nextMem, nextTbl, pcW, wreq, fl, pcB, bg,
                   blocked, fstop, ghost, cnt, status, rec>>
F_Pop ==
    /\ Up /\ pcF = "pop"
    /\ fs' = FsTrunc0(fs, MemName(imm[1].fid))
    /\ fl' = [id |-> imm[1].fid]
    /\ imm' = Tail(imm)
    /\ pcF' = "unlink"
    /\ UNCHANGED <<nobj, mt, tabs, mman, vl, nextTs, nextMem, nextTbl, pcW, wreq, pcB, bg, mw,
                   blocked, fstop, ghost, cnt, status, rec>>
F_Unlink ==
    /\ Up /\ pcF = "unlink"
    /\ fs' = FsRemove(fs, MemName(fl.id))
    /\ fl' = NoFl /\ pcF' = "idle"
    /\ UNCHANGED <<nobj, volatile, pcW, wreq, pcB, bg, mw, blocked, fstop, ghost, cnt, status, rec>>

\* ------------------------------------------------------------------ B: compaction (runCompactDef)
\* compactBuildTables (outputs created + msync'ed, then directory fsync), MANIFEST change set
\* (creates and deletes together), replaceTables/deleteTables, input files removed.
\* filter = keys skipped by a DropPrefix compaction; next = pc to continue with.
Filtered(S, filter) == {e \in S : e.k \notin filter}

CompactBegin(top, bot, filter, next) ==
    LET ents == Filtered(UNION {t.ents : t \in top \cup bot}, filter)
        hasOut == ents # {}
    IN /\ bg' = [kind |-> "compact", top |-> top, bot |-> bot, next |-> next,
                 out |-> IF hasOut THEN {[id |-> nextTbl, lvl |-> 1, ents |-> ents]} ELSE {},
                 g |-> IF bg.kind = "dropPrefix" THEN bg.g ELSE 0]
       /\ IF hasOut
          THEN /\ fs' = FsCreate(fs, SstName(nextTbl), nobj + 1, Cont("sst", ents))
               /\ nobj' = nobj + 1 /\ nextTbl' = nextTbl + 1
          ELSE UNCHANGED <<fs, nobj, nextTbl>>
       /\ pcB' = "csync"

B_CStart ==
    /\ Up /\ pcB = "idle" /\ cnt.compact < MaxCompact /\ ~blocked
    /\ {t \in tabs : t.lvl = 0} # {}
    /\ CompactBegin({t \in tabs : t.lvl = 0}, {t \in tabs : t.lvl = 1}, {}, "idle")
    /\ cnt' = [cnt EXCEPT !.compact = @ + 1]
    /\ UNCHANGED <<mt, imm, tabs, mman, vl, nextTs, nextMem, pcW, wreq, pcF, fl, mw, blocked, fstop,
                   ghost, status, rec>>
B_CSync ==
    /\ Up /\ pcB = "csync"
    /\ fs' = IF bg.out = {} THEN fs ELSE FsSync(fs, SstName((CHOOSE t \in bg.out : TRUE).id))
    /\ pcB' = "cdirsync"
    /\ UNCHANGED <<nobj, volatile, pcW, wreq, pcF, fl, bg, mw, blocked, fstop, ghost, cnt, status, rec>>
B_CDirSync ==
    /\ Up /\ pcB = "cdirsync"
    /\ fs' = FsSyncDir(fs)
    /\ pcB' = "cman"
    /\ UNCHANGED <<nobj, volatile, pcW, wreq, pcF, fl, bg, mw, blocked, fstop, ghost, cnt, status, rec>>
B_CMan ==
    /\ Up /\ pcB = "cman" /\ ManFree
    /\ ManStart("B", {[op |-> "create", id |-> t.id, lvl |-> 1] : t \in bg.out}
                     \cup {[op |-> "delete", id |-> t.id, lvl |-> 0] : t \in bg.top \cup bg.bot})
    /\ pcB' = "cmanwait"
    /\ UNCHANGED <<fs, nobj, volatile, pcW, wreq, pcF, fl, bg, blocked, fstop, ghost, cnt, status, rec>>
B_CInstall ==
    /\ Up /\ pcB = "cmanwait" /\ ManDone("B")
    /\ mw' = NoMw
    /\ tabs' = (tabs \ (bg.top \cup bg.bot)) \cup bg.out
    /\ pcB' = "crm"
    /\ UNCHANGED <<fs, nobj, mt, imm, mman, vl, nextTs, nextMem, nextTbl, pcW, wreq, pcF, fl, bg,
                   blocked, fstop, ghost, cnt, status, rec>>
B_CRm ==
    /\ Up /\ pcB = "crm"
    /\ LET left == {t \in bg.top \cup bg.bot : Exists(fs, SstName(t.id))} IN
       IF left = {}
       THEN /\ pcB' = bg.next /\ fs' = fs
            /\ bg' = IF bg.next = "idle" THEN NoBg ELSE [kind |-> "dropPrefix", g |-> bg.g]
       ELSE /\ \E t \in left : fs' = FsRemove(fs, SstName(t.id))
            /\ pcB' = "crm" /\ bg' = bg
    /\ UNCHANGED <<nobj, volatile, pcW, wreq, pcF, fl, mw, blocked, fstop, ghost, cnt, status, rec>>

\* ------------------------------------------------------------------ B: value-log GC (vlog.rewrite)
\* scan the file, write back every entry whose newest LSM copy still points into it (through
\* the writer, as plain entries), then delete the file (ftruncate(0), unlink).
LiveIn(fid) ==
    {e \in AllEnts : e.ptr.f = fid /\ ~\E e2 \in AllEnts : e2.k = e.k /\ e2.c = e.c /\ e2.ptr.f > fid}

B_GStart ==
    /\ Up /\ pcB = "idle" /\ cnt.gc < MaxGC /\ ~blocked
    /\ (GCSafe => pcW = "idle")
    /\ \E fid \in vl.files :
        /\ fid < vl.head
        /\ LET live == LiveIn(fid)
               ks == SeqOfSet({e.k * 1000 + e.c : e \in live})
               wb == [i \in 1..Len(ks) |->
                        LET e == CHOOSE x \in live : x.k * 1000 + x.c = ks[i]
                        IN [k |-> e.k, c |-> e.c, u |-> e.u, del |-> FALSE, big |-> TRUE, ptr |-> NoPtr]]
           IN /\ bg' = [kind |-> "gc", fid |-> fid, wb |-> wb]
              /\ pcB' = IF wb = <<>> THEN "gdel" ELSE "gsubmit"
    /\ cnt' = [cnt EXCEPT !.gc = @ + 1]
    /\ UNCHANGED <<fs, nobj, volatile, pcW, wreq, pcF, fl, mw, blocked, fstop, ghost, status, rec>>
B_GDel ==
    /\ Up /\ pcB = "gdel"
    /\ vl' = [vl EXCEPT !.files = @ \ {bg.fid}]
    /\ fs' = FsTrunc0(fs, VlogName(bg.fid))
    /\ pcB' = "gunlink"
    /\ UNCHANGED <<nobj, mt, imm, tabs, mman, nextTs, nextMem, nextTbl, pcW, wreq, pcF, fl, bg, mw,
                   blocked, fstop, ghost, cnt, status, rec>>
B_GUnlink ==
    /\ Up /\ pcB = "gunlink"
    /\ fs' = FsRemove(fs, VlogName(bg.fid))
    /\ pcB' = "idle" /\ bg' = NoBg
    /\ UNCHANGED <<nobj, volatile, pcW, wreq, pcF, fl, mw, blocked, fstop, ghost, cnt, status, rec>>

\* ------------------------------------------------------------------ B: DropAll (db.go dropAll)
\* prepareToDrop (block writes, finish pending writes, stop the flusher after it has
\* drained), then  CODE: memtables removed -> new memtable -> MANIFEST deletes -> table files
\* removed -> vlog files removed -> new vlog file;  INTENDED: the active memtable is flushed
\* to a table first (the B_PMt* steps DropPrefix already performs), then the same order.
B_DStart(kind, g) ==
    /\ Up /\ pcB = "idle" /\ pcW = "idle" /\ ~blocked
    /\ \/ kind = "dropAll" /\ cnt.dropall < MaxDropAll /\ cnt' = [cnt EXCEPT !.dropall = @ + 1]
       \/ kind = "dropPrefix" /\ cnt.dropprefix < MaxDropPrefix /\ g \in Groups
          /\ cnt' = [cnt EXCEPT !.dropprefix = @ + 1]
    /\ blocked' = TRUE
    /\ oplog' = Append(oplog, IF kind = "dropAll" THEN [t |-> "dropAll"] ELSE [t |-> "dropPrefix", g |-> g])
    /\ bg' = [kind |-> kind, g |-> g]
    /\ pcB' = "dwaitflush"
    /\ UNCHANGED <<fs, nobj, volatile, pcW, wreq, pcF, fl, mw, fstop, acked, base, ncommit, status, rec>>
B_DWaitFlush ==
    /\ Up /\ pcB = "dwaitflush" /\ imm = <<>> /\ pcF = "idle"
    /\ fstop' = TRUE
    /\ pcB' = IF bg.kind = "dropPrefix" \/ DropFlushFirst THEN "pmt" ELSE "dmem"
    /\ UNCHANGED <<fs, nobj, volatile, pcW, wreq, pcF, fl, bg, mw, blocked, ghost, cnt, status, rec>>
\* db.mt.DecrRef(): the WAL of the active memtable is deleted
B_DMem ==
    /\ Up /\ pcB = "dmem"
    /\ fs' = FsTrunc0(fs, MemName(mt.fid))
    /\ pcB' = "dmemunlink"
    /\ UNCHANGED <<nobj, volatile, pcW, wreq, pcF, fl, bg, mw, blocked, fstop, ghost, cnt, status, rec>>
B_DMemUnlink ==
    /\ Up /\ pcB = "dmemunlink"
    /\ fs' = MaybeDirSync(FsCreate(FsRemove(fs, MemName(mt.fid)), MemName(nextMem), nobj + 1, Cont("mem", <<>>)))
    /\ nobj' = nobj + 1
    /\ mt' = [fid |-> nextMem, ents |-> {}] /\ nextMem' = nextMem + 1
    /\ pcB' = "dman"
    /\ UNCHANGED <<imm, tabs, mman, vl, nextTs, nextTbl, pcW, wreq, pcF, fl, bg, mw, blocked, fstop,
                   ghost, cnt, status, rec>>
\* dropTree: one change set deleting every table (nothing is written when there is none)
B_DMan ==
    /\ Up /\ pcB = "dman"
    /\ IF tabs = {}
       THEN /\ pcB' = "dvlog" /\ mw' = mw
       ELSE /\ ManFree /\ ManStart("B", {[op |-> "delete", id |-> t.id, lvl |-> 0] : t \in tabs})
            /\ pcB' = "dmanwait"
    /\ UNCHANGED <<fs, nobj, volatile, pcW, wreq, pcF, fl, bg, blocked, fstop, ghost, cnt, status, rec>>
B_DTabs ==
    /\ Up /\ pcB = "dmanwait" /\ ManDone("B")
    /\ mw' = NoMw /\ tabs' = {}
    /\ bg' = [kind |-> "dropAll", g |-> bg.g, rm |-> {t.id : t \in tabs}]
    /\ pcB' = "dtabrm"
    /\ UNCHANGED <<fs, nobj, mt, imm, mman, vl, nextTs, nextMem, nextTbl, pcW, wreq, pcF, fl, blocked,
                   fstop, ghost, cnt, status, rec>>
B_DTabRm ==
    /\ Up /\ pcB = "dtabrm"
    /\ LET left == {id \in bg.rm : Exists(fs, SstName(id))} IN
       IF left = {}
       THEN /\ pcB' = "dvlog" /\ fs' = fs
       ELSE /\ \E id \in left : fs' = FsRemove(fs, SstName(id))
            /\ pcB' = "dtabrm"
    /\ UNCHANGED <<nobj, volatile, pcW, wreq, pcF, fl, bg, mw, blocked, fstop, ghost, cnt, status, rec>>
\* vlog.dropAll: every value-log file deleted, then a new file 1; lc.nextFileID reset
B_DVlog ==
    /\ Up /\ pcB = "dvlog"
    /\ LET left == {fid \in vl.files : Exists(fs, VlogName(fid))} IN
       IF left = {}
       THEN /\ fs' = MaybeDirSync(FsCreate(fs, VlogName(1), nobj + 1, Cont("vlog", <<>>)))
            /\ nobj' = nobj + 1
            /\ vl' = [head |-> 1, files |-> {1}, n |-> 0]
            /\ nextTbl' = 1
            /\ pcB' = "dend"
       ELSE /\ \E fid \in left : fs' = FsRemove(fs, VlogName(fid))
            /\ pcB' = "dvlog" /\ UNCHANGED <<nobj, vl, nextTbl>>
    /\ UNCHANGED <<mt, imm, tabs, mman, nextTs, nextMem, pcW, wreq, pcF, fl, bg, mw, blocked, fstop,
                   ghost, cnt, status, rec>>
\* the deferred resume(): flusher and writer restarted, DropAll / DropPrefix returns
B_DEnd ==
    /\ Up /\ pcB = "dend"
    /\ blocked' = FALSE /\ fstop' = FALSE
    /\ acked' = Len(oplog)
    /\ pcB' = "idle" /\ bg' = NoBg
    /\ UNCHANGED <<fs, nobj, volatile, pcW, wreq, pcF, fl, mw, oplog, base, ncommit, cnt, status, rec>>

\* ------------------------------------------------------------------ B: DropPrefix (db.go DropPrefix)
\* the active memtable is flushed to L0 unfiltered (handleMemTableFlush), its WAL deleted, a
\* new memtable created; then levelsController.dropPrefixes: bottom level first (tables
\* holding dropped keys rewritten in place), then L0 -> L1, both skipping the dropped keys.
DropKeys == {k \in Keys : GroupOf(k) = bg.g}
B_PMt ==
    /\ Up /\ pcB = "pmt"
    /\ IF mt.ents = {}
       THEN /\ pcB' = "pmtrm" /\ UNCHANGED <<fs, nobj, fl, nextTbl>>
       ELSE /\ fs' = FsCreate(fs, SstName(nextTbl), nobj + 1, Cont("sst", mt.ents))
            /\ nobj' = nobj + 1 /\ fl' = [id |-> nextTbl] /\ nextTbl' = nextTbl + 1
            /\ pcB' = "pmtsync"
    /\ UNCHANGED <<mt, imm, tabs, mman, vl, nextTs, nextMem, pcW, wreq, pcF, bg, mw, blocked, fstop,
                   ghost, cnt, status, rec>>
B_PMtSync ==
    /\ Up /\ pcB = "pmtsync"
    /\ fs' = MaybeDirSync(FsSync(fs, SstName(fl.id)))
    /\ pcB' = "pmtman"
    /\ UNCHANGED <<nobj, volatile, pcW, wreq, pcF, fl, bg, mw, blocked, fstop, ghost, cnt, status, rec>>
B_PMtMan ==
    /\ Up /\ pcB = "pmtman" /\ ManFree
    /\ ManStart("B", {[op |-> "create", id |-> fl.id, lvl |-> 0]})
    /\ pcB' = "pmtmanwait"
    /\ UNCHANGED <<fs, nobj, volatile, pcW, wreq, pcF, fl, bg, blocked, fstop, ghost, cnt, status, rec>>
B_PMtPublish ==
    /\ Up /\ pcB = "pmtmanwait" /\ ManDone("B")
    /\ mw' = NoMw
    /\ tabs' = tabs \cup {[id |-> fl.id, lvl |-> 0, ents |-> mt.ents]}
    /\ fl' = NoFl
    /\ pcB' = "pmtrm"
    /\ UNCHANGED <<fs, nobj, mt, imm, mman, vl, nextTs, nextMem, nextTbl, pcW, wreq, pcF, bg, blocked,
                   fstop, ghost, cnt, status, rec>>
B_PMtRm ==
    /\ Up /\ pcB = "pmtrm"
    /\ fs' = FsTrunc0(fs, MemName(mt.fid))
    /\ pcB' = "pmtunlink"
    /\ UNCHANGED <<nobj, volatile, pcW, wreq, pcF, fl, bg, mw, blocked, fstop, ghost, cnt, status, rec>>
B_PMtUnlink ==
    /\ Up /\ pcB = "pmtunlink"
    /\ fs' = MaybeDirSync(FsCreate(FsRemove(fs, MemName(mt.fid)), MemName(nextMem), nobj + 1, Cont("mem", <<>>)))
    /\ nobj' = nobj + 1
    /\ mt' = [fid |-> nextMem, ents |-> {}] /\ nextMem' = nextMem + 1
    /\ pcB' = IF bg.kind = "dropPrefix" THEN "pl1" ELSE "dman"
    /\ UNCHANGED <<imm, tabs, mman, vl, nextTs, nextTbl, pcW, wreq, pcF, fl, bg, mw, blocked, fstop,
                   ghost, cnt, status, rec>>
B_PL1 ==
    /\ Up /\ pcB = "pl1"
    /\ LET hit == {t \in tabs : t.lvl = 1 /\ \E e \in t.ents : e.k \in DropKeys} IN
       IF hit = {}
       THEN /\ pcB' = "pl0" /\ UNCHANGED <<fs, nobj, nextTbl, bg>>
       ELSE CompactBegin({}, hit, DropKeys, "pl0")
    /\ UNCHANGED <<mt, imm, tabs, mman, vl, nextTs, nextMem, pcW, wreq, pcF, fl, mw, blocked, fstop,
                   ghost, cnt, status, rec>>
B_PL0 ==
    /\ Up /\ pcB = "pl0"
    /\ LET l0 == {t \in tabs : t.lvl = 0} IN
       IF l0 = {}
       THEN /\ pcB' = "dend" /\ UNCHANGED <<fs, nobj, nextTbl, bg>>
       ELSE CompactBegin(l0, {t \in tabs : t.lvl = 1}, DropKeys, "dend")
    /\ UNCHANGED <<mt, imm, tabs, mman, vl, nextTs, nextMem, pcW, wreq, pcF, fl, mw, blocked, fstop,
                   ghost, cnt, status, rec>>

\* ------------------------------------------------------------------ B: Close (db.go close)
\* writes blocked and drained, the memtable handed to the flusher (or its WAL deleted when
\* empty), flusher drained, value log closed (each file msync'ed), directory fsync.
B_ClStart ==
    /\ Up /\ pcB = "idle" /\ pcW = "idle" /\ ~blocked /\ cnt.close < MaxClose /\ Len(imm) < 2
    /\ blocked' = TRUE
    /\ cnt' = [cnt EXCEPT !.close = @ + 1]
    /\ bg' = [kind |-> "close"]
    /\ IF mt.ents = {}
       THEN /\ fs' = FsRemove(fs, MemName(mt.fid)) /\ imm' = imm
       ELSE /\ fs' = fs /\ imm' = Append(imm, mt)
    /\ mt' = [fid |-> 0, ents |-> {}]
    /\ pcB' = "clwait"
    /\ UNCHANGED <<nobj, tabs, mman, vl, nextTs, nextMem, nextTbl, pcW, wreq, pcF, fl, mw, fstop,
                   ghost, status, rec>>
B_ClVlog ==
    /\ Up /\ pcB = "clwait" /\ imm = <<>> /\ pcF = "idle"
    /\ LET RECURSIVE SyncAll(_, _)
           SyncAll(f, S) == IF S = {} THEN f
                            ELSE LET x == CHOOSE y \in S : TRUE IN SyncAll(FsSync(f, VlogName(x)), S \ {x})
       IN fs' = SyncAll(fs, {fid \in vl.files : Exists(fs, VlogName(fid))})
    /\ pcB' = "clsyncdir"
    /\ UNCHANGED <<nobj, volatile, pcW, wreq, pcF, fl, bg, mw, blocked, fstop, ghost, cnt, status, rec>>
B_ClSyncDir ==
    /\ pcB = "clsyncdir" /\ Up
    /\ fs' = FsSyncDir(fs)
    /\ status' = "closed"
    /\ acked' = Len(oplog)
    /\ pcB' = "idle" /\ bg' = NoBg /\ blocked' = FALSE
    /\ UNCHANGED <<nobj, volatile, pcW, wreq, pcF, fl, mw, fstop, oplog, base, ncommit, cnt, rec>>

\* ------------------------------------------------------------------ Recover: the specification of Open
Names(f, kind) == {n \in DOMAIN f.cdir : n[1] = kind}
Ids(f, kind) == {n[2] : n \in Names(f, kind)}
MaxOf(S) == IF S = {} THEN 0 ELSE CHOOSE x \in S : \A y \in S : y <= x

\* memtables from the .mem files (openMemTables / UpdateSkipList)
MemOf(f, fid) ==
    LET c == Read(f, MemName(fid))
        it == Iterate(c.d)
    IN [fid |-> fid, ents |-> {it.applied[i].e : i \in 1..Len(it.applied)}, valid |-> it.valid, z |-> c.z]

RECURSIVE RemoveAll(_, _)
RemoveAll(f, names) == IF names = {} THEN f
                       ELSE LET n == CHOOSE x \in names : TRUE IN RemoveAll(FsRemove(f, n), names \ {n})
RECURSIVE TruncMems(_, _)
TruncMems(f, S) ==
    IF S = {} THEN f
    ELSE LET m == CHOOSE x \in S : TRUE
             n == MemName(m.fid)
             g == IF m.ents = {} THEN FsRemove(f, n)
                  ELSE IF m.valid = Len(Read(f, n).d) THEN f
                  ELSE FsWrite(f, n, Cont("mem", SubSeq(Read(f, n).d, 1, m.valid)))
         IN TruncMems(g, S \ {m})
RECURSIVE ImmSeq(_)
ImmSeq(R) == IF R = {} THEN <<>>
             ELSE LET m == CHOOSE x \in R : \A y \in R : x.fid <= y.fid
                  IN <<[fid |-> m.fid, ents |-> m.ents]>> \o ImmSeq(R \ {m})

\* Open, in the order of db.go Open, in four stages.
\* 1. MANIFEST: created when missing (helpRewrite: write, fsync, rename, dir fsync), replayed
OpenManifest(f0, o) ==
    LET f1 == IF Exists(f0, MANIFEST) THEN f0
              ELSE FsSyncDir(FsSync(FsCreate(f0, MANIFEST, o, Cont("man", <<>>)), MANIFEST))
        rp == ReplayMan(Read(f1, MANIFEST).d, 1, [tbl |-> {}, cre |-> 0, del |-> 0])
    IN [f |-> f1, rp |-> rp]

\* 2. memtables, oldest first; each WAL truncated at its last complete transaction; a
\*    memtable that replays to nothing is dropped and its file deleted; a new .mem is created
OpenMems(f1, mems, o) ==
    LET newMem == MaxOf({m.fid : m \in mems}) + 1 IN
    [f |-> FsCreate(TruncMems(f1, mems), MemName(newMem), o, Cont("mem", <<>>)),
     keep |-> {m \in mems : m.ents # {}}, newMem |-> newMem, zero |-> \E m \in mems : m.z]

\* 3. revertToManifest: a referenced table must exist (and be readable); files the MANIFEST
\*    does not know are removed; then the directory is fsync'ed
OpenLevels(f3, man) ==
    LET sstIds == Ids(f3, "sst")
        manIds == {t.id : t \in man.tbl}
    IN [f |-> FsSyncDir(RemoveAll(f3, {SstName(id) : id \in sstIds \ manIds})),
        missing |-> \E id \in manIds : id \notin sstIds \/ Read(f3, SstName(id)).z,
        tabs |-> {[id |-> t.id, lvl |-> t.lvl, ents |-> Read(f3, SstName(t.id)).d] :
                     t \in {x \in man.tbl : x.id \in sstIds}},
        nextTbl |-> MaxOf(manIds) + 1, manIds |-> manIds]

\* 4. value log: empty non-head files deleted; (the head file is truncated at its last valid
\*    record: contents here are whole records); a new head file is created
OpenVlog(f4, o) ==
    LET vfids == Ids(f4, "vlog")
        vmax == MaxOf(vfids)
        emptyOld == {fid \in vfids : fid # vmax /\ Read(f4, VlogName(fid)).d = <<>>}
    IN [f |-> MaybeDirSync(FsCreate(RemoveAll(f4, {VlogName(fid) : fid \in emptyOld}),
                                    VlogName(vmax + 1), o, Cont("vlog", <<>>))),
        vl |-> [head |-> vmax + 1, files |-> (vfids \ emptyOld) \cup {vmax + 1}, n |-> 0],
        zero |-> \E fid \in vfids : Read(f4, VlogName(fid)).z]

\* WithOpen(f, o, Act): Act(r) where r describes Open on file system f (o = first unused
\* object id): the file system after Open plus the volatile state it builds, or an error
\* class.  A zero-length .mem / .vlog makes z.OpenMmapFile report z.NewFile, which
\* openMemTables and valueLog.open return as an error (code); intended: an empty file.
\* (The stages are bound with \E over singleton sets so that TLC evaluates each once.)
WithOpen(f, o, Act(_)) ==
    \E f0 \in {f} :
    \E s1 \in {OpenManifest(f0, o)} :
    \E mems \in {{MemOf(s1.f, fid) : fid \in Ids(s1.f, "mem")}} :
    \E s2 \in {OpenMems(s1.f, mems, o + 1)} :
    \E s3 \in {OpenLevels(s2.f, s1.rp.m)} :
    \E s4 \in {OpenVlog(s3.f, o + 2)} :
    \E allE \in {UNION {m.ents : m \in s2.keep} \cup UNION {t.ents : t \in s3.tabs}} :
    \E r \in {[err |-> IF s1.rp.err THEN "manifest"
                       ELSE IF ~ZeroLenLogOK /\ (s2.zero \/ s4.zero) THEN "zero-length log"
                       ELSE IF s3.missing THEN "missing table" ELSE "none",
               fs |-> s4.f, mt |-> [fid |-> s2.newMem, ents |-> {}], imm |-> ImmSeq(s2.keep),
               tabs |-> s3.tabs, mman |-> s1.rp.m, vl |-> s4.vl,
               nextTs |-> MaxC(allE) + 1, nextMem |-> s2.newMem + 1, nextTbl |-> s3.nextTbl,
               vis |-> VisibleOf(s4.f, allE), manOK |-> Ids(s4.f, "sst") = s3.manIds]} :
       Act(r)

\* The verdict about a recovery: r = Open(...), lo = number of operations that must have
\* survived, inDrop = the crash hit an unfinished DropAll/DropPrefix (last entry of oplog).
Verdict(r, lo, inDrop, kind) ==
    LET dropOK == DropAllowed(r.vis, base, oplog)
        prefixOK == PrefixAllowed(r.vis, base, oplog, lo)
        ok == r.err = "none"
    IN [n |-> rec.n + 1, err |-> r.err, kind |-> kind,
        prefix |-> ~ok \/ inDrop \/ prefixOK,
        drop |-> ~ok \/ ~inDrop \/ dropOK,
        manifest |-> ~ok \/ r.manOK]

Install(r) ==
    /\ fs' = r.fs /\ nobj' = nobj + 3
    /\ mt' = r.mt /\ imm' = r.imm /\ tabs' = r.tabs /\ mman' = r.mman /\ vl' = r.vl
    /\ nextTs' = r.nextTs /\ nextMem' = r.nextMem /\ nextTbl' = r.nextTbl
    /\ pcW' = "idle" /\ wreq' = NoReq /\ pcF' = "idle" /\ fl' = NoFl /\ pcB' = "idle" /\ bg' = NoBg
    /\ mw' = NoMw /\ blocked' = FALSE /\ fstop' = FALSE
    \* the recovered state is the new base of the history
    /\ base' = r.vis /\ oplog' = <<>> /\ acked' = 0
    /\ status' = "up"

\* ------------------------------------------------------------------ environment: crash + restart
\* The process dies at an arbitrary point (kill: the page cache survives; power loss: only
\* the durable layer, in the chosen flavour) and the database is opened again.
InDrop == bg.kind \in {"dropAll", "dropPrefix"} \/ (bg.kind = "compact" /\ bg.next # "idle")

CrashRecover(kind) ==
    /\ Up /\ cnt.crash < MaxCrash /\ kind \in CrashKinds
    /\ (kind # "kill" => SyncWrites)          \* the power-loss guarantee is only given with SyncWrites
    /\ WithOpen(Survives(fs, kind), nobj + 1,
                LAMBDA r : rec' = Verdict(r, acked, InDrop, kind) /\ Install(r))
    /\ cnt' = [cnt EXCEPT !.crash = @ + 1]
    /\ UNCHANGED ncommit

\* re-open after a clean Close: everything must be there
Reopen ==
    /\ status = "closed"
    /\ WithOpen(fs, nobj + 1, LAMBDA r : rec' = Verdict(r, Len(oplog), FALSE, "close") /\ Install(r))
    /\ UNCHANGED <<ncommit, cnt>>

\* ------------------------------------------------------------------ next-state relation
Next ==
    \/ \E ks \in KeySets, big \in BigVals, del \in Dels : W_Begin(ks, big, del)
    \/ W_BeginGC \/ W_Vlog \/ W_VSync \/ W_VRot \/ W_Room \/ W_Wal \/ W_Fin \/ W_WSync \/ W_Ack
    \/ M_Apply \/ M_RWrite \/ M_RSync \/ M_RRename \/ M_RDirSync \/ M_Fsync
    \/ F_Build \/ F_TSync \/ F_Man \/ F_Publish \/ F_Pop \/ F_Unlink
    \/ B_CStart \/ B_CSync \/ B_CDirSync \/ B_CMan \/ B_CInstall \/ B_CRm
    \/ B_GStart \/ B_GDel \/ B_GUnlink
    \/ \E g \in Groups : B_DStart("dropAll", 0) \/ B_DStart("dropPrefix", g)
    \/ B_DWaitFlush \/ B_DMem \/ B_DMemUnlink \/ B_DMan \/ B_DTabs \/ B_DTabRm \/ B_DVlog \/ B_DEnd
    \/ B_PMt \/ B_PMtSync \/ B_PMtMan \/ B_PMtPublish \/ B_PMtRm \/ B_PMtUnlink \/ B_PL1 \/ B_PL0
    \/ B_ClStart \/ B_ClVlog \/ B_ClSyncDir
    \/ \E kind \in CrashKinds : CrashRecover(kind)
    \/ Reopen

Spec == Init /\ [][Next]_vars

\* ------------------------------------------------------------------ invariants
\* after Recover (rec is the verdict of the latest Open):
OpensWithoutError   == rec.err = "none"
\* the recovered visible state is the effect of a prefix of the issued operations that
\* contains every acknowledged one; unreadable values (-1) match no prefix
PrefixRecovered     == rec.prefix
\* no transaction partially visible: follows from PrefixRecovered (every prefix applies whole
\* transactions); stated separately on the physical entries: the entries of one commit are
\* either all recovered or none
NoPartialTxn        == rec.prefix
\* crash inside DropAll / DropPrefix: every key has its pre-drop value or is absent (keys
\* outside the dropped prefix: unchanged)
DropAtomicity       == rec.drop
\* the .sst files in the directory are exactly the MANIFEST's tables
ManifestMatchesDisk == rec.manifest
\* new commits get versions above everything stored
NextTsAboveAll      == status = "up" => \A e \in AllEnts : e.c < nextTs

\* at all times (not only after a crash) -- the structural reasons why every crash point is
\* safe; the trace checker (DiskTrace) evaluates the same conditions on the file-system
\* event stream of the real code:
\* K1 every table of the MANIFEST (as the page cache has it) exists with its content
KillSafeManifest == status = "up" => ManifestTablesExist(fs)
\* P1 the same in the durable layer (needs DirSyncOnCreate)
PowerSafeManifest == status = "up" => ManifestTablesExist(Survives(fs, "power"))

TypeOK ==
    /\ status \in {"up", "closed"}
    /\ pcW \in {"idle", "vlog", "vsync", "vrot", "room", "wal", "fin", "wsync", "ack"}
    /\ pcF \in {"idle", "tsync", "man", "manwait", "pop", "unlink"}
    /\ mw.stage \in {"none", "apply", "rwrite", "rsync", "rrename", "rdirsync", "fsync", "done"}
    /\ acked <= Len(oplog)
=============================================================================
