------------------------------ MODULE DiskDefs ------------------------------
(***************************************************************************)
(* The abstract (user-visible) side of the Disk family: the visible state  *)
(* of the store as a map key -> id of the commit whose value is visible    *)
(* (0 = absent), the effect of the operations of a history on it, and the  *)
(* sets of recovered states the properties C08 / C10 / C29 allow.          *)
(* Shared by Disk (design + model checking), DiskGen (workload generator:  *)
(* these operators are the predictions attached to every generated case)   *)
(* and DiskTrace.                                                          *)
(***************************************************************************)
EXTENDS Integers, Sequences

CONSTANTS Keys,          \* model keys (integers)
          GroupOf(_)     \* key -> prefix group (DropPrefix drops one group)

Empty == [k \in Keys |-> 0]

\* op: [t |-> "commit", ks, dels, u] | [t |-> "dropAll"] | [t |-> "dropPrefix", g]
\*     ks = keys written, dels = subset of ks that is deleted, u = id of the commit
ApplyOp(v, op) ==
    IF op.t = "commit" THEN [k \in Keys |-> IF k \in op.ks THEN (IF k \in op.dels THEN 0 ELSE op.u) ELSE v[k]]
    ELSE IF op.t = "dropAll" THEN Empty
    ELSE IF op.t = "dropPrefix" THEN [k \in Keys |-> IF GroupOf(k) = op.g THEN 0 ELSE v[k]]
    ELSE v
RECURSIVE Fold(_, _, _)
Fold(v, ops, n) == IF n = 0 THEN v ELSE ApplyOp(Fold(v, ops, n - 1), ops[n])

\* C08 / C10: the recovered visible state rv is the effect of a prefix of the history that
\* contains at least the first lo (acknowledged) operations
PrefixAllowed(rv, v0, ops, lo) == \E j \in lo..Len(ops) : rv = Fold(v0, ops, j)

\* C29: a crash inside an unfinished drop (the last operation of ops): every key in the
\* scope of the drop has its pre-drop value or is absent, every other key is unchanged
DropAllowed(rv, v0, ops) ==
    LET d == ops[Len(ops)]
        pre == Fold(v0, ops, Len(ops) - 1)
        scope(k) == d.t = "dropAll" \/ (d.t = "dropPrefix" /\ GroupOf(k) = d.g)
    IN \A k \in Keys : IF scope(k) THEN rv[k] \in {pre[k], 0} ELSE rv[k] = pre[k]

\* the same set, constructively (used by the generator to attach the allowed states to a
\* drop operation; DropStatesOK is checked by TLC in DiskGen's exhaustive configuration)
DropStates(pre, d) ==
    LET scope == {k \in Keys : d.t = "dropAll" \/ (d.t = "dropPrefix" /\ GroupOf(k) = d.g)}
    IN {[k \in Keys |-> IF k \in S THEN 0 ELSE pre[k]] : S \in SUBSET scope}
DropStatesOK(pre, d, Vals) ==
    DropStates(pre, d) = {rv \in [Keys -> Vals] : DropAllowed(rv, pre, <<d>>)}
=============================================================================
