------------------------------- MODULE DiskFS -------------------------------
(***************************************************************************)
(* The two-layer file system of the Disk family and the MANIFEST replay    *)
(* function, shared by Disk (design), and DiskTrace (the same operators    *)
(* interpret the file-system events recorded from the real code).          *)
(*                                                                         *)
(* fs = [cdir, ccont, ddir, dcont]                                         *)
(*   cdir : name -> object   directory as the running process sees it      *)
(*   ccont: object -> content  page-cache content                          *)
(*   ddir : name -> object   directory as of its last fsync                *)
(*   dcont: object -> content  content as of the file's last msync/fsync   *)
(* A process kill leaves the cache layer; power loss leaves the durable    *)
(* layer (Survives).  Names are <<kind, id>>.                              *)
(***************************************************************************)
EXTENDS Integers, Sequences, FiniteSets

MANIFEST == <<"MANIFEST", 0>>
REWRITE  == <<"REWRITE", 0>>
MemName(fid)  == <<"mem", fid>>
VlogName(fid) == <<"vlog", fid>>
SstName(id)   == <<"sst", id>>

\* content: [t, z, d]; z = TRUE: zero length (t = "mem"/"vlog") or no usable bytes (t = "sst")
Cont(t, d) == [t |-> t, z |-> FALSE, d |-> d]
Len0(t) == [t |-> t, z |-> TRUE, d |-> IF t = "sst" THEN {} ELSE <<>>]

Ran(f) == {f[x] : x \in DOMAIN f}
FunPut(f, x, v) == [y \in DOMAIN f \cup {x} |-> IF y = x THEN v ELSE f[y]]
FunDel(f, x) == [y \in DOMAIN f \ {x} |-> f[y]]
Restrict(f, S) == [y \in DOMAIN f \cap S |-> f[y]]

\* forget objects no directory refers to any more
Prune(f) == LET live == Ran(f.cdir) \cup Ran(f.ddir)
            IN [f EXCEPT !.ccont = Restrict(@, live), !.dcont = Restrict(@, live)]

Exists(f, n) == n \in DOMAIN f.cdir
ObjOf(f, n) == f.cdir[n]
Read(f, n) == f.ccont[f.cdir[n]]

\* create name n as a new object o with cache content c; nothing of it is durable yet
FsCreate(f, n, o, c) == [f EXCEPT !.cdir = FunPut(@, n, o), !.ccont = FunPut(@, o, c),
                                  !.dcont = FunPut(@, o, Len0(c.t))]
FsWrite(f, n, c) == [f EXCEPT !.ccont[f.cdir[n]] = c]
FsSync(f, n) == [f EXCEPT !.dcont[f.cdir[n]] = f.ccont[f.cdir[n]]]          \* msync / fsync of the file
FsSyncDir(f) == Prune([f EXCEPT !.ddir = f.cdir])                            \* fsync of the directory
FsRename(f, a, b) == Prune([f EXCEPT !.cdir = FunDel(FunPut(@, b, f.cdir[a]), a)])
FsRemove(f, n) == Prune([f EXCEPT !.cdir = FunDel(@, n)])
FsTrunc0(f, n) == [f EXCEPT !.ccont[f.cdir[n]] = Len0(@.t)]                  \* ftruncate(fd, 0)
FsAppend(f, n, r) == [f EXCEPT !.ccont[f.cdir[n]].d = Append(@, r)]

\* What survives a crash.  kill: the cache layer.  power: durable directory and durable
\* contents; a file whose content was never synced is zero-filled ("power") or has zero
\* length ("power-empty"); the -content/-wal/-vlog flavours let un-synced page-cache content
\* of all / .mem / .vlog files survive although nothing forced it (adversarial subsets).
Survives(f, kind) ==
    IF kind = "kill" THEN f
    ELSE LET lucky(o) == /\ o \in Ran(f.cdir)
                         /\ \/ kind = "power-content"
                            \/ kind = "power-wal" /\ f.ccont[o].t = "mem"
                            \/ kind = "power-vlog" /\ f.ccont[o].t = "vlog"
             dur(o) == IF f.dcont[o].z /\ kind # "power-empty" /\ f.dcont[o].t \in {"mem", "vlog", "man"}
                       THEN Cont(f.dcont[o].t, <<>>) ELSE f.dcont[o]
             objs == Ran(f.ddir)
             c == [o \in objs |-> IF lucky(o) THEN f.ccont[o] ELSE dur(o)]
         \* after the reboot what survived is what the disk holds
         IN [cdir |-> f.ddir, ccont |-> c, ddir |-> f.ddir, dcont |-> c]


\* ---- MANIFEST contents: a sequence of change sets, each a set of [op, id, lvl]
ApplyCS(m, cs) ==
    LET cr == {c \in cs : c.op = "create"}
        dl == {c \in cs : c.op = "delete"}
    IN [tbl |-> (m.tbl \ {t \in m.tbl : \E c \in dl : c.id = t.id}) \cup {[id |-> c.id, lvl |-> c.lvl] : c \in cr},
        cre |-> m.cre + Cardinality(cr), del |-> m.del + Cardinality(dl)]
Snapshot(m) == {[op |-> "create", id |-> t.id, lvl |-> t.lvl] : t \in m.tbl}


\* ReplayManifestFile: change sets applied in order; "create" of a known table is an error
RECURSIVE ReplayMan(_, _, _)
ReplayMan(css, i, m) ==
    IF i > Len(css) THEN [err |-> FALSE, m |-> m]
    ELSE IF \E c \in css[i] : c.op = "create" /\ \E t \in m.tbl : t.id = c.id
         THEN [err |-> TRUE, m |-> m]
         ELSE ReplayMan(css, i + 1, ApplyCS(m, css[i]))


\* every table of the MANIFEST exists as a file with usable content
ManifestTablesExist(f) ==
    Exists(f, MANIFEST) =>
        LET rp == ReplayMan(Read(f, MANIFEST).d, 1, [tbl |-> {}, cre |-> 0, del |-> 0])
        IN \A t \in rp.m.tbl : Exists(f, SstName(t.id)) /\ ~Read(f, SstName(t.id)).z
=============================================================================
