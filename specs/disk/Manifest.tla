------------------------------ MODULE Manifest ------------------------------
(***************************************************************************)
(* The MANIFEST of badger (manifest.go): manifestFile.addChanges with      *)
(* applyChangeSet on the in-memory copy, the automatic rewrite             *)
(* (deletionsRewriteThreshold / manifestDeletionsRatio), and               *)
(* ReplayManifestFile.  C17: replaying the file reconstructs exactly the   *)
(* table map (table -> level, with creation / deletion counters) the       *)
(* running database has after its last durable change set.                 *)
(*                                                                         *)
(* live  the in-memory Manifest kept by manifestFile (mf.manifest)         *)
(* file  the records of the MANIFEST since the last rewrite: a sequence of *)
(*       change sets; a change set is a sequence of changes                *)
(*       [op |-> "create"|"delete", id, lvl]                               *)
(* A change set is applied change by change; "create" of a table that      *)
(* exists is an error ("MANIFEST invalid, table exists"); "delete" of an   *)
(* unknown table is accepted (warning) and still counted.                  *)
(* AtomicApply = TRUE: the intended all-or-nothing application of a        *)
(* rejected change set to the in-memory copy; FALSE: the code as it is     *)
(* (applyChangeSet mutates mf.manifest change by change and returns at the *)
(* first error; nothing is written to the file).                           *)
(***************************************************************************)
EXTENDS Integers, Sequences, FiniteSets

CONSTANTS Ids, Levels,
          Threshold,     \* deletionsRewriteThreshold
          Ratio,         \* manifestDeletionsRatio (10 in the code)
          ChangeSets,    \* the change sets offered to AddChanges
          MaxSets,       \* bound on the number of AddChanges calls
          AtomicApply

VARIABLES live, file, nsets, lastErr, reopened
vars == <<live, file, nsets, lastErr, reopened>>

NoTable == -1
EmptyMan == [lvl |-> [i \in Ids |-> NoTable], cre |-> 0, del |-> 0]
Tables(m) == {i \in Ids : m.lvl[i] # NoTable}

\* applyManifestChange
ApplyChange(m, c) ==
    IF c.op = "create"
    THEN IF m.lvl[c.id] # NoTable THEN [err |-> TRUE, m |-> m]
         ELSE [err |-> FALSE, m |-> [m EXCEPT !.lvl[c.id] = c.lvl, !.cre = @ + 1]]
    ELSE [err |-> FALSE, m |-> [m EXCEPT !.lvl[c.id] = NoTable, !.del = @ + 1]]

\* applyChangeSet: change by change, stops at the first error (keeping what was applied)
RECURSIVE ApplySet(_, _, _)
ApplySet(m, cs, i) ==
    IF i > Len(cs) THEN [err |-> FALSE, m |-> m]
    ELSE LET r == ApplyChange(m, cs[i])
         IN IF r.err THEN r ELSE ApplySet(r.m, cs, i + 1)

\* ReplayManifestFile over whole records: any failing change set fails the replay
RECURSIVE Replay(_, _, _)
Replay(f, i, m) ==
    IF i > Len(f) THEN [err |-> FALSE, m |-> m]
    ELSE LET r == ApplySet(m, f[i], 1)
         IN IF r.err THEN [err |-> TRUE, m |-> EmptyMan] ELSE Replay(f, i + 1, r.m)
ReplayFile(f) == Replay(f, 1, EmptyMan)

\* asChanges of the rewrite: one create per table (order irrelevant)
RECURSIVE SnapshotSeq(_, _)
SnapshotSeq(m, S) == IF S = {} THEN <<>>
                     ELSE LET i == CHOOSE x \in S : \A y \in S : x <= y
                          IN <<[op |-> "create", id |-> i, lvl |-> m.lvl[i]]>> \o SnapshotSeq(m, S \ {i})
Snapshot(m) == SnapshotSeq(m, Tables(m))

NeedsRewrite(m) == m.del > Threshold /\ m.del > Ratio * (m.cre - m.del)

\* a new MANIFEST is written by helpRewrite: the magic and one (empty) snapshot record
Init == live = EmptyMan /\ file = << <<>> >> /\ nsets = 0 /\ lastErr = FALSE /\ reopened = FALSE

\* manifestFile.addChanges
AddChanges(cs) ==
    /\ nsets < MaxSets /\ cs \in ChangeSets
    /\ nsets' = nsets + 1 /\ reopened' = reopened
    /\ LET r == ApplySet(live, cs, 1) IN
       IF r.err
       THEN /\ lastErr' = TRUE
            /\ live' = IF AtomicApply THEN live ELSE r.m
            /\ file' = file
       ELSE /\ lastErr' = FALSE
            /\ IF NeedsRewrite(r.m)
               THEN /\ file' = <<Snapshot(r.m)>>
                    /\ live' = [r.m EXCEPT !.cre = Cardinality(Tables(r.m)), !.del = 0]
               ELSE /\ file' = Append(file, cs)
                    /\ live' = r.m

\* close and re-open: the in-memory copy is rebuilt from the file; the copy kept by the
\* manifestFile is Manifest.clone() of the replay result, which restarts the counters
\* (creations = number of tables, deletions = 0)
Cloned(m) == [m EXCEPT !.cre = Cardinality(Tables(m)), !.del = 0]
Reopen ==
    /\ ~ReplayFile(file).err
    /\ live' = Cloned(ReplayFile(file).m)
    /\ reopened' = TRUE
    /\ UNCHANGED <<file, nsets, lastErr>>

Next == (\E cs \in ChangeSets : AddChanges(cs)) \/ Reopen
Spec == Init /\ [][Next]_vars

\* ---- C17
\* the file replays without error to exactly the table map of the in-memory copy
ReplayEqualsLive == LET r == ReplayFile(file) IN ~r.err /\ r.m.lvl = live.lvl
\* ... and, as long as the file has not been re-opened, to the same counters (they only
\* steer the rewrite heuristic)
CountersEqualUntilReopen == reopened \/ (ReplayFile(file).m = live)
\* every prefix of the file in whole records replays (a torn last record is dropped by the
\* truncation offset): all-or-nothing per change set
PrefixesReplay == \A n \in 0..Len(file) : ~ReplayFile(SubSeq(file, 1, n)).err
=============================================================================
