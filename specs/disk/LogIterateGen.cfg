SPECIFICATION Spec
CONSTANTS
  MaxLen = 5
  K = 3
  Classes <- AllClasses
INVARIANTS AllProps DamageIsLocal Emit
