SPECIFICATION TraceSpec
CONSTANTS
  Strict = FALSE
  Skip = {}
CONSTRAINT HighWater
POSTCONDITION Accepted
