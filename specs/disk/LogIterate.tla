----------------------------- MODULE LogIterate -----------------------------
(***************************************************************************)
(* The state machine of logFile.iterate (memtable.go): how the records of  *)
(* a write-ahead log (.mem) or value log (.vlog) are grouped into          *)
(* transactions when the file is replayed at Open.                         *)
(*                                                                         *)
(* A record is [t, c, st]:                                                 *)
(*   t  \in {"ent", "fin", "plain"}  entry carrying bitTxn / transaction   *)
(*        end marker (bitFinTxn) / entry without transaction bits (value   *)
(*        log records, GC write-back entries in the WAL)                   *)
(*   c  commit timestamp the record carries (key suffix of an "ent", the   *)
(*        decimal value of a "fin")                                        *)
(*   st \in {"ok", "torn"}  "torn" = safeRead.Entry fails on it: cut by    *)
(*        EOF, zero-filled header (isZero), zero-filled remainder          *)
(*        (checksum mismatch -> errTruncate), missing bytes                *)
(*                                                                         *)
(* iterate keeps lastCommit (0 = not inside a transaction), the buffered   *)
(* entries of the transaction being read and validEndOffset; buffered      *)
(* entries are handed to the replay function only when their end marker    *)
(* with the same timestamp has been read.  Everything after validEndOffset *)
(* is cut off by the caller (memTable.UpdateSkipList / valueLog.open       *)
(* Truncate).                                                              *)
(***************************************************************************)
EXTENDS Integers, Sequences

\* Result: applied = the records handed to the replay function, in order;
\*         valid   = number of leading records kept by the truncation.
RECURSIVE IterFrom(_, _, _, _, _)
IterFrom(recs, i, lc, pend, acc) ==
    IF i > Len(recs) THEN acc
    ELSE LET r == recs[i] IN
      IF r.st # "ok" THEN acc                                     \* read error class: stop
      ELSE IF r.t = "ent"
        THEN IF lc = 0 \/ lc = r.c
             THEN IterFrom(recs, i + 1, r.c, Append(pend, r), acc)
             ELSE acc                                              \* timestamp changes inside a transaction
      ELSE IF r.t = "fin"
        THEN IF lc # r.c THEN acc                                  \* marker of another (or no) transaction
             ELSE IterFrom(recs, i + 1, 0, <<>>,
                           [applied |-> acc.applied \o pend, valid |-> i])
      ELSE \* plain
           IF lc # 0 THEN acc                                      \* plain entry inside a transaction
           ELSE IterFrom(recs, i + 1, 0, <<>>,
                         [applied |-> Append(acc.applied, r), valid |-> i])

Iterate(recs) == IterFrom(recs, 1, 0, <<>>, [applied |-> <<>>, valid |-> 0])

\* ---- properties of the function itself (checked by TLC over all record sequences of the
\* ---- bound, see LogIterateMC)
\* exactly the records before the damage: nothing at or after a torn record is applied
NothingAfterDamage(recs) ==
    LET res == Iterate(recs) IN
    \A i \in 1..Len(recs) : recs[i].st # "ok" => res.valid < i
\* no transaction without an intact end marker: every applied "ent" is followed, inside the
\* kept prefix, by a "fin" with its timestamp with only same-timestamp "ent"s in between
AppliedHaveMarker(recs) ==
    LET res == Iterate(recs) IN
    \A i \in 1..res.valid : recs[i].t = "ent" =>
        \E j \in (i + 1)..res.valid :
            /\ recs[j].t = "fin" /\ recs[j].c = recs[i].c
            /\ \A m \in (i + 1)..(j - 1) : recs[m].t = "ent" /\ recs[m].c = recs[i].c
\* the kept prefix ends at a transaction boundary and everything in it is applied
PrefixIsApplied(recs) ==
    LET res == Iterate(recs)
        kept == SelectSeq(SubSeq(recs, 1, res.valid), LAMBDA r : r.t # "fin")
    IN res.applied = kept
=============================================================================
