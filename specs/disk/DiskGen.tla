------------------------------- MODULE DiskGen -------------------------------
(***************************************************************************)
(* Workload generator of the Disk family (engine E-GEN for E-CRASH).       *)
(* A workload is a sequence of driver operations executed one after the    *)
(* other on a fresh database (one active goroutine at a time): commits     *)
(* (transactions / write batches with values below and above the value     *)
(* threshold, deletes), forced memtable rotation, flush, L0 compaction,     *)
(* value-log GC, DropAll, DropPrefix, clean re-open.  Each operation        *)
(* carries the visible state DiskDefs predicts after it (vis: key -> id of *)
(* the commit whose value is visible, 0 = absent); the crash harness        *)
(* compares every re-opened crash image with the states PrefixAllowed /     *)
(* DropAllowed admit for that crash point.                                  *)
(* A small abstract layout (what is in the memtable, how many L0 tables,    *)
(* how many value-log files) only shapes the choice of operations so that   *)
(* flush / compaction / GC / drops happen when they have something to do.   *)
(***************************************************************************)
EXTENDS Integers, Sequences, FiniteSets, TLC, Json

CONSTANTS NKeys,        \* keys 1..NKeys, group of k = (k + 1) \div 2
          HistLen,      \* operations per workload
          SyncModes,    \* subset of BOOLEAN: Options.SyncWrites of the workload
          KeySets,      \* key sets a commit may write
          Styles,       \* subset of 1..4: 1 small values, 2 big values, 3 mixed, 4 deletes
          EnvOps,       \* subset of {"rotate","flush","compactL0","gc","reopen"}
          Drops,        \* subset of {"dropAll","dropPrefix"}
          DropAt,       \* 0: drops anywhere (at most one of each); n: operation n is a drop
          MultiAt,      \* 0: never; n: operation n is a "multi": MultiN transactions committed by
          MultiN,       \*    concurrent committers, so that the writer handles them in one batch
          Races,        \* subset of {"raceAll","racePrefix"}: a drop racing with one transaction (last operation)
          MaxEnv,       \* bound on environment operations per workload
          MaxRow,       \* at most this many commits in a row (shaping)
          VlogMaxEntries

Keys == 1..NKeys
GroupOfKey(k) == (k + 1) \div 2
INSTANCE DiskDefs WITH Keys <- Keys, GroupOf <- GroupOfKey

VARIABLES hist, sync, vis, ncommit, lay
vars == <<hist, sync, vis, ncommit, lay>>

\* lay: mem = keys with an entry in the active memtable, imm = rotated memtables, l0 / l1 =
\* number of tables, vfiles = value-log files, vn = entries written to the head file
Lay0 == [mem |-> {}, imm |-> 0, l0 |-> 0, l1 |-> 0, vfiles |-> 1, vn |-> 0, nenv |-> 0, ndrop |-> {}, reopened |-> FALSE]

Init == /\ hist = <<>> /\ sync \in SyncModes /\ vis = Empty /\ ncommit = 0 /\ lay = Lay0

Room == Len(hist) < (IF Races = {} THEN HistLen ELSE HistLen - 1)
MustDrop == (DropAt # 0 /\ Len(hist) + 1 = DropAt) \/ (MultiAt # 0 /\ Len(hist) + 1 = MultiAt)
H(rec) == hist' = Append(hist, rec)

RECURSIVE SeqOfSet(_)
SeqOfSet(S) == IF S = {} THEN <<>>
               ELSE LET x == CHOOSE y \in S : \A z \in S : y <= z IN <<x>> \o SeqOfSet(S \ {x})

IsBig(style, k) == style = 2 \/ (style = 3 /\ k % 2 = 1)
IsDel(style, k) == style = 4

RECURSIVE Row(_)
Row(n) == IF n = 0 \/ hist[n].op \notin {"commit", "batch"} THEN 0 ELSE 1 + Row(n - 1)

Commit(api, ks, style) ==
    /\ Room /\ ~MustDrop /\ ks \in KeySets /\ style \in Styles
    /\ Row(Len(hist)) < MaxRow
    /\ api = (IF (ncommit + Cardinality(ks)) % 3 = 0 THEN "batch" ELSE "commit")   \* derived, not a choice
    /\ (style = 4 => \E k \in ks : vis[k] # 0)            \* deletes of something visible
    /\ LET u == ncommit + 1
           sk == SeqOfSet(ks)
           w == [i \in 1..Len(sk) |-> [k |-> sk[i], v |-> u, big |-> IsBig(style, sk[i]), del |-> IsDel(style, sk[i])]]
           op == [t |-> "commit", ks |-> ks, dels |-> {k \in ks : IsDel(style, k)}, u |-> u]
           nbig == Cardinality({k \in ks : IsBig(style, k)})
           rot == lay.vn + nbig > VlogMaxEntries
       IN /\ vis' = ApplyOp(vis, op)
          /\ ncommit' = u
          /\ H([op |-> api, w |-> w, g |-> 0, vis |-> ApplyOp(vis, op)])
          /\ lay' = [lay EXCEPT !.mem = @ \cup ks, !.vn = IF rot THEN 0 ELSE @ + nbig,
                                !.vfiles = IF rot THEN @ + 1 ELSE @]
    /\ UNCHANGED sync

Env(e) ==
    /\ Room /\ ~MustDrop /\ e \in EnvOps /\ lay.nenv < MaxEnv
    /\ Len(hist) > 0 /\ hist[Len(hist)].op # e
    /\ CASE e = "rotate" -> lay.mem # {} /\ lay.imm < 2 /\ lay' = [lay EXCEPT !.mem = {}, !.imm = @ + 1, !.nenv = @ + 1]
         [] e = "flush" -> (lay.mem # {} \/ lay.imm > 0)
                           /\ lay' = [lay EXCEPT !.mem = {}, !.imm = 0, !.nenv = @ + 1,
                                                 !.l0 = @ + lay.imm + (IF lay.mem # {} THEN 1 ELSE 0)]
         [] e = "compactL0" -> lay.l0 > 0 /\ lay' = [lay EXCEPT !.l0 = 0, !.l1 = 1, !.nenv = @ + 1]
         [] e = "gc" -> lay.vfiles > 1 /\ lay' = [lay EXCEPT !.vfiles = @ - 1, !.nenv = @ + 1]
         [] e = "reopen" -> ~lay.reopened
                            /\ lay' = [lay EXCEPT !.reopened = TRUE, !.nenv = @ + 1, !.vfiles = @ + 1, !.vn = 0,
                                                  !.l0 = @ + lay.imm + (IF lay.mem # {} THEN 1 ELSE 0),
                                                  !.mem = {}, !.imm = 0]
    /\ H([op |-> e, w |-> <<>>, g |-> 0, vis |-> vis])
    /\ UNCHANGED <<sync, vis, ncommit>>

Drop(d, g) ==
    /\ Room /\ d \in Drops /\ d \notin lay.ndrop
    /\ (DropAt # 0 => MustDrop)
    /\ \E k \in Keys : vis[k] # 0                       \* something to drop
    /\ (d = "dropPrefix" => g \in {GroupOfKey(k) : k \in Keys} /\ \E k \in Keys : GroupOfKey(k) = g /\ vis[k] # 0)
    /\ (d = "dropAll" => g = 0)
    /\ LET op == IF d = "dropAll" THEN [t |-> "dropAll"] ELSE [t |-> "dropPrefix", g |-> g] IN
       /\ vis' = ApplyOp(vis, op)
       \* mid: the visible states allowed while the drop is unfinished (C29)
       /\ H([op |-> d, w |-> <<>>, g |-> g, vis |-> ApplyOp(vis, op), mid |-> DropStates(vis, op)])
    /\ lay' = IF d = "dropAll"
              THEN [lay EXCEPT !.mem = {}, !.imm = 0, !.l0 = 0, !.l1 = 0, !.vfiles = 1, !.vn = 0, !.ndrop = @ \cup {d}]
              ELSE [lay EXCEPT !.mem = {}, !.imm = 0, !.l0 = 0, !.l1 = 1, !.ndrop = @ \cup {d}]
    /\ UNCHANGED <<sync, ncommit>>

\* A drop racing with one concurrent transaction (C29: "writes issued concurrently take effect
\* either entirely before or entirely after the drop").  The two serialisations are the
\* allowed outcomes: vis = drop, then the transaction; alt = the transaction, then the drop.
\* It is the last operation of the workload.
Race(d, g, ks, style) ==
    /\ Len(hist) = HistLen - 1 /\ d \in Races /\ ks \in KeySets /\ style \in Styles \ {4}
    /\ \E k \in Keys : vis[k] # 0
    /\ (d = "racePrefix" => \E k \in Keys : GroupOfKey(k) = g /\ vis[k] # 0)
    /\ (d = "raceAll" => g = 0)
    /\ LET u == ncommit + 1
           sk == SeqOfSet(ks)
           w == [i \in 1..Len(sk) |-> [k |-> sk[i], v |-> u, big |-> IsBig(style, sk[i]), del |-> FALSE]]
           txn == [t |-> "commit", ks |-> ks, dels |-> {}, u |-> u]
           drop == IF d = "raceAll" THEN [t |-> "dropAll"] ELSE [t |-> "dropPrefix", g |-> g]
       IN /\ H([op |-> d, w |-> w, g |-> g, vis |-> ApplyOp(ApplyOp(vis, drop), txn),
                alt |-> ApplyOp(ApplyOp(vis, txn), drop)])
          /\ vis' = ApplyOp(ApplyOp(vis, drop), txn)
          /\ ncommit' = u
    /\ UNCHANGED <<sync, lay>>

\* MultiN transactions issued by concurrent committers (enqueued in this order while the writer is
\* busy, then written as ONE batch by writeRequests). vis = after all of them; pre[i] = after the
\* first i: the states allowed while the operation is in flight.
\* Transaction i writes its own key i and the shared key NKeys, so that the loss of any one of
\* them shows in the visible state (needs NKeys > MultiN).
MultiKs(i) == {i, NKeys}
RECURSIVE MultiVis(_, _)
MultiVis(v, i) ==
    IF i > MultiN THEN <<>>
    ELSE LET op == [t |-> "commit", ks |-> MultiKs(i), dels |-> {}, u |-> ncommit + i]
         IN <<ApplyOp(v, op)>> \o MultiVis(ApplyOp(v, op), i + 1)
Multi(style) ==
    /\ Room /\ MultiAt # 0 /\ Len(hist) + 1 = MultiAt /\ style \in Styles \ {4} /\ NKeys > MultiN
    /\ LET txs == [i \in 1..MultiN |-> [j \in 1..2 |->
                     [k |-> SeqOfSet(MultiKs(i))[j], v |-> ncommit + i,
                      big |-> IsBig(style, SeqOfSet(MultiKs(i))[j]), del |-> FALSE]]]
           pre == MultiVis(vis, 1)
       IN /\ H([op |-> "multi", w |-> <<>>, txs |-> txs, g |-> 0, vis |-> pre[MultiN], pre |-> pre])
          /\ vis' = pre[MultiN]
          /\ ncommit' = ncommit + MultiN
          /\ lay' = [lay EXCEPT !.mem = @ \cup (1..MultiN) \cup {NKeys}]
    /\ UNCHANGED sync

Next ==
    \/ \E style \in Styles : Multi(style)
    \/ \E d \in Races, g \in 0..((NKeys + 1) \div 2), ks \in KeySets, style \in Styles : Race(d, g, ks, style)
    \/ \E api \in {"commit", "batch"}, ks \in KeySets, style \in Styles :
          Commit(api, ks, style)
    \/ \E e \in EnvOps : Env(e)
    \/ \E d \in Drops, g \in 0..((NKeys + 1) \div 2) : Drop(d, g)

GenSpec == Init /\ [][Next]_vars

\* cross-check of the constructive DropStates against the C29 predicate (small configurations)
DropStatesChecked ==
    \A i \in 1..Len(hist) : hist[i].op \in {"dropAll", "dropPrefix"} =>
        LET pre == IF i = 1 THEN Empty ELSE hist[i - 1].vis
            d == IF hist[i].op = "dropAll" THEN [t |-> "dropAll"] ELSE [t |-> "dropPrefix", g |-> hist[i].g]
        IN DropStatesOK(pre, d, 0..ncommit)

Emit == Len(hist) = HistLen => PrintT(<<"CASE", ToJson([sync |-> sync, ops |-> hist])>>)
=============================================================================
