---------------------------- MODULE LogIterateGen ----------------------------
(***************************************************************************)
(* Model checking and case generation for LogIterate (C09, C16 grouping).  *)
(* recs grows one record at a time over the record classes                  *)
(*    ent / fin with timestamp 1 or 2 (matching or mismatching), plain,     *)
(* so TLC visits every class sequence up to MaxLen.  Invariants: the        *)
(* properties of LogIterate on every sequence with every single record      *)
(* damaged.  As a generator it prints, for every sequence of length MaxLen, *)
(* the prediction for a cut inside each of the last K records (and for the  *)
(* undamaged file): which records are replayed and how many are kept.       *)
(***************************************************************************)
EXTENDS Integers, Sequences, TLC, Json, LogIterate

CONSTANTS MaxLen, K, Classes

AllClasses == {<<"ent", 1>>, <<"ent", 2>>, <<"fin", 1>>, <<"fin", 2>>, <<"plain", 3>>}

VARIABLE recs
Rec(cl) == [t |-> cl[1], c |-> cl[2], st |-> "ok"]

Init == recs = <<>>
Next == Len(recs) < MaxLen /\ \E cl \in Classes : recs' = Append(recs, Rec(cl))
Spec == Init /\ [][Next]_recs

\* the file with record j damaged (cut anywhere inside it, remainder missing or zero-filled):
\* safeRead.Entry fails on it, nothing behind it is looked at
Damaged(j) == [i \in 1..Len(recs) |-> IF i = j THEN [recs[i] EXCEPT !.st = "torn"] ELSE recs[i]]

Props(rs) == NothingAfterDamage(rs) /\ AppliedHaveMarker(rs) /\ PrefixIsApplied(rs)
AllProps == Props(recs) /\ \A j \in 1..Len(recs) : Props(Damaged(j))
\* a damaged record never changes what is replayed from the records before it, beyond
\* dropping the transaction it belongs to
DamageIsLocal ==
    \A j \in 1..Len(recs) :
        LET a == Iterate(Damaged(j)) b == Iterate(SubSeq(recs, 1, j - 1))
        IN a = b

Idx(res, rs) ==   \* indexes of the applied records
    LET RECURSIVE F(_, _)
        F(i, n) == IF n > Len(res.applied) THEN <<>>
                   ELSE IF rs[i] = res.applied[n] /\ rs[i].t # "fin" THEN <<i>> \o F(i + 1, n + 1) ELSE F(i + 1, n)
    IN F(1, 1)

Case ==
    [recs |-> [i \in 1..Len(recs) |-> [t |-> recs[i].t, c |-> recs[i].c]],
     cuts |-> [jj \in 1..(K + 1) |->
                 LET j == Len(recs) + 2 - jj   \* Len+1 = undamaged, then the last K records
                     rs == IF j > Len(recs) THEN recs ELSE Damaged(j)
                     res == Iterate(rs)
                 IN [j |-> j, valid |-> res.valid, applied |-> Idx(res, rs)]]]

Emit == Len(recs) = MaxLen => PrintT(<<"CASE", ToJson(Case)>>)
=============================================================================
