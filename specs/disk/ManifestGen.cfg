SPECIFICATION MCSpec
CONSTANTS
  Ids = {1, 2, 3}
  Levels = {0, 1}
  Threshold = 1
  Ratio = 10
  ChangeSets <- MenuSets
  MaxSets = 6
  AtomicApply = TRUE
INVARIANTS ReplayEqualsLive CountersEqualUntilReopen PrefixesReplay
VIEW MCView
