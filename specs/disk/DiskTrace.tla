------------------------------ MODULE DiskTrace ------------------------------
(***************************************************************************)
(* Trace validation of the persistence protocol (engine E-TRACE).          *)
(* The crash harness records every file-system hook event of a workload    *)
(* run on the real code (fs.create / fs.sync / fs.syncdir / fs.append /    *)
(* fs.truncate / fs.rename / fs.remove / fs.close, with the decoded change *)
(* set of every MANIFEST append and the current length of every log file). *)
(* This module interprets the event stream with the operators of DiskFS    *)
(* -- the same two-layer file system the design module Disk uses -- and    *)
(* checks, after every event, the structural conditions that make every    *)
(* crash point safe (they are the at-all-times invariants of Disk):        *)
(*   K1  every table of the MANIFEST, as the page cache has it, exists     *)
(*   P1  every table of the durable MANIFEST content exists (not unlinked) *)
(*       and its own content is msync'ed: "MANIFEST fsync before the       *)
(*       inputs are removed", "table msync before the MANIFEST append"     *)
(*   W1  a WAL is deleted only when it is empty, or its table is in the    *)
(*       durable MANIFEST content, or inside DropAll / DropPrefix          *)
(*   A1  (SyncWrites) when a write request is acknowledged the WAL content *)
(*       and the value-log head content are synced                         *)
(* and, when Strict (the intended DirSyncOnCreate protocol):               *)
(*   P2  every table of the durable MANIFEST has a durable directory entry *)
(*   A2  (SyncWrites) at acknowledgement the WAL and the value-log head    *)
(*       have durable directory entries                                    *)
(* (P2 / A2 are reported, they do not stop the trace.)                      *)
(* A violated condition stops the trace at that line: TLC reports the      *)
(* first line it could not pass (high-water mark) and the check maps the   *)
(* failed condition back from the recorded fields.                         *)
(***************************************************************************)
EXTENDS Integers, Sequences, FiniteSets, TLC, Json, DiskFS

CONSTANTS Strict,      \* BOOLEAN: also demand durable directory entries (P2, A2)
          Skip         \* set of condition names not to enforce (used to localise a failure)

Trace == ndJsonDeserialize("trace.ndjson")

VARIABLES l, f, nobj, pend, flushedMem, fail
vars == <<l, f, nobj, pend, flushedMem, fail>>

EmptyFs == [cdir |-> <<>>, ccont |-> <<>>, ddir |-> <<>>, dcont |-> <<>>]

TraceInit == /\ TLCSet(1, 0) /\ l = 1 /\ f = EmptyFs /\ nobj = 0 /\ pend = {} /\ flushedMem = {} /\ fail = "none"

NameOf(kind, id) == IF kind = "manifest" THEN <<"MANIFEST", 0>> ELSE IF kind = "rewrite" THEN <<"REWRITE", 0>> ELSE <<kind, id>>
ContKind(kind) == IF kind \in {"manifest", "rewrite"} THEN "man" ELSE kind

\* log files are append-only: their content is represented by its length
RECURSIVE SetLens(_, _, _)
SetLens(g, lens, i) ==
    IF i > Len(lens) THEN g
    ELSE LET n == <<lens[i].k, lens[i].id>>
         IN SetLens(IF n \in DOMAIN g.cdir THEN [g EXCEPT !.ccont[g.cdir[n]].d = <<lens[i].n>>] ELSE g, lens, i + 1)

CsOf(e) == {[op |-> c.op, id |-> c.id, lvl |-> c.lvl] : c \in {e.cs[i] : i \in 1..Len(e.cs)}}

ManTables(c) == IF c.z THEN {} ELSE ReplayMan(c.d, 1, [tbl |-> {}, cre |-> 0, del |-> 0]).m.tbl
CacheTables(g) == IF <<"MANIFEST", 0>> \in DOMAIN g.cdir THEN ManTables(g.ccont[g.cdir[<<"MANIFEST", 0>>]]) ELSE {}
DurTables(g) == IF <<"MANIFEST", 0>> \in DOMAIN g.cdir THEN ManTables(g.dcont[g.cdir[<<"MANIFEST", 0>>]]) ELSE {}

Synced(g, n) == n \in DOMAIN g.cdir /\ g.dcont[g.cdir[n]] = g.ccont[g.cdir[n]]
DurEntry(g, n) == n \in DOMAIN g.cdir /\ n \in DOMAIN g.ddir /\ g.ddir[n] = g.cdir[n]

K1(g) == \A t \in CacheTables(g) : <<"sst", t.id>> \in DOMAIN g.cdir
P1(g) == \A t \in DurTables(g) : Synced(g, <<"sst", t.id>>)
P2(g) == \A t \in DurTables(g) : DurEntry(g, <<"sst", t.id>>)
MemIds(g) == {n[2] : n \in {m \in DOMAIN g.cdir : m[1] = "mem"}}
VlogIds(g) == {n[2] : n \in {m \in DOMAIN g.cdir : m[1] = "vlog"}}
MaxOf(S) == IF S = {} THEN 0 ELSE CHOOSE x \in S : \A y \in S : y <= x
MinOf(S) == IF S = {} THEN 0 ELSE CHOOSE x \in S : \A y \in S : x <= y
A1(g) == /\ \A m \in MemIds(g) : Synced(g, <<"mem", m>>)      \* every WAL, also one rotated away inside the batch
         /\ VlogIds(g) # {} => Synced(g, <<"vlog", MaxOf(VlogIds(g))>>)
A2(g) == /\ MemIds(g) # {} => DurEntry(g, <<"mem", MaxOf(MemIds(g))>>)
         /\ VlogIds(g) # {} => DurEntry(g, <<"vlog", MaxOf(VlogIds(g))>>)

\* the effect of one event on the file system
Effect(g, e, o) ==
    LET n == NameOf(e.kind, e.id) IN
    IF e.ev = "fs.create" /\ e.kind # "other"
      THEN FsCreate(g, n, o, Cont(ContKind(e.kind),
                    IF e.kind = "rewrite" THEN <<CsOf(e)>> ELSE IF e.kind = "sst" THEN {} ELSE <<0>>))
    ELSE IF e.kind = "other" \/ (e.ev \in {"fs.sync", "fs.close", "fs.append", "fs.truncate", "fs.remove", "fs.rename"}
                                 /\ n \notin DOMAIN g.cdir) THEN g
    ELSE IF e.ev \in {"fs.sync", "fs.close"} THEN FsSync(g, n)
    ELSE IF e.ev = "fs.syncdir" THEN FsSyncDir(g)
    ELSE IF e.ev = "fs.append" /\ e.kind = "manifest" THEN FsAppend(g, n, CsOf(e))
    ELSE IF e.ev = "fs.rename" THEN FsRename(g, n, NameOf("manifest", 0))
    ELSE IF e.ev = "fs.remove" THEN FsRemove(g, n)
    ELSE g

InDropOp(e) == e.opname \in {"dropAll", "dropPrefix"}
MemEmpty(g, n) == n \in DOMAIN g.cdir /\ g.ccont[g.cdir[n]].d[1] <= 20     \* header only

\* first violated condition after event e in state g ("none" if all hold)
Check(g0, g, e) ==
    IF "K1" \notin Skip /\ ~K1(g) THEN "K1"
    ELSE IF "P1" \notin Skip /\ ~P1(g) THEN "P1"
    ELSE IF "W1" \notin Skip /\ e.ev = "fs.remove" /\ e.kind = "mem" /\ ~InDropOp(e)
            /\ ~MemEmpty(g0, <<"mem", e.id>>) /\ e.id \notin flushedMem THEN "W1"
    ELSE IF "A1" \notin Skip /\ e.ev = "writer.applied" /\ e.sync /\ ~A1(g) THEN "A1"
    ELSE "none"

\* the conditions of the intended directory-sync protocol do not stop the trace: each line at
\* which one fails is printed (the check reports them; on the unchanged tree they fail, C10)
StrictCheck(g, e) ==
    IF ~Strict THEN "none"
    ELSE IF "P2" \notin Skip /\ ~P2(g) THEN "P2"
    ELSE IF "A2" \notin Skip /\ e.ev = "writer.applied" /\ e.sync /\ ~A2(g) THEN "A2"
    ELSE "none"

Step ==
    /\ l <= Len(Trace)
    /\ LET e == Trace[l] IN
       IF e.ev = "TraceReset"
       THEN /\ f' = EmptyFs /\ nobj' = 0 /\ pend' = {} /\ flushedMem' = {} /\ fail' = "none" /\ l' = l + 1
       ELSE LET g0 == SetLens(f, e.lens, 1)
                g == Effect(g0, e, nobj + 1)
                verdict == Check(g0, g, e)
                \* the memtable being flushed is the oldest WAL on disk when its table appears
                pend2 == IF e.ev = "flush.table" THEN pend \cup {[mem |-> MinOf(MemIds(g)), tbl |-> e.id]} ELSE pend
                durIds == {t.id : t \in DurTables(g)}
                strict == StrictCheck(g, e)
            IN /\ verdict = "none"
               /\ (strict # "none" /\ fail # strict) => PrintT(<<"STRICT", strict, l, e.ev, e.opname>>)
               /\ f' = g /\ nobj' = nobj + 1
               /\ pend' = {p \in pend2 : p.tbl \notin durIds}
               /\ flushedMem' = flushedMem \cup {p.mem : p \in {q \in pend2 : q.tbl \in durIds}}
               /\ fail' = strict
               /\ l' = l + 1

TraceSpec == TraceInit /\ [][Step]_vars

HighWater == IF l > TLCGet(1) THEN TLCSet(1, l) ELSE TRUE
Accepted == TLCGet(1) = Len(Trace) + 1
=============================================================================
