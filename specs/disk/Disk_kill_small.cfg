SPECIFICATION Spec
CONSTANTS
  Keys = {1, 2}
  GroupOf <- MCGroupOf
  Groups <- MCGroups
  KeySets <- MCKeySets1
  MaxCommits = 2
  SyncWrites = FALSE
  BigVals = {FALSE, TRUE}
  Dels = {FALSE}
  MaxRotate = 1
  MaxCompact = 1
  MaxGC = 0
  MaxDropAll = 0
  MaxDropPrefix = 0
  MaxClose = 0
  MaxCrash = 1
  CrashKinds = {"kill"}
  VlogMaxEntries = 1
  RewriteDel = 10
  RewriteRatio = 10
  ContinueAfterCrash = FALSE
  DirSyncOnCreate = TRUE
  DropFlushFirst = TRUE
  ZeroLenLogOK = TRUE
  GCSafe = TRUE
INVARIANTS TypeOK OpensWithoutError PrefixRecovered DropAtomicity ManifestMatchesDisk NextTsAboveAll KillSafeManifest
