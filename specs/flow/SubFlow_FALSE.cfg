SPECIFICATION FairSpec
CONSTANTS
  QCap = 2
  NCommits = 5
  DrainFirst = FALSE
PROPERTIES SubscribeReturns CommitsReturn
