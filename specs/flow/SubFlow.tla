------------------------------ MODULE SubFlow ------------------------------
(***************************************************************************)
(* Publisher / subscriber flow control (publisher.go, DB.Subscribe):       *)
(* publishUpdates holds the publisher mutex while it sends to the          *)
(* subscriber's bounded queue; a subscription that ends clears its active  *)
(* flag, drains its queue and only then takes the mutex to deregister.     *)
(*   Commit        writer: sendUpdates (needs the mutex for                *)
(*                 noOfSubscribers) puts a batch on pubCh                  *)
(*   PubLock/PubSend/PubUnlock   publishUpdates                            *)
(*   Consume       the subscriber's callback takes a batch                 *)
(*   End...        ctx cancelled / callback error: active := 0, drain,     *)
(*                 deleteSubscriber (in this order iff DrainFirst)         *)
(***************************************************************************)
EXTENDS Integers, TLC
CONSTANTS QCap,        \* capacity of subscriber.sendCh (1000 in the code)
          NCommits,
          DrainFirst   \* TRUE: drain before deleteSubscriber (the code)
VARIABLES q, lock, pub, pubCh, left, sub, active, registered
vars == <<q, lock, pub, pubCh, left, sub, active, registered>>
Init == q = 0 /\ lock = "none" /\ pub = "idle" /\ pubCh = 0 /\ left = NCommits
        /\ sub = "listening" /\ active = TRUE /\ registered = TRUE
\* writer: noOfSubscribers under the mutex, then hand the batch to the publisher goroutine
Commit == /\ left > 0 /\ lock = "none"
          /\ left' = left - 1
          /\ pubCh' = IF registered THEN pubCh + 1 ELSE pubCh
          /\ UNCHANGED <<q, lock, pub, sub, active, registered>>
PubLock == /\ pub = "idle" /\ pubCh > 0 /\ lock = "none"
           /\ lock' = "pub" /\ pub' = "locked" /\ pubCh' = pubCh - 1
           /\ UNCHANGED <<q, left, sub, active, registered>>
\* publishUpdates tests the subscriber's active flag and then sends; the send blocks while the
\* queue is full (still holding the mutex) - a subscription may end in between
PubCheck == /\ pub = "locked"
            /\ IF registered /\ active THEN pub' = "sending" /\ UNCHANGED lock
               ELSE pub' = "idle" /\ lock' = "none"
            /\ UNCHANGED <<q, pubCh, left, sub, active, registered>>
PubSend == /\ pub = "sending" /\ q < QCap /\ q' = q + 1
           /\ pub' = "idle" /\ lock' = "none"
           /\ UNCHANGED <<pubCh, left, sub, active, registered>>
Consume == /\ sub = "listening" /\ q > 0 /\ q' = q - 1
           /\ UNCHANGED <<lock, pub, pubCh, left, sub, active, registered>>
EndStart == /\ sub = "listening" /\ sub' = "ending" /\ active' = FALSE
            /\ UNCHANGED <<q, lock, pub, pubCh, left, registered>>
Drain == /\ sub = (IF DrainFirst THEN "ending" ELSE "deleted") /\ q' = 0
         /\ sub' = (IF DrainFirst THEN "drained" ELSE "done")
         /\ UNCHANGED <<lock, pub, pubCh, left, active, registered>>
Delete == /\ sub = (IF DrainFirst THEN "drained" ELSE "ending") /\ lock = "none"
          /\ registered' = FALSE
          /\ sub' = (IF DrainFirst THEN "done" ELSE "deleted")
          /\ UNCHANGED <<q, lock, pub, pubCh, left, active>>
Next == Commit \/ PubLock \/ PubCheck \/ PubSend \/ Consume \/ EndStart \/ Drain \/ Delete
Spec == Init /\ [][Next]_vars
FairSpec == Spec /\ WF_vars(Commit) /\ WF_vars(PubLock) /\ WF_vars(PubCheck) /\ WF_vars(PubSend) /\ WF_vars(Drain) /\ WF_vars(Delete)
\* C38: a subscription that ends returns, and the commits queued behind the publisher return
SubscribeReturns == (sub = "ending") ~> (sub = "done")
CommitsReturn == (sub = "ending") ~> (left = 0)
=============================================================================
