SPECIFICATION FairSpec
CONSTANTS
  Committers = {1, 2}
  NWrites = 3
  ChanCap = 2
  FlushCap = 1
  MemCap = 1
  L0Stall = 2
  L0Trigger = 1
  NCompactors = 2
  WithClose = FALSE
  WithDrop = TRUE
  AtomicSend = TRUE
  DropReads = FALSE
  SerialCloseDrop = TRUE
INVARIANTS TypeOK NoPanic
PROPERTIES CommitsReturn DropCompletes
