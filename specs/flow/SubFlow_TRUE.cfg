SPECIFICATION FairSpec
CONSTANTS
  QCap = 2
  NCommits = 5
  DrainFirst = TRUE
PROPERTIES SubscribeReturns CommitsReturn
