-------------------------------- MODULE Flow --------------------------------
(***************************************************************************)
(* Data-free skeleton of badger's write path with back-pressure and        *)
(* shutdown: committers, the write channel, the single writer goroutine    *)
(* (doWrites/writeRequests), memtable rotation into the bounded flush      *)
(* queue, the flusher (stalls while level 0 is full), the compactor pool,  *)
(* and Close / DropAll-style "block writes, drain, resume".                *)
(*                                                                         *)
(*   Check(c)        db.sendToWriteCh: blockWrites test                    *)
(*   Send(c)         db.writeCh <- req                                     *)
(*   WriterTake      doWrites: move queued requests to the current batch   *)
(*   EnsureRoom      ensureRoomForWrite: rotate into flushChan or errNoRoom*)
(*   Apply           writeToLSM for the head request; Wg.Done              *)
(*   FlushStart/FlushAdd  flushMemtable/handleMemTableFlush/addLevel0Table *)
(*   Compact(k)      a compactor removes tables from level 0               *)
(*   CloseX          the phases of DB.close in order                       *)
(*   BlockX/Resume   prepareToDrop ... unblockWrite (DropAll, DropPrefix)  *)
(***************************************************************************)
EXTENDS Integers, Sequences, FiniteSets, TLC

CONSTANTS Committers,     \* set of client ids, each commits Writes[c] times
          NWrites,        \* writes per committer
          ChanCap,        \* capacity of writeCh (1000 in the code)
          FlushCap,       \* Options.NumMemtables (capacity of flushChan)
          MemCap,         \* writes that fill a memtable
          L0Stall,        \* Options.NumLevelZeroTablesStall
          L0Trigger,      \* Options.NumLevelZeroTables
          NCompactors,    \* >= 2
          WithClose,      \* BOOLEAN: a Close call happens
          WithDrop,       \* BOOLEAN: a DropAll-style block/drain/resume happens
          AtomicSend,     \* TRUE: the blockWrites test and the channel send are one step (what
                          \* Close needs); FALSE: two steps, as db.sendToWriteCh is written
          DropReads,      \* TRUE: the drop starts a read transaction after draining (DropPrefix:
                          \* filterPrefixesToDrop -> db.View), which waits until every commit that
                          \* already has a timestamp has been applied
          SerialCloseDrop \* TRUE: Close does not start while a drop is in progress (what the
                          \* design needs); FALSE: they may overlap, as in the code

VARIABLES cpc,        \* committer pc: "idle","checked","sent","done","rejected"
          left,       \* writes left per committer
          writeCh,    \* sequence of committer ids
          chClosed,   \* writeCh closed (Close)
          batch,      \* requests the writer is applying
          writerOn,   \* the doWrites goroutine is running
          mtFill,     \* entries in the active memtable
          flushQ,     \* number of memtables in flushChan + imm (<= FlushCap)
          flusher,    \* "idle" | "building" (holding one memtable taken from the queue)
          flusherOn,
          l0,         \* number of level-0 tables
          compOn,     \* compactors running
          block,      \* blockWrites
          close,      \* pc of Close: "no","blocked","writerStopped","chClosed","pushed","flushStopped","compStopped","done"
          drop,       \* pc of the drop: "no","blocked","drained","flushStopped","compStopped","resumed"
          panic       \* "none", or which crash happened: "sendOnClosedWriteCh" (straggler commit),
                      \* "sendOnClosedFlushCh" (Close pushes the memtable after a drop closed the
                      \* flush channel), "nilRequest" (doWrites restarted on the closed write channel)

vars == <<cpc, left, writeCh, chClosed, batch, writerOn, mtFill, flushQ, flusher, flusherOn, l0, compOn,
          block, close, drop, panic>>

Init ==
    /\ cpc = [c \in Committers |-> "idle"] /\ left = [c \in Committers |-> NWrites]
    /\ writeCh = <<>> /\ chClosed = FALSE /\ batch = <<>> /\ writerOn = TRUE
    /\ mtFill = 0 /\ flushQ = 0 /\ flusher = "idle" /\ flusherOn = TRUE
    /\ l0 = 0 /\ compOn = TRUE /\ block = FALSE
    /\ close = "no" /\ drop = "no" /\ panic = "none"

\* ---------------------------------------------------------------- committers
Check(c) ==
    /\ cpc[c] = "idle" /\ left[c] > 0
    /\ IF AtomicSend /\ ~block
       THEN /\ Len(writeCh) < ChanCap
            /\ writeCh' = Append(writeCh, c)
            /\ cpc' = [cpc EXCEPT ![c] = "sent"]
       ELSE /\ cpc' = [cpc EXCEPT ![c] = IF block THEN "rejected" ELSE "checked"]
            /\ UNCHANGED writeCh
    /\ UNCHANGED <<left, chClosed, batch, writerOn, mtFill, flushQ, flusher, flusherOn, l0, compOn, block, close, drop, panic>>

Send(c) ==
    /\ cpc[c] = "checked"
    /\ IF chClosed
       THEN panic' = "sendOnClosedWriteCh" /\ cpc' = [cpc EXCEPT ![c] = "done"] /\ UNCHANGED writeCh
       ELSE /\ Len(writeCh) < ChanCap
            /\ writeCh' = Append(writeCh, c)
            /\ cpc' = [cpc EXCEPT ![c] = "sent"]
            /\ UNCHANGED panic
    /\ UNCHANGED <<left, chClosed, batch, writerOn, mtFill, flushQ, flusher, flusherOn, l0, compOn, block, close, drop>>

\* Commit returns (with ErrBlockedWrites) and the client moves on to its next write
Rejected(c) ==
    /\ cpc[c] = "rejected"
    /\ cpc' = [cpc EXCEPT ![c] = "idle"] /\ left' = [left EXCEPT ![c] = @ - 1]
    /\ UNCHANGED <<writeCh, chClosed, batch, writerOn, mtFill, flushQ, flusher, flusherOn, l0, compOn, block, close, drop, panic>>

\* ---------------------------------------------------------------- writer goroutine
WriterTake ==
    /\ writerOn /\ batch = <<>> /\ writeCh # <<>>
    /\ batch' = writeCh /\ writeCh' = <<>>
    /\ UNCHANGED <<cpc, left, chClosed, writerOn, mtFill, flushQ, flusher, flusherOn, l0, compOn, block, close, drop, panic>>

\* ensureRoomForWrite: when the memtable is full it must be handed to the flush queue first
EnsureRoom ==
    /\ batch # <<>> /\ mtFill >= MemCap
    /\ flushQ < FlushCap                    \* otherwise errNoRoom: sleep and retry
    /\ flushQ' = flushQ + 1 /\ mtFill' = 0
    /\ UNCHANGED <<cpc, left, writeCh, chClosed, batch, writerOn, flusher, flusherOn, l0, compOn, block, close, drop, panic>>

Apply ==
    /\ batch # <<>> /\ mtFill < MemCap
    /\ LET c == Head(batch) IN
       /\ cpc' = [cpc EXCEPT ![c] = "idle"]            \* req.Wait returns
       /\ left' = [left EXCEPT ![c] = @ - 1]
    /\ batch' = Tail(batch) /\ mtFill' = mtFill + 1
    /\ UNCHANGED <<writeCh, chClosed, writerOn, flushQ, flusher, flusherOn, l0, compOn, block, close, drop, panic>>

\* doWrites restarted by unblockWrite after Close closed the channel: it receives nil requests
WriterNil ==
    /\ writerOn /\ chClosed /\ batch = <<>> /\ writeCh = <<>> /\ panic = "none"
    /\ panic' = "nilRequest"
    /\ UNCHANGED <<cpc, left, writeCh, chClosed, batch, writerOn, mtFill, flushQ, flusher, flusherOn, l0, compOn, block, close, drop>>

\* ---------------------------------------------------------------- flusher
FlushStart ==
    /\ flusherOn /\ flusher = "idle" /\ flushQ > 0
    /\ flusher' = "building"
    /\ UNCHANGED <<cpc, left, writeCh, chClosed, batch, writerOn, mtFill, flushQ, flusherOn, l0, compOn, block, close, drop, panic>>

\* addLevel0Table: stalls (sleep loop) while level 0 holds L0Stall tables
FlushAdd ==
    /\ flusher = "building" /\ l0 < L0Stall
    /\ l0' = l0 + 1 /\ flushQ' = flushQ - 1 /\ flusher' = "idle"
    /\ UNCHANGED <<cpc, left, writeCh, chClosed, batch, writerOn, mtFill, flusherOn, compOn, block, close, drop, panic>>

\* ---------------------------------------------------------------- compactors
Compact ==
    /\ compOn /\ NCompactors >= 2 /\ l0 >= L0Trigger
    /\ l0' = 0
    /\ UNCHANGED <<cpc, left, writeCh, chClosed, batch, writerOn, mtFill, flushQ, flusher, flusherOn, compOn, block, close, drop, panic>>

\* ---------------------------------------------------------------- Close (db.close, in order)
CloseBlock ==
    /\ WithClose /\ close = "no" /\ (SerialCloseDrop => drop \in {"no", "resumed"})
    /\ block' = TRUE /\ close' = "blocked"
    /\ UNCHANGED <<cpc, left, writeCh, chClosed, batch, writerOn, mtFill, flushQ, flusher, flusherOn, l0, compOn, drop, panic>>

\* closers.writes.SignalAndWait: doWrites drains what is queued, applies it and exits
CloseStopWriter ==
    /\ close = "blocked" /\ writeCh = <<>> /\ batch = <<>>
    /\ writerOn' = FALSE /\ close' = "writerStopped"
    /\ UNCHANGED <<cpc, left, writeCh, chClosed, batch, mtFill, flushQ, flusher, flusherOn, l0, compOn, block, drop, panic>>

CloseChan ==
    /\ close = "writerStopped"
    /\ chClosed' = TRUE /\ close' = "chClosed"
    /\ UNCHANGED <<cpc, left, writeCh, batch, writerOn, mtFill, flushQ, flusher, flusherOn, l0, compOn, block, drop, panic>>

\* push the last memtable (retry loop while the queue is full); a drop in progress has
\* closed the flush channel (prepareToDrop -> stopMemoryFlush): the send panics
ClosePush ==
    /\ close = "chClosed"
    /\ IF mtFill = 0 THEN UNCHANGED <<flushQ, mtFill, panic>>
       ELSE IF ~flusherOn THEN panic' = "sendOnClosedFlushCh" /\ UNCHANGED <<flushQ, mtFill>>
       ELSE flushQ < FlushCap /\ flushQ' = flushQ + 1 /\ mtFill' = 0 /\ UNCHANGED panic
    /\ close' = "pushed"
    /\ UNCHANGED <<cpc, left, writeCh, chClosed, batch, writerOn, flusher, flusherOn, l0, compOn, block, drop>>

\* stopMemoryFlush: close(flushChan) and wait until the flusher has drained it
CloseStopFlush ==
    /\ close = "pushed" /\ flushQ = 0 /\ flusher = "idle"
    /\ flusherOn' = FALSE /\ close' = "flushStopped"
    /\ UNCHANGED <<cpc, left, writeCh, chClosed, batch, writerOn, mtFill, flushQ, flusher, l0, compOn, block, drop, panic>>

CloseStopComp ==
    /\ close = "flushStopped"
    /\ compOn' = FALSE /\ close' = "done"
    /\ UNCHANGED <<cpc, left, writeCh, chClosed, batch, writerOn, mtFill, flushQ, flusher, flusherOn, l0, block, drop, panic>>

\* ---------------------------------------------------------------- DropAll / DropPrefix skeleton
DropBlock ==
    /\ WithDrop /\ drop = "no" /\ ~block
    /\ block' = TRUE /\ drop' = "blocked"
    /\ UNCHANGED <<cpc, left, writeCh, chClosed, batch, writerOn, mtFill, flushQ, flusher, flusherOn, l0, compOn, close, panic>>
\* blockWrite waits for doWrites to exit; prepareToDrop then writes whatever is still queued itself
DropDrain ==
    /\ drop = "blocked" /\ batch = <<>>
    /\ writerOn' = FALSE
    /\ batch' = writeCh /\ writeCh' = <<>>          \* prepareToDrop: writeRequests(reqs) inline
    /\ drop' = "drained"
    /\ UNCHANGED <<cpc, left, chClosed, mtFill, flushQ, flusher, flusherOn, l0, compOn, block, close, panic>>
DropStopFlush ==
    /\ drop = "drained" /\ batch = <<>> /\ flushQ = 0 /\ flusher = "idle"
    /\ flusherOn' = FALSE /\ drop' = "flushStopped"
    /\ UNCHANGED <<cpc, left, writeCh, chClosed, batch, writerOn, mtFill, flushQ, flusher, l0, compOn, block, close, panic>>
\* DropPrefix: db.View -> oracle.readTs waits for every stamped commit (a committer that has passed
\* newCommitTs is in state "checked" or "sent" until its request has been applied)
DropFilter ==
    /\ DropReads /\ drop = "flushStopped"
    /\ \A c \in Committers : cpc[c] \notin {"checked", "sent"}
    /\ drop' = "filtered"
    /\ UNCHANGED <<cpc, left, writeCh, chClosed, batch, writerOn, mtFill, flushQ, flusher, flusherOn, l0, compOn, block, close, panic>>
DropWork ==
    /\ drop = (IF DropReads THEN "filtered" ELSE "flushStopped")
    /\ compOn' = FALSE /\ l0' = 0 /\ mtFill' = 0 /\ drop' = "compStopped"
    /\ UNCHANGED <<cpc, left, writeCh, chClosed, batch, writerOn, flushQ, flusher, flusherOn, block, close, panic>>
DropResume ==
    /\ drop = "compStopped"
    /\ compOn' = TRUE /\ flusherOn' = TRUE /\ writerOn' = TRUE /\ block' = FALSE /\ drop' = "resumed"
    /\ UNCHANGED <<cpc, left, writeCh, chClosed, batch, mtFill, flushQ, flusher, l0, close, panic>>

Next ==
    \/ \E c \in Committers : Check(c) \/ Send(c) \/ Rejected(c)
    \/ WriterTake \/ WriterNil \/ EnsureRoom \/ Apply \/ FlushStart \/ FlushAdd \/ Compact
    \/ CloseBlock \/ CloseStopWriter \/ CloseChan \/ ClosePush \/ CloseStopFlush \/ CloseStopComp
    \/ DropBlock \/ DropDrain \/ DropStopFlush \/ DropFilter \/ DropWork \/ DropResume

Spec == Init /\ [][Next]_vars
\* every goroutine keeps running when it can (weak fairness per action)
Fairness ==
    /\ \A c \in Committers : WF_vars(Check(c)) /\ WF_vars(Send(c)) /\ WF_vars(Rejected(c))
    /\ WF_vars(WriterTake) /\ WF_vars(EnsureRoom) /\ WF_vars(Apply)
    /\ WF_vars(FlushStart) /\ WF_vars(FlushAdd) /\ WF_vars(Compact)
    /\ WF_vars(CloseStopWriter) /\ WF_vars(CloseChan) /\ WF_vars(ClosePush) /\ WF_vars(CloseStopFlush) /\ WF_vars(CloseStopComp)
    /\ WF_vars(DropDrain) /\ WF_vars(DropStopFlush) /\ WF_vars(DropFilter) /\ WF_vars(DropWork) /\ WF_vars(DropResume)
FairSpec == Spec /\ Fairness

-----------------------------------------------------------------------------
\* C38: every commit call returns; Close and the drop complete
CommitsReturn == \A c \in Committers : (cpc[c] \in {"checked", "sent", "rejected"}) ~> (cpc[c] = "idle")
CloseCompletes == (close = "blocked") ~> (close = "done")
DropCompletes == (drop = "blocked") ~> (drop = "resumed")
\* no goroutine crashes: no send on a closed channel, no nil request
NoPanic == panic = "none"
TypeOK == flushQ \in 0..FlushCap /\ l0 \in 0..L0Stall /\ mtFill \in 0..MemCap
=============================================================================
