------------------------------- MODULE FlowGen -------------------------------
(* Scenario generator for Flow: behaviours projected to the client-visible call starts  *)
(* (commit issued by c, DropAll issued, Close issued) in the order the specification     *)
(* takes them; the internal steps in between are recorded as counts so that the harness  *)
(* can see how far the pipeline had progressed (stalls, queue lengths) in the model.     *)
EXTENDS Flow, Json
CONSTANT HistLen
VARIABLE hist
gvars == <<vars, hist>>
Snap == [l0 |-> l0, flushQ |-> flushQ, mtFill |-> mtFill, queued |-> Len(writeCh) + Len(batch)]
GNext ==
    \/ /\ \E c \in Committers : Check(c) /\ Len(hist) < HistLen
                                /\ hist' = Append(hist, [op |-> "commit", c |-> c, blocked |-> block, at |-> Snap, during |-> "no"])
    \/ /\ DropBlock /\ Len(hist) < HistLen /\ hist' = Append(hist, [op |-> "dropAll", c |-> 0, blocked |-> FALSE, at |-> Snap, during |-> close])
    \/ /\ CloseBlock /\ Len(hist) < HistLen /\ hist' = Append(hist, [op |-> "close", c |-> 0, blocked |-> FALSE, at |-> Snap, during |-> drop])
    \/ /\ (\E c \in Committers : Send(c) \/ Rejected(c)) /\ UNCHANGED hist
    \/ /\ (WriterTake \/ WriterNil \/ EnsureRoom \/ Apply \/ FlushStart \/ FlushAdd \/ Compact) /\ UNCHANGED hist
    \/ /\ (CloseStopWriter \/ CloseChan \/ ClosePush \/ CloseStopFlush \/ CloseStopComp) /\ UNCHANGED hist
    \/ /\ (DropDrain \/ DropStopFlush \/ DropFilter \/ DropWork \/ DropResume) /\ UNCHANGED hist
GInit == Init /\ hist = <<>>
GenSpec == GInit /\ [][GNext]_gvars
\* a scenario is complete when every client has issued all its calls
AllIssued == /\ \A c \in Committers : left[c] = 0 \/ (close # "no")
             /\ (WithClose => close # "no") /\ (WithDrop => drop # "no")
Emit == (AllIssued /\ Len(hist) > 0 /\ \A c \in Committers : cpc[c] = "idle") => PrintT(<<"CASE", ToJson(hist)>>)
=============================================================================
