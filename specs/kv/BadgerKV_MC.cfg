SPECIFICATION Spec
CONSTANTS
  Keys = {1, 2}
  Txns = {1, 2, 3}
  MaxTs = 2
  MaxNow = 1
  Managed = FALSE
  UMs = {0}
  Exps = {0}
  Discs = {FALSE}
  IterDirs = {FALSE}
INVARIANTS TypeOK UniqueTs AtomicVisibility Serializable RejectedOnlyOnOverlap
PROPERTIES SnapshotStable TsMonotone
CONSTRAINT Bound
