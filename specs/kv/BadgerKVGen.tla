---------------------------- MODULE BadgerKVGen ----------------------------
(***************************************************************************)
(* Behaviour generator for BadgerKV: the contract's actions extended with  *)
(* a history variable that records every API call together with the        *)
(* observation the contract predicts, plus environment steps (flush,       *)
(* compactions, value-log GC, re-open) which the contract says are         *)
(* invisible.  Each complete history is printed once as a JSON "CASE".     *)
(***************************************************************************)
EXTENDS BadgerKV, Json

CONSTANTS HistLen,    \* number of steps per generated history
          EnvSteps,   \* set of environment step names offered to the generator
          MaxOps,     \* a transaction performs at most this many reads/writes, then must end
          MaxActive   \* at most this many transactions are open at once

VARIABLE hist
gvars == <<vars, hist>>

H(rec) == hist' = Append(hist, rec)
Room == Len(hist) < HistLen

NoActive == \A t \in Txns : txn[t].st # "active"

\* ---- shaping guards: they only restrict which histories are generated (so that commits,
\* conflicts and overlapping transactions are frequent); the contract is untouched.
OpsOf(t) == Cardinality({i \in 1..Len(hist) : hist[i].op \in {"get", "set", "del", "iter"} /\ hist[i].t = t})
CanOp(t) == OpsOf(t) < MaxOps
NumActive == Cardinality({t \in Txns : txn[t].st = "active"})
UpdOf(t) == t % 3 # 0                     \* two thirds of the transactions are read-write
UmOf == IF nval % 3 = 0 THEN 7 ELSE 0      \* attributes of a Set derive from the value counter
ExpOf == IF nval % 4 = 0 /\ 2 \in Exps THEN 2 ELSE 0
DiscOf == nval % 5 = 0 /\ TRUE \in Discs

GBegin(t, u) == Room /\ u = UpdOf(t) /\ NumActive < MaxActive /\ Begin(t, u) /\ H([op |-> "begin", t |-> t, upd |-> u, readTs |-> nextTs - 1])
GBeginAt(t, u, ts) == Room /\ u = UpdOf(t) /\ NumActive < MaxActive /\ BeginAt(t, u, ts) /\ H([op |-> "beginAt", t |-> t, upd |-> u, readTs |-> ts])
GGet(t, k) == Room /\ CanOp(t) /\ Get(t, k) /\ H([op |-> "get", t |-> t, k |-> k, res |-> GetResult(t, k)])
GSet(t, k, um, exp, d) == Room /\ CanOp(t) /\ um = UmOf /\ exp = ExpOf /\ d = DiscOf /\ Set(t, k, um, exp, d)
                          /\ H([op |-> "set", t |-> t, k |-> k, val |-> nval, um |-> um, exp |-> exp, disc |-> d])
GDelete(t, k) == Room /\ CanOp(t) /\ Delete(t, k) /\ H([op |-> "del", t |-> t, k |-> k])
GCommit(t) == Room /\ Commit(t)
              /\ H([op |-> "commit", t |-> t,
                    res |-> IF txn[t].haswr = {} THEN "empty" ELSE IF Conflict(t) THEN "conflict" ELSE "ok",
                    cts |-> IF txn[t].haswr = {} \/ Conflict(t) THEN 0 ELSE nextTs])
GCommitAt(t, ts) == Room /\ CommitAt(t, ts)
              /\ H([op |-> "commitAt", t |-> t,
                    res |-> IF txn[t].haswr = {} THEN "empty" ELSE IF Conflict(t) THEN "conflict" ELSE "ok",
                    cts |-> ts])
GDiscard(t) == Room /\ (~txn[t].upd \/ ~CanOp(t)) /\ Discard(t) /\ H([op |-> "discard", t |-> t])
GIterate(t, k, r) == Room /\ CanOp(t) /\ Iterate(t, k, r)
                     /\ H([op |-> "iter", t |-> t, from |-> k, rev |-> r, res |-> IterResult(t, k, r)])
GTick == Room /\ Tick /\ H([op |-> "tick", now |-> now + 1])
\* environment steps leave the contract state unchanged; re-open needs all transactions ended
GEnv(e) == /\ Room /\ e \in EnvSteps
           /\ (e = "reopen" => NoActive)
           /\ Len(hist) > 0 /\ hist[Len(hist)].op \in {"commit", "commitAt", "tick"}   \* after a commit or tick only
           /\ UNCHANGED vars
           /\ H([op |-> "env", what |-> e])

GenNext ==
    \/ \E t \in Txns, u \in BOOLEAN : GBegin(t, u)
    \/ \E t \in Txns, u \in BOOLEAN, ts \in 0..MaxTs : GBeginAt(t, u, ts)
    \/ \E t \in Txns, k \in Keys : GGet(t, k) \/ GDelete(t, k)
    \/ \E t \in Txns, k \in Keys, um \in UMs, exp \in Exps, d \in Discs : GSet(t, k, um, exp, d)
    \/ \E t \in Txns : GCommit(t) \/ GDiscard(t)
    \/ \E t \in Txns, ts \in 1..MaxTs : GCommitAt(t, ts)
    \/ \E t \in Txns, k \in Keys, r \in IterDirs : GIterate(t, k, r)
    \/ GTick
    \/ \E e \in EnvSteps : GEnv(e)

GenInit == Init /\ hist = <<>>
GenSpec == GenInit /\ [][GenNext]_gvars

\* printed once per complete history (exhaustive mode: hist is part of the state, so each
\* distinct history is one state; simulation mode: once per behaviour)
Emit == Len(hist) = HistLen => PrintT(<<"CASE", ToJson(hist)>>)
=============================================================================
