---------------------------- MODULE BadgerKVGen ----------------------------
(***************************************************************************)
(* Behaviour generator for BadgerKV: the contract's actions extended with  *)
(* a history variable that records every API call together with the        *)
(* observation the contract predicts, plus environment steps (flush,       *)
(* compactions, value-log GC, re-open in several modes) which the contract *)
(* says are invisible.  Each complete history is printed once as a JSON    *)
(* "CASE".                                                                 *)
(*                                                                         *)
(* The generator refines the contract with "compaction removes nothing":   *)
(* committed keeps every version and hw records the largest discard bound  *)
(* a compaction step has run with; observations that may legitimately      *)
(* differ after a compaction (AllVersions output below hw) carry hw so the *)
(* replayer accepts exactly the outcomes BadgerKV!Compact allows           *)
(* (BadgerKV!ReadStableAboveDiscard is model-checked on the contract).     *)
(***************************************************************************)
EXTENDS BadgerKV, Json, SequencesExt

CONSTANTS HistLen,    \* number of steps per generated history
          EnvSteps,   \* set of environment step names offered to the generator
          MaxOps,     \* a transaction performs at most this many reads/writes, then must end
          MaxActive,  \* at most this many transactions are open at once
          IterOptList,\* sequence of iterator option templates (<<>>: plain Seek(from) iterators)
          SeekKeys,   \* keys used as seek / get keys in addition to Keys written (subset of Keys)
          WriteKeys,  \* keys transactions write (subset of Keys)
          SplitIter,  \* BOOLEAN: also generate NewIterator ... (other steps) ... loop
          ScanVias,   \* subset of {"iter", "stream", "backup"}: whole-DB scans at the latest timestamp
          RejKinds,   \* subset of {"blocked", "closed"}: commits refused by the write path
          BigSets,    \* BOOLEAN: generate Sets refused with ErrTxnTooBig
          Dumps,      \* BOOLEAN: generate AllVersions dumps (always after a rejected commit)
          TickWeight, EnvWeight, WriteWeight  \* relative frequencies (duplicated successors)

VARIABLE hist
gvars == <<vars, hist>>

H(rec) == hist' = Append(hist, rec)
Room == Len(hist) < HistLen

NoActive == \A t \in Txns : txn[t].st # "active"

\* ---- shaping guards: they only restrict which histories are generated (so that commits,
\* conflicts and overlapping transactions are frequent); the contract is untouched.
OpsOf(t) == Cardinality({i \in 1..Len(hist) : hist[i].op \in {"get", "set", "del", "iter", "iterOpen", "setBig"} /\ hist[i].t = t})
CanOp(t) == OpsOf(t) < MaxOps
NumActive == Cardinality({t \in Txns : txn[t].st = "active"})
UpdOf(t) == t % 3 # 0                     \* two thirds of the transactions are read-write
UmOf == IF nval % 3 = 0 THEN Max(UMs) ELSE Min(UMs)      \* attributes of a Set derive from the value counter
ExpOf == LET es == Exps \ {0} IN
         IF es = {} \/ nval % 2 = 1 THEN (IF 0 \in Exps THEN 0 ELSE Min(Exps))
         ELSE IF nval % 4 = 0 THEN Min(es) ELSE Max(es)
DiscOf == nval % 5 = 0 /\ TRUE \in Discs
CbOf(t) == t % 2 = 0                      \* every other transaction commits through CommitWith
LastOp == IF Len(hist) = 0 THEN "none" ELSE hist[Len(hist)].op
LastRejected == /\ Len(hist) > 0
                /\ hist[Len(hist)].op \in {"commit", "commitAt"}
                /\ hist[Len(hist)].res \in {"conflict", "blocked", "closed"}
\* after a rejected commit the next step is a full dump (it must equal the pre-state)
Free == Room /\ ~(Dumps /\ LastRejected)
MaxReadTs == IF Managed THEN MaxTs + 1 ELSE nextTs - 1
ReopenEnv == {"reopen", "reopenRO", "reopenCompact"}
CompactingEnv == {"compactL0", "compactL0L0", "compactDown", "reopenCompact"}

OptAt(k) == [(IF IterOptList = <<>> THEN NoOpts
              ELSE IterOptList[((Len(hist) + nval) % Len(IterOptList)) + 1]) EXCEPT !.seek = k]

GBegin(t, u) == Free /\ ~Managed /\ txn[t].st = "idle" /\ u = UpdOf(t) /\ NumActive < MaxActive /\ Begin(t, u) /\ H([op |-> "begin", t |-> t, upd |-> u, readTs |-> nextTs - 1])
GBeginAt(t, u, ts) == Free /\ Managed /\ txn[t].st = "idle" /\ u = UpdOf(t) /\ NumActive < MaxActive /\ BeginAt(t, u, ts) /\ H([op |-> "beginAt", t |-> t, upd |-> u, readTs |-> ts])
GGet(t, k) == Free /\ Active(t) /\ k \in SeekKeys /\ k \notin Internal /\ CanOp(t) /\ Get(t, k) /\ H([op |-> "get", t |-> t, k |-> k, res |-> GetResult(t, k)])
GSet(t, k, um, exp, d) == Free /\ Active(t) /\ txn[t].upd /\ k \in WriteKeys /\ um = UmOf /\ exp = ExpOf /\ d = DiscOf /\ CanOp(t) /\ Set(t, k, um, exp, d)
                          /\ H([op |-> "set", t |-> t, k |-> k, val |-> nval, um |-> um, exp |-> exp, disc |-> d])
GDelete(t, k) == Free /\ Active(t) /\ txn[t].upd /\ k \in WriteKeys /\ CanOp(t) /\ Delete(t, k) /\ H([op |-> "del", t |-> t, k |-> k])
GSetBig(t, k) == Free /\ BigSets /\ Active(t) /\ txn[t].upd /\ k \in WriteKeys /\ k = Min(WriteKeys) /\ CanOp(t) /\ SetRejected(t, k) /\ H([op |-> "setBig", t |-> t, k |-> k])
CommitRes(t) == IF txn[t].haswr = {} THEN "empty" ELSE IF Conflict(t) THEN "conflict" ELSE "ok"
GCommit(t) == Free /\ ~Managed /\ Active(t) /\ Commit(t)
              /\ H([op |-> "commit", t |-> t, cb |-> CbOf(t), res |-> CommitRes(t),
                    cts |-> IF CommitRes(t) = "ok" THEN nextTs ELSE 0])
\* no second write of the same key at the same version (which copy wins is C12/C27's business)
NoDupVersion(t, ts) == ~\E c \in committed : c.ts = ts /\ c.k \in txn[t].haswr
GCommitAt(t, ts) == Free /\ Managed /\ Active(t) /\ NoDupVersion(t, ts) /\ CommitAt(t, ts)
              /\ H([op |-> "commitAt", t |-> t, cb |-> CbOf(t), res |-> CommitRes(t), cts |-> ts])
\* a commit refused by the write path; "closed" closes the DB first (and re-opens it
\* afterwards), so no other transaction may be open
GCommitRej(t, why) == Free /\ Active(t) /\ why \in RejKinds /\ (why = "closed" => NumActive = 1)
              /\ CommitRejected(t, why = "closed")
              /\ H([op |-> IF Managed THEN "commitAt" ELSE "commit", t |-> t, cb |-> CbOf(t), res |-> why,
                    cts |-> IF Managed THEN Max({discardTs, 1}) ELSE 0])
GDiscard(t) == Free /\ Active(t) /\ (~txn[t].upd \/ ~CanOp(t)) /\ Discard(t) /\ H([op |-> "discard", t |-> t])
IterRec(t, o, name) == [op |-> name, t |-> t, from |-> o.seek, rev |-> o.rev, o |-> o, hw |-> hw]
GIterate(t, k, r) == Free /\ IterOptList = <<>> /\ Active(t) /\ k # 0 /\ CanOp(t) /\ Iterate(t, k, r)
                     /\ H(IterRec(t, PlainOpts(k, r), "iter") @@ [res |-> IterResult(t, k, r)])
GIterateO(t, k) == Free /\ IterOptList # <<>> /\ Active(t) /\ WellFormed(OptAt(k)) /\ CanOp(t) /\ IterateO(t, OptAt(k))
                   /\ H(IterRec(t, OptAt(k), "iter") @@ [res |-> IterItems(t, OptAt(k), txn[t].writes, txn[t].haswr)])
GIterOpen(t, k) == Free /\ SplitIter /\ Active(t) /\ WellFormed(OptAt(k)) /\ CanOp(t) /\ IterOpen(t, OptAt(k)) /\ H(IterRec(t, OptAt(k), "iterOpen"))
GIterRun(t) == Free /\ Active(t) /\ IterRun(t) /\ H([op |-> "iterRun", t |-> t, hw |-> hw, o |-> txn[t].it.o, res |-> IterRunResult(t)])
GTick == Free /\ Tick /\ H([op |-> "tick", now |-> now + 1])
GSetDiscardTs(ts) == Free /\ SetDiscardTs(ts) /\ ts > discardTs /\ H([op |-> "setDiscardTs", ts |-> ts])
\* whole-DB scans by a fresh reader at the latest timestamp, through the plain iterator, the
\* Stream framework or Backup (+ Load into a scratch DB)
ScanStore == IterObs(committed, NoOpts, MaxReadTs, now)
GScan(v) == Free /\ v \in ScanVias /\ LastOp \in {"commit", "commitAt", "tick", "env"}
            /\ (v = "backup" => LastOp \in {"tick", "env"})     \* Backup + Load is the expensive path
            /\ UNCHANGED vars
            /\ H([op |-> "scan", via |-> v, res |-> ScanStore])
GDump == Room /\ Dumps /\ (LastRejected \/ LastOp \in {"env", "tick"}) /\ UNCHANGED vars
         /\ H([op |-> "dump", hw |-> hw, o |-> [NoOpts EXCEPT !.all = TRUE],
               res |-> IterObs(committed, [NoOpts EXCEPT !.all = TRUE], MaxTs + 1, now)])
\* environment steps leave the contract state unchanged (hw aside); re-open needs all
\* transactions ended
GEnv(e) == /\ Free /\ e \in EnvSteps
           /\ (e \in ReopenEnv => NoActive)
           \* after a commit, a tick or a discard-ts move; at most two environment steps in a row
           /\ Len(hist) > 0 /\ LastOp \in {"commit", "commitAt", "tick", "env", "setDiscardTs"}
           /\ (LastOp = "env" => (hist[Len(hist)].what # e /\ Len(hist) > 1 /\ hist[Len(hist) - 1].op # "env"))
           /\ hw' = IF e \in CompactingEnv /\ Bound > hw THEN Bound ELSE hw
           /\ clog' = IF e \in ReopenEnv THEN {} ELSE clog
           /\ discardTs' = IF e \in ReopenEnv THEN 0 ELSE discardTs
           /\ UNCHANGED <<committed, nextTs, txn, now, nval>>
           /\ H([op |-> "env", what |-> e])

\* the seek key of an option-list iterator derives from the history (one candidate per
\* transaction and step keeps simulation fast); 0 = Rewind
SeekSeq == <<0>> \o SetToSeq(SeekKeys)
SeekOf(t) == SeekSeq[((Len(hist) * 5 + nval * 3 + t) % Len(SeekSeq)) + 1]

GenNext ==
    \/ \E t \in Txns, u \in BOOLEAN : GBegin(t, u)
    \/ \E t \in Txns, u \in BOOLEAN, ts \in 0..MaxTs : GBeginAt(t, u, ts)
    \/ \E t \in Txns, k \in Keys : GGet(t, k)
    \/ \E t \in Txns, k \in Keys, w \in 1..WriteWeight : GDelete(t, k)
    \/ \E t \in Txns, k \in Keys, um \in UMs, exp \in Exps, d \in Discs, w \in 1..WriteWeight : GSet(t, k, um, exp, d)
    \/ \E t \in Txns, k \in Keys : GSetBig(t, k)
    \/ \E t \in Txns : GCommit(t) \/ GDiscard(t)
    \/ \E t \in Txns, ts \in 1..MaxTs : GCommitAt(t, ts)
    \/ \E t \in Txns, why \in RejKinds : GCommitRej(t, why)
    \/ \E t \in Txns, k \in Keys, r \in IterDirs : GIterate(t, k, r)
    \/ \E t \in Txns : GIterateO(t, SeekOf(t)) \/ GIterOpen(t, SeekOf(t))
    \/ \E t \in Txns : GIterRun(t)
    \/ \E w \in 1..TickWeight : GTick
    \/ \E ts \in 1..MaxTs : GSetDiscardTs(ts)
    \/ \E v \in ScanVias : GScan(v)
    \/ GDump
    \/ \E e \in EnvSteps, w \in 1..EnvWeight : GEnv(e)

GenInit == Init /\ hist = <<>>
GenSpec == GenInit /\ [][GenNext]_gvars

\* printed once per complete history (exhaustive mode: hist is part of the state, so each
\* distinct history is one state; simulation mode: once per behaviour)
Emit == Len(hist) = HistLen => PrintT(<<"CASE", ToJson(hist)>>)
=============================================================================
