---- MODULE BadgerKV_MC ----
EXTENDS BadgerKV
Bound == nval <= 3
====
