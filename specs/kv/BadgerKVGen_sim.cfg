SPECIFICATION GenSpec
CONSTANTS
  Keys = {1, 2, 3}
  Txns = {1, 2, 3, 4, 5, 6, 7, 8}
  MaxTs = 8
  MaxNow = 3
  Managed = FALSE
  UMs = {0, 7}
  Exps = {0, 2}
  Discs = {FALSE}
  IterDirs = {FALSE, TRUE}
  HistLen = 30
  MaxOps = 3
  MaxActive = 3
  EnvSteps = {"flush", "compactL0", "compactDown", "gc", "reopen", "compactL0L0"}
INVARIANTS Emit
