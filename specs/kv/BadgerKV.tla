------------------------------ MODULE BadgerKV ------------------------------
(***************************************************************************)
(* The user-visible contract of badger (non-managed and managed mode): a   *)
(* multi-version map with snapshot reads, SSI commits, expiry, per-txn     *)
(* pending writes and iterators.  Mechanism modules (Oracle, LSM, Disk)    *)
(* refine it; BadgerKVGen generates API histories with the observations    *)
(* this module predicts, which the Go harness replays against the real DB. *)
(*                                                                         *)
(* Code anchors: txn.go (Txn.Get/SetEntry/Delete/Commit, oracle.readTs,    *)
(* oracle.newCommitTs/hasConflict), iterator.go (Iterator, Item), db.go    *)
(* (DB.get).                                                               *)
(***************************************************************************)
EXTENDS Integers, Sequences, FiniteSets, TLC

CONSTANTS Keys,       \* finite set of naturals; key order = numeric order
          Txns,       \* finite set of transaction ids
          MaxTs,      \* bound on commit timestamps
          MaxNow,     \* bound on the abstract clock
          Managed,    \* BOOLEAN: managed mode (caller-chosen timestamps)
          UMs, Exps, Discs,  \* user-meta bytes, expiry times (0 = none), discard flags a Set may use
          IterDirs    \* subset of BOOLEAN: iterator directions explored (reverse?)

VARIABLES committed,  \* set of entries [k, ts, val, del, um, exp, disc]
          nextTs,     \* oracle.nextTxnTs
          txn,        \* per-transaction record
          now,        \* abstract clock (unix seconds in the code)
          nval        \* fresh value counter: every Set writes a distinct value

vars == <<committed, nextTs, txn, now, nval>>

None == [k |-> 0, ts |-> 0, val |-> 0, del |-> FALSE, um |-> 0, exp |-> 0, disc |-> FALSE]
Absent == [found |-> FALSE, val |-> 0, ts |-> 0, um |-> 0, exp |-> 0]

Max(S) == CHOOSE x \in S : \A y \in S : y <= x

Dead(e, t) == e.del \/ (e.exp # 0 /\ e.exp <= t)

\* newest committed entry of k at or below ts (if any)
Cands(S, k, ts) == {e \in S : e.k = k /\ e.ts <= ts}
Top(S, k, ts) == CHOOSE e \in Cands(S, k, ts) : \A f \in Cands(S, k, ts) : f.ts <= e.ts
Obs(e) == [found |-> TRUE, val |-> e.val, ts |-> e.ts, um |-> e.um, exp |-> e.exp]
ReadAt(S, k, ts, t) ==
    IF Cands(S, k, ts) = {} THEN Absent
    ELSE LET e == Top(S, k, ts) IN IF Dead(e, t) THEN Absent ELSE Obs(e)

IdleTxn == [st |-> "idle", upd |-> FALSE, readTs |-> 0, reads |-> {}, writes |-> [k \in Keys |-> None],
            haswr |-> {}, cts |-> 0, obs |-> {}]

TypeOK ==
    /\ nextTs \in 1..(MaxTs + 1)
    /\ now \in 0..MaxNow
    /\ \A t \in Txns : txn[t].st \in {"idle", "active", "committed", "conflict", "discarded"}

Init ==
    /\ committed = {}
    /\ nextTs = 1
    /\ txn = [t \in Txns |-> IdleTxn]
    /\ now = 1
    /\ nval = 1

Active(t) == txn[t].st = "active"

\* ---- transaction start: oracle.readTs (normal) / NewTransactionAt (managed)
InOrder(t) == \A u \in Txns : u < t => txn[u].st # "idle"

Begin(t, upd) ==
    /\ ~Managed
    /\ txn[t].st = "idle" /\ InOrder(t)
    /\ txn' = [txn EXCEPT ![t] = [IdleTxn EXCEPT !.st = "active", !.upd = upd, !.readTs = nextTs - 1]]
    /\ UNCHANGED <<committed, nextTs, now, nval>>

BeginAt(t, upd, ts) ==
    /\ Managed
    /\ txn[t].st = "idle" /\ InOrder(t)
    /\ txn' = [txn EXCEPT ![t] = [IdleTxn EXCEPT !.st = "active", !.upd = upd, !.readTs = ts]]
    /\ UNCHANGED <<committed, nextTs, now, nval>>

\* what Txn.Get returns
GetResult(t, k) ==
    IF txn[t].upd /\ k \in txn[t].haswr
    THEN LET e == txn[t].writes[k] IN
         IF Dead(e, now) THEN Absent
         ELSE [found |-> TRUE, val |-> e.val, ts |-> txn[t].readTs, um |-> e.um, exp |-> e.exp]
    ELSE ReadAt(committed, k, txn[t].readTs, now)

Get(t, k) ==
    /\ Active(t)
    /\ txn' = [txn EXCEPT ![t].reads = IF txn[t].upd /\ k \notin txn[t].haswr THEN @ \cup {k} ELSE @,
                          ![t].obs = IF txn[t].upd /\ k \notin txn[t].haswr
                                     THEN @ \cup {[k |-> k, res |-> GetResult(t, k)]} ELSE @]
    /\ UNCHANGED <<committed, nextTs, now, nval>>

\* Txn.SetEntry: ttl = 0 means no expiry, otherwise the entry expires at now + ttl
\* (ttl may be negative in the generator to create already-expired entries)
Set(t, k, um, exp, disc) ==
    /\ Active(t) /\ txn[t].upd
    /\ txn' = [txn EXCEPT ![t].writes[k] = [k |-> k, ts |-> 0, val |-> nval, del |-> FALSE, um |-> um,
                                             exp |-> exp, disc |-> disc],
                          ![t].haswr = @ \cup {k}]
    /\ nval' = nval + 1
    /\ UNCHANGED <<committed, nextTs, now>>

Delete(t, k) ==
    /\ Active(t) /\ txn[t].upd
    /\ txn' = [txn EXCEPT ![t].writes[k] = [None EXCEPT !.k = k, !.del = TRUE],
                          ![t].haswr = @ \cup {k}]
    /\ UNCHANGED <<committed, nextTs, now, nval>>

\* oracle.hasConflict: some key read by t was written by a commit after t's read ts
Conflict(t) == \E c \in committed : c.ts > txn[t].readTs /\ c.k \in txn[t].reads

WritesAt(t, ts) == {[txn[t].writes[k] EXCEPT !.ts = ts] : k \in txn[t].haswr}

\* Txn.Commit in normal mode.  A transaction without writes just ends.
Commit(t) ==
    /\ ~Managed
    /\ Active(t)
    /\ IF txn[t].haswr = {}
       THEN /\ txn' = [txn EXCEPT ![t].st = "discarded"]
            /\ UNCHANGED <<committed, nextTs>>
       ELSE IF Conflict(t)
       THEN /\ txn' = [txn EXCEPT ![t].st = "conflict"]
            /\ UNCHANGED <<committed, nextTs>>
       ELSE /\ nextTs <= MaxTs
            /\ committed' = committed \cup WritesAt(t, nextTs)
            /\ nextTs' = nextTs + 1
            /\ txn' = [txn EXCEPT ![t].st = "committed", ![t].cts = nextTs]
    /\ UNCHANGED <<now, nval>>

\* Txn.CommitAt in managed mode: the caller picks the timestamp; conflict detection is
\* still performed against the commits recorded so far.
CommitAt(t, ts) ==
    /\ Managed
    /\ Active(t)
    /\ IF txn[t].haswr = {}
       THEN /\ txn' = [txn EXCEPT ![t].st = "discarded"]
            /\ UNCHANGED committed
       ELSE IF Conflict(t)
       THEN /\ txn' = [txn EXCEPT ![t].st = "conflict"]
            /\ UNCHANGED committed
       ELSE /\ committed' = {c \in committed : ~\E w \in WritesAt(t, ts) : w.k = c.k /\ w.ts = c.ts}
                                \cup WritesAt(t, ts)
            /\ txn' = [txn EXCEPT ![t].st = "committed", ![t].cts = ts]
    /\ UNCHANGED <<nextTs, now, nval>>

Discard(t) ==
    /\ Active(t)
    /\ txn' = [txn EXCEPT ![t].st = "discarded"]
    /\ UNCHANGED <<committed, nextTs, now, nval>>

Tick ==
    /\ now < MaxNow
    /\ now' = now + 1
    /\ UNCHANGED <<committed, nextTs, txn, nval>>

\* ---- iteration (Iterator with default options over the whole key space, or AllVersions)
\* visible item of key k for transaction t, own writes layered over the snapshot
ItemOf(t, k) == GetResult(t, k)

RECURSIVE SeqOfKeys(_, _)
SeqOfKeys(S, rev) ==
    IF S = {} THEN <<>>
    ELSE LET m == IF rev THEN Max(S) ELSE CHOOSE x \in S : \A y \in S : x <= y
         IN <<m>> \o SeqOfKeys(S \ {m}, rev)

\* keys an iterator yields: from seek key on, in direction rev
IterKeys(t, from, rev) ==
    LET ks == {k \in Keys : (IF rev THEN k <= from ELSE k >= from) /\ ItemOf(t, k).found}
    IN SeqOfKeys(ks, rev)

IterResult(t, from, rev) ==
    LET ks == IterKeys(t, from, rev)
    IN [i \in 1..Len(ks) |-> [k |-> ks[i], res |-> ItemOf(t, ks[i])]]

\* Iterate = Seek(from) then Item()/Next() until exhausted.  In an update transaction the
\* seek key and every yielded key are recorded as read (Iterator.Seek, Iterator.Item).
Iterate(t, from, rev) ==
    /\ Active(t)
    /\ txn' = [txn EXCEPT ![t].reads = IF txn[t].upd
                                       THEN @ \cup {from} \cup {IterKeys(t, from, rev)[i] : i \in 1..Len(IterKeys(t, from, rev))}
                                       ELSE @,
                          ![t].obs = IF txn[t].upd
                                     THEN @ \cup {[k |-> k, res |-> ReadAt(committed, k, txn[t].readTs, now)] :
                                                    k \in ({from} \cup {IterKeys(t, from, rev)[i] : i \in 1..Len(IterKeys(t, from, rev))}) \ txn[t].haswr}
                                     ELSE @]
    /\ UNCHANGED <<committed, nextTs, now, nval>>

Next ==
    \/ \E t \in Txns, u \in BOOLEAN : Begin(t, u)
    \/ \E t \in Txns, u \in BOOLEAN, ts \in 0..MaxTs : BeginAt(t, u, ts)
    \/ \E t \in Txns, k \in Keys : Get(t, k) \/ Delete(t, k)
    \/ \E t \in Txns, k \in Keys, um \in UMs, exp \in Exps, d \in Discs : Set(t, k, um, exp, d)
    \/ \E t \in Txns : Commit(t) \/ Discard(t)
    \/ \E t \in Txns, ts \in 1..MaxTs : CommitAt(t, ts)
    \/ \E t \in Txns, k \in Keys, r \in IterDirs : Iterate(t, k, r)
    \/ Tick

Spec == Init /\ [][Next]_vars

-----------------------------------------------------------------------------
(* Properties *)

\* C03: successful commits get distinct, increasing timestamps
UniqueTs == \A a, b \in Txns :
    (a # b /\ txn[a].st = "committed" /\ txn[b].st = "committed" /\ ~Managed) => txn[a].cts # txn[b].cts

\* C03: all-or-nothing: every committed transaction's writes are all present, none of a
\* rejected one
AtomicVisibility ==
    /\ \A t \in Txns : txn[t].st = "committed" /\ ~Managed => WritesAt(t, txn[t].cts) \subseteq committed
    /\ \A c \in committed : \E t \in Txns : txn[t].st = "committed" /\ txn[t].cts = c.ts /\ c.k \in txn[t].haswr

\* C02: commit-timestamp order is a serial order: every read a committed update
\* transaction made from the snapshot returns the same answer when re-executed just
\* before its commit timestamp (expiry aside: the clock is part of the read).
Serializable ==
    \A t \in Txns : (txn[t].st = "committed" /\ ~Managed) =>
        \A o \in txn[t].obs :
            Cands(committed, o.k, txn[t].cts - 1) = Cands(committed, o.k, txn[t].readTs)

\* C02 (other direction): a transaction is rejected only if there is a real overlap
RejectedOnlyOnOverlap ==
    \A t \in Txns : txn[t].st = "conflict" =>
        \E c \in committed : c.ts > txn[t].readTs /\ c.k \in txn[t].reads

\* C01: a snapshot never changes under commits by others (action property)
SnapshotStable ==
    [][\A t \in Txns : (txn[t].st = "active" /\ txn'[t].st = "active") =>
          \A k \in Keys : Cands(committed', k, txn[t].readTs) = Cands(committed, k, txn[t].readTs)
          \/ Managed]_vars

\* C03: commit timestamps never decrease
TsMonotone == [][nextTs' >= nextTs]_vars
=============================================================================
